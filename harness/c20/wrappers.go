package main

// do-approve with a simulated device (the suite's own testdata/simulate-cisco.pl) and malformed device
// configuration, Netspoc code, IPv6 code and raw file; missing-approve with malformed code, raw and
// compressed files of the approved policy.

import (
	"fmt"
	"strings"
)

const simConf = "basedir = .\ncheckbanner = NetSPoC\nsystemuser = admin\ntimeout = 10\n"

func simScenario(typ, dev string) string {
	switch typ {
	case "ASA":
		return "Are you sure you want to continue connecting (yes/no)?<!>\n" +
			"** managed by NetSPoC **\nnetspoc@10.1.2.3's password: <!>\nType help or '?' for a list of available commands.\nrouter>\n" +
			"# enable\nPassword: <!>\n# sh pager\npager lines 24\n\n# sh term\n\nWidth = 80, no monitor\nterminal interactive\n# show hostname\nrouter\n" +
			"# sh ver\nCisco Adaptive Security Appliance Software Version 9.4(4)5\nHardware:   ASA5550, 4096 MB RAM, CPU Pentium 4 3000 MHz\n\n" +
			"# write term\n" + dev
	case "IOS":
		return "Enter Password:<!>\nbanner motd  managed by NetSPoC\nrouter>\n" +
			"# sh ver\nCisco IOS Software, C2900 Software (C2900-UNIVERSALK9-M), Version 15.1(4)M4,\n" +
			"# sh run\n" + dev
	case "Linux":
		routes, ipt, _ := strings.Cut(dev, "\x00")
		return "The authenticity of host 'router (10.1.1.1)' can't be established.\nECDSA key fingerprint is ee:6e:ee:00:33:aa:22:88:44:66:44:33:aa:77:42:f5.\n" +
			"Are you sure you want to continue connecting (yes/no)? <!>\nroot@linux-router:~#\n# echo $?\n0\n# uname -r\n3.2.89-2.custom\n# uname -m\ni686\n# hostname -s\nrouter\n" +
			"# grep 'NetSPoC' /etc/issue\n--- managed by NetSPoC ---\n# which iptables-restore\n/sbin/iptables-restore\n" +
			"# ip route show\n" + routes + "# iptables-save\n" + ipt
	}
	return ""
}

// malformed texts per type (no line starts with '#': that is the section mark of the scenario file)
var simMalformed = map[string][]string{
	"ASA": {
		"foo bar\n sub x\n",
		"access-list X extended permit ip host\naccess-group X global\n",
		"interface E0\n  !x\n nameif inside\n",
		"interface E0\n \n nameif inside\n",
		"ldap attribute-map M\n map-name memberOf Group-Policy\n map-value memberOf \"CN=a b\n",
		"{\"groups\":[null]}",
		"\x00\x01\x02\xff\xfe",
		"route inside\nroute outside\n",
		"access-group X global\n",
		"access-list X extended permit ip any4 any4",
	},
	"IOS": {
		"foo bar\n sub x\n",
		"ip access-list extended A\n permit ip host\ninterface E0\n ip access-group A in\n",
		"interface E0\n   shutdown\n shutdown\n",
		"interface E0\n \t \n shutdown\n",
		"<config></config>",
		"\x00\x01\x02\xff\xfe",
		"ip route 10.0.0.0\nip route vrf\n",
		"interface E0\n ip access-group A in\n",
		"crypto map VPN 1 ipsec-isakmp\ninterface E0\n crypto map VPN\n",
	},
	"Linux": {
		"foo bar\n",
		"*filter\n:INPUT DROP\n-A\n",
		"*filter\n:INPUT DROP\n-A INPUT -s 10.1.1.1 !\n",
		"-A INPUT -j ACCEPT\n",
		"ip route add 10.1.1.0/24 via\n",
		"{\"groups\":[null]}",
		"\x00\x01\x02\xff\xfe",
		"*filter\n*filter\n:INPUT DROP\n:INPUT DROP\n",
		"*filter\n:INPUT DROP\n-A INPUT -j c1\nCOMMIT\n",
	},
}

func simCases(emit func(*c20Case)) {
	for _, typ := range []string{"ASA", "IOS", "Linux"} {
		for mi, text := range simMalformed[typ] {
			for _, slot := range []string{"device", "code", "ipv6", "raw"} {
				for _, action := range []string{"compare", "approve"} {
					if action == "approve" && (mi+len(slot))%4 != 0 {
						continue
					}
					dev := ""
					if typ == "Linux" {
						dev = "\x00"
					}
					files := map[string]string{
						".netspoc-approve":             simConf,
						"credentials":                  "* admin secret\n",
						"policies/p1/code/router":      "",
						"policies/p1/code/router.info": infoJSON(typ),
					}
					switch slot {
					case "device":
						dev = text
						if typ == "Linux" {
							// the text is the answer to both show commands in turn
							if mi%2 == 0 {
								dev = text + "\x00"
							} else {
								dev = "\x00" + text
							}
						}
						if !strings.HasSuffix(dev, "\n") {
							dev += "\n"
						}
					case "code":
						files["policies/p1/code/router"] = text
					case "ipv6":
						files["policies/p1/code/ipv6/router"] = text
					case "raw":
						files["policies/p1/code/router.raw"] = text
					}
					files["scenario"] = simScenario(typ, dev)
					emit(&c20Case{Prog: "do-approve", Args: []string{action, "router"}, Files: files,
						Links: map[string]string{"policies/current": "p1"}, Dirs: []string{"lock", "status", "history", "policies/p1/log"},
						Env:  map[string]string{"SIMULATE_ROUTER": "$REPO/go/testdata/simulate-cisco.pl router $DIR/scenario", "TEST_TIME": "2024-Sep-29 16:19:50"},
						Type: typ, Test: "do-approve with simulated " + typ, Mut: fmt.Sprintf("%s, malformed#%d in %s", action, mi, slot), Class: "do-approve-sim"})
				}
			}
		}
	}
}

// missingApproveCases: the approved policy p0 differs from the current one, so that the code, raw and
// .bz2 files of both are read.
func missingApproveCases(emit func(*c20Case)) {
	conf := "basedir = .\ncheckbanner = NetSPoC\nsystemuser = admin\ntimeout = 1\n"
	st := `{"approve":{"result":"OK","policy":"p0","time":5}}`
	type v struct {
		name  string
		files map[string]string
		dirs  []string
		links map[string]string
	}
	g := "\x00\x01\x02\xff\xfe"
	for _, x := range []v{
		{"garbage code in both", map[string]string{"policies/p0/code/router": g, "policies/p1/code/router": g}, nil, nil},
		{"garbage code in approved", map[string]string{"policies/p0/code/router": g, "policies/p1/code/router": "x\n"}, nil, nil},
		{"garbage raw", map[string]string{"policies/p0/code/router": "x\n", "policies/p1/code/router": "x\n", "policies/p0/code/router.raw": g, "policies/p1/code/router.raw": g + "x"}, nil, nil},
		{"garbage bz2", map[string]string{"policies/p0/code/router.bz2": g, "policies/p1/code/router": "x\n"}, nil, nil},
		{"bz2 header only", map[string]string{"policies/p0/code/router.bz2": "BZh9", "policies/p1/code/router": "x\n"}, nil, nil},
		{"bz2 truncated block", map[string]string{"policies/p0/code/router.bz2": "BZh91AY&SY\x00\x00\x00\x00\x00\x00", "policies/p1/code/router": "x\n"}, nil, nil},
		{"empty bz2", map[string]string{"policies/p0/code/router.bz2": "", "policies/p1/code/router": ""}, nil, nil},
		{"code is a directory in approved", map[string]string{"policies/p1/code/router": "x\n"}, []string{"policies/p0/code/router"}, nil},
		{"code is a directory in current", map[string]string{"policies/p0/code/router": "x\n"}, []string{"policies/p1/code/router/sub"}, nil},
		{"ipv6 only", map[string]string{"policies/p0/code/ipv6/router": g, "policies/p1/code/ipv6/router": g}, nil, nil},
		{"ipv6 and ipv4 directory", map[string]string{"policies/p0/code/ipv4/router": "a", "policies/p1/code/ipv4/router": "b", "policies/p1/code/ipv6/router": g}, nil, nil},
		{"dangling link as code", map[string]string{"policies/p0/code/router": "x\n"}, nil, map[string]string{"policies/p1/code/router": "nowhere"}},
		{"link loop as code", map[string]string{"policies/p0/code/router": "x\n"}, nil, map[string]string{"policies/p1/code/router": "router"}},
		{"approved policy is a file", map[string]string{"policies/p0": "x", "policies/p1/code/router": "x\n"}, nil, nil},
		{"device name with blanks and newline", map[string]string{"policies/p0/code/a b\nc": "x", "policies/p1/code/a b\nc": "y", "status/a b\nc": st}, nil, nil},
		{"status is a directory", map[string]string{"policies/p1/code/router": "x\n"}, []string{"status/router"}, nil},
		{"no code directory", map[string]string{"policies/p1/x": "x\n"}, nil, nil},
		{"code is a file", map[string]string{"policies/p1/code": "x\n"}, nil, nil},
		{"current is a file", map[string]string{"policies/current": "x\n"}, nil, nil},
		{"1 MB of garbage code", map[string]string{"policies/p0/code/router": strings.Repeat(g, 200000), "policies/p1/code/router": strings.Repeat(g, 200000) + "x"}, nil, nil},
	} {
		files := map[string]string{".netspoc-approve": conf, "status/router": st}
		for k, val := range x.files {
			files[k] = val
		}
		links := map[string]string{"policies/current": "p1"}
		for k, val := range x.links {
			links[k] = val
		}
		if _, isFile := files["policies/current"]; isFile {
			delete(links, "policies/current")
		}
		dirs := append([]string{"status"}, x.dirs...)
		for _, d := range x.dirs {
			if d == "status/router" {
				delete(files, "status/router")
			}
		}
		emit(&c20Case{Prog: "missing-approve", Args: nil, Files: files, Links: links, Dirs: dirs,
			Type: "wrapper", Test: "missing-approve", Mut: x.name, Class: "missing-approve"})
	}
}
