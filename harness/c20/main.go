package main

// C20 — malformed input ends in a diagnostic, never in a crash.
//
// Oracle (specification side, independent of the Lean model): the property's own finite family
// (family.go) is run on the REAL drc.Main / doapprove.Main in-process in worker processes and on
// the real missing-approve binary: a Go panic, a dead worker, an exit status outside {0,1}, a
// rejection without any message, a rejection whose message does not name the offending input
// (naming.go), or a hang (per-case timeout) is a failure.
// Tie (corr.go): the Lean models of the token-cursor functions are compared with the real
// functions (verif-tagged exports) on enumerated and random token lists: result or panic must agree.

import (
	"encoding/json"
	"fmt"
	"hash/fnv"
	"os"
	"os/exec"
	"path/filepath"
	"runtime"
	"sort"
	"strings"
	"time"
	. "verifharness/vhlib"
)

func main() {
	if os.Getenv("C20_WORKER") != "" {
		workerLoop()
		return
	}
	Main(map[string]PropFunc{"C20": runC20})
}

// envTrouble: the outcome shows a fault of the test environment (pseudo terminals exhausted, login of the
// simulated device timed out under load), not of the input.
func envTrouble(o c20Outcome) bool {
	t := o.Stderr + o.Details
	for _, p := range []string{"/dev/ptmx", "while waiting for login prompt", "while waiting for prompt", "fork/exec", "resource temporarily unavailable", "too many open files"} {
		if strings.Contains(t, p) {
			return true
		}
	}
	return false
}

// judge applies the oracle to one outcome; returns the failure signature or nil.
// Panic signatures: pred = panic:<innermost function of the module on the stack>, kind = runtime fault class
// (from the panic VALUE: runtime.Error) or "explicit" (a panic statement), msg = fixed head of the message,
// plus attributes computed from the INPUT alone (info_bad, unclosed_quote) that the known entries pin.
func judge(c *c20Case, o c20Outcome) (map[string]any, string) {
	switch {
	case o.Hang:
		return map[string]any{"pred": "hang", "prog": c.Prog}, "no termination within the per-case timeout"
	case o.Died != "":
		return map[string]any{"pred": "died:" + o.Where, "kind": o.Kind, "msg": o.Msg, "prog": c.Prog}, "worker process died: " + trunc(o.Died, 300)
	case o.Panic != "":
		return map[string]any{"pred": "panic:" + o.Where, "kind": o.Kind, "msg": o.Msg, "prog": c.Prog,
				"info_bad": infoBad(c), "unclosed_quote": unclosedQuote(c)},
			"Go panic instead of a diagnostic: " + trunc(o.Panic, 200)
	case o.Status != 0 && o.Status != 1:
		return map[string]any{"pred": "exit-status", "prog": c.Prog}, fmt.Sprintf("exit status %d", o.Status)
	case o.Status == 1 && strings.TrimSpace(o.Stderr) == "" && strings.TrimSpace(o.Stdout) == "":
		return map[string]any{"pred": "silent-reject", "prog": c.Prog}, "exit status 1 without any message"
	case o.Status == 1 && !envTrouble(o):
		text := o.Stderr + "\n" + o.Details
		if strings.TrimSpace(o.Stderr) == "" {
			text = o.Stdout
		}
		if namesInput(c, text) == "" {
			return map[string]any{"pred": "reject-without-naming-input", "prog": c.Prog, "type": c.Type, "device_answer": len(c.HTTP) > 0, "msg": msgHead(strings.TrimPrefix(strings.TrimPrefix(strings.TrimSpace(errorPart(text)), "ERROR>>> "), "Error: "))},
				"rejected (exit status 1), but the message names neither the file nor a line, command or object of the input: " + trunc(strings.TrimSpace(text), 300)
		}
	}
	return nil, ""
}

func hash64(s string) uint64 {
	h := fnv.New64a()
	h.Write([]byte(s))
	return h.Sum64()
}

// corpus: the inputs found during design (DESIGN.md section 7), always run first.
func corpusCases() []*c20Case {
	mk := func(typ, name, dev string, code map[string]string) *c20Case {
		f := map[string]string{"device": dev, "code/router.info": infoJSON(typ)}
		for k, v := range code {
			f[k] = v
		}
		return &c20Case{Prog: "drc", Args: []string{"-q", "device", "code/router"}, Files: f, Type: typ, Test: "corpus:" + name, Mut: "corpus", Class: "corpus"}
	}
	nsxGroup := func(id, ips string) string {
		return `{"id":"` + id + `","expression":[{"id":"id","resource_type":"IPAddressExpression","ip_addresses":[` + ips + `]}]}`
	}
	nsxRule := func(id, src string) string {
		return `{"resource_type":"Rule","id":"` + id + `","scope":["/infra/tier-0s/v1"],"direction":"OUT","ip_protocol":"IPV4","sequence_number":20,"action":"ALLOW","source_groups":["` + src + `"],"destination_groups":["10.1.2.30"],"services":["ANY"]}`
	}
	nsxConf := func(groups, rules string) string {
		return `{"groups":[` + groups + `],"policies":[{"id":"Netspoc-v1","rules":[` + rules + `]}],"services":[]}`
	}
	g := "/infra/domains/default/groups/"
	return []*c20Case{
		mk("ASA", "acl permit ip host", "", map[string]string{"code/router": "access-list X extended permit ip host\n"}),
		mk("ASA", "acl permit object-group", "", map[string]string{"code/router": "access-list X extended permit object-group\n"}),
		mk("ASA", "acl permit", "", map[string]string{"code/router": "access-list X extended permit\n"}),
		mk("ASA", "bad indentation, empty prev.sub", "", map[string]string{"code/router": "interface E0\n  !x\n nameif inside\n"}),
		mk("ASA", "bad indentation, ignored first sub", "", map[string]string{"code/router": "group-policy G attributes\n  webvpn\n vpn-filter value X\n"}),
		mk("ASA", "aaa-server N host", "", map[string]string{"code/router": "aaa-server N protocol ldap\naaa-server N host\n"}),
		mk("ASA", "aaa-server double space", "", map[string]string{"code/router": "aaa-server N protocol ldap\naaa-server N  host\n"}),
		mk("ASA", "two short routes", "", map[string]string{"code/router": "route inside\nroute outside\n"}),
		mk("ASA", "two ipv6 routes without prefix", "", map[string]string{"code/router": "ipv6 route inside a b\nipv6 route inside c d\n"}),
		mk("IOS", "ip route vrf", "", map[string]string{"code/router": "ip route vrf\n"}),
		mk("IOS", "two short ip routes", "", map[string]string{"code/router": "ip route 10.0.0.0\nip route 10.0.0.1\n"}),
		mk("PAN-OS", "raw <config></config>", "", map[string]string{"code/router": "", "code/router.raw": "<config></config>"}),
		mk("NSX", "group with empty ip_addresses", nsxConf(nsxGroup("Netspoc-g1", ""), nsxRule("r1", g+"Netspoc-g1")+","+nsxRule("r2", g+"Netspoc-g1")),
			map[string]string{"code/router": nsxConf(nsxGroup("Netspoc-g1", ""), nsxRule("r1", g+"Netspoc-g1")+","+nsxRule("r2", g+"Netspoc-g1"))}),
		mk("NSX", "target rule names device-only group", nsxConf(nsxGroup("Netspoc-g1", `"10.1.1.1"`), nsxRule("r1", g+"Netspoc-g1")),
			map[string]string{"code/router": nsxConf("", nsxRule("r1", g+"Netspoc-g1"))}),
		mk("IOS", "garbage info file", "", map[string]string{"code/router": "", "code/router.info": "NO_JSON\n"}),
		mk("IOS", "garbage info file, opening brace", "", map[string]string{"code/router": "", "code/router.info": "{garbage"}),
		mk("IOS", "info file null", "", map[string]string{"code/router": "", "code/router.info": "null"}),
		func() *c20Case {
			c := mk("IOS", "info file is a directory", "", map[string]string{"code/router": ""})
			delete(c.Files, "code/router.info")
			c.Dirs = []string{"code/router.info"}
			return c
		}(),
		func() *c20Case {
			c := mk("IOS", "info file is a link to itself", "", map[string]string{"code/router": ""})
			delete(c.Files, "code/router.info")
			c.Links = map[string]string{"code/router.info": "router.info"}
			return c
		}(),
		func() *c20Case {
			c := mk("IOS", "info file is a dangling link, IPv6 info file is garbage", "", map[string]string{"code/router": "", "code/ipv6/router.info": "{garbage"})
			delete(c.Files, "code/router.info")
			c.Links = map[string]string{"code/router.info": "nowhere"}
			return c
		}(),
		mk("PAN-OS", "empty <devices> plus raw vsys", "", map[string]string{"code/router": "<config><devices></devices></config>",
			"code/router.raw": `<config><devices><entry name="x"><vsys><entry name="vsys1"></entry></vsys></entry></devices></config>`}),
		mk("PAN-OS", "cyclic address-groups", "", map[string]string{"code/router": `<config><devices><entry name="d"><vsys><entry name="vsys1"><rulebase><security><rules><entry name="r1"><action>allow</action><from><member>any</member></from><to><member>any</member></to><source><member>g0</member></source><destination><member>any</member></destination><service><member>any</member></service><application><member>any</member></application></entry></rules></security></rulebase><address-group><entry name="g0"><static><member>g1</member></static></entry><entry name="g1"><static><member>g0</member></static></entry></address-group></entry></vsys></entry></devices></config>`}),
		mk("Linux", "raw rule into empty chain", "", map[string]string{"code/router": "*filter\n:OUTPUT ACCEPT\nCOMMIT\n", "code/router.raw": "*filter\n:OUTPUT ACCEPT\n-A OUTPUT -j ACCEPT\nCOMMIT\n"}),
		mk("Linux", "raw [APPEND] rule into empty chain", "", map[string]string{"code/router": "*filter\n:OUTPUT ACCEPT\nCOMMIT\n", "code/router.raw": "*filter\n:OUTPUT ACCEPT\n[APPEND]\n-A OUTPUT -j ACCEPT\nCOMMIT\n"}),
		mk("Linux", "raw rule into chain of DROP rules", "", map[string]string{"code/router": "*filter\n:INPUT DROP\n-A INPUT -s 10.1.1.1 -j DROP\n-A INPUT -j DROP\nCOMMIT\n", "code/router.raw": "*filter\n:INPUT DROP\n[APPEND]\n-A INPUT -j ACCEPT\nCOMMIT\n"}),
		mk("Linux", "ipv6 rule into empty chain", "", map[string]string{"code/router": "*filter\n:OUTPUT ACCEPT\nCOMMIT\n", "code/ipv6/router": "*filter\n:OUTPUT ACCEPT\n-A OUTPUT -j DROP\nCOMMIT\n"}),
		mk("Linux", "ipv6 rule into chain of DROP rules", "", map[string]string{"code/router": "*filter\n:INPUT DROP\n-A INPUT -j DROP\nCOMMIT\n", "code/ipv6/router": "*filter\n:INPUT DROP\n-A INPUT -j DROP\nCOMMIT\n"}),
		mk("IOS", "crypto map in raw file (F-C20s)", "", map[string]string{"code/router": "crypto map VPN 1 ipsec-isakmp\n set peer 1.1.1.1\ninterface E0\n crypto map VPN\n",
			"code/router.raw": "crypto map VPN 1 ipsec-isakmp\n set peer 1.1.1.1\ninterface E0\n crypto map VPN\n"}),
		mk("ASA", "12 transform-sets (F-C20t)", "", map[string]string{"code/router": "crypto ipsec ikev1 transform-set a esp-aes\ncrypto map M 1 set ikev1 transform-set a a a a a a a a a a a a\ncrypto map M 1 set peer 1.1.1.1\ncrypto map M interface outside\ninterface E0\n nameif outside\n"}),
		mk("IOS", "object-group in IOS ACL (F-C20u)", "", map[string]string{"code/router": "ip access-list extended A\n permit ip object-group G any\n"}),
		mk("NSX", "null in groups", "", map[string]string{"code/router": `{"groups":[null]}`}),
		mk("NSX", "null in expression", "", map[string]string{"code/router": `{"groups":[{"id":"Netspoc-g1","expression":[null]}]}`}),
		mk("NSX", "null in rules", "", map[string]string{"code/router": `{"policies":[{"id":"Netspoc-v1","rules":[null]}]}`}),
		mk("NSX", "null in policies, services", `{"services":[null]}`, map[string]string{"code/router": `{"policies":[null]}`}),
		mk("Linux", "iptables -A without chain", "", map[string]string{"code/router": "*filter\n:INPUT DROP\n-A\n"}),
		mk("Linux", "iptables trailing !", "", map[string]string{"code/router": "*filter\n:INPUT DROP\n-A INPUT -s 10.1.1.1 !\n"}),
		mk("Linux", "short route", "", map[string]string{"code/router": "ip route add 10.1.1.0/24 via\n"}),
		mk("IOS", "duplicate ACL line that is moved", "ip access-list extended test\n permit tcp any host 10.3.4.3\n deny ip host 10.1.2.3 any\ninterface Ethernet1\n ip access-group test in\n",
			map[string]string{"code/router": "ip access-list extended test\n deny ip host 10.1.2.3 any\n deny ip host 10.1.2.3 any\n permit tcp any host 10.3.4.3\ninterface Ethernet1\n ip access-group test in\n"}),
		mk("ASA", "[APPEND] without permit (F-C18a)", "", map[string]string{"code/router": "access-list X extended deny ip any4 any4\naccess-group X global\n",
			"code/router.raw": "[APPEND]\naccess-list X extended deny ip any4 host 10.1.1.1\naccess-group X global\n"}),
		mk("ASA", "incomplete string (pinned by the suite)", "ldap attribute-map M\n map-name memberOf Group-Policy\n map-value memberOf \"CN=a b\n", map[string]string{"code/router": ""}),
	}
}

// panCycle: a PAN-OS configuration with one rule whose only source is g0; groups as given.
func panConf(source string, groups map[string]string) string {
	var g []string
	for _, n := range []string{"g0", "g1"} {
		if m, ok := groups[n]; ok {
			g = append(g, `<entry name="`+n+`"><static><member>`+m+`</member></static></entry>`)
		}
	}
	return `<config><devices><entry name="d"><vsys><entry name="vsys1"><rulebase><security><rules><entry name="r1"><action>allow</action><from><member>z1</member></from><to><member>z2</member></to><source><member>` + source + `</member></source><destination><member>any</member></destination><service><member>any</member></service><application><member>any</member></application></entry></rules></security></rulebase><address><entry name="a1"><ip-netmask>10.1.1.1/32</ip-netmask></entry></address><address-group>` + strings.Join(g, "") + `</address-group></entry></vsys></entry></devices></config>`
}

func panCycleCases() []*c20Case {
	var out []*c20Case
	ok := panConf("g0", map[string]string{"g0": "a1"})
	cycles := map[string]string{
		"1-cycle":        panConf("g0", map[string]string{"g0": "g0"}),
		"2-cycle":        panConf("g0", map[string]string{"g0": "g1", "g1": "g0"}),
		"2-cycle unused": panConf("any", map[string]string{"g0": "g1", "g1": "g0"}),
	}
	names := []string{"1-cycle", "2-cycle", "2-cycle unused"}
	for _, n := range names {
		cyc := cycles[n]
		for _, v := range []struct{ descr, dev, code string }{
			{"device side", cyc, ok}, {"Netspoc side", ok, cyc}, {"both sides", cyc, cyc}} {
			for _, pos := range []string{"A", "B"} {
				f := map[string]string{"device": v.dev, "code/router": v.code, "code/router.info": infoJSON("PAN-OS"), "device.info": infoJSON("PAN-OS")}
				args := []string{"-q", "device", "code/router"}
				if pos == "B" {
					args = []string{"-q", "code/router", "device"}
				}
				out = append(out, &c20Case{Prog: "drc", Args: args, Files: f, Type: "PAN-OS", Test: "corpus:PAN-OS address-group " + n + ", " + v.descr, Mut: "corpus pos=" + pos, Class: "corpus"})
			}
		}
	}
	return out
}

// sizeCases: "never hang" — large and deeply repetitive inputs, judged by the per-case timeout.
func sizeCases() []*c20Case {
	mk := func(typ, name, dev, code string, extra map[string]string) *c20Case {
		f := map[string]string{"device": dev, "code/router": code, "code/router.info": infoJSON(typ)}
		for k, v := range extra {
			f[k] = v
		}
		return &c20Case{Prog: "drc", Args: []string{"-q", "device", "code/router"}, Files: f, Type: typ, Test: "size:" + name, Mut: "size", Class: "size"}
	}
	rep := strings.Repeat
	var acl, acl2, ipt, grp strings.Builder
	for i := 0; i < 3000; i++ {
		fmt.Fprintf(&acl, "access-list A extended permit tcp host 10.%d.%d.1 any4 eq %d\n", i/250, i%250, 1+i%60000)
		fmt.Fprintf(&acl2, "access-list A extended permit udp host 10.%d.%d.2 any4 eq %d\n", i%250, i/250, 1+i%60000)
		fmt.Fprintf(&ipt, "-A INPUT -s 10.%d.%d.1 -p tcp --dport %d -j ACCEPT\n", i/250, i%250, 1+i%60000)
	}
	for i := 0; i < 400; i++ {
		fmt.Fprintf(&grp, `<entry name="g%d"><static><member>g%d</member></static></entry>`, i, i+1)
	}
	return []*c20Case{
		mk("ASA", "one line of 200000 words", "", "access-list A extended permit ip"+rep(" any4", 200000)+"\naccess-group A global\n", nil),
		mk("ASA", "line of 1 MB without blank", "", "access-list A extended permit ip "+rep("x", 1<<20)+"\n", nil),
		mk("ASA", "3000 ACL lines, all different on device", acl.String()+"access-group A global\ninterface E0\n nameif inside\n", acl2.String()+"access-group A global\n", nil),
		mk("IOS", "60000 sub command lines", "", "interface E0\n"+rep(" shutdown\n", 60000), nil),
		mk("IOS", "indentation of 100000 blanks", "", "interface E0\n"+rep(" ", 100000)+"shutdown\n shutdown\n", nil),
		mk("IOS", "banner that never ends", "banner motd ^C\n"+rep("x\n", 100000), "", nil),
		mk("Linux", "3000 iptables rules in raw into 3000", "", "*filter\n:INPUT DROP\n"+ipt.String()+"COMMIT\n", map[string]string{"code/router.raw": "*filter\n:INPUT DROP\n[APPEND]\n" + ipt.String() + "COMMIT\n"}),
		mk("Linux", "rule with 100000 options", "", "*filter\n:INPUT DROP\n-A INPUT"+rep(" ! -s 1.1.1.1", 100000)+"\n", nil),
		mk("NSX", "100000 header lines", "", rep("# x\n", 100000)+"{}", nil),
		mk("NSX", "deeply nested JSON", "", rep("[", 100000)+rep("]", 100000), nil),
		mk("PAN-OS", "chain of 400 nested address-groups", "", panConf("g0", nil)[:0]+`<config><devices><entry name="d"><vsys><entry name="vsys1"><rulebase><security><rules><entry name="r1"><action>allow</action><from><member>z1</member></from><to><member>z2</member></to><source><member>g0</member></source><destination><member>any</member></destination><service><member>any</member></service><application><member>any</member></application></entry></rules></security></rulebase><address-group>`+grp.String()+`</address-group></entry></vsys></entry></devices></config>`, nil),
		mk("PAN-OS", "deeply nested XML", "", rep("<a>", 50000)+rep("</a>", 50000), nil),
	}
}

// blankLineCases: lines made only of white space (blanks, tabs, \r, mixtures) and trailing white
// space on real lines, at every position class (before the first command, directly behind a known
// top-level command = first sub command position, between sub commands, behind an unknown command,
// at the end of the file), in every file slot and both argument positions of drc.
func blankLineCases() []*c20Case {
	var out []*c20Case
	ws := []string{" ", "   ", "\t", " \t ", "\r", "  \r"}
	type tmpl struct{ class, text string }
	cfg := map[string][]tmpl{
		"ASA": {
			{"before first command", "@\ninterface E0\n nameif inside\n"},
			{"first sub command position", "interface E0\n@\n nameif inside\n"},
			{"first sub command position, ACL", "access-list A extended permit ip any4 any4\n@\naccess-group A global\n"},
			{"between sub commands", "interface E0\n nameif inside\n@\n shutdown\n"},
			{"behind unknown command", "foo bar\n@\n nameif x\n"},
			{"end of file", "interface E0\n nameif inside\n@"},
			{"end of file with newline", "interface E0\n@\n"},
			{"trailing white space", "interface E0@\n nameif inside@\n"},
		},
		"IOS": {
			{"before first command", "@\nip route 10.0.0.0 255.0.0.0 10.1.1.1\n"},
			{"first sub command position", "ip access-list extended A\n@\n permit ip any any\ninterface E0\n ip access-group A in\n"},
			{"first sub command position, route", "ip route 10.0.0.0 255.0.0.0 10.1.1.1\n@\n"},
			{"between sub commands", "interface E0\n ip address 10.1.1.1 255.255.255.0\n@\n shutdown\n"},
			{"behind unknown command", "foo bar\n@\n sub x\n"},
			{"end of file", "interface E0\n shutdown\n@"},
			{"trailing white space", "ip route 10.0.0.0 255.0.0.0 10.1.1.1@\ninterface E0@\n shutdown@\n"},
		},
		"Linux": {
			{"between lines", "*filter\n@\n:INPUT DROP\n@\n-A INPUT -j ACCEPT\n@\nCOMMIT\n@"},
			{"trailing white space", "*filter@\n:INPUT DROP@\n-A INPUT -j ACCEPT@\nip route add 10.0.0.0/8 via 10.1.1.1@\n"},
		},
		"NSX":    {{"around JSON", "@\n{\"groups\":[],@\n\"policies\":[],\"services\":[]}@\n@"}},
		"PAN-OS": {{"around XML", "@\n<config>@\n<devices></devices>@\n</config>@\n@"}},
	}
	slots := []string{"device", "code/router", "code/ipv6/router", "code/router.raw"}
	for _, typ := range allTypes {
		for _, t := range cfg[typ] {
			for wi, w := range ws {
				// all white space variants at the first-sub-command position, two elsewhere
				if !strings.HasPrefix(t.class, "first sub command") && wi%3 != 0 {
					continue
				}
				text := strings.ReplaceAll(t.text, "@", w)
				for _, slot := range slots {
					for _, pos := range []string{"A", "B"} {
						f := map[string]string{"device": "", "code/router": "", "code/router.info": infoJSON(typ), "device.info": infoJSON(typ)}
						f[slot] = text
						args := []string{"-q", "device", "code/router"}
						if pos == "B" {
							args = []string{"-q", "code/router", "device"}
						}
						out = append(out, &c20Case{Prog: "drc", Args: args, Files: f, Type: typ,
							Test: "blank:" + t.class + " in " + slot, Mut: fmt.Sprintf("white space %q pos=%s", w, pos), Class: "blank"})
					}
				}
			}
		}
	}
	return out
}

// remarkFirstCases: an ACL whose first line is a remark (ASA also: a standard line) and whose extended lines use
// object-groups, as the only ACL of the file that is parsed first; every slot, both argument positions.
func remarkFirstCases() []*c20Case {
	var out []*c20Case
	cfg := map[string][]string{
		"ASA": {
			"object-group network g1\n network-object host 10.1.1.1\naccess-list A remark first\naccess-list A extended permit ip object-group g1 any4\naccess-group A global\n",
			"object-group network g1\n network-object host 10.1.1.1\nobject-group service s1 tcp\n port-object eq 80\naccess-list A remark first\naccess-list A remark second\naccess-list A extended deny ip any4 any4\naccess-list A extended permit tcp object-group g1 object-group g1 object-group s1\naccess-group A in interface inside\ninterface E0\n nameif inside\n",
			"object-group network g1\n network-object host 10.1.1.1\naccess-list S standard permit 10.1.1.0 255.255.255.0\naccess-list S extended permit ip object-group g1 any4\naccess-group S global\n",
			"object-group network g1\n network-object host 10.1.1.1\naccess-list A remark first\naccess-list A extended permit ip object-group g1 any4\naccess-list B extended permit ip object-group g1 any4\naccess-group A global\n",
		},
		"IOS": {
			"ip access-list extended A\n remark first\n permit ip object-group g1 any\ninterface E0\n ip access-group A in\n",
			"object-group network g1\n host 10.1.1.1\nip access-list extended A\n remark first\n permit ip object-group g1 any\ninterface E0\n ip access-group A in\n",
		},
	}
	slots := []string{"device", "code/router", "code/ipv6/router", "code/router.raw"}
	for _, typ := range []string{"ASA", "IOS"} {
		for ti, text := range cfg[typ] {
			for _, slot := range slots {
				for _, also := range []string{"", "device", "code/router"} {
					if also == slot {
						continue
					}
					for _, pos := range []string{"A", "B"} {
						f := map[string]string{"device": "", "code/router": "", "code/router.info": infoJSON(typ), "device.info": infoJSON(typ)}
						f[slot] = text
						if also != "" {
							f[also] = text
						}
						args := []string{"-q", "device", "code/router"}
						if pos == "B" {
							args = []string{"-q", "code/router", "device"}
						}
						out = append(out, &c20Case{Prog: "drc", Args: args, Files: f, Type: typ,
							Test: fmt.Sprintf("aclhead:ACL #%d starts with a remark/standard line, in %s", ti, slot), Mut: "also in [" + also + "] pos=" + pos, Class: "aclhead-corpus"})
					}
				}
			}
		}
	}
	return out
}

func buildMissingApprove(ctx *Ctx, res *Result) string {
	dir, _ := os.MkdirTemp("", "c20bin")
	bin := filepath.Join(dir, "missing-approve")
	cmd := exec.Command("go", "build", "-o", bin, "./cmd/missing-approve")
	cmd.Dir = filepath.Join(ctx.Repo, "go")
	if out, err := cmd.CombinedOutput(); err != nil {
		res.Notes = append(res.Notes, "cannot build missing-approve: "+trunc(string(out), 300))
		return ""
	}
	return bin
}

func runC20(ctx *Ctx) *Result {
	res := NewResult()
	res.Rule = "oracle: a case is non-trivial if its input differs from the unmutated test (a mutation, garbage, cross-type or wrapper case) and the real program reached a verdict on it; correspondence: a case is non-trivial if the model function consumed at least one token past the first bounds check (result, diagnostic or panic other than on the empty list)"
	timeout := 20 * time.Second
	os.Setenv("C20_REPO", ctx.Repo)

	if ctx.Replay != "" {
		var c c20Case
		if err := ReadReplay(ctx.Replay, &c); err != nil {
			fmt.Fprintln(os.Stderr, err)
			os.Exit(2)
		}
		if c.Prog == "" {
			// a correspondence replay
			replayCorr(ctx, res)
			return res
		}
		var o c20Outcome
		if c.Prog == "missing-approve" {
			bin := buildMissingApprove(ctx, res)
			o = runBinary(bin, &c, timeout)
			os.RemoveAll(filepath.Dir(bin))
		} else {
			w := startWorker()
			o, w = w.run(&c, timeout)
			w.stop()
		}
		res.Eval(c.canon(), true)
		fmt.Fprintf(os.Stderr, "replay %s %v: status=%d panic=%q where=%s hang=%v\nstderr: %s\n%s\n", c.Prog, c.Args, o.Status, o.Panic, o.Where, o.Hang, o.Stderr, o.Stack)
		if sig, what := judge(&c, o); sig != nil {
			res.Fail(sig, what, c)
		}
		return res
	}

	// ---- whole-program site classification (written by translate/panicsites on this run)
	if data, err := os.ReadFile(filepath.Join(ctx.Verif, "lean", "NA", "Gen", "PanicSitesAll.json")); err == nil {
		var all struct {
			Counts       map[string]int `json:"counts"`
			Occurrences  map[string]int `json:"occurrences"`
			Rules        map[string]int `json:"syntactic_rules"`
			Unclassified []string       `json:"unclassified"`
			Packages     []string       `json:"packages"`
		}
		if json.Unmarshal(data, &all) == nil {
			for k, v := range all.Counts {
				res.CountN("sites-keys:"+k, v)
			}
			for k, v := range all.Occurrences {
				res.CountN("sites-occurrences:"+k, v)
			}
			for k, v := range all.Rules {
				res.CountN("sites-syntactic-rule:"+k, v)
			}
			res.CountN("sites-packages", len(all.Packages))
			if len(all.Unclassified) > 0 {
				res.Notes = append(res.Notes, "unclassified panic sites: "+strings.Join(all.Unclassified, " ; "))
			}
		}
	} else {
		res.Notes = append(res.Notes, "whole-program site classification not found: "+err.Error())
	}

	// ---- T-corr: model versus real token-cursor functions
	runCorr(ctx, res)

	// ---- oracle
	bases := loadBases(ctx.Repo, func(s string) { res.Notes = append(res.Notes, s) })
	res.CountN("tests-read", len(bases))
	var wrappers []*c20Case
	wrapperCases(func(c *c20Case) { wrappers = append(wrappers, c) })
	simCases(func(c *c20Case) { wrappers = append(wrappers, c) })
	missingApproveCases(func(c *c20Case) { wrappers = append(wrappers, c) })
	httpCases(func(c *c20Case) { wrappers = append(wrappers, c) })

	// pass 1: size of the family (cases are built lazily; nothing is kept)
	family := 0
	enumerate(bases, func(class string, build func() *c20Case) { family++ })
	res.CountN("family-size", family+len(wrappers)+len(corpusCases()))
	// quick: a seeded slice; thorough: everything
	want := 9000
	mod := uint64(family/want + 1)
	if ctx.Thorough() {
		mod = 1
		res.Exhaustive = true
	}
	seen := map[uint64]bool{}
	nSel := 0
	feed := func(ch chan<- *c20Case) {
		push := func(c *c20Case) {
			h := hash64(c.canon())
			if seen[h] {
				return
			}
			seen[h] = true
			nSel++
			ch <- c
		}
		for _, c := range corpusCases() {
			push(c)
		}
		for _, c := range panCycleCases() {
			push(c)
		}
		for _, c := range sizeCases() {
			push(c)
		}
		for _, c := range blankLineCases() {
			push(c)
		}
		for _, c := range remarkFirstCases() {
			push(c)
		}
		i := 0
		enumerate(bases, func(class string, build func() *c20Case) {
			i++
			m := mod
			if (class == "companion" || class == "xml-groupcycle") && m > 4 {
				m /= 4
			}
			if m == 1 || hash64(fmt.Sprintf("%d/%d", ctx.Seed, i))%m == 0 || class == "unmutated" && i%5 == 0 || class == "aclhead" || class == "trunc-kind" {
				push(build())
			}
		})
		for _, c := range wrappers {
			if c.Prog != "missing-approve" {
				push(c)
			}
		}
	}

	var dump *os.File
	if p := os.Getenv("C20_DUMP"); p != "" {
		dump, _ = os.Create(p)
		defer dump.Close()
	}
	var envRetry []*c20Case
	retrying := false
	var sink func(c *c20Case, o c20Outcome)
	sink = func(c *c20Case, o c20Outcome) {
		if c.Class == "do-approve-sim" && envTrouble(o) {
			// pseudo terminals exhausted, login of the simulated device timed out under load: not a verdict on the input;
			// once more, alone, at the end; what still shows trouble is counted as inconclusive
			if !retrying {
				envRetry = append(envRetry, c)
				return
			}
			res.Count("inconclusive:environment trouble with the simulated device")
			res.Eval(c.canon(), false)
			return
		}
		if dump != nil && c.Class != "size" {
			b, _ := json.Marshal(map[string]any{"prog": c.Prog, "args": c.Args, "type": c.Type, "test": c.Test, "mut": c.Mut, "class": c.Class,
				"files": c.Files, "status": o.Status, "stderr": o.Stderr, "stdout": o.Stdout, "panic": o.Panic, "where": o.Where, "kind": o.Kind, "msg": o.Msg, "details": o.Details, "info_bad": infoBad(c), "unclosed_quote": unclosedQuote(c)})
			dump.Write(append(b, '\n'))
		}
		nontrivial := c.Class != "unmutated" && !o.Hang && o.Died == ""
		res.Eval(c.canon(), nontrivial)
		res.Count("class:" + c.Class)
		res.Count("type:" + c.Type)
		res.Count("prog:" + c.Prog)
		if c.Class == "size" {
			res.CountN("size-case-ms:"+c.Test, int(o.Elapsed/1000))
		}
		if int(o.Elapsed/1000) > res.Distribution["max-elapsed-ms"] {
			res.Distribution["max-elapsed-ms"] = int(o.Elapsed / 1000)
		}
		switch {
		case o.Panic != "" || o.Died != "" || o.Hang:
			res.Count("outcome:crash")
		case o.Status == 0 && strings.Contains(o.Stderr, "WARNING>>>"):
			res.Count("outcome:exit0+warning")
		case o.Status == 0:
			res.Count("outcome:exit0")
		case strings.Contains(o.Stderr, "Usage:"):
			res.Count("outcome:exit1 usage")
		default:
			msg := strings.TrimSpace(o.Stderr)
			msg = strings.TrimPrefix(msg, "ERROR>>> ")
			msg = strings.TrimPrefix(msg, "Error: ")
			msg = strings.TrimPrefix(msg, "While reading file router: ")
			msg = strings.TrimPrefix(msg, "While reading file device: ")
			msg = strings.TrimPrefix(msg, "While reading file router.raw: ")
			w := strings.Fields(msg)
			if len(w) > 2 {
				w = w[:2]
			}
			res.Count("outcome:exit1 " + strings.Join(w, " "))
		}
		if sig, what := judge(c, o); sig != nil {
			res.Fail(sig, what+" — "+c.Test+" / "+c.Mut, c)
		}
		if len(res.Samples) < 4 && nontrivial && o.Status == 1 && c.Class != "corpus" {
			res.Sample(map[string]any{"test": c.Test, "mutation": c.Mut, "status": o.Status, "stderr": trunc(o.Stderr, 160)})
		}
	}

	nw := runtime.NumCPU()
	if nw > 16 {
		nw = 16
	}
	if nw < 2 {
		nw = 2
	}
	ch := make(chan *c20Case, 256)
	go func() {
		feed(ch)
		close(ch)
	}()
	runAll(ch, nw, timeout, sink)
	res.CountN("selected", nSel)
	if len(envRetry) > 0 {
		retrying = true
		res.CountN("re-run alone after environment trouble", len(envRetry))
		w := startWorker()
		for _, c := range envRetry {
			var o c20Outcome
			o, w = w.run(c, 6*timeout)
			sink(c, o)
		}
		w.stop()
	}
	res.CountN("slice-seed", int(ctx.Seed))

	if bin := buildMissingApprove(ctx, res); bin != "" {
		for _, c := range wrappers {
			if c.Prog == "missing-approve" {
				sink(c, runBinary(bin, c, timeout))
			}
		}
		os.RemoveAll(filepath.Dir(bin))
	}
	// stable order of failures
	sort.SliceStable(res.Failures, func(i, j int) bool {
		return fmt.Sprint(res.Failures[i].Sig["pred"]) < fmt.Sprint(res.Failures[j].Sig["pred"])
	})
	res.Assumptions = append(res.Assumptions,
		"oracle family: configuration lines of go/testdata/*.t (as parsed by the suite's own testtxt reader) under the mutation classes listed in the distribution; bytes outside this family are covered by the Lean theorems only as far as the modelled functions go")
	return res
}
