package main

// Worker side of the C20 oracle: runs the REAL drc.Main / doapprove.Main in-process, one case
// after the other (the programs use process globals: os.Args, cwd, errlog, pflag), with recover.
// The parent talks to workers over stdin/stdout (one JSON object per line), so that a hang or
// an unrecoverable runtime fault (stack overflow, concurrent map write) only costs one worker.

import (
	"bufio"
	"bytes"
	"encoding/json"
	"errors"
	"fmt"
	"io"
	"io/fs"
	"os"
	"os/exec"
	"path/filepath"
	"regexp"
	"runtime"
	"runtime/debug"
	"sort"
	"strings"
	"sync"
	"time"

	"github.com/hknutzen/Netspoc-Approve/go/pkg/doapprove"
	"github.com/hknutzen/Netspoc-Approve/go/pkg/drc"
)

// c20Case is one member of the property's family; it is self-contained (replayable).
type c20Case struct {
	Prog  string            `json:"prog"`  // drc | do-approve | missing-approve
	Args  []string          `json:"args"`  // without argv[0]
	Files map[string]string `json:"files"` // relative path -> content
	Links map[string]string `json:"links,omitempty"`
	Dirs  []string          `json:"dirs,omitempty"`
	Env   map[string]string `json:"env,omitempty"`
	HTTP  map[string]string `json:"http,omitempty"` // answers of the simulated NSX / PAN-OS device (httpsim.go)
	Type  string            `json:"type"`           // ASA IOS Linux NSX PAN-OS
	Test  string            `json:"test"`           // file:title the case is derived from
	Mut   string            `json:"mut"`            // description of the mutation
	Class string            `json:"class"`          // mutation class (for the distribution)
}

type c20Outcome struct {
	Status  int    `json:"status"`
	Panic   string `json:"panic,omitempty"`
	Kind    string `json:"kind,omitempty"`    // of the panic: from the VALUE (runtime.Error or not), see panicClass
	Msg     string `json:"msg,omitempty"`     // class of the panic message (no input text, no numbers)
	Details string `json:"details,omitempty"` // do-approve: content of the log file named in "details in FILE"
	Where   string `json:"where,omitempty"`   // first frame of the module below the panic
	Stack   string `json:"stack,omitempty"`
	Stdout  string `json:"stdout,omitempty"`
	Stderr  string `json:"stderr,omitempty"`
	Hang    bool   `json:"hang,omitempty"`
	Died    string `json:"died,omitempty"` // worker process died (fatal runtime error)
	Elapsed int64  `json:"elapsed_us"`
}

func (c *c20Case) canon() string {
	names := make([]string, 0, len(c.Files))
	for n := range c.Files {
		names = append(names, n)
	}
	sort.Strings(names)
	var b strings.Builder
	b.WriteString(c.Prog + " " + strings.Join(c.Args, " ") + "\n")
	for _, n := range names {
		b.WriteString("--" + n + "\n" + c.Files[n] + "\n")
	}
	var extra []string
	for n, t := range c.Links {
		extra = append(extra, "link "+n+" -> "+t)
	}
	for _, d := range c.Dirs {
		extra = append(extra, "dir "+d)
	}
	for k, v := range c.Env {
		extra = append(extra, "env "+k+"="+v)
	}
	for k, v := range c.HTTP {
		extra = append(extra, "http "+k+"="+v)
	}
	sort.Strings(extra)
	for _, x := range extra {
		b.WriteString(x + "\n")
	}
	return b.String()
}

func trunc(s string, n int) string {
	if len(s) > n {
		return s[:n] + "…"
	}
	return s
}

var frameRe = regexp.MustCompile(`(?m)^github\.com/hknutzen/Netspoc-Approve/go/(pkg|cmd)/([^\s(]+(?:\([^)]*\))?[^\s(]*)\(`)

// whereOf extracts from a stack trace the innermost function of the module that is on the
// stack below the panic (skipping errlog.HandleAbort's deferred re-panic).
func whereOf(stack string) string {
	// cut everything up to the last "panic(" frame: frames above it belong to the recover machinery
	if i := strings.LastIndex(stack, "\npanic("); i >= 0 {
		stack = stack[i:]
	}
	for _, m := range frameRe.FindAllStringSubmatch(stack, -1) {
		fn := m[2]
		if strings.HasPrefix(fn, "errlog.HandleAbort") {
			continue
		}
		// class = function, without closure suffixes
		fn = regexp.MustCompile(`\.func\d+(\.\d+)*$`).ReplaceAllString(fn, "")
		fn = regexp.MustCompile(`\.\d+$`).ReplaceAllString(fn, "")
		fn = strings.NewReplacer("(*", "", ")", "").Replace(fn)
		return fn
	}
	return "?"
}

var digitsRe = regexp.MustCompile(`[0-9]+`)

// msgHead: the fixed head of a message: cut at the first colon or quote, numbers blanked, at most five words.
func msgHead(m string) string {
	full := m
	for _, sep := range []string{"\n", ": ", " '", " \"", "`", " ["} {
		if i := strings.Index(m, sep); i >= 0 {
			m = m[:i]
		}
	}
	m = strings.TrimSuffix(m, ":")
	if pre, rest, ok := strings.Cut(full, ": "); ok && pre == m && !strings.Contains(pre, " ") {
		// "json: cannot unmarshal ...": a package prefix alone says nothing, keep two more words
		w := strings.Fields(msgHead(rest))
		if len(w) > 2 {
			w = w[:2]
		}
		return strings.TrimSpace(pre + ": " + strings.Join(w, " "))
	}
	w := strings.Fields(digitsRe.ReplaceAllString(m, "#"))
	if len(w) > 5 {
		w = w[:5]
	}
	return strings.Join(w, " ")
}

func runtimeKind(msg string) string {
	switch {
	case strings.Contains(msg, "index out of range"):
		return "index"
	case strings.Contains(msg, "slice bounds out of range"):
		return "slice"
	case strings.Contains(msg, "nil pointer dereference"):
		return "nil"
	case strings.Contains(msg, "interface conversion"):
		return "typeassert"
	case strings.Contains(msg, "assignment to entry in nil map"):
		return "nilmap"
	case strings.Contains(msg, "divide by zero"):
		return "divide"
	}
	return "runtime-other"
}

// panicClass: kind from the panic VALUE (a runtime.Error is a fault of the Go runtime, anything else was
// raised by a panic statement of the program), msg = fixed part of the message.
func panicClass(e any) (kind, msg string) {
	if re, ok := e.(runtime.Error); ok {
		m := re.Error()
		if i := strings.Index(m, " ["); i >= 0 { // index values
			m = m[:i]
		}
		if i := strings.Index(m, ": interface {} is"); i >= 0 {
			m = m[:i]
		}
		return runtimeKind(re.Error()), strings.TrimSpace(digitsRe.ReplaceAllString(m, "#"))
	}
	if err, ok := e.(error); ok {
		var pe *fs.PathError
		if errors.As(err, &pe) {
			return "explicit", pe.Op + ": " + pe.Err.Error()
		}
		return "explicit", msgHead(err.Error())
	}
	return "explicit", msgHead(fmt.Sprint(e))
}

// panicClassText: the same from the text a dead process left on stderr ("panic: ...", "fatal error: ...").
func panicClassText(line string) (kind, msg string) {
	line = strings.TrimPrefix(strings.TrimSpace(line), "panic: ")
	line = strings.TrimSuffix(line, " [recovered]")
	if strings.HasPrefix(line, "runtime error:") || strings.HasPrefix(line, "assignment to entry in nil map") || strings.HasPrefix(line, "fatal error:") {
		m := line
		if i := strings.Index(m, " ["); i >= 0 {
			m = m[:i]
		}
		return runtimeKind(line), strings.TrimSpace(digitsRe.ReplaceAllString(m, "#"))
	}
	if _, rest, ok := strings.Cut(line, " "); ok && (strings.HasPrefix(line, "open ") || strings.HasPrefix(line, "read ")) {
		if i := strings.LastIndex(rest, ": "); i >= 0 {
			return "explicit", strings.Fields(line)[0] + ": " + rest[i+2:]
		}
	}
	return "explicit", msgHead(line)
}

var detailsRe = regexp.MustCompile(`details in (\S+)`)

func prepareDir(dir string, c *c20Case) {
	os.RemoveAll(dir)
	os.MkdirAll(dir, 0755)
	for _, d := range c.Dirs {
		os.MkdirAll(filepath.Join(dir, d), 0755)
	}
	for n, data := range c.Files {
		p := filepath.Join(dir, n)
		os.MkdirAll(filepath.Dir(p), 0755)
		os.WriteFile(p, []byte(data), 0644)
	}
	for n, target := range c.Links {
		p := filepath.Join(dir, n)
		os.MkdirAll(filepath.Dir(p), 0755)
		os.Symlink(target, p)
	}
}

// runInProcess runs one case in this process.
func runInProcess(dir string, c *c20Case) c20Outcome {
	prepareDir(dir, c)
	os.Chdir(dir)
	os.Setenv("HOME", dir)
	os.Unsetenv("SIMULATE_ROUTER")
	os.Unsetenv("TEST_TIME")
	for k, v := range c.Env {
		os.Setenv(k, strings.NewReplacer("$DIR", dir, "$REPO", os.Getenv("C20_REPO")).Replace(v))
	}
	if len(c.HTTP) > 0 {
		srv := startHTTPSim(c)
		defer srv.Close()
		os.Setenv("SIMULATE_ROUTER", srv.URL)
		defer os.Unsetenv("SIMULATE_ROUTER")
	}
	var mainFunc func() int
	switch c.Prog {
	case "drc":
		mainFunc = drc.Main
	case "do-approve":
		mainFunc = doapprove.Main
	default:
		return c20Outcome{Status: -1, Panic: "unknown prog " + c.Prog}
	}
	os.Args = append([]string{c.Prog}, c.Args...)
	var out c20Outcome
	ro, wo, _ := os.Pipe()
	re, we, _ := os.Pipe()
	oldO, oldE := os.Stdout, os.Stderr
	os.Stdout, os.Stderr = wo, we
	var bo, be bytes.Buffer
	var wg sync.WaitGroup
	wg.Add(2)
	go func() { io.Copy(&bo, ro); wg.Done() }()
	go func() { io.Copy(&be, re); wg.Done() }()
	start := time.Now()
	func() {
		defer func() {
			if e := recover(); e != nil {
				out.Panic = fmt.Sprint(e)
				out.Kind, out.Msg = panicClass(e)
				out.Stack = string(debug.Stack())
				out.Where = whereOf(out.Stack)
				out.Status = 2
			}
		}()
		out.Status = mainFunc()
	}()
	out.Elapsed = time.Since(start).Microseconds()
	os.Stdout, os.Stderr = oldO, oldE
	wo.Close()
	we.Close()
	wg.Wait()
	ro.Close()
	re.Close()
	out.Stdout = trunc(bo.String(), 600)
	out.Stderr = trunc(be.String(), 1200)
	out.Stack = trunc(out.Stack, 3000)
	if m := detailsRe.FindStringSubmatch(out.Stderr); m != nil {
		if data, err := os.ReadFile(m[1]); err == nil {
			out.Details = trunc(string(data), 3000)
		}
	}
	for k := range c.Env {
		os.Unsetenv(k)
	}
	return out
}

// workerLoop: one JSON case per stdin line -> one JSON outcome per stdout line.
func workerLoop() {
	dir, _ := os.MkdirTemp("", "c20w")
	defer os.RemoveAll(dir)
	orig := os.Stdout
	in := bufio.NewReaderSize(os.Stdin, 1<<22)
	w := bufio.NewWriter(orig)
	for {
		line, err := in.ReadBytes('\n')
		if len(line) > 0 {
			var c c20Case
			if e := json.Unmarshal(line, &c); e != nil {
				fmt.Fprintln(w, `{"status":-1,"panic":"bad case json"}`)
			} else {
				o := runInProcess(filepath.Join(dir, "w"), &c)
				b, _ := json.Marshal(o)
				w.Write(b)
				w.WriteByte('\n')
			}
			w.Flush()
		}
		if err != nil {
			return
		}
	}
}

// ---------------------------------------------------------------- parent side

type c20Worker struct {
	cmd *exec.Cmd
	in  io.WriteCloser
	out *bufio.Reader
	err *bytes.Buffer
}

func startWorker() *c20Worker {
	exe, _ := os.Executable()
	cmd := exec.Command(exe)
	cmd.Env = append(os.Environ(), "C20_WORKER=1")
	in, _ := cmd.StdinPipe()
	outp, _ := cmd.StdoutPipe()
	eb := &bytes.Buffer{}
	cmd.Stderr = eb
	if err := cmd.Start(); err != nil {
		fmt.Fprintln(os.Stderr, "c20: cannot start worker:", err)
		os.Exit(2)
	}
	return &c20Worker{cmd: cmd, in: in, out: bufio.NewReaderSize(outp, 1<<22), err: eb}
}

func (w *c20Worker) stop() {
	w.in.Close()
	done := make(chan struct{})
	go func() { w.cmd.Wait(); close(done) }()
	select {
	case <-done:
	case <-time.After(3 * time.Second):
		w.cmd.Process.Kill()
		<-done
	}
}

// run sends one case; on timeout or death the worker is replaced.
func (w *c20Worker) run(c *c20Case, timeout time.Duration) (c20Outcome, *c20Worker) {
	b, _ := json.Marshal(c)
	type ans struct {
		line []byte
		err  error
	}
	ch := make(chan ans, 1)
	go func() {
		if _, err := w.in.Write(append(b, '\n')); err != nil {
			ch <- ans{nil, err}
			return
		}
		l, err := w.out.ReadBytes('\n')
		ch <- ans{l, err}
	}()
	select {
	case a := <-ch:
		if a.err != nil || len(a.line) == 0 {
			w.cmd.Process.Kill()
			w.cmd.Wait()
			o := c20Outcome{Status: 2, Died: trunc(w.err.String(), 3000), Where: whereOf(w.err.String())}
			for _, l := range strings.Split(w.err.String(), "\n") {
				if strings.HasPrefix(l, "panic: ") || strings.HasPrefix(l, "fatal error: ") {
					o.Kind, o.Msg = panicClassText(l)
					break
				}
			}
			return o, startWorker()
		}
		var o c20Outcome
		if err := json.Unmarshal(a.line, &o); err != nil {
			return c20Outcome{Status: -1, Panic: "bad outcome json: " + trunc(string(a.line), 200)}, w
		}
		return o, w
	case <-time.After(timeout):
		w.cmd.Process.Kill()
		w.cmd.Wait()
		return c20Outcome{Status: 2, Hang: true}, startWorker()
	}
}

// runAll distributes the cases over n worker processes and calls sink (serialised) per result.
func runAll(cases <-chan *c20Case, n int, timeout time.Duration, sink func(*c20Case, c20Outcome)) {
	var mu sync.Mutex
	var wg sync.WaitGroup
	for i := 0; i < n; i++ {
		wg.Add(1)
		go func() {
			defer wg.Done()
			w := startWorker()
			for c := range cases {
				var o c20Outcome
				o, w = w.run(c, timeout)
				if o.Hang {
					// a loaded machine is not a hang: once more, alone in a fresh worker, six times as long
					o, w = w.run(c, 6*timeout)
				}
				mu.Lock()
				sink(c, o)
				mu.Unlock()
			}
			w.stop()
		}()
	}
	wg.Wait()
}

// runBinary runs a real binary (missing-approve) on a case.
func runBinary(bin string, c *c20Case, timeout time.Duration) c20Outcome {
	dir, _ := os.MkdirTemp("", "c20b")
	defer os.RemoveAll(dir)
	prepareDir(dir, c)
	cmd := exec.Command(bin, c.Args...)
	cmd.Dir = dir
	cmd.Env = append(os.Environ(), "HOME="+dir)
	var bo, be bytes.Buffer
	cmd.Stdout, cmd.Stderr = &bo, &be
	start := time.Now()
	if err := cmd.Start(); err != nil {
		return c20Outcome{Status: -1, Panic: err.Error()}
	}
	done := make(chan error, 1)
	go func() { done <- cmd.Wait() }()
	var o c20Outcome
	select {
	case err := <-done:
		if ee, ok := err.(*exec.ExitError); ok {
			o.Status = ee.ExitCode()
		} else if err != nil {
			o.Status = -1
		}
	case <-time.After(timeout):
		cmd.Process.Kill()
		<-done
		o.Hang = true
		o.Status = 2
	}
	o.Elapsed = time.Since(start).Microseconds()
	o.Stdout = trunc(bo.String(), 600)
	o.Stderr = trunc(be.String(), 3000)
	if strings.Contains(be.String(), "goroutine ") && strings.Contains(be.String(), "panic") {
		o.Panic = strings.SplitN(be.String(), "\n", 2)[0]
		o.Where = whereOf(be.String())
		o.Kind, o.Msg = panicClassText(o.Panic)
	}
	return o
}
