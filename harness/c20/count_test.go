package main

import (
	"testing"
	"time"
)

func TestCount(t *testing.T) {
	bases := loadBases("/repo", func(s string) { t.Log(s) })
	start := time.Now()
	n := 0
	cl := map[string]int{}
	enumerate(bases, func(class string, build func() *c20Case) { n++; cl[class]++ })
	t.Log(n, time.Since(start), cl)
}
