package main

import (
	. "verifharness/vhlib"
)

func runCorr(ctx *Ctx, res *Result)    {}
func replayCorr(ctx *Ctx, res *Result) {}
