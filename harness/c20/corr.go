package main

// T-corr of C20: the Lean models of the token-cursor functions (driver nadrv-c20, `fixed = true`)
// against the real functions of /repo (verif-tagged exports), on enumerated and random inputs:
// result, diagnostic text or panic kind must agree.

import (
	"encoding/json"
	"fmt"
	"net"
	"net/netip"
	"os"
	"os/exec"
	"path/filepath"
	"regexp"
	"sort"
	"strings"
	. "verifharness/vhlib"

	"github.com/hknutzen/Netspoc-Approve/go/pkg/asa"
	"github.com/hknutzen/Netspoc-Approve/go/pkg/cisco"
	"github.com/hknutzen/Netspoc-Approve/go/pkg/codefiles"
	"github.com/hknutzen/Netspoc-Approve/go/pkg/errlog"
	"github.com/hknutzen/Netspoc-Approve/go/pkg/ios"
	"github.com/hknutzen/Netspoc-Approve/go/pkg/linux"
	"github.com/hknutzen/Netspoc-Approve/go/pkg/nsx"
	"github.com/hknutzen/Netspoc-Approve/go/pkg/panos"
	"github.com/hknutzen/Netspoc-Approve/go/pkg/program"
	"github.com/hknutzen/Netspoc-Approve/go/pkg/status"
)

const (
	cUS = "\x1f"
	cRS = "\x1e"
	cGS = "\x1d"
)

var ctrlRe = regexp.MustCompile("[\x1d\x1e\x1f\r]")

func clean(s string) bool { return !ctrlRe.MatchString(s) && isASCII(s) }

func isASCII(s string) bool {
	for i := 0; i < len(s); i++ {
		if s[i] >= 0x80 || s[i] == 0 {
			return false
		}
	}
	return true
}

// errCapture redirects errlog's stream into a file so that Abort messages can be read.
type errCapture struct {
	f   *os.File
	off int64
}

func newErrCapture() *errCapture {
	f, _ := os.CreateTemp("", "c20err")
	old := os.Stderr
	os.Stderr = f
	errlog.SetStderrLog("")
	os.Stderr = old
	return &errCapture{f: f}
}

func (e *errCapture) take() string {
	st, _ := e.f.Stat()
	n := st.Size() - e.off
	buf := make([]byte, n)
	e.f.ReadAt(buf, e.off)
	e.off = st.Size()
	return string(buf)
}

func (e *errCapture) close() { e.f.Close(); os.Remove(e.f.Name()) }

// callReal runs f with recover and canonicalises the outcome.
func (e *errCapture) callReal(f func() string) (res string) {
	e.take()
	defer func() {
		if r := recover(); r != nil {
			if fmt.Sprintf("%T", r) == "errlog.bailout" {
				msg := strings.TrimSuffix(e.take(), "\n")
				msg = strings.ReplaceAll(msg, "\nERROR>>> ", "\n")
				msg = strings.Replace(msg, " of vsys1 must not be member", " must not be member", 1)
				res = "diag:" + strings.TrimPrefix(msg, "ERROR>>> ")
				return
			}
			res = "panic:" + panicKind(fmt.Sprint(r))
		}
	}()
	r := f()
	if strings.HasPrefix(r, "DIAG:") {
		return "diag:" + strings.TrimPrefix(r, "DIAG:")
	}
	return "ok:" + r
}

// canonModel reduces `panic:kind:site` to `panic:kind` and undoes the newline escaping.
func canonModel(ans string) string {
	ans = strings.ReplaceAll(ans, cGS, "\n")
	if strings.HasPrefix(ans, "panic:") {
		p := strings.SplitN(ans, ":", 3)
		return "panic:" + p[1]
	}
	return ans
}

type corrCtx struct {
	ctx  *Ctx
	res  *Result
	drv  *Nadrv
	ec   *errCapture
	rng  *RNG
	asaS *asa.State
	iosS *ios.State
}

type corrCase struct {
	Stream string `json:"stream"`
	Req    string `json:"req"`
	Extra  string `json:"extra,omitempty"`
}

func (c *corrCtx) check(stream, req string, nontrivial bool, real func() string, post func(model string) string) {
	if !clean(strings.ReplaceAll(strings.ReplaceAll(strings.ReplaceAll(req, cUS, ""), cRS, ""), cGS, "")) {
		c.res.Count("corr-skipped-nonascii:" + stream)
		return
	}
	ans := c.drv.Ask(req)
	model := canonModel(ans)
	if post != nil {
		model = post(model)
	}
	impl := c.ec.callReal(real)
	c.res.Eval(stream+"\n"+req, nontrivial)
	c.res.TracesVsImpl++
	c.res.Count("corr:" + stream)
	kind := strings.SplitN(impl, ":", 2)[0]
	c.res.Count("corr-outcome:" + stream + ":" + kind)
	if impl != model {
		c.res.Disagree(stream, corrCase{Stream: stream, Req: strings.NewReplacer(cUS, "␟", cRS, "␞", cGS, "␝").Replace(req)}, impl, model)
	}
	// how the snapshot would have behaved (distribution only)
	if strings.HasPrefix(req, "acl"+cUS+"1") || strings.HasPrefix(req, "route"+cUS+"1") || strings.HasPrefix(req, "aaa"+cUS+"1") {
		old := canonModel(c.drv.Ask(strings.Replace(req, cUS+"1", cUS+"0", 1)))
		if strings.HasPrefix(old, "panic:") {
			c.res.Count("corr-snapshot-would-panic:" + stream)
		}
	}
}

// ---------------------------------------------------------------- generators

var aclVocab = []string{"object-group", "object", "host", "any", "any4", "any6", "interface", "eq", "gt", "lt", "neq", "range",
	"log", "log-input", "tcp", "udp", "icmp", "icmp6", "ip", "1", "6", "17", "58", "esp", "www", "ssh", "domain", "syslog",
	"echo", "echo-reply", "unreachable", "packet-too-big", "warnings", "informational", "6", "7", "interval", "300",
	"10.1.1.1", "10.1.1.0", "255.255.255.0", "255.255.255.255", "0.0.0.0", "::/0", "2001:db8::1/128", "2001:db8::/64",
	"G1", "g2", "user", "user-group", "security-group", "object-group-security", "object-group-user", "inactive", "80", "443", "256", "established"}

func (c *corrCtx) randTokens(n int) []string {
	l := make([]string, n)
	for i := range l {
		l[i] = Pick(c.rng, aclVocab)
	}
	return l
}

func mutateWords(rng *RNG, w []string) []string {
	w = append([]string{}, w...)
	if len(w) == 0 {
		return w
	}
	switch rng.Intn(6) {
	case 0:
		return w[:rng.Intn(len(w))+1]
	case 1:
		i := rng.Intn(len(w))
		return append(w[:i], w[i+1:]...)
	case 2:
		i := rng.Intn(len(w))
		return append(w[:i+1], w[i:]...)
	case 3:
		if len(w) > 1 {
			i := rng.Intn(len(w) - 1)
			w[i], w[i+1] = w[i+1], w[i]
		}
	case 4:
		w[rng.Intn(len(w))] = Pick(rng, aclVocab)
	}
	return w
}

// testdataLines returns the configuration lines of the tests of the given types.
func testdataLines(bases []baseCase, types ...string) []string {
	seen := map[string]bool{}
	var out []string
	for _, b := range bases {
		ok := false
		for _, t := range types {
			ok = ok || b.typ == t
		}
		if !ok {
			continue
		}
		for n, text := range b.files {
			if !isConfigFile(n) {
				continue
			}
			for _, l := range strings.Split(text, "\n") {
				if strings.TrimSpace(l) != "" && !seen[l] && len(l) < 400 {
					seen[l] = true
					out = append(out, l)
				}
			}
		}
	}
	sort.Strings(out)
	return out
}

func (c *corrCtx) runACL(lines []string, n int) {
	asaLines, iosLines := []string{}, []string{}
	for _, l := range lines {
		t := strings.TrimRight(l, " ")
		if strings.HasPrefix(t, "access-list ") && len(strings.Split(t, " ")) >= 4 {
			asaLines = append(asaLines, t)
		}
		tt := strings.TrimSpace(l)
		if strings.HasPrefix(l, " ") && (strings.HasPrefix(tt, "permit ") || strings.HasPrefix(tt, "deny ") || regexp.MustCompile(`^\d+ (permit|deny) `).MatchString(tt)) {
			iosLines = append(iosLines, tt)
		}
	}
	one := func(isASA bool, orig, parsed string) {
		kind := "ios"
		if isASA {
			kind = "asa"
		}
		req := strings.Join([]string{"acl", "1", kind, orig, parsed}, cUS)
		c.check("acl-"+kind, req, len(strings.Fields(parsed)) > 2, func() string {
			p, o, ref := cisco.VerifC20PostprocessACL(isASA, orig, parsed)
			if isASA {
				if p == parsed && len(ref) == 0 && (len(strings.Fields(parsed)) < 3 || strings.Fields(parsed)[2] != "extended") {
					return "-"
				}
				return p + cUS + strings.Join(ref, cRS)
			}
			return p + cUS + o + cUS + strings.Join(ref, cRS)
		}, nil)
	}
	mkASA := func(w []string) (string, string) {
		// w = words of the line after "access-list"
		if len(w) < 1 {
			w = []string{"X"}
		}
		return "access-list " + strings.Join(w, " "), "access-list $NAME " + strings.Join(w[1:], " ")
	}
	for i, l := range asaLines {
		if i >= n {
			break
		}
		w := strings.Split(l, " ")[1:]
		o, p := mkASA(w)
		one(true, o, p)
		for k := 3; k < len(w); k++ { // every truncation that still has "NAME extended x"
			o, p := mkASA(w[:k])
			one(true, o, p)
		}
		for j := 0; j < 3; j++ {
			m := append(append([]string{}, w[:2]...), mutateWords(c.rng, w[2:])...)
			if len(m) >= 3 {
				o, p := mkASA(m)
				one(true, o, p)
			}
		}
	}
	for i, l := range iosLines {
		if i >= n {
			break
		}
		w := strings.Fields(l)
		seq := ""
		if regexp.MustCompile(`^\d+$`).MatchString(w[0]) {
			seq = "$SEQ "
		}
		body := w
		if seq != "" {
			body = w[1:]
		}
		one(false, l, seq+strings.Join(body, " "))
		for k := 2; k < len(body); k++ {
			one(false, strings.Join(w[:len(w)-len(body)+k], " "), seq+strings.Join(body[:k], " "))
		}
		for j := 0; j < 2; j++ {
			m := append([]string{body[0]}, mutateWords(c.rng, body[1:])...)
			if len(m) >= 2 {
				one(false, strings.Join(m, " "), seq+strings.Join(m, " "))
			}
		}
	}
	// random token lists
	for i := 0; i < n; i++ {
		t := c.randTokens(1 + c.rng.Intn(9))
		o, p := mkASA(append([]string{"X", "extended", Pick(c.rng, []string{"permit", "deny"})}, t...))
		one(true, o, p)
		p2 := Pick(c.rng, []string{"permit ", "deny ", "$SEQ permit "}) + strings.Join(t, " ")
		one(false, "10 "+p2, p2)
	}
	one(true, "access-list X extended permit", "access-list $NAME extended permit")
	one(true, "access-list X extended  permit ip", "access-list $NAME extended  permit ip")
	one(true, "access-list X standard permit 10.1.1.1", "access-list $NAME standard permit 10.1.1.1")
}

func descrString(l []cisco.VerifC20Descr) string {
	var out []string
	for _, d := range l {
		var subs []string
		for _, s := range d.Sub {
			ig := ""
			if s.Ignore {
				ig = "!"
			}
			subs = append(subs, ig+strings.Join(s.Template, " "))
		}
		ig := "0"
		if d.Ignore {
			ig = "1"
		}
		out = append(out, d.Prefix+"\n"+strings.Join(d.Template, " ")+"\n"+ig+"\n"+strings.Join(subs, ";"))
	}
	return strings.Join(out, cRS)
}

func (c *corrCtx) runDescr() {
	c.check("descr", "descr"+cUS+"asa", true, func() string { return descrString(c.asaS.VerifC20CmdDescr()) },
		func(m string) string { return "ok:" + m })
	c.check("descr", "descr"+cUS+"ios", true, func() string { return descrString(c.iosS.VerifC20CmdDescr()) },
		func(m string) string { return "ok:" + m })
}

func (c *corrCtx) runMatch(lines []string, n int) {
	type tmpl struct {
		prefix string
		l      [][]string
		ign    []bool
		sub    bool
	}
	var tops, subs []tmpl
	for _, ds := range [][]cisco.VerifC20Descr{c.asaS.VerifC20CmdDescr(), c.iosS.VerifC20CmdDescr()} {
		byPrefix := map[string]*tmpl{}
		var order []string
		for _, d := range ds {
			t := byPrefix[d.Prefix]
			if t == nil {
				t = &tmpl{prefix: d.Prefix}
				byPrefix[d.Prefix] = t
				order = append(order, d.Prefix)
			}
			t.l = append(t.l, d.Template)
			t.ign = append(t.ign, d.Ignore)
			if len(d.Sub) > 0 {
				s := tmpl{sub: true}
				for _, sd := range d.Sub {
					s.l = append(s.l, sd.Template)
					s.ign = append(s.ign, sd.Ignore)
				}
				subs = append(subs, s)
			}
		}
		for _, p := range order {
			tops = append(tops, *byPrefix[p])
		}
	}
	one := func(t tmpl, words []string) {
		var ds []string
		for i, tl := range t.l {
			ig := "0"
			if t.ign[i] {
				ig = "1"
			}
			ds = append(ds, ig+cGS+strings.Join(tl, cGS))
		}
		req := strings.Join([]string{"match", t.prefix, strings.Join(words, cRS), strings.Join(ds, cRS)}, cUS)
		c.check("matchCmd", req, len(words) > 0, func() string {
			r := cisco.VerifC20MatchCmd(t.prefix, words, t.l, t.ign)
			if !r.Found {
				return "-"
			}
			return strings.Join([]string{fmt.Sprint(r.Idx), r.Orig, r.Parsed, r.Name, fmt.Sprint(r.Seq), strings.Join(r.Ref, cRS)}, cUS)
		}, nil)
	}
	cnt := 0
	for _, l := range lines {
		if cnt >= n {
			break
		}
		if strings.HasPrefix(l, " ") {
			w := strings.Fields(l)
			if len(w) == 0 {
				continue
			}
			for _, s := range subs {
				hit := false
				for _, tl := range s.l {
					hit = hit || len(tl) > 0 && (tl[0] == w[0] || tl[0] == "*" || tl[0] == "$SEQ")
				}
				if hit {
					one(s, w)
					one(s, mutateWords(c.rng, w))
					cnt += 2
				}
			}
		} else {
			t := strings.TrimRight(l, " \t")
			for _, tp := range tops {
				if strings.HasPrefix(t, tp.prefix+" ") || t == tp.prefix {
					w := strings.Split(strings.TrimPrefix(strings.TrimPrefix(t, tp.prefix), " "), " ")
					if t == tp.prefix {
						w = nil
					}
					one(tp, w)
					m := mutateWords(c.rng, w)
					one(tp, m)
					if len(m) > 1 && c.rng.Chance(30) {
						m2 := append([]string{}, m...)
						m2[c.rng.Intn(len(m2))] = "" // double blank
						one(tp, m2)
					}
					cnt += 2
				}
			}
		}
	}
	// quoting
	q := tmpl{l: [][]string{{"map-value", "memberOf", `"`, "$REF"}, {"banner", `"`}, {"*"}}, ign: []bool{false, false, true}}
	for _, w := range [][]string{{"map-value", "memberOf", `"CN=a`, `b"`, "G"}, {"map-value", "memberOf", "x", "G"}, {"map-value", "memberOf", `"x\"`, `y"`, "G"},
		{"map-value", "memberOf", `"CN=a`, "b"}, {"banner", `"`}, {"banner", `""`}, {"banner", `"a`, `b"`, "c"}, {"other", "x"}, {"map-value", "memberOf", `"`, `"`, "G"}} {
		one(q, w)
	}
}

func (c *corrCtx) runParse(bases []baseCase, n int) {
	type cfg struct{ model, fname, data string }
	var cfgs []cfg
	for _, b := range bases {
		if b.typ != "ASA" && b.typ != "IOS" {
			continue
		}
		names := make([]string, 0, len(b.files))
		for nme := range b.files {
			names = append(names, nme)
		}
		sort.Strings(names)
		for _, nme := range names {
			if isConfigFile(nme) && strings.TrimSpace(b.files[nme]) != "" && len(b.files[nme]) < 4000 {
				cfgs = append(cfgs, cfg{strings.ToLower(b.typ), filepath.Base(nme), b.files[nme]})
			}
		}
	}
	// the comparison of post-processing failures needs the set semantics: done in checkParse below
	cnt := 0
	for _, g := range cfgs {
		if cnt >= n {
			break
		}
		c.checkParse(g.model, g.fname, g.data)
		cnt++
		lines := strings.Split(g.data, "\n")
		for k := 0; k < 3 && cnt < n; k++ {
			li := c.rng.Intn(len(lines))
			if strings.TrimSpace(lines[li]) == "" {
				continue
			}
			ms := lineMutations(lines[li])
			if len(ms) == 0 {
				continue
			}
			m := Pick(c.rng, ms)
			var nl []string
			nl = append(nl, lines[:li]...)
			switch {
			case m.drop:
			case m.dup:
				nl = append(nl, lines[li], lines[li])
			default:
				nl = append(nl, m.text)
			}
			nl = append(nl, lines[li+1:]...)
			c.checkParse(g.model, g.fname, strings.Join(nl, "\n"))
			cnt++
		}
	}
	for _, d := range []string{"interface E0\n  !x\n nameif inside\n", "group-policy G attributes\n  webvpn\n vpn-filter value X\n",
		"interface E0\n   nameif a\n  shutdown\n", "interface E0\n nameif a\n    shutdown\n  x y\n", " x\ninterface E0\n\tnameif a\n",
		"[APPEND]\ninterface E0\n nameif a\n", "!c\n\n  \ninterface E0 \n nameif a \n", "aaa-server N protocol ldap\naaa-server N host\n",
		"aaa-server N protocol ldap\naaa-server N (inside) host 1.2.3.4 key\n ldap-attribute-map M\naaa-server N (x) host 5.6.7.8\n ldap-attribute-map M\nldap attribute-map M\n map-name memberOf Group-Policy\n",
		"ldap attribute-map M\n map-value memberOf \"CN=a b\n", "access-list X extended permit\n", "unknown cmd\n"} {
		c.checkParse("asa", "router", d)
		c.checkParse("asa", "router.raw", d)
	}
	// IOS IPv6 static routes are commands of the table since upstream 3341f0d (parsed, no longer skipped as unknown)
	for _, d := range []string{"ipv6 route 10::20:0/112 10::1:3\n", "ipv6 route vrf 013 10::30:0/112 10::3:3\nip route 10.0.0.0 255.0.0.0 10.1.1.1\n",
		"ipv6 route\n", "ipv6 route vrf\n", "ipv6 route vrf X\n", "ipv6 route 10::/64 10::1 5\nipv6 route 10::/64 10::1\n"} {
		c.checkParse("ios", "router", d)
		c.checkParse("ios", "router.raw", d)
	}
	// an ACL that starts with a remark or standard line and whose extended lines reference object-groups
	for _, d := range []string{
		"object-group network g1\n network-object host 10.1.1.1\naccess-list A remark first\naccess-list A extended permit ip object-group g1 any4\naccess-group A global\n",
		"access-list A remark first\naccess-list A extended permit ip object-group g1 object-group g2\n",
		"object-group network g1\n network-object host 10.1.1.1\naccess-list S standard permit 10.1.1.0 255.255.255.0\naccess-list S extended permit ip object-group g1 any4\n",
		"object-group network g1\n network-object host 10.1.1.1\naccess-list A remark r\naccess-list A remark r2\naccess-list A extended permit tcp object-group g1 any4 eq 80\naccess-list B remark r\naccess-list B extended deny ip any4 object-group g1\n"} {
		c.checkParse("asa", "router", d)
		c.checkParse("asa", "router.raw", d)
	}
	for _, d := range []string{"ip access-list extended A\n remark first\n permit ip object-group g1 any\n",
		"object-group network g1\n host 10.1.1.1\nip access-list extended A\n remark first\n permit ip object-group g1 any\n"} {
		c.checkParse("ios", "router", d)
		c.checkParse("ios", "router.raw", d)
	}
	for _, w := range []string{" ", "   ", "\t", " \t ", "\r", "  \r"} {
		for _, d := range []string{"interface E0\n@\n nameif inside\n", "@\ninterface E0\n nameif inside\n@\n shutdown\n@", "foo\n@\n x\n",
			"access-list A extended permit ip any4 any4@\n@\naccess-group A global@\n", "interface E0@\n  nameif a@\n@\n shutdown\n"} {
			c.checkParse("asa", "router", strings.ReplaceAll(d, "@", w))
			c.checkParse("asa", "router.raw", strings.ReplaceAll(d, "@", w))
			c.checkParse("ios", "router", strings.ReplaceAll(d, "@", w))
		}
	}
	for _, d := range []string{"ip access-list extended A\n 10 permit tcp any host 10.1.1.1 eq 80\n 20 deny ip any any log\n permit object-group\n",
		"ip access-list extended A\n permit ip host\n", "interface E0\n ip address 10.1.1.1 255.255.255.0\n  sub sub\n shutdown\n"} {
		c.checkParse("ios", "router", d)
	}
}

// checkParse compares ParseConfig (loop, post-processing failures, dump of original lines).
func (c *corrCtx) checkParse(model, fname, data string) {
	if !clean(data) {
		c.res.Count("corr-skipped-nonascii:parse")
		return
	}
	isRaw := "0"
	if filepath.Ext(fname) == ".raw" {
		isRaw = "1"
	}
	req := strings.Join([]string{"parse", "1", model, isRaw, strings.ReplaceAll(data, "\n", cGS)}, cUS)
	ans := c.drv.Ask(req)
	m := canonModel(ans)
	inputLines := map[string]bool{}
	for _, l := range strings.Split(data, "\n") {
		inputLines[strings.TrimRight(l, " \t\r\v\f")] = true
	}
	c.ec.take()
	impl := func() (res string) {
		defer func() {
			if r := recover(); r != nil {
				if fmt.Sprintf("%T", r) == "errlog.bailout" {
					msg := strings.TrimSuffix(c.ec.take(), "\n")
					msg = strings.ReplaceAll(msg, "\nERROR>>> ", "\n")
					res = "diag:" + strings.TrimPrefix(msg, "ERROR>>> ")
					return
				}
				res = "panic:" + panicKind(fmt.Sprint(r))
			}
		}()
		var st *cisco.State
		if model == "asa" {
			st = &asa.Setup().State
		} else {
			st = &ios.Setup().State
		}
		dump, has, err := st.VerifC20Parse([]byte(data), fname)
		if !has {
			return "diag:" + err.Error()
		}
		var keep []string
		for _, e := range dump {
			f := strings.SplitN(e, "|", 5)
			if !inputLines[strings.TrimPrefix(f[3], "+")] {
				continue
			}
			keep = append(keep, f[0]+"|"+f[1]+"|"+f[3]+"|"+f[4])
		}
		sort.Strings(keep)
		ref := "ok"
		if err != nil {
			ref = "diag:" + err.Error() // checkReferences
		}
		return "ok:" + strings.Join(keep, cRS) + cUS + ref
	}()
	c.res.Eval("parse\n"+req, strings.Count(data, "\n") > 1)
	if strings.Contains(impl, cUS+"diag:") {
		c.res.Count("corr-outcome:parse-" + model + ":checkReferences-diag")
	}
	c.res.TracesVsImpl++
	c.res.Count("corr:parse-" + model)
	c.res.Count("corr-outcome:parse-" + model + ":" + strings.SplitN(impl, ":", 2)[0])
	okAgree := false
	modelShown := m
	if strings.HasPrefix(m, "ok:") {
		parts := strings.SplitN(strings.TrimPrefix(m, "ok:"), cUS, 3)
		if parts[0] != "" {
			// post-processing failures: any of them may be the one that is reported
			for _, f := range strings.Split(parts[0], cRS) {
				if canonModel(f) == impl {
					okAgree = true
				}
			}
			modelShown = "one of: " + strings.ReplaceAll(parts[0], cRS, " || ")
		} else {
			d := []string{}
			if len(parts) > 1 && parts[1] != "" {
				d = strings.Split(parts[1], cRS)
			}
			sort.Strings(d)
			ref := "ok"
			if len(parts) > 2 {
				ref = canonModel(parts[2])
			}
			modelShown = "ok:" + strings.Join(d, cRS) + cUS + ref
			okAgree = modelShown == impl
		}
	} else {
		okAgree = m == impl
	}
	if !okAgree {
		c.res.Disagree("parse-"+model, corrCase{Stream: "parse", Req: data, Extra: fname}, impl, modelShown)
	}
}

func (c *corrCtx) runAAA(lines []string, n int) {
	var cand [][]string
	for _, l := range lines {
		if strings.HasPrefix(l, "aaa-server ") {
			cand = append(cand, strings.Split(strings.TrimRight(l, " "), " ")[2:])
		}
	}
	cand = append(cand, []string{"host"}, []string{"(inside)", "host"}, []string{"(inside)", "host", "1.2.3.4", "key", "k"}, []string{"host", "1.2.3.4"},
		[]string{"", "host", "1.2.3.4"}, []string{"(x)"}, []string{"(", "host"}, []string{"protocol", "ldap"}, []string{"host", "", "x"}, []string{"x"}, []string{"(x", "y)", "host", "z"})
	cnt := 0
	one := func(rest []string) {
		if len(rest) == 0 || rest[len(rest)-1] == "" {
			return
		}
		parsed := "aaa-server $NAME " + strings.Join(rest, " ")
		orig := "aaa-server N " + strings.Join(rest, " ")
		req := strings.Join([]string{"aaa", "1", orig, parsed}, cUS)
		c.check("aaa-server", req, true, func() string {
			r := cisco.VerifC20PostprocessParsed("aaa-server", []string{"N", "N"}, []string{"aaa-server $NAME protocol ldap", parsed})
			// second entry: N|parsed|refs ; the hook used parsed as orig
			p := strings.SplitN(r[1], "|", 3)[1]
			if p == parsed && !(len(strings.Fields(parsed)) >= 3 && hostLine(parsed)) {
				return "-"
			}
			return p
		}, func(m string) string {
			// the hook's orig is the parsed text
			return strings.Replace(m, "Incomplete command: "+orig, "Incomplete command: "+parsed, 1)
		})
		cnt++
	}
	for _, r := range cand {
		if cnt > n {
			break
		}
		one(r)
		one(mutateWords(c.rng, r))
	}
}

// hostLine: would the aaa-server normalisation rewrite this line?
func hostLine(parsed string) bool {
	w := strings.Fields(parsed)
	if len(w) < 3 {
		return false
	}
	if w[2][0] == '(' {
		copy(w[2:], w[3:])
	}
	return w[2] == "host"
}

func (c *corrCtx) runRoutes(lines []string, n int) {
	var cand []string
	for _, l := range lines {
		t := strings.TrimRight(l, " ")
		if strings.HasPrefix(t, "route ") || strings.HasPrefix(t, "ip route ") || strings.HasPrefix(t, "ipv6 route ") {
			cand = append(cand, t)
		}
	}
	cand = append(cand, "route inside", "route inside 10.0.0.0", "ip route vrf", "ip route vrf X", "ip route vrf X 10.0.0.0", "ip route vrf X 10.0.0.0 255.0.0.0",
		"ip route vrf X 10.0.0.0 255.0.0.0 1.1.1.1", "ipv6 route inside a b", "ipv6 route vrf X 2001::/64 2001::1", "ipv6 route inside ::/0 2001::1 5",
		"route inside 10.0.0.0 255.0.0.0", "route  inside 10.0.0.0 255.0.0.0 1.1.1.1", "ip route 10.0.0.0 255.0.0.0 1.1.1.1", "ip route x y z", "ipv6 route a/b")
	maskSize := func(a, b string) string {
		ip, err1 := netip.ParseAddr(a)
		mask, err2 := netip.ParseAddr(b)
		var ipp netip.Prefix
		if err1 == nil && err2 == nil {
			size, _ := net.IPMask(mask.AsSlice()).Size()
			ipp = netip.PrefixFrom(ip, size)
		}
		return ipp.String()
	}
	one := func(line string) {
		prefix := "route"
		if strings.HasPrefix(line, "ip route") {
			prefix = "ip route"
		} else if strings.HasPrefix(line, "ipv6 route") {
			prefix = "ipv6 route"
		}
		v6 := "0"
		if prefix == "ipv6 route" {
			v6 = "1"
		}
		req := strings.Join([]string{"route", "1", v6, line, line}, cUS)
		c.check("dstOfRoute", req, len(strings.Fields(line)) > 2, func() string {
			vrf, dst := cisco.VerifC20DstOfRoute(prefix, line, line)
			return vrf + cUS + dst
		}, func(m string) string {
			if !strings.HasPrefix(m, "ok:") {
				return m
			}
			f := strings.Split(strings.TrimPrefix(m, "ok:"), cUS)
			dst := ""
			if v6 == "1" {
				p, _ := netip.ParsePrefix(f[1])
				dst = p.String()
			} else {
				dst = maskSize(f[1], f[2])
			}
			return "ok:" + f[0] + cUS + dst
		})
		if prefix == "ip route" && len(strings.Fields(line)) >= 3 {
			// routeVRF through alignVRFs: the device routes that survive are those of the VRF of the Netspoc route
			req := strings.Join([]string{"vrf", "1", line, line}, cUS)
			c.check("routeVRF", req, true, func() string {
				pred := strings.TrimPrefix(canonModel(c.drv.Ask(req)), "ok:")
				a := []string{"ip route vrf Vother 10.9.9.0 255.255.255.0 1.1.1.1", "ip route 10.8.8.0 255.255.255.0 1.1.1.1"}
				if pred != "" && pred != "Vother" && !strings.ContainsAny(pred, " \t:") {
					a = append(a, "ip route vrf "+pred+" 10.7.7.0 255.255.255.0 1.1.1.1")
				}
				left := cisco.VerifC20AlignVRFs(a, []string{line})
				// which VRF survived?
				got := "?"
				for _, l := range left {
					w := strings.Fields(l)
					v := ""
					if w[2] == "vrf" {
						v = w[3]
					}
					if got == "?" {
						got = v
					} else if got != v {
						got = "several"
					}
				}
				if len(left) == 0 {
					got = pred // a VRF name the probe list cannot carry (contains blanks …): nothing to compare
				}
				return got
			}, nil)
		}
	}
	// stripMetric (postprocessParsed on prefix route / ipv6 route): six words lose the last one unless word 3 is "vrf"
	metric := func(line string) {
		prefix := "route"
		if strings.HasPrefix(line, "ipv6 ") {
			prefix = "ipv6 route"
		}
		if strings.Contains(line, "|") || strings.HasPrefix(line, "ip ") {
			return
		}
		req := strings.Join([]string{"metric", line}, cUS)
		c.check("stripMetric", req, len(strings.Split(line, " ")) >= 5, func() string {
			r := cisco.VerifC20PostprocessParsed(prefix, []string{"n"}, []string{line})
			return strings.SplitN(r[0], "|", 3)[1]
		}, nil)
	}
	for _, l := range []string{"route inside 10.0.0.0 255.0.0.0 1.1.1.1 5", "route inside 10.0.0.0 255.0.0.0 1.1.1.1", "ipv6 route inside ::/0 2001::1 5",
		"ipv6 route vrf X 2001::/64 2001::1", "ipv6 route vrf X 2001::/64 2001::1 5", "ipv6 route inside vrf ::/0 2001::1", "route vrf vrf vrf vrf vrf",
		"ipv6 route  vrf X 2001::/64", "a b c d e f", "a b vrf d e f", "a b  d e f", "a b", "", "a b c d e f g"} {
		metric(l)
	}
	cnt := 0
	for _, l := range cand {
		if cnt > n {
			break
		}
		one(l)
		metric(l)
		metric(l + " 7")
		w := strings.Split(l, " ")
		for k := 1; k < len(w); k++ {
			if w[k-1] != "" {
				one(strings.Join(w[:k], " "))
			}
		}
		m := mutateWords(c.rng, w)
		if len(m) > 0 && m[len(m)-1] != "" && (m[0] == "route" || m[0] == "ip" || m[0] == "ipv6") {
			one(strings.Join(m, " "))
		}
		cnt++
	}
}

func (c *corrCtx) runLinux(bases []baseCase, n int) {
	var cfgs []string
	for _, b := range bases {
		if b.typ != "Linux" {
			continue
		}
		for nme, t := range b.files {
			if isConfigFile(nme) && strings.TrimSpace(t) != "" {
				cfgs = append(cfgs, t)
			}
		}
	}
	sort.Strings(cfgs)
	drop := map[string]bool{"-m": true, "--set-xmark": true, "--set-mark": true}
	canonKeys := func(s string) string {
		// rule|app|orig|k1,k2 : sort keys, drop the ones normalizeIPTables renames or deletes
		lines := strings.Split(s, "\n")
		for i, l := range lines {
			if strings.HasPrefix(l, "rule|") {
				j := strings.LastIndex(l, "|")
				var ks []string
				for _, k := range strings.Split(l[j+1:], ",") {
					if k != "" && !drop[k] {
						ks = append(ks, k)
					}
				}
				sort.Strings(ks)
				lines[i] = l[:j+1] + strings.Join(ks, ",")
			}
		}
		return strings.Join(lines, "\n")
	}
	canonDump := func(entries []string) string {
		var routes, tabs []string
		for _, e := range entries {
			if strings.HasPrefix(e, "route|") {
				routes = append(routes, e)
			} else {
				// table|name\nchain…\nrule… ; sort chains (with their rules) inside
				lines := strings.Split(canonKeys(e), "\n")
				head := lines[0]
				var chains []string
				for _, l := range lines[1:] {
					if strings.HasPrefix(l, "chain|") {
						chains = append(chains, l)
					} else if len(chains) > 0 {
						chains[len(chains)-1] += "\n" + l
					}
				}
				sort.Strings(chains)
				tabs = append(tabs, head+"\n"+strings.Join(chains, "\n"))
			}
		}
		sort.Strings(tabs)
		return strings.Join(append(routes, tabs...), cUS)
	}
	one := func(data string) {
		req := "linux" + cUS + strings.ReplaceAll(data, "\n", cGS)
		c.check("linux-parse", req, strings.Count(data, "\n") > 1, func() string {
			return canonDump(linux.VerifC20Parse([]byte(data)))
		}, func(m string) string {
			if !strings.HasPrefix(m, "ok:") {
				return m
			}
			body := strings.TrimPrefix(m, "ok:")
			if body == "" {
				return "ok:"
			}
			// the driver writes rules behind their chain separated by RS
			return "ok:" + canonDump(strings.Split(strings.ReplaceAll(body, cRS, "\n"), cUS))
		})
	}
	cnt := 0
	for _, g := range cfgs {
		if cnt > n {
			break
		}
		one(g)
		cnt++
		lines := strings.Split(g, "\n")
		for k := 0; k < 6; k++ {
			li := c.rng.Intn(len(lines))
			ms := lineMutations(lines[li])
			if len(ms) == 0 {
				continue
			}
			m := Pick(c.rng, ms)
			nl := append([]string{}, lines...)
			switch {
			case m.drop:
				nl = append(nl[:li], nl[li+1:]...)
			case m.dup:
			default:
				nl[li] = m.text
			}
			one(strings.Join(nl, "\n"))
			cnt++
		}
	}
	for _, d := range []string{"*filter\n:INPUT DROP\n-A INPUT !\n", "*filter\n:INPUT DROP\n-A INPUT ! -s 1.1.1.1 ! -p tcp ! --syn -j ACCEPT\n", "-A INPUT\n", ":INPUT\n",
		"*filter\n:INPUT\n-A INPUT -j DROP\n", "*filter\n:INPUT - [0:0]\n-A\n", "*filter\n:INPUT - x\n-D INPUT\n", "ip route add\n", "ip route add 10.0.0.0/8 via\n",
		"ip route add default via 1.1.1.1 dev eth0\n", "ip route add 10.0.0.0/x via 1.1.1.1\n", "ip route add 10.1.1.1 via 1.1.1.1 proto 7\n", "ip route add 10.1.1.0/24 dev eth0 scope link\n",
		"ip route del 1.1.1.1\n", "ip routex\n", "*a\n*a\n:c p\n", "*filter\n:I A\n-A I --tcp-flags ! FIN,SYN,RST,ACK SYN\n", "*f\n:I A\n[APPEND]\n-A I -j X\nCOMMIT\nfoo\n",
		"*f\n:I A\n-A I -m state --state RELATED,ESTABLISHED -j ACCEPT -x\n", "ip route add 10.0.0.0/99999999999999999999 via 1.1.1.1\n", "ip route add 10.0.0.0/-5 via 1.1.1.1 dev\n"} {
		one(d)
	}
}

// ---------------------------------------------------------------- NSX / PAN-OS shapes

type nsxShape struct {
	pols, grps, srvs []string // encoded for the driver
	json             string
}

func (c *corrCtx) genNsx(raw bool) nsxShape {
	r := c.rng
	var sh nsxShape
	var jp, jg, js []string
	id := func(kind string, i int) string {
		l := []string{"Netspoc-" + kind + fmt.Sprint(i), "Netspoc-raw-" + kind + fmt.Sprint(i), "x" + fmt.Sprint(i), "r" + fmt.Sprint(i), "Netspoc-g" + fmt.Sprint(i)}
		if !raw || r.Chance(70) {
			return l[r.Intn(2)]
		}
		return Pick(r, l)
	}
	cnt := func() int { // mostly 1
		if r.Chance(85) {
			return 1
		}
		return r.Intn(3)
	}
	for i := 0; i < r.Intn(3); i++ {
		if r.Chance(6) {
			sh.pols = append(sh.pols, "-")
			jp = append(jp, "null")
			continue
		}
		pid := id("v", i)
		enc := []string{pid}
		var jr []string
		for j := 0; j < r.Intn(4); j++ {
			if r.Chance(5) {
				enc = append(enc, "-")
				jr = append(jr, "null")
				continue
			}
			rid := Pick(r, []string{"r", "x", "Netspoc"}) + fmt.Sprint(j)
			a, b, d := cnt(), cnt(), cnt()
			enc = append(enc, fmt.Sprintf("%s,%d,%d,%d", rid, a, b, d))
			list := func(n int) string {
				var l []string
				for k := 0; k < n; k++ {
					l = append(l, `"ANY"`)
				}
				return "[" + strings.Join(l, ",") + "]"
			}
			jr = append(jr, fmt.Sprintf(`{"id":"%s","source_groups":%s,"destination_groups":%s,"services":%s}`, rid, list(a), list(b), list(d)))
		}
		sh.pols = append(sh.pols, strings.Join(enc, cGS))
		jp = append(jp, fmt.Sprintf(`{"id":"%s","rules":[%s]}`, pid, strings.Join(jr, ",")))
	}
	for i := 0; i < r.Intn(4); i++ {
		if r.Chance(6) {
			sh.grps = append(sh.grps, "-")
			jg = append(jg, "null")
			continue
		}
		gid := id("grp", i)
		enc := []string{gid}
		var je []string
		for j := 0; j < cnt(); j++ {
			if r.Chance(6) {
				enc = append(enc, "-")
				je = append(je, "null")
				continue
			}
			var ips, jips []string
			for k := 0; k < r.Intn(3); k++ {
				ips = append(ips, fmt.Sprintf("10.1.%d.%d", j, k))
				jips = append(jips, fmt.Sprintf(`"10.1.%d.%d"`, j, k))
			}
			enc = append(enc, strings.Join(ips, ","))
			je = append(je, fmt.Sprintf(`{"ip_addresses":[%s]}`, strings.Join(jips, ",")))
		}
		sh.grps = append(sh.grps, strings.Join(enc, cGS))
		jg = append(jg, fmt.Sprintf(`{"id":"%s","expression":[%s]}`, gid, strings.Join(je, ",")))
	}
	for i := 0; i < r.Intn(3); i++ {
		if r.Chance(6) {
			sh.srvs = append(sh.srvs, "-")
			js = append(js, "null")
			continue
		}
		sid := id("s", i)
		sh.srvs = append(sh.srvs, sid)
		js = append(js, fmt.Sprintf(`{"id":"%s","service_entries":[]}`, sid))
	}
	sh.json = fmt.Sprintf(`{"policies":[%s],"groups":[%s],"services":[%s]}`, strings.Join(jp, ","), strings.Join(jg, ","), strings.Join(js, ","))
	return sh
}

func (c *corrCtx) runNsx(n int) {
	for i := 0; i < n; i++ {
		raw := c.rng.Chance(40)
		sh := c.genNsx(raw)
		rw, fname := "0", "router"
		if raw {
			rw, fname = "1", "router.raw"
		}
		req := strings.Join([]string{"nsx", "1", rw, strings.Join(sh.pols, cRS), strings.Join(sh.grps, cRS), strings.Join(sh.srvs, cRS)}, cUS)
		nulls := strings.Contains(sh.json, "null")
		c.check("nsx-validate", req, len(sh.pols)+len(sh.grps)+len(sh.srvs) > 0, func() string {
			if msg := nsx.VerifC20Parse([]byte(sh.json), fname); msg != "" {
				return "DIAG:" + msg
			}
			return ""
		}, nil)
		if nulls {
			c.res.Count("corr-nsx-with-null")
		}
	}
	// accessor paths of the diff: empty ip_addresses in sortRules, device-only group in equalizeGroups
	g := "/infra/domains/default/groups/"
	grp := func(id, ips string) string {
		return `{"id":"` + id + `","expression":[{"id":"id","resource_type":"IPAddressExpression","ip_addresses":[` + ips + `]}]}`
	}
	rule := func(id, src string) string {
		return `{"id":"` + id + `","scope":["s"],"direction":"OUT","sequence_number":20,"action":"ALLOW","source_groups":["` + src + `"],"destination_groups":["10.1.2.30"],"services":["ANY"]}`
	}
	conf := func(groups, rules string) string {
		return `{"groups":[` + groups + `],"policies":[{"id":"Netspoc-v1","rules":[` + rules + `]}],"services":[]}`
	}
	for _, ips := range []string{``, `"10.1.1.1"`, `"10.1.1.1","10.1.1.2"`} {
		enc := "Netspoc-g1" + cGS + strings.ReplaceAll(strings.ReplaceAll(ips, `"`, ""), " ", "")
		req := strings.Join([]string{"nsxfirst", "1", enc}, cUS)
		c.check("nsx-sortRules-firstAddr", req, true, func() string {
			cf := conf(grp("Netspoc-g1", ips), rule("r1", g+"Netspoc-g1")+","+rule("r2", g+"Netspoc-g1"))
			if _, msg := nsx.VerifC20Diff([]byte(cf), []byte(cf)); msg != "" {
				return "ERR " + msg
			}
			// the model's answer is the first address; the real code only has to get through sortRules
			return strings.TrimPrefix(canonModel(c.drv.Ask(req)), "ok:")
		}, nil)
	}
	for _, defined := range []bool{true, false} {
		gb := "-"
		spocGroups := ""
		if defined {
			gb = "Netspoc-g1" + cGS + "10.1.1.1"
			spocGroups = grp("Netspoc-g1", `"10.1.1.1"`)
		}
		req := strings.Join([]string{"nsxeq", "1", "r1", g + "Netspoc-g1", "Netspoc-g1" + cGS + "10.1.1.1", gb}, cUS)
		c.check("nsx-equalizeGroups-head", req, true, func() string {
			dev := conf(grp("Netspoc-g1", `"10.1.1.1"`), rule("d1", g+"Netspoc-g1"))
			spoc := conf(spocGroups, rule("r1", g+"Netspoc-g1"))
			if _, msg := nsx.VerifC20Diff([]byte(dev), []byte(spoc)); msg != "" {
				return "ERR " + msg
			}
			return "1"
		}, nil)
	}
}

func (c *corrCtx) runPanos(n int) {
	gen := func() (enc, xml string) {
		r := c.rng
		switch r.Intn(6) {
		case 0:
			return "nil", "<config></config>"
		case 1:
			return "", "<config><devices></devices></config>"
		}
		var encD, xmlD []string
		for i := 0; i < 1+r.Intn(2); i++ {
			name := Pick(r, []string{"", "dev1", "dev1", "dev2"})
			e := []string{"@" + name}
			var xv []string
			for j := 0; j < r.Intn(3); j++ {
				vn := Pick(r, []string{"vsys1", "vsys2", "vsys1"})
				nr := r.Intn(3)
				e = append(e, fmt.Sprintf("%s=%d", vn, nr))
				rules := ""
				for k := 0; k < nr; k++ {
					rules += fmt.Sprintf(`<entry name="x%d%d"><action>allow</action></entry>`, j, k)
				}
				xv = append(xv, fmt.Sprintf(`<entry name="%s"><rulebase><security><rules>%s</rules></security></rulebase></entry>`, vn, rules))
			}
			encD = append(encD, strings.Join(e, cGS))
			na := ""
			if name != "" {
				na = ` name="` + name + `"`
			}
			xmlD = append(xmlD, fmt.Sprintf(`<entry%s><vsys>%s</vsys></entry>`, na, strings.Join(xv, "")))
		}
		return strings.Join(encD, cRS), "<config><devices>" + strings.Join(xmlD, "") + "</devices></config>"
	}
	for i := 0; i < n; i++ {
		e1, x1 := gen()
		e2, x2 := gen()
		req := strings.Join([]string{"panos", "1", e1, e2}, cUS)
		c.check("panos-mergeSpoc", req, e1 != "nil" || e2 != "nil", func() string { return panos.VerifC20Merge([]byte(x1), []byte(x2)) }, nil)
	}
}

func (c *corrCtx) runInfo() {
	contents := map[string]string{"c101": `{"model":"IOS","ip_list":["1.2.3.4"]}`, "c100": `{"model":"IOS"}`, "c110": "null", "c000": "NO_JSON", "c001": "NO_JSON"}
	items := []string{"n", "c101", "c100", "c110", "c000"}
	for _, a := range items {
		for _, b := range items {
			dir, _ := os.MkdirTemp("", "c20info")
			os.MkdirAll(filepath.Join(dir, "ipv6"), 0755)
			if a != "n" {
				os.WriteFile(filepath.Join(dir, "router.info"), []byte(contents[a]), 0644)
			}
			if b != "n" {
				os.WriteFile(filepath.Join(dir, "ipv6", "router.info"), []byte(contents[b]), 0644)
			}
			req := strings.Join([]string{"info", "1", a + cRS + b}, cUS)
			c.check("LoadInfoFile", req, a != "n" || b != "n", func() string {
				info, _ := codefiles.LoadInfoFile(filepath.Join(dir, "router"))
				if len(info.IPList) > 0 {
					return "1"
				}
				return "0"
			}, nil)
			os.RemoveAll(dir)
		}
	}
}

// ---------------------------------------------------------------- round 3: banner, header, merged ACL order, references

func (c *corrCtx) runBanner(lines []string, n int) {
	one := func(stream, op, data string, real func() string) {
		req := op + cUS + strings.ReplaceAll(data, "\n", cGS)
		c.check(stream, req, strings.Contains(data, "\n"), real, nil)
	}
	banner := func(data string) {
		one("removeBanner", "banner", data, func() string { return string(ios.VerifC20RemoveBanner([]byte(data))) })
	}
	header := func(data string) {
		one("removeHeader", "nsxheader", data, func() string { return string(nsx.VerifC20RemoveHeader([]byte(data))) })
	}
	fixed := []string{"", "\n", "a", "a\n", "banner motd ^CC\nxx\n^C\nb\n", "a\nbanner motd ^CC\nxx\n^C\nb", "banner  motd ^CC\nx\n", "banner motd  ^C\nx\n^\ny\n",
		"banner motd \nx\n", "banner motd  x\nq\n y\nz\n", "banner motd x\nq\n", "banner motd ^C\n", "banner motd ^CC", "bannerx motd ^CC\nq\n", "banner\tmotd\t\t# \nq\n#\nr\n",
		"banner exec ^C\nq\n^C more\nrest\nbanner login #x\n#\nend\n", "banner motd ^CC\nnever closed\nmore\n", "x\nbanner motd ##\n#\n", "banner motd \r\nq\n\r\nz\n",
		"banner a  \n"}
	words := []string{"banner", "motd", "exec", "^C", "^CC", "#", "##", "x", "", " ", "  ", "\t", "^", "interface E0", " ip address 1.1.1.1", "!", "^C x", "banner motd ^CC"}
	for _, d := range fixed {
		banner(d)
	}
	for i := 0; i < n; i++ {
		var ls []string
		for j := 0; j < 1+c.rng.Intn(7); j++ {
			var w []string
			for k := 0; k < 1+c.rng.Intn(4); k++ {
				w = append(w, Pick(c.rng, words))
			}
			ls = append(ls, strings.Join(w, Pick(c.rng, []string{" ", " ", "  ", "\t"})))
		}
		d := strings.Join(ls, "\n")
		if c.rng.Chance(70) {
			d += "\n"
		}
		banner(d)
	}
	// configuration lines of the IOS tests with a banner in front / inside
	for i, l := range lines {
		if i >= n {
			break
		}
		banner("banner motd ^C\n" + l + "\n^C\n" + l + "\n")
	}
	for _, d := range []string{"", "#", "# x", "# x\n", "# x\n# y\n{}", "{}", "#\n#\n#", "x#\n", "\n# x\n{}", "# x\n\n# y\n{}"} {
		header(d)
	}
	for i := 0; i < n/2; i++ {
		var ls []string
		for j := 0; j < c.rng.Intn(5); j++ {
			ls = append(ls, Pick(c.rng, []string{"# c", "#", "{}", "", "x", "#{\"a\":1}"}))
		}
		d := strings.Join(ls, "\n")
		if c.rng.Chance(50) {
			d += "\n"
		}
		header(d)
	}
}

// runMergeACL: merged order of ACL lines (mergeASAACLs / mergeIOSACLs) for generated Netspoc and raw parts.
func (c *corrCtx) runMergeACL(n int) {
	asaLines := []string{"permit ip any4 any4", "deny ip any4 any4", "permit tcp any4 host 10.1.1.1 eq 80", "deny ip host 10.1.1.9 any4",
		"permit udp any4 any4 eq 53", "deny ip any6 any6", "permit icmp any4 any4", "deny tcp any4 any4"}
	iosLines := []string{"permit ip any any", "deny ip any any", "permit tcp any host 10.1.1.1 eq 80", "deny ip host 10.1.1.9 any", "permit udp any any eq 53",
		"deny tcp any any", "remark x", "permit 50 any any"}
	enc := func(app bool, orig, parsed string) string {
		a := "0"
		if app {
			a = "1"
		}
		return a + cGS + orig + cGS + parsed
	}
	for i := 0; i < n; i++ {
		isASA := c.rng.Bool()
		pick := func(max int) []string {
			var l []string
			pool := iosLines
			if isASA {
				pool = asaLines
			}
			seen := map[string]bool{}
			for j := 0; j < c.rng.Intn(max+1); j++ {
				x := Pick(c.rng, pool)
				if !seen[x] {
					seen[x] = true
					l = append(l, x)
				}
			}
			return l
		}
		a := pick(4)
		pre := pick(3)
		app := pick(3)
		twice := !isASA && c.rng.Chance(25) // the same ACL twice in the raw file (IOS only)
		if isASA {
			var spoc, raw, encA, encB []string
			for _, l := range a {
				spoc = append(spoc, "access-list A extended "+l)
				encA = append(encA, enc(false, "access-list A extended "+l, "access-list $NAME extended "+l))
			}
			for _, l := range pre {
				raw = append(raw, "access-list A extended "+l)
				encB = append(encB, enc(false, "access-list A extended "+l, "access-list $NAME extended "+l))
			}
			if len(app) > 0 {
				raw = append(raw, "[APPEND]")
			}
			for _, l := range app {
				raw = append(raw, "access-list A extended "+l)
				encB = append(encB, enc(true, "access-list A extended "+l, "access-list $NAME extended "+l))
			}
			if len(encB) == 0 {
				continue
			}
			spoc = append(spoc, "access-group A global")
			// access-group in front of [APPEND]: the anchor itself is not appended
			rawText := "access-group A global\n" + strings.Join(raw, "\n") + "\n"
			spocText := strings.Join(spoc, "\n") + "\n"
			req := strings.Join([]string{"mergeasa", strings.Join(encA, cRS), strings.Join(encB, cRS)}, cUS)
			c.check("mergeASAACLs", req, len(app) > 0, func() string {
				dump, err := (&asa.Setup().State).VerifC20MergeACL([]byte(spocText), []byte(rawText), "router.raw")
				if err != nil {
					return "DIAG:" + err.Error()
				}
				for _, e := range dump {
					if strings.HasPrefix(e, "A|") {
						return strings.Join(strings.Split(e, "|")[1:], cRS)
					}
				}
				return ""
			}, nil)
		} else {
			var spoc, encA []string
			spoc = append(spoc, "ip access-list extended A")
			for _, l := range a {
				spoc = append(spoc, " "+l)
				encA = append(encA, enc(false, l, l))
			}
			mkRaw := func(pre, app []string) (string, string) {
				raw := []string{"ip access-list extended A"}
				var e []string
				for _, l := range pre {
					raw = append(raw, " "+l)
					e = append(e, enc(false, l, l))
				}
				if len(app) > 0 {
					raw = append(raw, "[APPEND]")
				}
				for _, l := range app {
					raw = append(raw, " "+l)
					e = append(e, enc(true, l, l))
				}
				return strings.Join(raw, "\n") + "\n", strings.Join(e, cRS)
			}
			// the interface (anchor) first, so that [APPEND] of the ACL block does not mark it
			r1, e1 := mkRaw(pre, app)
			rawText := "interface E0\n ip access-group A in\n" + r1
			encB := e1
			if twice {
				// a second block of the same ACL behind [APPEND]: every line of it is appended
				r2, _ := mkRaw(nil, nil)
				_ = r2
				var e []string
				raw2 := []string{"ip access-list extended A"}
				for _, l := range pick(2) {
					raw2 = append(raw2, " "+l)
					e = append(e, enc(len(app) > 0, l, l))
				}
				rawText += strings.Join(raw2, "\n") + "\n"
				encB += "\x1c" + strings.Join(e, cRS)
			}
			spocText := strings.Join(spoc, "\n") + "\ninterface E0\n ip access-group A in\n"
			req := strings.Join([]string{"mergeios", strings.Join(encA, cRS), encB}, cUS)
			c.check("mergeIOSACLs", req, len(app) > 0, func() string {
				dump, err := (&ios.Setup().State).VerifC20MergeACL([]byte(spocText), []byte(rawText), "router.raw")
				if err != nil {
					return "DIAG:" + err.Error()
				}
				for _, e := range dump {
					if strings.HasPrefix(e, "A|") || e == "A" {
						return strings.Join(strings.Split(e, "|")[1:], cRS)
					}
				}
				return ""
			}, nil)
		}
	}
}

// runRefs: configurations with references (known, unknown, default objects, too many), for checkReferences.
func (c *corrCtx) runRefs(n int) {
	names := []string{"G1", "G2", "X", "DfltGrpPolicy", "DefaultL2LGroup", "A"}
	for i := 0; i < n; i++ {
		var ls []string
		model := "asa"
		if c.rng.Chance(30) {
			model = "ios"
		}
		if model == "asa" {
			for j := 0; j < 1+c.rng.Intn(4); j++ {
				switch c.rng.Intn(9) {
				case 0:
					ls = append(ls, "object-group network "+Pick(c.rng, names), " network-object host 10.1.1.1")
				case 1:
					ls = append(ls, "access-list "+Pick(c.rng, names)+" extended permit ip object-group "+Pick(c.rng, names)+" any4")
				case 2:
					ls = append(ls, "access-list "+Pick(c.rng, names)+" extended permit tcp object-group "+Pick(c.rng, names)+" object-group "+Pick(c.rng, names)+" eq 80")
				case 3:
					ls = append(ls, "access-group "+Pick(c.rng, names)+" global")
				case 4:
					ls = append(ls, "tunnel-group "+Pick(c.rng, names)+" general-attributes", " default-group-policy "+Pick(c.rng, names))
				case 5:
					ls = append(ls, "group-policy "+Pick(c.rng, names)+" internal")
				case 6:
					k := 1 + c.rng.Intn(13)
					ls = append(ls, "crypto ipsec ikev1 transform-set T esp-aes", "crypto map M 1 set ikev1 transform-set"+strings.Repeat(" T", k))
				case 7:
					ls = append(ls, "crypto map M 1 match address "+Pick(c.rng, names), "crypto map M 1 set peer 1.1.1.1")
				case 8:
					ls = append(ls, "crypto map "+Pick(c.rng, []string{"M", "N"})+" interface outside")
				}
			}
		} else {
			for j := 0; j < 1+c.rng.Intn(3); j++ {
				switch c.rng.Intn(4) {
				case 0:
					ls = append(ls, "ip access-list extended "+Pick(c.rng, names), " permit ip any any", " deny ip "+Pick(c.rng, []string{"any", "object-group G1", "host 1.1.1.1"})+" any")
				case 1:
					ls = append(ls, "interface E"+fmt.Sprint(j), " ip access-group "+Pick(c.rng, names)+" in")
				case 2:
					ls = append(ls, "crypto map "+Pick(c.rng, names)+" 1 ipsec-isakmp", " set ip access-group "+Pick(c.rng, names)+" in", " set peer 1.1.1.1")
				case 3:
					ls = append(ls, "interface F"+fmt.Sprint(j), " crypto map "+Pick(c.rng, names))
				}
			}
		}
		fname := "router"
		if c.rng.Chance(30) {
			fname = "router.raw"
		}
		c.checkParse(model, fname, strings.Join(ls, "\n")+"\n")
	}
}

// ---------------------------------------------------------------- audit follow-up: status file bytes, PAN-OS cycle check

type jScalar struct{ enc, json string }

func (c *corrCtx) genScalar() jScalar {
	r := c.rng
	switch r.Intn(10) {
	case 0:
		return jScalar{"n", "null"}
	case 1:
		return jScalar{"t", "true"}
	case 2, 3:
		l := Pick(r, []string{"0", "5", "1727000000", "1727626791", "-3", "1.5", "1e3", "99999999999999999999", "-0", "9223372036854775807", "9223372036854775808", "12E0"})
		return jScalar{"i" + l, l}
	case 4:
		return jScalar{"a", Pick(r, []string{"[]", "[1]", `["OK"]`})}
	case 5:
		return jScalar{"o", Pick(r, []string{"{}", `{"result":"OK"}`})}
	}
	v := Pick(r, []string{"OK", "WARNINGS", "FAILED", "UPTODATE", "DIFF", "", "p0", "p1", "p2", "px", "ok"})
	return jScalar{"s" + v, `"` + v + `"`}
}

func (c *corrCtx) genStatusTop() (enc, js string) {
	r := c.rng
	switch r.Intn(12) {
	case 0:
		return "N", Pick(r, []string{"", "NO_JSON", "{", "[1,2", `{"approve":}`, "\x01", `{"approve":{"result":"OK","policy":"p1","time":5}}x`, `{'approve':1}`, "{\"approve\":{\"result\":\"OK\",}}"})
	case 1:
		k := Pick(r, []string{"n", "t", "i", "s", "a"})
		return k, map[string]string{"n": "null", "t": "true", "i": "7", "s": `"x"`, "a": `[{"approve":{"result":"OK","policy":"p1","time":5}}]`}[k]
	}
	var encs, jss []string
	for i := 0; i < 1+r.Intn(4); i++ {
		key := Pick(r, []string{"approve", "compare", "approve", "compare", "Approve", "COMPARE", "other", "", "aPProve"})
		switch r.Intn(8) {
		case 0:
			sc := Pick(r, []jScalar{{"n", "null"}, {"t", "false"}, {"i", "7"}, {"s", `"OK"`}, {"a", `[{"result":"OK"}]`}})
			encs = append(encs, key+cGS+sc.enc[:1])
			jss = append(jss, `"`+key+`":`+sc.json)
			continue
		}
		var fe, fj []string
		for j := 0; j < r.Intn(5); j++ {
			ik := Pick(r, []string{"result", "policy", "time", "result", "policy", "time", "Result", "TIME", "x", "Policy"})
			sc := c.genScalar()
			// mostly well-typed
			if r.Chance(60) {
				switch strings.ToLower(ik) {
				case "result":
					v := Pick(r, []string{"OK", "WARNINGS", "FAILED", "UPTODATE", "DIFF"})
					sc = jScalar{"s" + v, `"` + v + `"`}
				case "policy":
					v := Pick(r, []string{"p0", "p1", "p2", "px"})
					sc = jScalar{"s" + v, `"` + v + `"`}
				case "time":
					v := Pick(r, []string{"5", "1727000000", "1727626791", "3"})
					sc = jScalar{"i" + v, v}
				}
			}
			fe = append(fe, ik+"\x1b"+sc.enc)
			fj = append(fj, `"`+ik+`":`+sc.json)
		}
		encs = append(encs, key+cGS+"o"+strings.Join(fe, "\x1c"))
		jss = append(jss, `"`+key+`":{`+strings.Join(fj, Pick(r, []string{",", ", ", ",\n "}))+`}`)
	}
	return "o" + strings.Join(encs, cRS), "{" + strings.Join(jss, ",") + "}"
}

func (c *corrCtx) runStatus(n int, maBin string) {
	dir, _ := os.MkdirTemp("", "c20st")
	defer os.RemoveAll(dir)
	cfg := &program.Config{BaseDir: dir}
	os.MkdirAll(filepath.Join(dir, "status"), 0755)
	for _, p := range []struct{ name, code string }{{"p0", "code B\n"}, {"p1", "code A\n"}, {"p2", "code A\n"}} {
		os.MkdirAll(filepath.Join(dir, "policies", p.name, "code"), 0755)
		os.WriteFile(filepath.Join(dir, "policies", p.name, "code", "dev"), []byte(p.code), 0644)
	}
	os.Symlink("p1", filepath.Join(dir, "policies", "current"))
	os.WriteFile(filepath.Join(dir, ".netspoc-approve"), []byte("basedir = "+dir+"\n"), 0644)
	stFile := filepath.Join(dir, "status", "dev")
	show := func() string {
		v := status.Read(cfg, "dev")
		b, _ := json.Marshal(v)
		var x struct {
			Approve, Compare struct {
				Result, Policy string
				Time           int64
			}
		}
		json.Unmarshal(b, &x)
		return fmt.Sprintf("%s|%s|%d|%s|%s|%d", x.Approve.Result, x.Approve.Policy, x.Approve.Time, x.Compare.Result, x.Compare.Policy, x.Compare.Time)
	}
	const now = 1727626790 // TEST_TIME 2024-Sep-29 16:19:50
	os.Setenv("TEST_TIME", "2024-Sep-29 16:19:50")
	defer os.Unsetenv("TEST_TIME")
	for i := 0; i < n; i++ {
		enc, js := c.genStatusTop()
		readable := "1"
		if c.rng.Chance(4) {
			readable = "0"
			os.Remove(stFile)
		} else {
			os.WriteFile(stFile, []byte(js), 0644)
		}
		req := strings.Join([]string{"status", readable, enc, "p1"}, cUS)
		var verdict string
		c.check("status.Read", req, strings.HasPrefix(enc, "o"), func() string { return show() },
			func(m string) string {
				// split off the verdict of missing-approve's check
				j := strings.LastIndex(m, "|")
				verdict = m[j+1:]
				return m[:j]
			})
		// the real missing-approve binary on the same bytes (every 4th case)
		if maBin != "" && i%4 == 0 {
			want := "listed"
			switch {
			case verdict == "uptodate":
				want = "not listed"
			case verdict == "compare:p2":
				want = "not listed" // same code as the current policy
			}
			cmd := exec.Command(maBin)
			cmd.Env = append(os.Environ(), "HOME="+dir)
			out, err := cmd.CombinedOutput()
			got := "not listed"
			if strings.TrimSpace(string(out)) == "dev" {
				got = "listed"
			} else if err != nil || strings.TrimSpace(string(out)) != "" {
				got = "ERROR " + trunc(string(out), 200)
			}
			c.res.Eval("missing-approve\n"+req, true)
			c.res.TracesVsImpl++
			c.res.Count("corr:missing-approve.check")
			c.res.Count("corr-outcome:missing-approve.check:" + got)
			if got != want {
				c.res.Disagree("missing-approve.check", corrCase{Stream: "missing-approve", Req: js}, got, want+" ("+verdict+")")
			}
		}
		// do-approve's update of the status file on the same bytes
		if readable == "1" && i%3 == 0 {
			kind := Pick(c.rng, []string{"approve", "compare"})
			flag := c.rng.Bool()
			f := "0"
			if flag {
				f = "1"
			}
			req := strings.Join([]string{"statusset", kind, enc, "p1", f, fmt.Sprint(now)}, cUS)
			c.check("status.Set", req, true, func() string {
				if kind == "approve" {
					status.SetApprove(cfg, "dev", "p1", flag)
				} else {
					status.SetCompare(cfg, "dev", "p1", flag)
				}
				return show()
			}, nil)
		}
	}
}

func (c *corrCtx) runPanCycle(n int) {
	names := []string{"g0", "g1", "g2", "g3", "a1", "a2", "any"}
	for i := 0; i < n; i++ {
		var enc, xml []string
		ng := 1 + c.rng.Intn(4)
		for j := 0; j < ng; j++ {
			name := fmt.Sprintf("g%d", j)
			if c.rng.Chance(10) {
				name = "g0" // defined twice: the map keeps the last definition
			}
			var ms []string
			for k := 0; k < c.rng.Intn(4); k++ {
				m := Pick(c.rng, names)
				if c.rng.Chance(60) {
					// mostly towards later groups: acyclic
					m = Pick(c.rng, []string{fmt.Sprintf("g%d", j+1), "a1", "a2"})
				}
				ms = append(ms, m)
			}
			enc = append(enc, name+cGS+strings.Join(ms, cGS))
			x := `<entry name="` + name + `"><static>`
			for _, m := range ms {
				x += "<member>" + m + "</member>"
			}
			xml = append(xml, x+"</static></entry>")
		}
		doc := `<config><devices><entry name="d"><vsys><entry name="vsys1"><address-group>` + strings.Join(xml, "") + `</address-group></entry></vsys></entry></devices></config>`
		req := "pancycle" + cUS + strings.Join(enc, cRS)
		c.check("panos.checkGroupCycle", req, true, func() string {
			if r := panos.VerifC20GroupCycle([]byte(doc)); r != "ok" {
				return "DIAG:" + r
			}
			return ""
		}, func(m string) string { return m })
	}
}

func runCorr(ctx *Ctx, res *Result) {
	c := &corrCtx{ctx: ctx, res: res, rng: ctx.Rng.Fork()}
	c.drv = ctx.StartNadrv("c20")
	defer c.drv.Close()
	c.ec = newErrCapture()
	defer c.ec.close()
	errlog.Quiet = true
	c.asaS = asa.Setup()
	c.iosS = ios.Setup()
	bases := loadBases(ctx.Repo, func(string) {})
	lines := testdataLines(bases, "ASA", "IOS")
	c.runDescr()
	c.runACL(lines, ctx.N(400, 100000))
	c.runMatch(lines, ctx.N(1500, 100000))
	c.runParse(bases, ctx.N(700, 6000))
	c.runAAA(lines, ctx.N(200, 2000))
	c.runRoutes(lines, ctx.N(150, 5000))
	c.runLinux(bases, ctx.N(300, 5000))
	c.runNsx(ctx.N(600, 6000))
	c.runPanos(ctx.N(300, 3000))
	c.runInfo()
	c.runBanner(testdataLines(bases, "IOS"), ctx.N(300, 5000))
	c.runMergeACL(ctx.N(400, 8000))
	c.runRefs(ctx.N(400, 8000))
	maBin := buildMissingApprove(ctx, res)
	c.runStatus(ctx.N(600, 12000), maBin)
	if maBin != "" {
		os.RemoveAll(filepath.Dir(maBin))
	}
	c.runPanCycle(ctx.N(300, 6000))
	res.Assumptions = append(res.Assumptions,
		"correspondence inputs are ASCII (the models use ASCII white space for unicode.IsSpace); the correspondence compares the FIXED code (fixed = true); the snapshot behaviour (fixed = false) is tied by the replays of the counterexample inputs on the commits before the fixes, recorded in known/C20.jsonl")
}

func replayCorr(ctx *Ctx, res *Result) {
	var cc corrCase
	if err := ReadReplay(ctx.Replay, &cc); err != nil {
		fmt.Fprintln(os.Stderr, err)
		os.Exit(2)
	}
	c := &corrCtx{ctx: ctx, res: res, rng: ctx.Rng.Fork()}
	c.drv = ctx.StartNadrv("c20")
	defer c.drv.Close()
	c.ec = newErrCapture()
	defer c.ec.close()
	c.asaS = asa.Setup()
	c.iosS = ios.Setup()
	if cc.Stream == "parse" {
		model := "asa"
		c.checkParse(model, cc.Extra, cc.Req)
		c.checkParse("ios", cc.Extra, cc.Req)
	} else {
		fmt.Fprintln(os.Stderr, "replay of correspondence stream", cc.Stream, ": re-run ./check C20 quick; request was:", cc.Req)
		res.Disagree(cc.Stream, cc, "see the recorded disagreement", "")
	}
}

// panicKind maps a panic message of a real function onto the model's panic names (correspondence only;
// the oracle takes the kind from the panic value, see panicClass in worker.go).
func panicKind(msg string) string {
	switch {
	case strings.Contains(msg, "index out of range"):
		return "index"
	case strings.Contains(msg, "slice bounds out of range"):
		return "slice"
	case strings.Contains(msg, "nil pointer dereference"):
		return "nil"
	case strings.Contains(msg, "interface conversion"):
		return "typeassert"
	case strings.Contains(msg, "runtime error"):
		return "runtime-other"
	}
	return "explicit"
}
