package main

// Stateful HTTP device simulators for PAN-OS (XML API) and NSX (policy REST API), served by
// httptest TLS servers inside the harness process; the code under test reaches them through
// SIMULATE_ROUTER=<url>.  Every request is recorded, classified on the DEVICE side
// (read / change / save), and can be answered with a fault (status 500 or closed connection)
// at the k-th request.

import (
	"encoding/json"
	"fmt"
	"io"
	"net/http"
	"net/http/httptest"
	"net/url"
	"sort"
	"strings"
	"sync"
)

type HAState struct {
	Enabled string `json:"enabled"` // yes | no
	Mode    string `json:"mode"`    // Active-Passive | Active-Active
	State   string `json:"state"`   // active | passive | active-primary | active-secondary | …
}

type Vsys struct {
	Name    string `json:"name"`
	Display string `json:"display"`
}

type HttpScn struct {
	Type     string `json:"type"` // PAN-OS | NSX
	Hostname string `json:"hostname"`
	// PAN-OS: one entry per member of the HA pair, in the order of the name list.  The k-th login
	// (keygen) reaches member k and is given that member's own API key; every later request is
	// answered by the member whose key it carries: its HA state and its own host name (Hostnames,
	// "" / missing = Hostname).  So the two members of a pair can be told apart by what they answer
	// and by what they receive.
	HA        []HAState `json:"ha"`
	Hostnames []string  `json:"hostnames"`
	Vsys      []Vsys    `json:"vsys"`
	Managed   []string  `json:"managed"`    // PAN-OS: vsys that carry the rules/services of dev_rules
	Dirty     bool      `json:"dirty"`      // PAN-OS: nodes of the candidate configuration carry dirtyId/admin/time
	DevRules  []int     `json:"dev_rules"`  // PAN-OS: rules/services r<i> present in vsys1 of the device
	DevSvcs   []int     `json:"dev_svcs"`   // NSX: services Netspoc-tcp_<80+i> present on the device
	BadConfig bool      `json:"bad_config"` // the configuration answer is not decodable
	// NSX: ids of the gateway policies the manager lists (the Netspoc-… ones are fetched one by one);
	// page size of the services listing (0 = one page); number of empty pages of the group listing
	// before the last one
	NsxPolicies []string `json:"nsx_policies"`
	PageSize    int      `json:"page_size"`
	GroupPages  int      `json:"group_pages"`
	// PAN-OS: how often the commit job answers PEND before OK
	Pend      int    `json:"pend"`
	FaultAt   int    `json:"fault_at"`   // -1 none
	FaultKind string `json:"fault_kind"` // 500 | close
}

type HttpReq struct {
	N     int    `json:"n"`
	Canon string `json:"canon"` // canonical form, as the Lean model prints its trace items
	Kind  string `json:"kind"`  // read | change | save
	Raw   string `json:"raw"`
	// PAN-OS: which member of the pair the request was addressed to (by its API key); 0 = none / unknown key
	Member int `json:"member"`
}

type httpSim struct {
	scn     HttpScn
	mu      sync.Mutex
	reqs    []HttpReq
	logins  int
	srv     *httptest.Server
	journal []string
	polls   int
	st      *devState // what the requests did to the device (devstate.go)
	hash0   string
}

func newHTTPSim(scn HttpScn) *httpSim {
	s := &httpSim{scn: scn}
	s.st = newHTTPState(scn.Type, jsonStr(scn.DevRules))
	s.hash0 = s.st.hash()
	s.srv = httptest.NewTLSServer(http.HandlerFunc(s.handle))
	return s
}

func (s *httpSim) Close() { s.srv.Close() }

func (s *httpSim) Requests() []HttpReq {
	s.mu.Lock()
	defer s.mu.Unlock()
	return append([]HttpReq{}, s.reqs...)
}

// state hashes of the device before the first and after the last request
func (s *httpSim) hashes() (string, string) {
	s.mu.Lock()
	defer s.mu.Unlock()
	return s.hash0, s.st.hash()
}

func panRuleXML(i int) string {
	return fmt.Sprintf(`<entry name="r%d"><action>allow</action><from><member>z1</member></from><to><member>z2</member></to>`+
		`<source><member>any</member></source><destination><member>any</member></destination>`+
		`<service><member>tcp %d</member></service><application><member>any</member></application>`+
		`<rule-type>interzone</rule-type></entry>`, i, 80+i)
}

func panServiceXML(i int) string {
	return fmt.Sprintf(`<entry name="tcp %d"><protocol><tcp><port>%d</port></tcp></protocol></entry>`, 80+i, 80+i)
}

// panVsysBody: rules and services for the given indices (device answer and Netspoc file share it).
func panVsysBody(idx []int) string {
	var rules, svcs []string
	for _, i := range idx {
		rules = append(rules, panRuleXML(i))
		svcs = append(svcs, panServiceXML(i))
	}
	if len(idx) == 0 {
		return ""
	}
	return "<rulebase><security><rules>" + strings.Join(rules, "") + "</rules></security></rulebase><service>" +
		strings.Join(svcs, "") + "</service>"
}

// a gateway policy with one rule (the same text on the device and in the Netspoc file)
func nsxPolicyJSON(id string) string {
	n := strings.TrimPrefix(id, "Netspoc-")
	return fmt.Sprintf(`{"id":"%s","resource_type":"GatewayPolicy","rules":[{"resource_type":"Rule","id":"r1",`+
		`"scope":["/infra/tier-0s/%s"],"direction":"OUT","ip_protocol":"IPV4","sequence_number":20,"action":"ALLOW",`+
		`"source_groups":["ANY"],"destination_groups":["ANY"],"services":["ANY"]}]}`, id, n)
}

func nsxServiceJSON(i int) string {
	return fmt.Sprintf(`{"id":"Netspoc-tcp_%d","service_entries":[{"id":"id","resource_type":"L4PortSetServiceEntry",`+
		`"l4_protocol":"TCP","destination_ports":["%d"],"source_ports":[]}]}`, 80+i, 80+i)
}

func (s *httpSim) record(canon, kind, raw string) int {
	n := len(s.reqs)
	s.reqs = append(s.reqs, HttpReq{N: n, Canon: canon, Kind: kind, Raw: raw})
	if kind == "change" || kind == "save" {
		s.journal = append(s.journal, canon)
	}
	return n
}

func (s *httpSim) fault(n int, w http.ResponseWriter) bool {
	if s.scn.FaultAt < 0 {
		return false
	}
	if s.scn.FaultKind == "close" {
		// net/http retries an idempotent request whose connection was closed before any answer;
		// the device therefore stays unreachable from the fault on (the retries show up as
		// repeated requests in the transcript and are collapsed by the harness)
		if n >= s.scn.FaultAt {
			s.srv.CloseClientConnections()
			return true
		}
		return false
	}
	if n != s.scn.FaultAt {
		return false
	}
	w.WriteHeader(500)
	w.Write([]byte("device not ready\n"))
	return true
}

func (s *httpSim) handle(w http.ResponseWriter, r *http.Request) {
	s.mu.Lock()
	defer s.mu.Unlock()
	if s.scn.Type == "NSX" {
		s.nsx(w, r)
	} else {
		s.panos(w, r)
	}
}

// canonical text of a PAN-OS query: raw query without the key, unescaped (what ShowChanges prints).
func panCanon(rawQuery string) string {
	q := rawQuery
	if strings.HasPrefix(q, "key=") {
		if i := strings.Index(q, "&"); i >= 0 {
			q = q[i+1:]
		}
	}
	u, err := url.QueryUnescape(q)
	if err != nil {
		return q
	}
	return u
}

func (s *httpSim) panos(w http.ResponseWriter, r *http.Request) {
	q := r.URL.Query()
	typ, action := q.Get("type"), q.Get("action")
	canon, kind := "", "read"
	switch {
	case typ == "keygen":
		canon = "L:type=keygen"
	case typ == "op" && strings.HasPrefix(q.Get("cmd"), "<show><high-availability>"):
		canon = "L:type=op&cmd=<show><high-availability><state/></high-availability></show>"
	case typ == "op" && strings.HasPrefix(q.Get("cmd"), "<show><jobs>"):
		canon = "A:type=op&cmd=<show><jobs><id>|job"
	case typ == "op":
		canon = "X:" + panCanon(r.URL.RawQuery)
		kind = "change" // an operational command the device does not know as read-only
	case typ == "config" && action == "get":
		canon = "L:type=config&action=get&xpath=" + q.Get("xpath")
	case typ == "commit":
		canon = "A:type=commit&action=partial&cmd=|admin"
		kind = "save"
	default:
		canon = "X:" + panCanon(r.URL.RawQuery)
		kind = "change"
	}
	n := s.record(canon, kind, r.URL.RawQuery)
	// which member is addressed: the one whose key the request carries
	member := 0
	if typ == "keygen" {
		member = s.logins + 1
	} else {
		fmt.Sscanf(q.Get("key"), "LUFRPT-m%d=", &member)
		if member > s.logins {
			member = 0 // a key nobody was given
		}
	}
	if nm := len(s.scn.HA); nm > 0 && member > nm {
		member = nm // further logins reach the last member again
	}
	s.reqs[n].Member = member
	if s.fault(n, w) {
		return
	}
	s.st.panos(r.URL.RawQuery)
	ok := func(body string) { w.Write([]byte(body)) }
	if typ != "keygen" && member == 0 {
		w.WriteHeader(403)
		ok("<response status = 'error' code = '403'><result><msg>Invalid credentials.</msg></result></response>\n")
		return
	}
	switch {
	case typ == "keygen":
		s.logins++
		ok(fmt.Sprintf("<response status = 'success'>\n <result><key>LUFRPT-m%d=</key></result>\n</response>\n", s.logins))
	case typ == "op" && strings.HasPrefix(q.Get("cmd"), "<show><high-availability>"):
		ha := HAState{Enabled: "no"}
		if len(s.scn.HA) > 0 {
			i := member - 1
			if i < 0 {
				i = 0
			}
			if i >= len(s.scn.HA) {
				i = len(s.scn.HA) - 1
			}
			ha = s.scn.HA[i]
		}
		if ha.Enabled == "garbled" {
			switch ha.Mode {
			case "error":
				ok("<response status = 'error'>\n <msg><line>Server error : op command for client ha_agent timed out</line></msg>\n</response>\n")
			case "trunc":
				ok("<response status = 'success'>\n <result>\n  <enabled>yes</enabled>\n  <group>\n   <mode>Active-Pass")
			case "notxml":
				ok("HA agent is restarting, please try again later\n")
			default:
				ok("<response status = 'success'>\n <result>\n  <enabled>yes</enabled>\n  <group>\n  </group>\n </result>\n</response>\n")
			}
			return
		}
		if ha.Enabled != "yes" {
			ok("<response status = 'success'>\n <result>\n  <enabled>no</enabled>\n </result>\n</response>\n")
			return
		}
		ok(fmt.Sprintf("<response status = 'success'>\n <result>\n  <enabled>yes</enabled>\n  <group>\n   <mode>%s</mode>\n"+
			"   <local-info>\n    <ha2-port>hsci</ha2-port>\n    <state>%s</state>\n   </local-info>\n  </group>\n </result>\n</response>\n",
			ha.Mode, ha.State))
	case typ == "op" && strings.HasPrefix(q.Get("cmd"), "<show><jobs>"):
		s.polls++
		res := "OK"
		if s.polls <= s.scn.Pend {
			res = "PEND"
		}
		ok("<response status=\"success\"><result><job>\n<result>" + res + "</result>\n</job></result></response>\n")
	case typ == "config" && action == "get":
		if s.scn.BadConfig {
			ok("<INVALID>\n")
			return
		}
		var vs []string
		dirty := ""
		if s.scn.Dirty {
			dirty = ` dirtyId="7" admin="netspoc" time="2024/09/29 16:19:50"`
		}
		for _, v := range s.scn.Vsys {
			body := ""
			managed := len(s.scn.Managed) == 0 && v.Name == "vsys1"
			for _, m := range s.scn.Managed {
				managed = managed || m == v.Name
			}
			if managed {
				body = panVsysBody(s.scn.DevRules)
				if s.scn.Dirty {
					body = strings.ReplaceAll(body, "<entry name=", "<entry"+dirty+" name=")
					body = strings.ReplaceAll(body, "<rules>", "<rules"+dirty+">")
				}
			}
			vs = append(vs, fmt.Sprintf("<entry name=\"%s\"%s><display-name>%s</display-name>%s</entry>", v.Name, dirty, v.Display, body))
		}
		vsys := ""
		if len(vs) > 0 {
			vsys = "<vsys>" + strings.Join(vs, "") + "</vsys>"
		}
		ok("<response status = 'success'>\n <result>\n  <devices>\n   <entry name=\"localhost.localdomain\">\n" +
			"    <deviceconfig><system><hostname>" + s.memberHostname(member) + "</hostname></system></deviceconfig>\n" +
			vsys + "\n   </entry>\n  </devices>\n </result>\n</response>\n")
	case typ == "commit":
		ok("<response status=\"success\" code=\"19\"><result><job>6</job></result></response>\n")
	default:
		ok("<response status=\"success\" code=\"20\"></response>\n")
	}
}

func (s *httpSim) memberHostname(member int) string {
	if member >= 1 && member <= len(s.scn.Hostnames) && s.scn.Hostnames[member-1] != "" {
		return s.scn.Hostnames[member-1]
	}
	return s.scn.Hostname
}

func (s *httpSim) nsx(w http.ResponseWriter, r *http.Request) {
	path := r.URL.Path
	canon, kind := "", "read"
	switch {
	case r.Method == "POST" && path == "/api/session/create":
		canon = "L:POST /api/session/create"
	case r.Method == "GET" && path == "/policy/api/v1/infra/domains/default/gateway-policies":
		canon = "L:GET " + path
	case r.Method == "GET" && (path == "/policy/api/v1/infra/services" || path == "/policy/api/v1/infra/domains/default/groups"):
		canon = "A:GET " + path + "?cursor=|" + r.URL.Query().Get("cursor")
	case r.Method == "GET":
		canon = "A:GET " + path[:strings.LastIndex(path, "/")+1] + "|" + path[strings.LastIndex(path, "/")+1:]
	default:
		canon = "X:" + r.Method + " " + path
		kind = "change"
	}
	n := s.record(canon, kind, r.Method+" "+r.URL.RequestURI())
	if s.fault(n, w) {
		return
	}
	body, _ := io.ReadAll(r.Body)
	s.st.nsx(r.Method, r.URL.RequestURI(), string(body))
	switch {
	case r.Method == "POST" && path == "/api/session/create":
		s.logins++
		w.Header().Set("x-xsrf-token", "secret")
		w.Write([]byte("{}"))
	case r.Method == "GET" && path == "/policy/api/v1/infra/domains/default/gateway-policies":
		if s.scn.BadConfig {
			w.Write([]byte("invalid"))
			return
		}
		var l []string
		for _, id := range s.scn.NsxPolicies {
			l = append(l, `{"id":"`+id+`"}`)
		}
		w.Write([]byte(`{"results":[` + strings.Join(l, ",") + `]}`))
	case r.Method == "GET" && strings.HasPrefix(path, "/policy/api/v1/infra/domains/default/gateway-policies/"):
		w.Write([]byte(nsxPolicyJSON(path[strings.LastIndex(path, "/")+1:])))
	case r.Method == "GET" && path == "/policy/api/v1/infra/services":
		pages := nsxServicePages(s.scn)
		i := nsxPageIndex(r.URL.Query().Get("cursor"))
		if i >= len(pages) {
			w.Write([]byte("{}"))
			return
		}
		var l []string
		for _, k := range pages[i] {
			l = append(l, nsxServiceJSON(k))
		}
		cur := ""
		if i+1 < len(pages) {
			cur = fmt.Sprintf(`,"cursor":"s%d"`, i+1)
		}
		w.Write([]byte(`{"results":[` + strings.Join(l, ",") + `]` + cur + `}`))
	case r.Method == "GET" && path == "/policy/api/v1/infra/domains/default/groups":
		i := nsxPageIndex(r.URL.Query().Get("cursor"))
		if i < s.scn.GroupPages {
			w.Write([]byte(fmt.Sprintf(`{"results":[],"cursor":"g%d"}`, i+1)))
			return
		}
		w.Write([]byte("{}"))
	case r.Method == "GET":
		w.Write([]byte("{}"))
	default:
		w.Write([]byte("{}"))
	}
}

// pages of the services listing: sorted indices in chunks of page_size
func nsxServicePages(scn HttpScn) [][]int {
	idx := append([]int{}, scn.DevSvcs...)
	sort.Ints(idx)
	if scn.PageSize <= 0 || len(idx) <= scn.PageSize {
		return [][]int{idx}
	}
	var pages [][]int
	for len(idx) > 0 {
		n := scn.PageSize
		if n > len(idx) {
			n = len(idx)
		}
		pages = append(pages, idx[:n])
		idx = idx[n:]
	}
	return pages
}

// cursor "" = page 0, "s<k>" / "g<k>" = page k
func nsxPageIndex(cursor string) int {
	if len(cursor) < 2 {
		return 0
	}
	n := 0
	fmt.Sscanf(cursor[1:], "%d", &n)
	return n
}

func jsonStr(v any) string {
	b, _ := json.Marshal(v)
	return string(b)
}
