package main

// C06 — approve never changes a wrong, unmanaged or passive device.
// C11 — compare never changes the device.
//
// One case = device type × front end (drc | do-approve) × reported hostname × marker ×
// HA state × pending changes (× fault position for C11).  For every case the REAL code
// (drc.Main / doapprove.Main, linked into this binary and started as a child process so that
// cases can run in parallel) talks to a stateful simulator (sim.go for ASA/IOS/Linux through
// SIMULATE_ROUTER=<command>, httpsim.go for PAN-OS/NSX through SIMULATE_ROUTER=<url>):
// first a compare run, then an approve run.
//
// Tie:    the Lean model (nadrv-c06 / nadrv-c11) is given the same scenario (as a table of the
//         device's answers) and must predict the transcript of requests, the exit status and
//         whether an ERROR line appears — for both runs.  The classification of every request
//         (read-only / session / change / save) by the Lean specification must agree with the
//         simulator's own classification.
// Oracle: specification side only (simulator transcript + state hash): after a failed
//         interlock no configuration-changing request and no save/commit, non-zero exit, an
//         ERROR line (C06); a compare run never changes the simulator's state, whatever the
//         interlock outcome and wherever a fault strikes (C11).

import (
	"bytes"
	"encoding/json"
	"fmt"
	"os"
	"os/exec"
	"path/filepath"
	"regexp"
	"sort"
	"strconv"
	"strings"
	"sync"
	"time"

	. "verifharness/vhlib"

	"github.com/hknutzen/Netspoc-Approve/go/pkg/doapprove"
	"github.com/hknutzen/Netspoc-Approve/go/pkg/drc"
	"github.com/hknutzen/Netspoc-Approve/go/pkg/program"
)

func main() {
	if len(os.Args) > 2 && os.Args[1] == "sim" {
		simMain(os.Args[2])
		return
	}
	if len(os.Args) > 3 && os.Args[1] == "tee" {
		teeMain(os.Args[2], os.Args[3:])
		return
	}
	if len(os.Args) > 2 && os.Args[1] == "run" {
		front := os.Args[2]
		os.Args = os.Args[2:]
		if front == "drc" {
			os.Exit(drc.Main())
		}
		os.Exit(doapprove.Main())
	}
	Main(map[string]PropFunc{"C06": func(c *Ctx) *Result { return run(c, "C06") }, "C11": func(c *Ctx) *Result { return run(c, "C11") }})
}

// default expected device name
const defaultDevName = "router"
const us = "\x1f"

type Case struct {
	Backend   string `json:"backend"` // asa ios linux panos nsx
	Front     string `json:"front"`   // drc | do-approve
	Host      string `json:"host"`    // ok other prefix shorter case
	Marker    string `json:"marker"`  // present absent unconfigured
	HA        string `json:"ha"`      // off | ap:<state> (Active-Passive) | aa:<state> (Active-Active) | xx:<state> (unknown mode) | passive-then-active
	Pending   int    `json:"pending"` // 0 = none, 1.. = variants of pending changes
	HostKey   bool   `json:"host_key,omitempty"`
	Login     string `json:"login,omitempty"`
	PagerOff  bool   `json:"pager_off,omitempty"`
	Width511  bool   `json:"width_511,omitempty"`
	BadConfig bool   `json:"bad_config,omitempty"`
	FaultAt   int    `json:"fault_at"` // -1 none; applies to the compare run only
	FaultKind string `json:"fault_kind,omitempty"`
	Perl      bool   `json:"perl,omitempty"`       // use the repository's testdata/simulate-cisco.pl (Linux corpus cases)
	NoLog     bool   `json:"no_log,omitempty"`     // drc without -L (do-approve always passes a log directory)
	OddAction bool   `json:"odd_action,omitempty"` // do-approve <Action> DEVICE with an arbitrary action word
	Action    string `json:"action,omitempty"`
	// PAN-OS: the vsys Netspoc manages, in device order, one letter each: m = display-name carries
	// the marker, u = it does not ("" = one vsys, marked according to Marker)
	VsysMarks string `json:"vsys_marks,omitempty"`
	// PAN-OS: the candidate configuration carries dirtyId/admin/time attributes (state after an interrupted approve)
	Dirty bool `json:"dirty,omitempty"`
	// CLI types: this command of the login/set-up dialogue is answered with an error line
	ErrOn string `json:"err_on,omitempty"`
	// checkbanner regexp ("" = NetSPoC) and the text the device shows in its login banner /
	// /etc/issue ("" = according to Marker); Marker then only says configured / unconfigured
	BannerRe   string `json:"banner_re,omitempty"`
	MarkerText string `json:"marker_text,omitempty"`
	// NSX: 0 = no gateway policies, 1 = one of Netspoc, 2 = Netspoc-v1, a foreign one, Netspoc-v2;
	// page size of the services listing; empty pages of the groups listing
	NsxPolicies int `json:"nsx_policies,omitempty"`
	PageSize    int `json:"page_size,omitempty"`
	GroupPages  int `json:"group_pages,omitempty"`
	// PAN-OS: PEND answers of the commit job before OK
	Pend int `json:"pend,omitempty"`
	// expected device name ("" = router) and the name the device reports ("" = according to Host)
	DevName  string `json:"dev_name,omitempty"`
	Reported string `json:"reported,omitempty"`
	// the `checkbanner` line(s) of the configuration file, verbatim (overrides Marker / BannerRe)
	HasCfgLine bool   `json:"has_cfg_line,omitempty"`
	CfgLine    string `json:"cfg_line,omitempty"`
	// PAN-OS: the members of the device as the info file lists them (name_list <dev>-a, <dev>-b, … with
	// one address each), comma separated, each "<ha>:<hostname>": ha = a (Active-Passive, active) or
	// p (passive); hostname = what the machine that answers at that member's address reports in its
	// configuration (%a %b %c = the name of member a/b/c, anything else verbatim).  Overrides HA.
	// "a:%b,a:%a": the machine reached at a's address is active but calls itself b.
	Members string `json:"members,omitempty"`
}

// members: (ha letter, reported hostname) per member of Members
func (c Case) members() (ha []string, host []string) {
	if c.Backend != "panos" || c.Members == "" {
		return nil, nil
	}
	for _, m := range strings.Split(c.Members, ",") {
		h, n, _ := strings.Cut(m, ":")
		for _, l := range []string{"a", "b", "c"} {
			n = strings.ReplaceAll(n, "%"+l, c.dev()+"-"+l)
		}
		ha = append(ha, h)
		host = append(host, n)
	}
	return
}

// addressed: index of the member approve will work with (the first one in the order of the name
// list whose HA state permits it), -1 if there is none.  Specification side.
func (c Case) addressed() int {
	ha, _ := c.members()
	for i, h := range ha {
		if h == "a" {
			return i
		}
	}
	return -1
}

// expName: the name the device is addressed as — the expected device name.
func (c Case) expName() string {
	if k := c.addressed(); k >= 0 {
		return c.names()[k]
	}
	return c.dev()
}

// haOK (specification side): some member may be configured.
func (c Case) haOK() bool {
	if ha, _ := c.members(); ha != nil {
		return c.addressed() >= 0
	}
	return haPermits(c.HA)
}

// configured: what the configuration file says about the banner (specification side): the
// whole text after `checkbanner =`; not configured if there is no well-formed line.
func (c Case) configured() (text string, ok bool) {
	if !c.HasCfgLine {
		if c.Marker == "unconfigured" {
			return "", false
		}
		return c.bannerRe(), true
	}
	for _, line := range strings.Split(c.CfgLine, "\n") {
		f := strings.Fields(line)
		if len(f) >= 3 && f[0] == "checkbanner" && f[1] == "=" {
			return strings.Join(f[2:], " "), true
		}
	}
	return "", false
}

// dev: the expected device name (name of the code file / entry of name_list)
func (c Case) dev() string {
	if c.DevName != "" {
		return c.DevName
	}
	return defaultDevName
}

func (c Case) bannerRe() string {
	if c.BannerRe != "" {
		return c.BannerRe
	}
	return "NetSPoC"
}

// markerText: what the device shows where the marker belongs
func (c Case) markerText() string {
	if c.MarkerText != "" {
		return c.MarkerText
	}
	if c.Marker == "absent" {
		return "authorised access only"
	}
	return "managed by NetSPoC"
}

// markerShown (specification side, Go's regexp): does the text the device shows carry the marker?
// ASA/IOS: anywhere in the banner; Linux: in one line of /etc/issue.
// cfgRejected (specification side): the configuration file is not acceptable — the first well-formed
// checkbanner line has several values or its value is no regexp.  Such a run must end in
// LoadConfig: exit 1, a diagnostic, no device contacted.
func (c Case) cfgRejected() bool {
	if !c.HasCfgLine {
		return false
	}
	for _, line := range strings.Split(c.CfgLine, "\n") {
		f := strings.Fields(line)
		if len(f) >= 3 && f[0] == "checkbanner" && f[1] == "=" {
			if len(f) > 3 {
				return true
			}
			_, err := regexp.Compile(f[2])
			return err != nil
		}
	}
	return false
}

func (c Case) markerShown() bool {
	text, ok := c.configured()
	if !ok {
		return true // nothing configured: nothing to find
	}
	re, err := regexp.Compile(text)
	if err != nil {
		return false // what is configured cannot be found
	}
	if c.Backend == "linux" {
		for _, l := range strings.Split(c.markerText(), "\n") {
			if re.MatchString(l) {
				return true
			}
		}
		return false
	}
	return re.MatchString(c.markerText())
}

func (c Case) nsxPolicyIDs() []string {
	switch c.NsxPolicies {
	case 1:
		return []string{"Netspoc-v1"}
	case 2:
		return []string{"Netspoc-v1", "foreign-policy", "Netspoc-v2"}
	}
	return nil
}

func (c Case) marks() string {
	if c.VsysMarks != "" {
		return c.VsysMarks
	}
	if c.Marker == "absent" {
		return "u"
	}
	return "m"
}

// managedVsys: names of the vsys that are in the Netspoc configuration
func (c Case) managedVsys() []string {
	var l []string
	for i := range c.marks() {
		l = append(l, fmt.Sprintf("vsys%d", i+1))
	}
	return l
}

// haPermits: the HA answers under which PAN-OS may be configured (specification side).
func haPermits(ha string) bool {
	return ha == "off" || ha == "ap:active" || ha == "aa:active-primary" || ha == "passive-then-active"
}

// haStatePermits: the same for one member's answer.
func haStatePermits(h HAState) bool {
	if h.Enabled == "garbled" {
		return false
	}
	if h.Enabled != "yes" {
		return true
	}
	return h.Mode == "Active-Passive" && h.State == "active" || h.Mode == "Active-Active" && h.State == "active-primary"
}

// failedInterlocks: every interlock that refuses this device (specification side), in the order
// hostname, ha, marker.
func (c Case) failedInterlocks() []string {
	var l []string
	if c.Backend != "nsx" && c.reportedName() != c.expName() {
		l = append(l, "hostname")
	}
	if c.Backend == "panos" && !c.haOK() {
		l = append(l, "ha")
	}
	if c.Backend == "panos" && strings.ContainsAny(c.marks(), "us") {
		l = append(l, "marker")
	}
	if c.Backend != "nsx" && c.Backend != "panos" && !c.markerShown() {
		l = append(l, "marker")
	}
	return l
}

// diagNamesInterlock (specification side): the ERROR / WARNING lines of the run tell WHICH interlock
// refused the device:
//   - hostname: a line that speaks of the device name and contains both the expected name and the
//     name the device reported;
//   - marker: a line that says the banner is missing (ASA, IOS, Linux) / that NetSPoC is missing in
//     the name of one of the managed vsys that lack it (PAN-OS);
//   - ha: a line that says the device is not in active state.
//
// One of the interlocks that fail for this device must be named.
func (c Case) diagNamesInterlock(r runResult) bool {
	var msgs []string
	for _, l := range strings.Split(r.stderr+"\n"+r.stdout, "\n") {
		if strings.Contains(l, "ERROR>>>") || strings.Contains(l, "WARNING>>>") {
			msgs = append(msgs, l)
		}
	}
	for _, il := range c.failedInterlocks() {
		for _, m := range msgs {
			lm := strings.ToLower(m)
			switch il {
			case "hostname":
				if strings.Contains(lm, "device name") && strings.Contains(m, c.expName()) && strings.Contains(m, c.reportedName()) &&
					strings.Contains(lm, "expected") {
					return true
				}
			case "marker":
				if c.Backend == "panos" {
					for i, mk := range c.marks() {
						if (mk == 'u' || mk == 's') && strings.Contains(lm, "missing netspoc in name of") &&
							strings.Contains(m, fmt.Sprintf("vsys%d", i+1)) {
							return true
						}
					}
				} else if strings.Contains(lm, "missing banner") {
					return true
				}
			case "ha":
				if strings.Contains(lm, "not in active state") {
					return true
				}
			}
		}
	}
	return false
}

// markerClass: in which way the device fails to show the marker (from the input only).
func (c Case) markerClass() string {
	if c.Backend == "panos" {
		return "vsys_display_name:" + c.marks()
	}
	text, ok := c.configured()
	if !ok {
		return "not_configured"
	}
	re, err := regexp.Compile(text)
	if err != nil {
		return "configured_text_is_no_regexp"
	}
	shown := c.markerText()
	switch {
	case c.MarkerText == "" && c.Marker == "absent":
		return "absent"
	case re.MatchString(shown):
		return "split_over_lines" // Linux: the whole text matches, no single line does
	}
	if ri, err := regexp.Compile("(?i)" + text); err == nil && ri.MatchString(shown) {
		return "other_letter_case"
	}
	return "other_text"
}

func (c Case) canon() string { return JSONStr(c) }

func (c Case) isHTTP() bool { return c.Backend == "panos" || c.Backend == "nsx" }

func (c Case) reportedName() string {
	if _, host := c.members(); host != nil {
		// what the machine reports that approve works with (none permits: the first one)
		if k := c.addressed(); k >= 0 {
			return host[k]
		}
		return host[0]
	}
	if c.Reported != "" {
		return c.Reported
	}
	d := c.dev()
	switch c.Host {
	case "other":
		return "xyz"
	case "prefix":
		return d + "2"
	case "shorter":
		return d[:len(d)-1]
	case "case":
		if strings.ToUpper(d[:1]) != d[:1] {
			return strings.ToUpper(d[:1]) + d[1:]
		}
		return strings.ToLower(d[:1]) + d[1:]
	}
	return d
}

// interlock that must refuse the approve run (specification side), "" if none applies.
func (c Case) interlock() string {
	switch {
	case c.Backend == "panos" && c.Members != "" && !c.haOK():
		return "ha" // no member to work with: nobody's name is ever compared
	case c.Backend != "nsx" && c.reportedName() != c.expName():
		// every backend compares the complete names, nothing else counts as the same name; a device
		// with several members is compared with the name of the member it was addressed as
		return "hostname"
	case c.Backend == "panos" && !c.haOK():
		return "ha"
	case c.Backend == "panos" && strings.ContainsAny(c.marks(), "us"):
		return "marker"
	case c.Backend != "nsx" && c.Backend != "panos" && !c.markerShown():
		return "marker"
	}
	return ""
}

// ---------------------------------------------------------------- pending changes per type

func routeIdx(pending int) (dev, target []int) {
	switch pending {
	case 0:
		return []int{0, 1}, []int{0, 1}
	case 1:
		return []int{0}, []int{0, 1}
	case 2:
		return []int{0, 1, 2}, []int{0, 2}
	case 3:
		return []int{}, []int{1, 2, 3}
	default:
		return []int{0, 3}, []int{1, 2}
	}
}

func ciscoRoute(typ string, i int) string {
	if typ == "asa" {
		return fmt.Sprintf("route inside 10.%d.0.0 255.255.0.0 10.1.2.%d", 20+i, 3+i)
	}
	return fmt.Sprintf("ip route 10.%d.0.0 255.255.0.0 10.1.2.%d", 20+i, 3+i)
}

const iptablesText = "*filter\n:INPUT DROP\n-A INPUT -j ACCEPT -s 10.1.11.111 -d 10.10.1.2 -p tcp --dport 22\nCOMMIT\n"

// deviceConfig / netspocFile for the CLI types
func (c Case) cliTexts() (devConfig, routes, netspoc string) {
	dev, target := routeIdx(c.Pending)
	switch c.Backend {
	case "asa":
		devConfig = "interface Ethernet0/0\n nameif inside\n"
		netspoc = ""
		for _, i := range dev {
			devConfig += ciscoRoute("asa", i) + "\n"
		}
		for _, i := range target {
			netspoc += ciscoRoute("asa", i) + "\n"
		}
	case "ios":
		for _, i := range dev {
			devConfig += ciscoRoute("ios", i) + "\n"
		}
		for _, i := range target {
			netspoc += ciscoRoute("ios", i) + "\n"
		}
	case "linux":
		for _, i := range dev {
			routes += fmt.Sprintf("10.%d.0.0/16 via 10.1.1.%d\n", 20+i, 3+i)
		}
		for _, i := range target {
			netspoc += fmt.Sprintf("ip route add 10.%d.0.0/16 via 10.1.1.%d\n", 20+i, 3+i)
		}
		netspoc += "\n*filter\n:INPUT DROP\n-A INPUT -j ACCEPT -s 10.1.11.111 -d 10.10.1.2 -p tcp --dport 22\n"
	}
	if c.BadConfig && c.Backend != "linux" {
		// "Bad indentation in subcommands"
		devConfig = "%%BAD%%\ninterface Ethernet0/0\n   nameif inside\n shutdown\n"
	}
	return
}

func (c Case) httpIdx() (dev, target []int) {
	dev, target = routeIdx(c.Pending)
	for i := range dev {
		dev[i]++
	}
	for i := range target {
		target[i]++
	}
	return
}

func (c Case) httpNetspoc() string {
	_, target := c.httpIdx()
	if c.Backend == "panos" {
		var vs []string
		for _, n := range c.managedVsys() {
			vs = append(vs, `<entry name="`+n+`">`+panVsysBody(target)+`</entry>`)
		}
		return `<config><devices><entry name="localhost.localdomain"><vsys>` + strings.Join(vs, "") +
			`</vsys></entry></devices></config>` + "\n"
	}
	var l []string
	for _, i := range target {
		l = append(l, nsxServiceJSON(i))
	}
	var pol []string
	for _, id := range c.nsxPolicyIDs() {
		if strings.HasPrefix(id, "Netspoc") {
			pol = append(pol, nsxPolicyJSON(id))
		}
	}
	return `{"policies":[` + strings.Join(pol, ",") + `],"services":[` + strings.Join(l, ",") + `]}` + "\n"
}

func (c Case) haStates() []HAState {
	if ha, _ := c.members(); ha != nil {
		var l []HAState
		for _, h := range ha {
			l = append(l, HAState{"yes", "Active-Passive", map[string]string{"a": "active", "p": "passive"}[h]})
		}
		return l
	}
	switch {
	case c.HA == "passive-then-active":
		return []HAState{{"yes", "Active-Passive", "passive"}, {"yes", "Active-Passive", "active"}}
	case strings.HasPrefix(c.HA, "ap:"):
		return []HAState{{"yes", "Active-Passive", c.HA[3:]}}
	case strings.HasPrefix(c.HA, "aa:"):
		return []HAState{{"yes", "Active-Active", c.HA[3:]}}
	case strings.HasPrefix(c.HA, "xx:"):
		return []HAState{{"yes", "Active-Standby", c.HA[3:]}}
	case strings.HasPrefix(c.HA, "bad:"):
		// the member answers the HA question with HTTP 200 but not with a well-formed state (seeded change C06-W1)
		return []HAState{{"garbled", c.HA[4:], ""}}
	}
	return []HAState{{Enabled: "no"}}
}

// every state a member can report, per mode (plus an unknown word and an unknown mode)
var haAll = []string{"off",
	"ap:active", "ap:passive", "ap:suspended", "ap:initial", "ap:non-functional", "ap:tentative", "ap:unknown-word", "ap:active-primary",
	"aa:active-primary", "aa:active-secondary", "aa:tentative", "aa:suspended", "aa:initial", "aa:non-functional", "aa:active", "aa:unknown-word",
	"xx:active", "xx:active-primary",
	// an answer that cannot be read is not an answer "HA is off": error status, cut off, not XML, no state inside
	"bad:error", "bad:trunc", "bad:notxml", "bad:emptygroup"}

// memberHostnames: the host name each member of a PAN-OS pair has in its own configuration (its
// entry of the name list); the member that may be configured reports what the case says.
func (c Case) memberHostnames() []string {
	if _, host := c.members(); host != nil {
		return host
	}
	if c.Backend == "panos" && c.HA == "passive-then-active" {
		return []string{c.dev() + "-a", c.reportedName()}
	}
	return nil
}

func (c Case) names() []string {
	if ha, _ := c.members(); ha != nil {
		var l []string
		for i := range ha {
			l = append(l, c.dev()+"-"+string(rune('a'+i)))
		}
		return l
	}
	if c.Backend == "panos" && c.HA == "passive-then-active" {
		return []string{c.dev() + "-a", c.dev()}
	}
	return []string{c.dev()}
}

func (c Case) vsys() []Vsys {
	var l []Vsys
	for i, m := range c.marks() {
		d := fmt.Sprintf("FW%d-managed-by-Netspoc", i+1)
		switch m {
		case 'u':
			d = fmt.Sprintf("FW%d", i+1)
		case 'U':
			d = fmt.Sprintf("FW%d-NETSPOC", i+1) // other letter case: counts
		case 'x':
			d = fmt.Sprintf("fw%dxnetspocx", i+1) // inside a longer word: counts
		case 's':
			d = fmt.Sprintf("FW%d net spoc", i+1) // broken by a blank: does not count
		}
		l = append(l, Vsys{fmt.Sprintf("vsys%d", i+1), d})
	}
	return append(l, Vsys{"vsys9", "not ours"})
}

// ---------------------------------------------------------------- one run of the real code

type runResult struct {
	exit     int
	stdout   string
	stderr   string
	crashed  bool
	lines    []string // what the device received, canonical (CLI: raw lines; HTTP: canonical items)
	kinds    []string // device-side classification per line
	members  []int    // PAN-OS: member of the HA pair each request was addressed to
	grepAns  []int    // Linux: lines answered to `grep … /etc/issue` (-1: no such line / unknown)
	hashPre  string
	hashPost string
	plan     []string // from the .cmp file (compare run)
	timedOut bool
}

func (r runResult) diag() bool {
	// an ERROR>>> line, or the usage message of a front end
	return strings.Contains(r.stderr, "ERROR>>>") || strings.Contains(r.stdout, "ERROR>>>") ||
		strings.Contains(r.stderr, "Usage:") || strings.HasPrefix(r.stderr, "Error: ") || strings.Contains(r.stderr, "\nError: ")
}

type world struct {
	dir  string
	self string
	perl string
}

func (w *world) prepare(c Case) {
	os.MkdirAll(w.dir, 0755)
	// generous time-outs (the machine may be busy); 1 s only where a silent device is part of the case
	to := "5"
	if c.FaultKind == "silence" {
		to = "1"
	}
	cfg := "basedir = " + w.dir + "\nsystemuser = admin\ntimeout = " + to + "\nlogin_timeout = " + to + "\n"
	if c.HasCfgLine {
		cfg += c.CfgLine + "\n"
	} else if c.Marker != "unconfigured" {
		cfg += "checkbanner = " + c.bannerRe() + "\n"
	}
	files := map[string]string{".netspoc-approve": cfg, "credentials": "* admin secret\n"}
	codeDir := "code"
	if c.Front == "do-approve" {
		codeDir = "policies/p1/code"
	}
	model := map[string]string{"asa": "ASA", "ios": "IOS", "linux": "Linux", "panos": "PAN-OS", "nsx": "NSX"}[c.Backend]
	names := c.names()
	ips := make([]string, len(names))
	for i := range names {
		ips[i] = fmt.Sprintf("10.1.13.%d", 33+i)
	}
	info, _ := json.Marshal(map[string]any{"model": model, "name_list": names, "ip_list": ips})
	files[codeDir+"/"+c.dev()+".info"] = string(info)
	if c.isHTTP() {
		files[codeDir+"/"+c.dev()] = c.httpNetspoc()
	} else {
		_, _, netspoc := c.cliTexts()
		files[codeDir+"/"+c.dev()] = netspoc
	}
	WriteFiles(w.dir, files)
	for _, d := range []string{"lock", "status", "history", "log"} {
		os.MkdirAll(filepath.Join(w.dir, d), 0755)
	}
	if c.Front == "do-approve" {
		os.Symlink("p1", filepath.Join(w.dir, "policies", "current"))
	}
}

func (w *world) cliScenario(c Case, compare bool, transcript string) CliScn {
	devConfig, routes, _ := c.cliTexts()
	scn := CliScn{Type: map[string]string{"asa": "ASA", "ios": "IOS", "linux": "Linux"}[c.Backend],
		PromptName: c.dev(), Hostname: c.reportedName(), HostKey: c.HostKey, Login: c.Login,
		PagerOff: c.PagerOff, Width511: c.Width511, Config: devConfig, Routes: routes, IPTables: iptablesText,
		FaultAt: -1, Transcript: transcript}
	if c.Backend == "ios" {
		scn.PromptName = c.reportedName()
	}
	if scn.Login == "" {
		scn.Login = map[string]string{"asa": "enable-pass", "ios": "enable-nopass", "linux": "pass"}[c.Backend]
	}
	marker := c.markerText()
	if c.Backend == "linux" {
		scn.Issue = "Debian GNU/Linux\n" + marker + "\n"
	} else {
		scn.Banner = "***********************\n" + marker + "\n***********************"
		if c.Backend == "ios" {
			scn.Banner = "banner motd " + marker
		}
	}
	if compare && c.FaultAt >= 0 {
		scn.FaultAt, scn.FaultKind = c.FaultAt, c.FaultKind
	}
	scn.ErrOn = c.ErrOn
	return scn
}

var widthBlock = map[string]bool{"configure terminal": true, "terminal width 511": true, "end": true}

const errLine = "ERROR: % Invalid input detected at '^' marker.\n"

// commands of the login / set-up dialogue that a device may answer with an error line
var errOnCmds = map[string][]string{
	"asa":   {"sh pager", "terminal pager 0", "sh term", "configure terminal", "terminal width 511", "end", "sh ver"},
	"ios":   {"term len 0", "term width 512", "sh ver"},
	"linux": {"uname -r", "uname -m"},
}

func (w *world) runOnce(c Case, compare bool, tag string) runResult {
	var res runResult
	env := append(os.Environ(), "HOME="+w.dir, "LANG=C")
	var args []string
	if c.Front == "do-approve" {
		verb := "approve"
		if compare {
			verb = "compare"
		}
		if c.OddAction {
			verb = c.Action
		}
		args = []string{"run", "do-approve", verb, c.dev()}
	} else {
		args = []string{"run", "drc"}
		if !c.NoLog {
			args = append(args, "-L", filepath.Join(w.dir, "log"))
		}
		if compare {
			args = append(args, "-C")
		}
		args = append(args, filepath.Join("code", c.dev()))
	}
	var sim *httpSim
	transcript := filepath.Join(w.dir, "transcript."+tag)
	if c.isHTTP() {
		dev, _ := c.httpIdx()
		scn := HttpScn{Type: map[string]string{"panos": "PAN-OS", "nsx": "NSX"}[c.Backend], Hostname: c.reportedName(),
			HA: c.haStates(), Hostnames: c.memberHostnames(), Vsys: c.vsys(), Managed: c.managedVsys(), Dirty: c.Dirty, DevRules: dev, DevSvcs: dev,
			NsxPolicies: c.nsxPolicyIDs(), PageSize: c.PageSize, GroupPages: c.GroupPages, Pend: c.Pend,
			BadConfig: c.BadConfig, FaultAt: -1}
		if compare && c.FaultAt >= 0 {
			scn.FaultAt, scn.FaultKind = c.FaultAt, c.FaultKind
		}
		sim = newHTTPSim(scn)
		defer sim.Close()
		env = append(env, "SIMULATE_ROUTER="+sim.srv.URL)
	} else if c.Perl {
		scnFile := filepath.Join(w.dir, "scenario."+tag)
		os.WriteFile(scnFile, []byte(perlScenario(c)), 0644)
		env = append(env, "SIMULATE_ROUTER="+w.self+" tee "+transcript+" "+w.perl+" "+defaultDevName+" "+scnFile)
	} else {
		scn := w.cliScenario(c, compare, transcript)
		scnFile := filepath.Join(w.dir, "scenario."+tag+".json")
		os.WriteFile(scnFile, []byte(JSONStr(scn)), 0644)
		env = append(env, "SIMULATE_ROUTER="+w.self+" sim "+scnFile)
	}
	cmd := exec.Command(w.self, args...)
	cmd.Dir = w.dir
	cmd.Env = env
	var so, se bytes.Buffer
	cmd.Stdout, cmd.Stderr = &so, &se
	done := make(chan error, 1)
	cmd.Start()
	go func() { done <- cmd.Wait() }()
	select {
	case <-done:
	case <-time.After(60 * time.Second):
		cmd.Process.Kill()
		<-done
		res.timedOut = true
	}
	res.exit = cmd.ProcessState.ExitCode()
	res.stdout, res.stderr = so.String(), se.String()
	res.crashed = strings.Contains(res.stderr, "panic:") || strings.Contains(res.stderr, "SIGSEGV") || res.exit == 2 && strings.Contains(res.stderr, "goroutine ")
	if sim != nil {
		reqs := sim.Requests()
		for _, r := range reqs {
			res.lines = append(res.lines, r.Canon)
			res.kinds = append(res.kinds, r.Kind)
			res.members = append(res.members, r.Member)
		}
		res.hashPre, res.hashPost = sim.hashes()
	} else {
		// the simulator flushes its transcript line by line; give a killed child a moment
		tr := readTranscript(transcript)
		for _, l := range tr {
			res.lines = append(res.lines, l.Line)
			res.kinds = append(res.kinds, l.Kind)
			res.grepAns = append(res.grepAns, l.Ans)
		}
		devConfig, routes, _ := c.cliTexts()
		if c.Perl {
			devConfig, routes = "", ""
		}
		res.hashPre, res.hashPost = cliStateHashes(map[string]string{"asa": "ASA", "ios": "IOS", "linux": "Linux"}[c.Backend], devConfig, routes, tr)
	}
	if compare {
		logDir := filepath.Join(w.dir, "log")
		if c.Front == "do-approve" {
			logDir = filepath.Join(w.dir, "policies", "p1", "log")
		}
		if data, err := os.ReadFile(filepath.Join(logDir, c.dev()+".cmp")); err == nil {
			res.plan = parsePlan(c, string(data))
		}
	}
	return res
}

// parsePlan turns the text of ShowChanges into the change requests approve will send.
func parsePlan(c Case, text string) []string {
	var plan []string
	lines := strings.Split(strings.TrimRight(text, "\n"), "\n")
	if len(lines) == 1 && lines[0] == "" {
		return nil
	}
	switch c.Backend {
	case "nsx":
		for i := 0; i < len(lines); i += 2 {
			plan = append(plan, lines[i])
		}
	default:
		for _, l := range lines {
			plan = append(plan, strings.Replace(l, "\\N ", "\n", 1))
		}
	}
	return plan
}

// ---------------------------------------------------------------- the model's view of a scenario

func esc(s string) string {
	s = strings.ReplaceAll(s, "\\", "\\\\")
	s = strings.ReplaceAll(s, "\n", "\\n")
	s = strings.ReplaceAll(s, "\r", "\\r")
	s = strings.ReplaceAll(s, "\t", "\\t")
	return s
}

func unesc(s string) string {
	var b strings.Builder
	for i := 0; i < len(s); i++ {
		if s[i] == '\\' && i+1 < len(s) {
			i++
			switch s[i] {
			case 'n':
				b.WriteByte('\n')
			case 'r':
				b.WriteByte('\r')
			case 't':
				b.WriteByte('\t')
			default:
				b.WriteByte(s[i])
			}
			continue
		}
		b.WriteByte(s[i])
	}
	return b.String()
}

// modelLine: the scenario as a table of the device's answers (what the Go client sees as `out`).
func modelLine(c Case, compare bool, plan []string) string {
	mode := "approve"
	if compare {
		mode = "compare"
	}
	if c.OddAction {
		mode = "do:" + c.Action
	}
	banner := c.bannerRe()
	if c.Marker == "unconfigured" {
		banner = "-"
	}
	if c.HasCfgLine {
		banner = "cfg:" + esc("basedir = /x\n"+c.CfgLine+"\n")
	}
	fault := "-"
	if compare && c.FaultAt >= 0 {
		fault = strconv.Itoa(c.FaultAt)
		if c.isHTTP() && c.FaultKind == "close" {
			fault += "+" // the simulator stays unreachable (see httpsim.go)
		}
	}
	var pl []string
	for _, p := range plan {
		pl = append(pl, esc(p))
	}
	vs := ""
	if c.Backend == "panos" {
		vs = strings.Join(c.managedVsys(), ",")
	}
	f := []string{c.Backend, mode, c.dev(), strings.Join(c.names(), ","), banner, vs, fault, strings.Join(pl, us)}
	add := func(key, occ, reply string) { f = append(f, key+us+occ+us+reply) }
	T := func(s string) string { return "T:" + esc(s) }
	w := &world{}
	switch c.Backend {
	case "asa", "ios":
		if c.ErrOn != "" {
			add("L:"+c.ErrOn, "0", T(errLine))
		}
		scn := w.cliScenario(c, compare, "")
		p := scn.PromptName
		pw := scn.Banner + "\nadmin@10.1.2.3's password:"
		if c.HostKey {
			add("W", "*", T("Are you sure you want to continue connecting (yes/no)?"))
			add("L:yes", "0", T("yes\n"+pw))
		} else {
			add("W", "*", T(pw))
		}
		if scn.Login == "direct" {
			add("P", "0", T("secret\nType help\n"+p+"#"))
		} else {
			add("P", "0", T("secret\nType help\n"+p+">"))
			add("P", "1", T("secret\n"+p+"#"))
		}
		if scn.Login == "enable-pass" {
			add("L:enable", "*", T("enable\nPassword:"))
		} else if scn.Login == "enable-refused" {
			add("L:enable", "*", T("enable\n% Access denied\n"+p+">"))
		} else {
			add("L:enable", "*", T("enable\n"+p+"#"))
		}
		add("L:", "*", T("\n"+p+"#"))
		if c.PagerOff {
			add("L:sh pager", "*", T("no pager\n"))
		} else {
			add("L:sh pager", "*", T("pager lines 24\n"))
		}
		if c.Width511 {
			add("L:sh term", "*", T("\nWidth = 511, no monitor\n"))
		} else {
			add("L:sh term", "*", T("\nWidth = 80, no monitor\n"))
		}
		add("L:show hostname", "*", T(scn.Hostname+"\n"))
		add("L:write term", "*", T(scn.Config))
		add("L:sh run", "*", T(scn.Config))
		add("L:write memory", "*", T("Building configuration...\n[OK]\n"))
		add("L:reload in 2", "*", T("reload in 2\n\nSystem configuration has been modified. Save? [yes/no]: "))
	case "linux":
		if c.ErrOn != "" {
			add("L:"+c.ErrOn, "0", T(errLine))
		}
		scn := w.cliScenario(c, compare, "")
		prompt := "\r\nroot@" + scn.PromptName + ":~#"
		switch {
		case c.HostKey:
			add("W", "*", T("Are you sure you want to continue connecting (yes/no)?"))
			if scn.Login != "nopass" {
				add("L:yes", "*", T("yes\nEnter Password:"))
			} else {
				add("L:yes", "*", T("yes\n"+prompt))
			}
		case scn.Login != "nopass":
			add("W", "*", T("Enter Password:"))
		default:
			add("W", "*", T(prompt))
		}
		add("P", "*", T("secret\n"+prompt))
		add("L:hostname -s", "*", T(scn.Hostname+"\n"))
		grep := ""
		cfgText, _ := c.configured()
		if re, err := regexp.Compile(cfgText); err == nil && cfgText != "" {
			for _, l := range strings.Split(scn.Issue, "\n") {
				if l != "" && re.MatchString(l) {
					grep += l + "\n"
				}
			}
		}
		add("A:grep '", "*", T(grep))
		add("L:echo $?", "*", T("0\n"))
	case "panos":
		add("L:type=keygen", "*", T("LUFRPT="))
		has := c.haStates()
		for i, h := range has {
			occ := strconv.Itoa(i)
			if i == len(has)-1 {
				occ = "*"
			}
			if h.Enabled == "garbled" {
				add("L:type=op&cmd=<show><high-availability><state/></high-availability></show>", occ, "!:undecodable")
				continue
			}
			add("L:type=op&cmd=<show><high-availability><state/></high-availability></show>", occ,
				"H:"+h.Enabled+","+h.Mode+","+h.State)
		}
		if c.BadConfig {
			add("L:type=config&action=get&xpath=/config/devices", "*", "!:undecodable")
		} else {
			var l []string
			for _, v := range c.vsys() {
				l = append(l, v.Name+"="+v.Display)
			}
			add("L:type=config&action=get&xpath=/config/devices", "*", "F:"+c.reportedName()+"|"+strings.Join(l, ","))
		}
		add("A:type=commit&action=partial&cmd=", "*", T("6"))
		for i := 0; i < c.Pend; i++ {
			add("A:type=op&cmd=<show><jobs><id>", strconv.Itoa(i), T("PEND"))
		}
		add("A:type=op&cmd=<show><jobs><id>", "*", T("OK"))
	case "nsx":
		if c.BadConfig {
			add("L:GET /policy/api/v1/infra/domains/default/gateway-policies", "*", "!:undecodable")
		} else {
			add("L:GET /policy/api/v1/infra/domains/default/gateway-policies", "*", "G:"+strings.Join(c.nsxPolicyIDs(), ",")+"|")
		}
		add("A:GET /policy/api/v1/infra/domains/default/gateway-policies/", "*", "G:|")
		dev, _ := c.httpIdx()
		pages := nsxServicePages(HttpScn{DevSvcs: dev, PageSize: c.PageSize})
		for i, pg := range pages {
			var ids []string
			for _, k := range pg {
				ids = append(ids, fmt.Sprintf("Netspoc-tcp_%d", 80+k))
			}
			cur := ""
			if i+1 < len(pages) {
				cur = fmt.Sprintf("s%d", i+1)
			}
			add("A:GET /policy/api/v1/infra/services?cursor=", strconv.Itoa(i), "G:"+strings.Join(ids, ",")+"|"+cur)
		}
		for i := 0; i <= c.GroupPages; i++ {
			cur := ""
			if i < c.GroupPages {
				cur = fmt.Sprintf("g%d", i+1)
			}
			add("A:GET /policy/api/v1/infra/domains/default/groups?cursor=", strconv.Itoa(i), "G:|"+cur)
		}
	}
	return strings.Join(f, "\t")
}

type modelAnswer struct {
	exit   int
	diag   bool
	status string
	lines  []string // wire lines / canonical HTTP items
	kinds  []string
	raw    string
}

func parseModel(c Case, ans string) modelAnswer {
	m := modelAnswer{raw: ans, exit: -1}
	get := func(key string) string {
		i := strings.Index(ans, key+"=")
		if i < 0 {
			return ""
		}
		rest := ans[i+len(key)+1:]
		return rest
	}
	fmt.Sscanf(get("exit"), "%d", &m.exit)
	m.diag = strings.HasPrefix(get("diag"), "1")
	st := get("status")
	if i := strings.Index(st, " trace="); i >= 0 {
		st = st[:i]
	}
	m.status = st
	tr := get("trace")
	kinds := ""
	if i := strings.LastIndex(tr, " kinds="); i >= 0 {
		kinds = tr[i+7:]
		tr = tr[:i]
	}
	if tr == "" {
		return m
	}
	items := strings.Split(tr, us)
	for i, it := range items {
		k := ""
		if i < len(kinds) {
			k = kinds[i : i+1]
		}
		switch {
		case it == "C" || it == "W":
			continue
		case it == "P":
			m.lines = append(m.lines, "secret")
			m.kinds = append(m.kinds, k)
		case strings.HasPrefix(it, "L:"):
			if c.isHTTP() {
				m.lines = append(m.lines, "L:"+unesc(it[2:]))
			} else {
				m.lines = append(m.lines, unesc(it[2:]))
			}
			m.kinds = append(m.kinds, k)
		case strings.HasPrefix(it, "A:"):
			pre, arg, _ := strings.Cut(it[2:], "|")
			pre, arg = unesc(pre), unesc(arg)
			if c.isHTTP() {
				m.lines = append(m.lines, "A:"+pre+"|"+arg)
			} else {
				m.lines = append(m.lines, pre+arg+"' /etc/issue")
			}
			m.kinds = append(m.kinds, k)
		case strings.HasPrefix(it, "X:"):
			cmdText := unesc(it[2:])
			if c.isHTTP() {
				m.lines = append(m.lines, "X:"+cmdText)
				m.kinds = append(m.kinds, k)
			} else {
				for _, l := range strings.Split(cmdText, "\n") {
					m.lines = append(m.lines, l)
					m.kinds = append(m.kinds, k)
				}
			}
		}
	}
	return m
}

func kindClass(simKind string) string {
	switch simKind {
	case "login", "read":
		return "h"
	case "session":
		return "s"
	case "change":
		return "c"
	case "save":
		return "w"
	}
	return "?"
}

func modelKindClass(k string) string {
	if k == "l" || k == "r" {
		return "h"
	}
	return k
}

// ---------------------------------------------------------------- the repository's own simulator (corpus)

func perlScenario(c Case) string {
	var b strings.Builder
	b.WriteString("\nroot@linux-router:~#\n# echo $?\n0\n# uname -r\n3.2.89-2.custom\n# uname -m\ni686\n# hostname -s\n" + c.reportedName() + "\n")
	if c.Marker == "present" {
		b.WriteString("# grep 'NetSPoC' /etc/issue\n--- managed by NetSPoC ---\n")
	}
	b.WriteString("# which iptables-restore\n/sbin/iptables-restore\n# ip route show\n")
	_, routes, _ := c.cliTexts()
	b.WriteString(routes)
	b.WriteString("# iptables-save\n" + iptablesText)
	return b.String()
}

// teeMain: run a command, forward our stdin to it line by line and record every line
// (used to get a transcript out of testdata/simulate-cisco.pl).
func teeMain(transcript string, argv []string) {
	tr, err := os.OpenFile(transcript, os.O_APPEND|os.O_CREATE|os.O_WRONLY, 0644)
	if err != nil {
		os.Exit(2)
	}
	// the perl simulator relies on stdio flushing its prompt when it reads from a terminal; behind
	// a pipe it must be told to flush (the script itself is run unchanged)
	cmd := exec.Command("perl", append([]string{"-e", "$| = 1; my $f = shift @ARGV; do $f; die $@ if $@;"}, argv...)...)
	cmd.Stdout = os.Stdout
	cmd.Stderr = os.Stderr
	in, _ := cmd.StdinPipe()
	if err := cmd.Start(); err != nil {
		os.Exit(2)
	}
	s := &cliSim{scn: CliScn{Type: "Linux"}, mode: "exec"}
	buf := make([]byte, 0, 4096)
	one := make([]byte, 1)
	n := 0
	for {
		k, err := os.Stdin.Read(one)
		if k == 1 {
			buf = append(buf, one[0])
			if one[0] == '\n' {
				line := strings.TrimRight(string(buf), "\r\n")
				rec, _ := json.Marshal(SimLine{n, line, s.classify(line), "exec", -1})
				tr.Write(append(rec, '\n'))
				n++
				in.Write(buf)
				buf = buf[:0]
			}
		}
		if err != nil {
			break
		}
	}
	in.Close()
	cmd.Wait()
}

// ---------------------------------------------------------------- case generation

func matrix(ctx *Ctx, prop string) []Case {
	var out []Case
	hosts := []string{"ok", "other", "prefix", "case"}
	markers := []string{"present", "absent", "unconfigured"}
	fronts := []string{"drc", "do-approve"}
	for _, b := range []string{"asa", "ios", "linux", "panos", "nsx"} {
		has := []string{"off"}
		if b == "panos" {
			has = []string{"off", "ap:active", "ap:passive", "aa:active-primary", "aa:active-secondary"}
		}
		for _, fr := range fronts {
			for _, h := range hosts {
				if b == "nsx" && h != "ok" {
					continue // an NSX manager never reports a name
				}
				if fr == "do-approve" && (h == "prefix" || h == "case") && !ctx.Thorough() {
					continue // quick tier: the finer hostname variants through drc only
				}
				for _, m := range markers {
					if (b == "nsx" || b == "panos") && m == "unconfigured" && prop == "C06" && fr == "do-approve" {
						continue // checkbanner does not concern the HTTP types; one front end is enough
					}
					for _, ha := range has {
						for _, pend := range []int{0, 1} {
							c := Case{Backend: b, Front: fr, Host: h, Marker: m, HA: ha, Pending: pend, FaultAt: -1}
							out = append(out, c)
						}
					}
				}
			}
		}
	}
	// every HA state of every mode, both front ends, with and without pending changes
	for _, ha := range haAll {
		for _, fr := range fronts {
			for _, pend := range []int{0, 1} {
				out = append(out, Case{Backend: "panos", Front: fr, Host: "ok", Marker: "present", HA: ha, Pending: pend, FaultAt: -1})
			}
		}
	}
	// PAN-OS device with several members (name_list / ip_list of two or three): the machine that answers
	// at a member's address reports its own name, ANOTHER member's name, or a name that is not in the list
	for _, mem := range []string{"a:%a,a:%b", "a:%b,a:%a", "a:%b,p:%a", "a:zzz,a:%b", "p:%a,a:%b", "p:%a,a:%a", "p:%b,a:%a", "p:%b,a:zzz",
		"p:%a,p:%b", "a:%a,p:%b,p:%c", "a:%c,p:%b,p:%a", "p:%a,p:%b,a:%c", "p:%a,p:%b,a:%a", "p:%c,a:%a,a:%b", "p:%a,a:%b,a:%a"} {
		for _, fr := range fronts {
			for _, pend := range []int{0, 1} {
				if fr == "do-approve" && pend == 0 && !ctx.Thorough() {
					continue
				}
				out = append(out, Case{Backend: "panos", Front: fr, Host: "ok", Marker: "present", HA: "off", Pending: pend, FaultAt: -1, Members: mem})
			}
		}
	}
	// PAN-OS with several managed vsys, marker present/absent per vsys in every order
	for _, marks := range []string{"mm", "mu", "um", "uu", "mmu", "mum", "umm", "uum", "umu", "muu"} {
		for _, fr := range fronts {
			for _, pend := range []int{0, 1} {
				out = append(out, Case{Backend: "panos", Front: fr, Host: "ok", Marker: "present", HA: "off", Pending: pend, FaultAt: -1, VsysMarks: marks})
			}
		}
	}
	// PAN-OS candidate configuration left dirty by an interrupted approve
	for _, marks := range []string{"m", "u", "mu"} {
		for _, fr := range fronts {
			for _, pend := range []int{0, 1} {
				out = append(out, Case{Backend: "panos", Front: fr, Host: "ok", Marker: "present", HA: "off", Pending: pend, FaultAt: -1, VsysMarks: marks, Dirty: true})
			}
		}
	}
	// a command of the login / set-up dialogue is answered with an error line
	for _, b := range []string{"asa", "ios", "linux"} {
		for _, cmdText := range errOnCmds[b] {
			for _, pend := range []int{0, 1} {
				c := Case{Backend: b, Front: "drc", Host: "ok", Marker: "present", HA: "off", Pending: pend, FaultAt: -1, ErrOn: cmdText}
				out = append(out, c)
				if b == "asa" && !widthBlock[cmdText] {
					// (with the width already 511 the width block is not sent during set-up)
					c.PagerOff, c.Width511 = true, true
					out = append(out, c)
				}
			}
		}
	}
	// checkbanner regexps × texts the device shows (split, repeated, inside a longer word, other case)
	texts := []string{"managed by NetSPoC", "xxNetSPoCyy", "NetSPoC NetSPoC", "managed by Net SPoC", "managed by Net\nSPoC here",
		"managed by netspoc", "authorised access only"}
	res := map[string][]string{
		"asa":   {"NetSPoC", "(?i)netspoc", "Net.*SPoC", "managed.by.NetSPoC|NETSPOC", "Net\\s*SPoC", "[Nn]et[Ss][Pp]o[Cc]"},
		"ios":   {"NetSPoC", "(?i)netspoc", "Net\\s*SPoC"},
		"linux": {"NetSPoC", "Net.*SPoC", "[Nn]et[Ss][Pp]o[Cc]"},
	}
	for _, b := range []string{"asa", "ios", "linux"} {
		for i, re := range res[b] {
			for j, tx := range texts {
				if !ctx.Thorough() && (i+j)%2 == 1 && i > 0 {
					continue
				}
				out = append(out, Case{Backend: b, Front: "drc", Host: "ok", Marker: "present", HA: "off", Pending: 1, FaultAt: -1,
					BannerRe: re, MarkerText: tx})
			}
		}
	}
	// expected name × reported name: dots, letter case, prefixes and extensions — every backend that asks for the name
	namePairs := [][2]string{{"fw.dmz2", "fw"}, {"fw.dmz2", "fw.dmz2"}, {"fw.dmz2", "fw.dmz1"}, {"fw.dmz2", "FW.DMZ2"}, {"fw", "fw.dmz2"},
		{"fw1", "fw"}, {"fw", "fw1"}, {"FW", "fw"}, {"fw", "FW"}, {"fw", "fw"}, {"a.b.c", "a.b"}, {"a.b.c", "a"}, {"fw-1", "fw"}, {"fw_dmz", "fw"}}
	for _, b := range []string{"asa", "ios", "linux", "panos"} {
		for i, np := range namePairs {
			fr := fronts[i%2]
			if !ctx.Thorough() && b != "linux" && i%2 == 1 && i > 3 {
				continue
			}
			out = append(out, Case{Backend: b, Front: fr, Host: "ok", Marker: "present", HA: "off", Pending: 1, FaultAt: -1,
				DevName: np[0], Reported: np[1]})
		}
	}
	out = append(out, Case{Backend: "nsx", Front: "drc", Host: "ok", Marker: "present", HA: "off", Pending: 1, FaultAt: -1, DevName: "nsx.mgr1"})
	// the checkbanner line of the configuration file, verbatim, × what the device shows
	cfgLines := []string{"checkbanner = managed by NetSPoC", "checkbanner = \"managed by NetSPoC\"", "checkbanner = NetSPoC   ",
		"\tcheckbanner\t=\tNetSPoC", "checkbanner = managed.by.NetSPoC", "checkbanner = managed NetSPoC", "checkbanner = This system",
		"checkbanner = Net(SPoC", "checkbanner = [Nn]etSPoC", "checkbanner = ", "checkbanner=NetSPoC", "# checkbanner = NetSPoC",
		"checkbanner = NetSPoC\ncheckbanner = managed by", "checkbanner = managed\ncheckbanner = NetSPoC", "checkbanner = NetSPoC # the marker"}
	shown := []string{"This system is managed by ACME IT", "This system is managed by NetSPoC"}
	for _, b := range []string{"asa", "ios", "linux"} {
		for i, cl := range cfgLines {
			for j, sh := range shown {
				if !ctx.Thorough() && b == "ios" && (i+j)%2 == 1 {
					continue
				}
				out = append(out, Case{Backend: b, Front: fronts[(i+j)%2], Host: "ok", Marker: "present", HA: "off", Pending: 1, FaultAt: -1,
					HasCfgLine: true, CfgLine: cl, MarkerText: sh})
			}
		}
	}
	// login: `enable` is refused without asking for a password
	for _, b := range []string{"asa", "ios"} {
		out = append(out, Case{Backend: b, Front: "drc", Host: "ok", Marker: "present", HA: "off", Pending: 1, FaultAt: -1, Login: "enable-refused"})
	}
	// PAN-OS display-names: other letter case, inside a longer word, broken by a blank
	for _, marks := range []string{"U", "x", "s", "mU", "sm", "xs", "Ux"} {
		for _, pend := range []int{0, 1} {
			out = append(out, Case{Backend: "panos", Front: "drc", Host: "ok", Marker: "present", HA: "off", Pending: pend, FaultAt: -1, VsysMarks: marks})
		}
	}
	// PAN-OS: the commit job answers PEND several times
	for _, pend := range []int{1, 3, 7} {
		for _, fr := range fronts {
			out = append(out, Case{Backend: "panos", Front: fr, Host: "ok", Marker: "present", HA: "off", Pending: 1, FaultAt: -1, Pend: pend})
		}
	}
	// NSX: listed gateway policies (fetched one by one), paged listings
	for _, pol := range []int{0, 1, 2} {
		for _, ps := range []int{0, 1, 2} {
			for _, gp := range []int{0, 2} {
				if !ctx.Thorough() && (pol+ps+gp)%2 == 1 {
					continue
				}
				out = append(out, Case{Backend: "nsx", Front: "drc", Host: "ok", Marker: "present", HA: "off", Pending: 3, FaultAt: -1,
					NsxPolicies: pol, PageSize: ps, GroupPages: gp})
			}
		}
	}
	// drc without a log directory (-L): compare must end without applying, approve must still obey the gate
	for _, b := range []string{"asa", "ios", "linux", "panos", "nsx"} {
		for _, m := range []string{"present", "absent"} {
			for _, pend := range []int{0, 1, 2} {
				out = append(out, Case{Backend: b, Front: "drc", Host: "ok", Marker: m, HA: "off", Pending: pend, FaultAt: -1, NoLog: true})
			}
		}
	}
	// do-approve with action words other than exactly compare/approve: usage, exit 1, no device contact
	for _, b := range []string{"asa", "ios", "linux", "panos", "nsx"} {
		for _, wd := range oddWords {
			out = append(out, Case{Backend: b, Front: "do-approve", Host: "ok", Marker: "present", HA: "off", Pending: 1, FaultAt: -1,
				OddAction: true, Action: wd})
		}
	}
	return out
}

var oddWords = []string{"comp", "c", "compar", "Compare", "COMPARE", "compare ", "compares", "approv", "a", "Approve", "approve-all", "", "diff"}

// randomCase: the same axes plus the login variants and pending-change variants, seeded.
func randomCase(r *RNG, prop string) Case {
	b := Pick(r, []string{"asa", "ios", "linux", "panos", "nsx"})
	c := Case{Backend: b, Front: Pick(r, []string{"drc", "do-approve"}), FaultAt: -1, HA: "off"}
	c.Host = Pick(r, []string{"ok", "ok", "ok", "other", "prefix", "shorter", "case"})
	if b == "nsx" {
		c.Host = "ok"
	}
	c.Marker = Pick(r, []string{"present", "present", "absent", "unconfigured"})
	c.Pending = r.Intn(5)
	c.HostKey = !c.isHTTP() && r.Chance(30)
	switch b {
	case "asa":
		c.Login = Pick(r, []string{"enable-pass", "enable-nopass", "direct", "enable-pass", "enable-nopass", "direct", "enable-refused"})
		c.PagerOff, c.Width511 = r.Bool(), r.Bool()
	case "ios":
		c.Login = Pick(r, []string{"enable-pass", "enable-nopass", "direct", "enable-pass", "enable-nopass", "direct", "enable-refused"})
	case "linux":
		c.Login = Pick(r, []string{"pass", "nopass"})
	case "panos":
		c.HA = Pick(r, append([]string{"passive-then-active", "off", "ap:active", "aa:active-primary"}, haAll...))
	}
	if c.Front == "drc" {
		c.NoLog = r.Chance(30)
	}
	if b == "panos" {
		if r.Chance(50) {
			n := 1 + r.Intn(3)
			m := ""
			for i := 0; i < n; i++ {
				m += Pick(r, []string{"m", "m", "u"})
			}
			c.VsysMarks = m
		}
		c.Dirty = r.Chance(30)
	}
	switch b {
	case "asa", "ios", "linux":
		if c.Marker != "unconfigured" && r.Chance(40) {
			c.Marker = "present"
			c.BannerRe = Pick(r, []string{"NetSPoC", "Net.*SPoC", "[Nn]et[Ss][Pp]o[Cc]"})
			if b != "linux" && r.Chance(50) {
				c.BannerRe = Pick(r, []string{"(?i)netspoc", "managed.by.NetSPoC|NETSPOC", "Net\\s*SPoC"})
			}
			c.MarkerText = Pick(r, []string{"managed by NetSPoC", "xxNetSPoCyy", "NetSPoC NetSPoC", "managed by Net SPoC",
				"managed by Net\nSPoC here", "managed by netspoc", "authorised access only", "NETSPOC"})
		}
	case "panos":
		c.Pend = Pick(r, []int{0, 0, 1, 2, 5})
		if r.Chance(30) {
			n := 1 + r.Intn(3)
			m := ""
			for i := 0; i < n; i++ {
				m += Pick(r, []string{"m", "U", "x", "u", "s"})
			}
			c.VsysMarks = m
		}
	case "nsx":
		c.NsxPolicies, c.PageSize, c.GroupPages = r.Intn(3), r.Intn(3), r.Intn(3)
	}
	if b != "nsx" && r.Chance(25) {
		np := Pick(r, [][2]string{{"fw.dmz2", "fw"}, {"fw.dmz2", "fw.dmz2"}, {"fw", "fw.dmz2"}, {"fw1", "fw"}, {"fw", "fw1"}, {"FW", "fw"},
			{"a.b.c", "a.b"}, {"r-1.x", "r-1.x"}, {"r-1.x", "r-1"}})
		c.DevName, c.Reported = np[0], np[1]
		if c.HA == "passive-then-active" {
			c.HA = "off"
		}
	}
	if (b == "asa" || b == "ios" || b == "linux") && r.Chance(20) {
		c.HasCfgLine = true
		c.CfgLine = Pick(r, []string{"checkbanner = managed by NetSPoC", "checkbanner = NetSPoC   ", "checkbanner = managed NetSPoC",
			"checkbanner = Net(SPoC", "checkbanner = ", "checkbanner=NetSPoC", "checkbanner = NetSPoC\ncheckbanner = managed by",
			"checkbanner = This system", "checkbanner = managed\ncheckbanner = NetSPoC"})
		c.MarkerText = Pick(r, []string{"This system is managed by ACME IT", "This system is managed by NetSPoC", "NetSPoC"})
		c.BannerRe = ""
	}
	if l := errOnCmds[b]; len(l) > 0 && r.Chance(25) {
		c.ErrOn = Pick(r, l)
		if c.Width511 && widthBlock[c.ErrOn] {
			c.ErrOn = "sh ver"
		}
	}
	c.BadConfig = b != "linux" && r.Chance(6)
	if prop == "C11" && r.Chance(60) {
		max := map[string]int{"asa": 16, "ios": 9, "linux": 11, "panos": 4, "nsx": 5}[b]
		c.FaultAt = r.Intn(max)
		if c.isHTTP() {
			c.FaultKind = Pick(r, []string{"500", "close"})
		} else {
			c.FaultKind = Pick(r, []string{"close", "close", "close", "close", "close", "close", "close", "silence"})
		}
	}
	return c
}

// ---------------------------------------------------------------- running and judging one case

type outcome struct {
	c        Case
	cmp, apr runResult
	mcmp     modelAnswer
	mapr     modelAnswer
	ranApr   bool
}

// evalCase runs the case; a run that hit a time-out although the case contains no silent device
// (overloaded machine) is repeated once.
func evalCase(w *world, drv *Nadrv, c Case, prop string) outcome {
	o := evalCaseOnce(w, drv, c, prop)
	spurious := func(r runResult) bool {
		t := r.stderr + r.stdout
		return c.FaultKind != "silence" && (r.timedOut || strings.Contains(t, "Timeout exceeded") || strings.Contains(t, "timer expired"))
	}
	if spurious(o.cmp) || spurious(o.apr) {
		o = evalCaseOnce(w, drv, c, prop)
	}
	return o
}

func evalCaseOnce(w *world, drv *Nadrv, c Case, prop string) outcome {
	o := outcome{c: c}
	w.prepare(c)
	if c.OddAction {
		// one run: do-approve <word> DEVICE; stored in the compare slot
		o.cmp = w.runOnce(c, true, "odd")
		o.mcmp = parseModel(c, drv.Ask(modelLine(c, true, []string{"<unknown>"})))
		os.RemoveAll(w.dir)
		return o
	}
	var auxPlan []string
	if c.NoLog {
		// without -L compare leaves no .cmp file: learn the pending changes from an auxiliary run with -L
		aux := c
		aux.NoLog = false
		aux.FaultAt = -1
		r := w.runOnce(aux, true, "aux")
		auxPlan = r.plan
	}
	o.cmp = w.runOnce(c, true, "cmp")
	if c.NoLog {
		o.cmp.plan = auxPlan
	}
	o.mcmp = parseModel(c, drv.Ask(modelLine(c, true, nil)))
	if prop == "C06" || c.FaultAt < 0 {
		plan := o.cmp.plan
		if o.cmp.exit != 0 && plan == nil {
			plan = []string{"<unknown: compare failed>"}
		}
		o.apr = w.runOnce(c, false, "apr")
		o.mapr = parseModel(c, drv.Ask(modelLine(c, false, plan)))
		o.ranApr = true
	}
	os.RemoveAll(w.dir)
	return o
}

func eqLines(a, b []string) bool {
	if len(a) != len(b) {
		return false
	}
	for i := range a {
		if a[i] != b[i] {
			return false
		}
	}
	return true
}

func hasChange(kinds []string) (bool, int) {
	for i, k := range kinds {
		if k == "change" || k == "save" {
			return true, i
		}
	}
	return false, -1
}

func judge(res *Result, o outcome, prop string, mu *sync.Mutex) {
	mu.Lock()
	defer mu.Unlock()
	c := o.c
	il := c.interlock()
	nontrivial := il != "" || c.FaultAt >= 0 || c.Pending > 0 || c.OddAction
	res.Eval(c.canon(), nontrivial)
	res.Count("backend:" + c.Backend)
	res.Count("front:" + c.Front)
	res.Count("host:" + c.Host)
	res.Count("marker:" + c.Marker)
	res.Count("ha:" + c.HA)
	res.Count(fmt.Sprintf("pending:%d", c.Pending))
	res.Count("interlock:" + map[bool]string{true: il, false: "none"}[il != ""])
	res.Count("logdir:" + map[bool]string{true: "not-given", false: "given"}[c.NoLog])
	if c.Backend == "panos" {
		res.Count("vsys-marks:" + c.marks())
		res.Count("candidate-dirty:" + strconv.FormatBool(c.Dirty))
	}
	if c.ErrOn != "" {
		res.Count("error-answer-to:" + c.ErrOn)
	}
	if c.BannerRe != "" || c.MarkerText != "" {
		res.Count("checkbanner:" + c.bannerRe())
		res.Count("banner-text:" + strconv.Quote(c.markerText()))
	}
	if c.Backend == "nsx" {
		res.Count(fmt.Sprintf("nsx-paging:policies=%d,pagesize=%d,grouppages=%d", c.NsxPolicies, c.PageSize, c.GroupPages))
	}
	if c.Pend > 0 {
		res.Count(fmt.Sprintf("commit-job-pend:%d", c.Pend))
	}
	if c.DevName != "" || c.Reported != "" {
		res.Count("expected/reported name:" + c.dev() + "/" + c.reportedName())
	}
	if c.Members != "" {
		res.Count("members (ha:reported hostname per entry of name_list):" + c.Members)
	}
	if c.HasCfgLine {
		res.Count("config line:" + strconv.Quote(c.CfgLine))
	}
	if c.OddAction {
		res.Count("action-word:" + strconv.Quote(c.Action))
	}
	if c.FaultAt >= 0 {
		res.Count("fault:" + c.FaultKind)
		res.Count(fmt.Sprintf("fault-at:%02d", c.FaultAt))
	}

	// ---- tie: model vs implementation, both runs
	cmpRun := func(tag string, r runResult, m modelAnswer) bool {
		res.TracesVsImpl++
		implExit := r.exit
		if r.crashed {
			implExit = 2
		}
		// the final `exit` of CloseConnection races with the end of the process: it may or may not
		// reach the simulator; it is dropped on both sides
		dropExit := func(l []string) []string {
			if n := len(l); n > 0 && l[n-1] == "exit" {
				return l[:n-1]
			}
			return l
		}
		if c.isHTTP() && c.FaultKind == "close" && tag == "compare" {
			// net/http's retries of a request that hit the closed connection: repeated requests are
			// collapsed on both sides
			collapse := func(l []string) []string {
				var out []string
				for _, x := range l {
					if len(out) == 0 || out[len(out)-1] != x {
						out = append(out, x)
					}
				}
				return out
			}
			r.lines, m.lines = collapse(r.lines), collapse(m.lines)
		}
		impl := fmt.Sprintf("exit=%d diag=%v lines=%s", implExit, r.diag(), strings.Join(dropExit(r.lines), " | "))
		model := fmt.Sprintf("exit=%d diag=%v lines=%s", m.exit, m.diag, strings.Join(dropExit(m.lines), " | "))
		if r.timedOut {
			res.Disagree("c06 "+tag+" run timed out", c, impl, model)
			return false
		}
		if impl != model {
			res.Disagree("c06 "+tag+" transcript/exit/diagnostic", c, impl+"\nstderr: "+tail(r.stderr+r.stdout, 400), model+"\n"+m.status)
			return false
		}
		for i := range r.kinds {
			if len(r.kinds) != len(r.lines) || len(m.kinds) != len(m.lines) {
				break // repeated requests were collapsed above; nothing but read-only requests there
			}
			if i < len(m.kinds) && kindClass(r.kinds[i]) != modelKindClass(m.kinds[i]) {
				res.Disagree("c06 "+tag+" classification of request", c,
					r.lines[i]+" => "+r.kinds[i], m.lines[i]+" => "+m.kinds[i])
				return false
			}
		}
		res.Count(tag + ":exit=" + strconv.Itoa(implExit))
		return true
	}
	if c.OddAction {
		cmpRun("odd-action", o.cmp, o.mcmp)
		// oracle: a word other than exactly compare/approve ends with usage, exit 1, no device contact
		r := o.cmp
		bad := ""
		switch {
		case len(r.lines) > 0:
			bad = fmt.Sprintf("the device was contacted (%d requests, first: %q)", len(r.lines), r.lines[0])
		case r.exit != 1:
			bad = fmt.Sprintf("exit status %d instead of 1", r.exit)
		case !strings.Contains(r.stderr, "Usage:"):
			bad = "no usage message"
		}
		if ch, i := hasChange(r.kinds); ch {
			bad += "; configuration-changing request sent: " + r.lines[i]
		}
		if bad != "" {
			res.Fail(map[string]any{"pred": "doapprove_action_word_not_exact", "backend": c.Backend},
				fmt.Sprintf("do-approve %q %s: %s", c.Action, c.dev(), bad), c)
		} else {
			res.Count("usage:odd-action")
		}
		return
	}
	cmpRun("compare", o.cmp, o.mcmp)
	aprAgrees := false
	if o.ranApr {
		aprAgrees = cmpRun("approve", o.apr, o.mapr)
	}

	// ---- oracle C11: compare never changes the device
	if prop == "C11" || true {
		if ch, i := hasChange(o.cmp.kinds); ch || o.cmp.hashPre != o.cmp.hashPost {
			// two independent witnesses: the simulator's classification of the received lines, and the
			// hash of the device state (devstate.go) before and after the run
			line, by := "", "state_hash"
			if i >= 0 {
				line, by = o.cmp.lines[i], "classification"
				if o.cmp.hashPre != o.cmp.hashPost {
					by = "classification+state_hash"
				}
			}
			if prop == "C11" {
				res.Fail(map[string]any{"pred": "compare_changed_device", "backend": c.Backend, "by": by},
					fmt.Sprintf("compare sent a configuration-changing request or a save: %s (device state hash before %s, after %s)", line, o.cmp.hashPre, o.cmp.hashPost), c)
			} else {
				res.Count("c11-violation-seen-by-c06")
			}
		}
	}
	if prop != "C06" || !o.ranApr {
		return
	}

	// ---- oracle C06
	a := o.apr
	changed, idx := hasChange(a.kinds)
	// PAN-OS pair: nothing that changes or commits may be addressed to a member that is not the
	// active one (the members are told apart by their API keys)
	if c.Backend == "panos" {
		hs := c.haStates()
		for i, k := range a.kinds {
			if (k == "change" || k == "save") && i < len(a.members) {
				m := a.members[i]
				if m < 1 || m > len(hs) {
					res.Fail(map[string]any{"pred": "other", "backend": c.Backend, "violation": "change_with_unknown_key"},
						"approve sent "+a.lines[i]+" with an API key no member had issued", c)
					break
				}
				if !haStatePermits(hs[m-1]) {
					res.Fail(map[string]any{"pred": "other", "backend": c.Backend, "interlock": "ha", "violation": "change_sent_to_inactive_member"},
						fmt.Sprintf("approve sent %s to member %d of the pair, which reports %s / %s", a.lines[i], m, hs[m-1].Mode, hs[m-1].State), c)
					break
				}
			}
		}
	}
	switch {
	case c.cfgRejected():
		// (comes first: a configuration file that must be rejected ends the run before any device is contacted,
		// whatever the device would have shown)
		bad := ""
		switch {
		case len(a.lines) > 0:
			bad = fmt.Sprintf("device contacted (%d requests) although the configuration file must be rejected", len(a.lines))
		case a.exit == 0:
			bad = "exit status 0 although the configuration file must be rejected"
		case !a.diag():
			bad = "no diagnostic"
		}
		if bad != "" {
			res.Fail(map[string]any{"pred": "other", "backend": c.Backend, "interlock": "config"},
				fmt.Sprintf("approve (%s) with configuration line %q: %s", c.Front, c.CfgLine, bad), c)
		} else {
			res.Count("refused:config")
		}
	case il != "":
		// what went wrong, most serious first
		violation, bad := "", ""
		otherReason := c.BadConfig || c.Login == "enable-refused" // a legitimate refusal that may come before the interlock
		switch {
		case changed:
			violation, bad = "change_sent", "sent "+a.lines[idx]+" after a failed "+il+" interlock"
		case a.crashed:
			violation, bad = "crashed", "crashed"
		case a.exit == 0:
			violation, bad = "exit_0_nothing_sent", "exit status 0 after a failed "+il+" interlock"
		case !a.diag():
			violation, bad = "no_diagnostic", "no ERROR line after a failed "+il+" interlock"
		case !otherReason && !c.diagNamesInterlock(a):
			violation, bad = "wrong_diagnostic", "the diagnostic names none of the failed interlocks "+strings.Join(c.failedInterlocks(), ", ")+
				": "+tail(a.stderr+a.stdout, 300)
		}
		if bad != "" {
			sig := map[string]any{"pred": "other", "backend": c.Backend, "interlock": il, "violation": violation}
			if il == "marker" {
				sig["marker_class"] = c.markerClass()
			}
			if changed && a.exit != 0 {
				sig["violation"] = "change_sent_then_error"
			}
			// F-C06a (known): Linux, the marker is configured, the code asked `grep '<configured>' /etc/issue`,
			// the device answered nothing, and approve went on exactly as the Lean model of the UNCHANGED code
			// predicts (GetErrUnmanaged returns nil): exit 0, changes sent iff pending.  Anything else about
			// the Linux marker interlock is a new failure.
			if c.Backend == "linux" && il == "marker" && a.exit == 0 && !a.crashed && (violation == "change_sent" || violation == "exit_0_nothing_sent") {
				text, _ := c.configured()
				asked, answer := false, -2
				for i, l := range a.lines {
					if l == "grep '"+text+"' /etc/issue" {
						asked = true
						if i < len(a.grepAns) {
							answer = a.grepAns[i]
						}
					}
				}
				sig["grep_asked"] = asked
				sig["grep_answer"] = map[int]string{0: "empty", -1: "unknown", -2: "unknown"}[answer]
				if answer > 0 {
					sig["grep_answer"] = "non-empty"
				}
				sig["model_predicts"] = aprAgrees
				if asked && answer <= 0 && aprAgrees {
					sig["pred"] = "linux_marker_absent_gate_returns_nil"
				}
			}
			res.Fail(sig, fmt.Sprintf("approve (%s) of a %s device with failed %s interlock: %s", c.Front, c.Backend, il, bad), c)
		} else {
			res.Count("refused:" + il)
			if otherReason {
				res.Count("refused:" + il + ":diagnostic-not-judged(other refusal first)")
			}
		}
	case c.BadConfig || c.Login == "enable-refused":
		if changed {
			res.Fail(map[string]any{"pred": "other", "backend": c.Backend}, "change sent although the device configuration could not be read", c)
		}
	default:
		// everything in order (or marker not configured): approve must work normally
		bad := ""
		switch {
		case a.crashed:
			bad = "crashed: " + tail(a.stderr, 200)
		case a.exit != 0:
			bad = "exit status " + strconv.Itoa(a.exit) + ": " + tail(a.stderr+a.stdout, 200)
		case len(o.cmp.plan) > 0 && !changed:
			bad = "pending changes were not applied"
		case len(o.cmp.plan) == 0 && o.cmp.exit == 0 && changed:
			bad = "changes sent although nothing was pending"
		}
		if bad != "" {
			pred := "other"
			if c.Backend == "linux" && c.Marker == "unconfigured" && a.crashed {
				pred = "linux_checkbanner_nil_deref"
			}
			res.Fail(map[string]any{"pred": pred, "backend": c.Backend, "marker": c.Marker},
				fmt.Sprintf("approve (%s) of a %s device that passes every interlock (marker %s): %s", c.Front, c.Backend, c.Marker, bad), c)
		} else {
			res.Count("proceeded:marker-" + c.Marker)
		}
	}
	if len(res.Samples) < 3 && nontrivial {
		res.Sample(map[string]any{"case": c, "approve_transcript": a.lines, "approve_exit": a.exit})
	}
}

func tail(s string, n int) string {
	s = strings.TrimSpace(s)
	if len(s) > n {
		return "…" + s[len(s)-n:]
	}
	return s
}

// regexpStream: the Lean regexp matcher (NA/Model/GateText.lean) against Go's regexp on the patterns
// the code itself uses (prompt and login patterns of pkg/cisco, pkg/linux, pkg/ios), on checkbanner
// values, and on texts built from the patterns' own alphabet.
func regexpStream(ctx *Ctx, res *Result, prop string) {
	patterns := []string{
		`(?i)password:|\(yes/no.*\)\?`, `(?i)password:`, `\n\r?[^#> ]+[>#] ?$`, `(?i)password:|\n\r?[^#> ]+[>#] ?$`, `#[ ]?`,
		`\r\n\S*\s?[%>$#]\s?(?:\x27\S*)?`, `\r\n\S*\s?[%>$#]\s?(?:\x27\S*)?|(?i)password:`, `\nrouter#`,
		`\[yes\/no\]:\ |\[confirm\]`, `--- SHUTDOWN ABORTED ---`, `[#] ?$`, `#[ ]?|\[confirm\]`, `SHUTDOWN in 0?0:01:00`,
		`\n\n\n\x07[*]{3}\n[*]{3}([^\n]+)\n[*]{3}\n`,
		`NetSPoC`, `(?i)netspoc`, `Net.*SPoC`, `managed.by.NetSPoC|NETSPOC`, `Net\s*SPoC`, `[Nn]et[Ss][Pp]o[Cc]`, `^managed`, `SPoC$`,
		`Net\S+C`, `N.t+SPoC?`, `(Net|net)(SPoC|spoc)`, `[^a-z]etSPoC`, `\d+\.\d+`, `\w+@\w+`,
	}
	pieces := []string{"NetSPoC", "netspoc", "Net", "SPoC", "managed by ", " ", "\n", "\r\n", "router", "#", ">", "# ", "password:", "Password: ",
		"(yes/no)? ", "(yes/no/[fingerprint])?", "[confirm]", "[yes/no]: ", "***", "\x07", "x", "NETSPOC", "$", "%", "'abc", "root@host:~", "0:01:00",
		"SHUTDOWN in ", "--- SHUTDOWN ABORTED ---", "10.1.2.3", "a@b", ""}
	drv := ctx.StartNadrv(strings.ToLower(prop))
	defer drv.Close()
	rng := ctx.Rng.Fork()
	n := ctx.N(12, 120)
	for _, p := range patterns {
		re, err := regexp.Compile(p)
		if err != nil {
			res.Disagree("c06 regexp pattern does not compile in Go", p, err.Error(), "")
			continue
		}
		for i := 0; i < n; i++ {
			k := 1 + rng.Intn(5)
			text := ""
			for j := 0; j < k; j++ {
				text += Pick(rng, pieces)
			}
			impl := "0"
			if re.MatchString(text) {
				impl = "1"
			}
			model := drv.Ask("re\t" + esc(p) + "\t" + esc(text))
			res.Eval("re:"+p+"\x00"+text, true)
			res.TracesVsImpl++
			res.Count("regexp:" + impl)
			if impl != model {
				res.Disagree("c06 regexp matcher", map[string]string{"pattern": p, "text": text}, impl, model)
			}
		}
	}
}

// configStream: the real program.LoadConfig (in-process, HOME pointing at a generated file) against
// the model of LoadConfig (driver line `cfg`): error kind or the source of the checkbanner regexp.
// Files: a basedir line (sometimes missing), checkbanner lines of many shapes (several words, quoted,
// trailing blanks, tabs, metacharacters, invalid regexp, empty, no blanks around `=`, commented,
// duplicated), other keys with one / several / non-numeric values, unknown keys, comments.
func configStream(ctx *Ctx, res *Result, prop string, tmp string) {
	drv := ctx.StartNadrv(strings.ToLower(prop))
	defer drv.Close()
	rng := ctx.Rng.Fork()
	home := filepath.Join(tmp, "cfghome")
	os.MkdirAll(home, 0755)
	oldHome := os.Getenv("HOME")
	defer os.Setenv("HOME", oldHome)
	os.Setenv("HOME", home)
	banners := []string{"checkbanner = NetSPoC", "checkbanner = managed by NetSPoC", "checkbanner = \"managed by NetSPoC\"", "checkbanner = NetSPoC   ",
		"\tcheckbanner\t=\tNetSPoC", "  checkbanner   =   Net.*SPoC  ", "checkbanner = Net(SPoC", "checkbanner = [a-", "checkbanner = *x", "checkbanner = a)b",
		"checkbanner = ", "checkbanner =", "checkbanner=NetSPoC", "checkbanner NetSPoC", "# checkbanner = NetSPoC", "#checkbanner = NetSPoC",
		"checkbanner = managed.by.NetSPoC|NETSPOC", "checkbanner = (?i)netspoc", "checkbanner = Net\\s*SPoC", "checkbanner = NetSPoC # marker",
		"checkbanner = = NetSPoC", "CheckBanner = NetSPoC", "checkbanner = NetSPoC\r"}
	others := []string{"systemuser = admin", "systemuser = a b", "timeout = 30", "timeout = soon", "timeout = 1 2", "login_timeout = 5", "keep_history = 10",
		"compress_at = 3", "netspoc_git = /git/netspoc", "admin_emails = a@example.com", "admin_emails = a@example.com b@example.com",
		"server_ip_list = 10.1.1.1 10.1.1.2", "server_ip_list = 10.1.1.1", "unknown_key = 1", "unknown_key = 1 2", "# comment", "", "   ", "justoneword",
		"key value", "basedir = /second"}
	n := ctx.N(250, 4000)
	for i := 0; i < n; i++ {
		var lines []string
		if !rng.Chance(5) {
			lines = append(lines, "basedir = /home/netspoc")
		}
		k := rng.Intn(4)
		for j := 0; j < k; j++ {
			lines = append(lines, Pick(rng, others))
		}
		nb := Pick(rng, []int{0, 1, 1, 1, 2})
		for j := 0; j < nb; j++ {
			lines = append(lines, Pick(rng, banners))
		}
		Shuffle(rng, lines)
		text := strings.Join(lines, "\n") + "\n"
		os.WriteFile(filepath.Join(home, ".netspoc-approve"), []byte(text), 0644)
		impl := ""
		var cfg *program.Config
		var err error
		_, _, _, pm := Captured(func() int { cfg, err = program.LoadConfig(); return 0 })
		switch {
		case pm != "":
			impl = "panic:" + pm
		case err != nil:
			e := err.Error()
			switch {
			case strings.HasPrefix(e, "Expected exactly one value"):
				impl = "error:one-value"
			case strings.HasPrefix(e, "Invalid regexp"):
				impl = "error:regexp"
			case strings.HasPrefix(e, "Expected integer") || strings.HasPrefix(e, "Expected positive integer"):
				impl = "error:int"
			case strings.HasPrefix(e, "Missing 'basedir'"):
				impl = "error:basedir"
			default:
				impl = "error:" + e
			}
		default:
			impl = "ok:-"
			if b := cfg.GetVal("checkbanner"); cfg.CheckBanner != nil {
				impl = "ok:" + esc(b)
			}
		}
		model := drv.Ask("cfg\t" + esc(text))
		res.Eval("cfg:"+text, nb > 0)
		res.TracesVsImpl++
		res.Count("config:" + strings.SplitN(impl, ":", 3)[0] + ":" + strings.SplitN(impl+":", ":", 3)[1][:min(8, len(strings.SplitN(impl+":", ":", 3)[1]))])
		if impl != model {
			res.Disagree("c06 LoadConfig (checkbanner)", text, impl, model)
		}
	}
}

func run(ctx *Ctx, prop string) *Result {
	res := NewResult()
	res.Rule = "case = device type × front end × reported hostname {ok, other, prefix, shorter, case} × marker {present, absent, " +
		"unconfigured} × HA {off, active, passive, active-primary, active-secondary, passive-then-active} × pending changes (5 variants) " +
		"× login variant (host-key question, enable with/without password, direct) [× fault position and kind for C11]; each case: " +
		"compare run then approve run of the real drc/do-approve against a stateful simulator. corpus (F-C06a/b on the repository's " +
		"perl simulator) first, then the full matrix, then seeded random. non-trivial = a failing interlock, an injected fault or pending changes; distinct by case text"
	res.Assumptions = []string{
		"device behaviour is that of the harness simulators (sim.go, httpsim.go) and of testdata/simulate-cisco.pl; SSH/TLS transport not exercised",
		"scp of Linux start-up files is skipped by the code under SIMULATE_ROUTER and therefore unobserved",
	}
	self, _ := os.Executable()
	tmp, err := os.MkdirTemp("", "vh-"+strings.ToLower(prop)+"-")
	if err != nil {
		panic(err)
	}
	defer os.RemoveAll(tmp)
	perl := filepath.Join(ctx.Repo, "go", "testdata", "simulate-cisco.pl")

	var cases []Case
	if ctx.Replay != "" {
		var c Case
		if err := ReadReplay(ctx.Replay, &c); err != nil {
			fmt.Fprintln(os.Stderr, err)
			os.Exit(2)
		}
		cases = []Case{c}
	} else {
		// corpus: the two Linux witnesses on the repository's own simulator, then on ours
		for _, perlSim := range []bool{true, false} {
			cases = append(cases,
				Case{Backend: "linux", Front: "drc", Host: "ok", Marker: "absent", HA: "off", Pending: 1, FaultAt: -1, Login: "nopass", Perl: perlSim},
				Case{Backend: "linux", Front: "drc", Host: "ok", Marker: "unconfigured", HA: "off", Pending: 1, FaultAt: -1, Login: "nopass", Perl: perlSim},
				Case{Backend: "linux", Front: "drc", Host: "ok", Marker: "present", HA: "off", Pending: 1, FaultAt: -1, Login: "nopass", Perl: perlSim})
		}
		cases = append(cases, matrix(ctx, prop)...)
		n := ctx.N(80, 2500)
		for i := 0; i < n; i++ {
			cases = append(cases, randomCase(ctx.Rng.Fork(), prop))
		}
		if prop == "C11" {
			// every fault position of the compare dialogue, per type (bounded-exhaustive)
			kinds := []string{"close"}
			if ctx.Thorough() {
				kinds = []string{"close", "silence"}
			}
			for b, max := range map[string]int{"asa": 16, "ios": 9, "linux": 11, "panos": 4, "nsx": 5} {
				for k := 0; k < max; k++ {
					for _, fk := range kinds {
						kind := fk
						if b == "panos" || b == "nsx" {
							kind = map[string]string{"close": "close", "silence": "500"}[fk]
						}
						for _, m := range []string{"present", "absent"} {
							cases = append(cases, Case{Backend: b, Front: "drc", Host: "ok", Marker: m, HA: "off", Pending: 1, FaultAt: k, FaultKind: kind})
						}
					}
				}
			}
			res.Notes = append(res.Notes, "bounded-exhaustive: every fault position of the compare dialogue of every type, marker present/absent")
		}
		sort.SliceStable(cases, func(i, j int) bool { return false })
	}

	if ctx.Replay == "" {
		regexpStream(ctx, res, prop)
		configStream(ctx, res, prop, tmp)
	}
	workers := 12
	if len(cases) < workers {
		workers = len(cases)
	}
	var mu sync.Mutex
	var wg sync.WaitGroup
	ch := make(chan int)
	outs := make([]outcome, len(cases))
	for wk := 0; wk < workers; wk++ {
		wg.Add(1)
		go func(wk int) {
			defer wg.Done()
			drv := ctx.StartNadrv(strings.ToLower(prop))
			defer drv.Close()
			for i := range ch {
				w := &world{dir: filepath.Join(tmp, fmt.Sprintf("w%d-c%d", wk, i)), self: self, perl: perl}
				outs[i] = evalCase(w, drv, cases[i], prop)
			}
		}(wk)
	}
	for i := range cases {
		ch <- i
	}
	close(ch)
	wg.Wait()
	for _, o := range outs {
		judge(res, o, prop, &mu)
	}
	return res
}
