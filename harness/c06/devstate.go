package main

// What a received line / request DOES to the simulated device (specification side of the C11
// oracle of this harness): a small state machine per device kind, deliberately separate from
// `classify` (sim.go) and from the `kind` column of the HTTP simulators — the state hash before
// and after a compare run is computed from THIS state, not from the classification of the lines.
//
// CLI (ASA, IOS): running configuration (set of lines), start-up configuration, a pending reload,
// and a journal of everything else that is not known to leave the device alone.  `no X` removes
// X (and lines below it that start with "X "), any other line in configuration mode is added;
// `write memory` copies running to start-up.  Terminal settings (pager, length, width — also the
// ASA's `terminal width` inside configuration mode, the session setting C11 names) live and die
// with the session and are not part of the state.
// Linux: routing table, and a journal of every command that is not a known query.
// PAN-OS: candidate configuration as the list of modifying API calls, number of commits (a commit
// makes the candidate the running configuration), journal of unknown operational commands.
// NSX: journal of every request that is not a GET (session creation excepted).

import (
	"crypto/sha256"
	"encoding/hex"
	"encoding/json"
	"net/url"
	"sort"
	"strings"
)

type devState struct {
	Kind    string   `json:"kind"` // ASA IOS Linux PAN-OS NSX
	Running []string `json:"running"`
	Startup []string `json:"startup"`
	Reload  string   `json:"reload"`
	Routes  []string `json:"routes"`
	Cand    []string `json:"cand"`
	Active  []string `json:"active"`
	Commits int      `json:"commits"`
	Journal []string `json:"journal"`
	mode    string   // exec | config (where the session is; not device state)
}

func splitLines(text string) []string {
	var out []string
	for _, l := range strings.Split(text, "\n") {
		if strings.TrimSpace(l) != "" {
			out = append(out, strings.TrimRight(l, " \r"))
		}
	}
	return out
}

func newCliState(kind, config, routes string) *devState {
	d := &devState{Kind: kind, mode: "exec"}
	d.Running = splitLines(config)
	d.Startup = append([]string(nil), d.Running...)
	d.Routes = splitLines(routes)
	sort.Strings(d.Routes)
	return d
}

func newHTTPState(kind, initial string) *devState {
	return &devState{Kind: kind, Active: []string{initial}, Cand: []string{initial}}
}

func (d *devState) hash() string {
	b, _ := json.Marshal(d)
	h := sha256.Sum256(b)
	return hex.EncodeToString(h[:8])
}

func prefixOf(s string, ps ...string) bool {
	for _, p := range ps {
		if strings.HasPrefix(s, p) {
			return true
		}
	}
	return false
}

// line: one command line received after the login dialogue.
func (d *devState) line(raw string) {
	l := strings.TrimSpace(raw)
	switch d.Kind {
	case "ASA", "IOS":
		d.cisco(l)
	default:
		d.linux(l)
	}
}

func (d *devState) cisco(l string) {
	if d.mode == "config" {
		switch {
		case l == "end" || l == "exit":
			d.mode = "exec"
		case l == "":
		case strings.HasPrefix(l, "do "):
			d.mode = "exec"
			d.cisco(strings.TrimPrefix(l, "do "))
			if d.mode == "exec" {
				d.mode = "config"
			}
		case d.Kind == "ASA" && strings.HasPrefix(l, "terminal width "):
			// session setting
		case strings.HasPrefix(l, "no "):
			x := strings.TrimPrefix(l, "no ")
			var keep []string
			for _, r := range d.Running {
				if r != x && !strings.HasPrefix(r, x+" ") {
					keep = append(keep, r)
				}
			}
			if len(keep) == len(d.Running) {
				d.Journal = append(d.Journal, "config: "+l)
			}
			d.Running = keep
		default:
			d.Running = append(d.Running, l)
		}
		return
	}
	switch {
	case l == "" || l == "enable" || l == "disable" || l == "exit":
	case prefixOf(l, "sh ", "show ") || l == "write term" || l == "write terminal":
	case prefixOf(l, "terminal ", "term "):
	case l == "configure terminal" || l == "conf t":
		d.mode = "config"
	case l == "write memory" || l == "wr mem" || l == "write" || strings.HasPrefix(l, "copy running-config"):
		d.Startup = append([]string(nil), d.Running...)
		d.Commits++
	case l == "reload cancel":
		d.Reload = ""
	case strings.HasPrefix(l, "reload"):
		d.Reload = l
	default:
		// answers to questions (y / n / empty) arrive as lines too: a one-letter answer while a reload
		// question may be open is part of that dialogue
		if (l == "n" || l == "y" || l == "yes" || l == "no") && d.Reload != "" {
			return
		}
		d.Journal = append(d.Journal, "exec: "+l)
	}
}

func (d *devState) linux(l string) {
	switch {
	case l == "" || l == "exit":
	case prefixOf(l, "uname", "grep ", "echo $?", "which ", "PS1=") || l == "hostname" || l == "hostname -s":
	case l == "iptables-save" || l == "ip route show" || l == "ip route":
	case strings.HasPrefix(l, "ip route add "):
		r := strings.TrimPrefix(l, "ip route add ")
		d.Routes = append(d.Routes, r)
		sort.Strings(d.Routes)
	case strings.HasPrefix(l, "ip route del "):
		r := strings.TrimPrefix(l, "ip route del ")
		var keep []string
		for _, x := range d.Routes {
			if x != r {
				keep = append(keep, x)
			}
		}
		if len(keep) == len(d.Routes) {
			d.Journal = append(d.Journal, l)
		}
		d.Routes = keep
	default:
		d.Journal = append(d.Journal, l)
	}
}

// panos: one XML API request (raw query).
func (d *devState) panos(rawQuery string) {
	q, err := url.ParseQuery(rawQuery)
	if err != nil {
		d.Journal = append(d.Journal, "unparsable: "+rawQuery)
		return
	}
	q.Del("key")
	switch typ := q.Get("type"); typ {
	case "keygen":
	case "config":
		switch a := q.Get("action"); a {
		case "get", "show", "complete":
		default:
			d.Cand = append(d.Cand, a+" "+q.Get("xpath")+" "+q.Get("element")+q.Get("where")+q.Get("dst")+q.Get("newname"))
		}
	case "commit":
		d.Commits++
		d.Active = append([]string(nil), d.Cand...)
	case "op":
		cmd := q.Get("cmd")
		if strings.HasPrefix(cmd, "<show>") {
			return
		}
		d.Journal = append(d.Journal, "op: "+cmd)
	case "export", "log", "report":
	default:
		d.Journal = append(d.Journal, typ+": "+q.Encode())
	}
}

// nsx: one REST request.
func (d *devState) nsx(method, uri, body string) {
	switch {
	case method == "GET" || method == "HEAD":
	case method == "POST" && strings.HasPrefix(uri, "/api/session/create"):
	default:
		d.Journal = append(d.Journal, method+" "+uri+" "+body)
	}
}

// cliStateHashes: state hash of a console device before and after it received the transcript.
func cliStateHashes(kind, config, routes string, tr []SimLine) (string, string) {
	d := newCliState(kind, config, routes)
	pre := d.hash()
	for _, l := range tr {
		if l.Mode == "login" {
			continue // password, answers of the login dialogue
		}
		d.line(l.Line)
	}
	return pre, d.hash()
}
