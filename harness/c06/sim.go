package main

// Stateful command-line device simulator for ASA, IOS and Linux, started by the code under
// test through SIMULATE_ROUTER ("vh-c06 sim <scenario.json>").  It speaks the dialogue the
// repository's testdata/simulate-cisco.pl speaks (echo, output, prompt without newline, raw
// pty), but additionally
//   - records every line it receives in a transcript, classified on the DEVICE side
//     (specification side of C06/C11): login input, read-only, session setting,
//     configuration-changing, save;
//   - keeps a journal of everything that changed it, so that a state hash before/after a run
//     can be compared;
//   - can go silent or close the connection at the k-th received line (fault injection).

import (
	"bufio"
	"encoding/json"
	"fmt"
	"os"
	"regexp"
	"strings"
	"time"
)

type CliScn struct {
	Type       string `json:"type"`        // ASA | IOS | Linux
	PromptName string `json:"prompt_name"` // name in the prompt (IOS: what checkDeviceName reads)
	Hostname   string `json:"hostname"`    // answer to `show hostname` / `hostname -s`
	Banner     string `json:"banner"`      // text shown before the password prompt ("" = none)
	HostKey    bool   `json:"host_key"`    // ask (yes/no)? first
	Login      string `json:"login"`       // enable-pass | enable-nopass | direct | nopass (Linux: no password prompt)
	PagerOff   bool   `json:"pager_off"`
	Width511   bool   `json:"width_511"`
	Issue      string `json:"issue"`  // Linux /etc/issue
	Config     string `json:"config"` // write term / sh run
	Routes     string `json:"routes"` // Linux: ip route show
	IPTables   string `json:"iptables"`
	FaultAt    int    `json:"fault_at"`   // -1 = none; index of the received line that gets no answer
	FaultKind  string `json:"fault_kind"` // close | silence
	Transcript string `json:"transcript"`
	// ErrOn: the first time this command of the login / set-up dialogue arrives it is answered with
	// an error line (the device still does what the command says)
	ErrOn string `json:"err_on"`
}

type SimLine struct {
	N    int    `json:"n"`
	Line string `json:"line"`
	Kind string `json:"kind"` // login | read | session | change | save
	Mode string `json:"mode"` // login | exec | config
	// Linux `grep … /etc/issue`: number of lines the device answered (-1 = not such a line / unknown)
	Ans int `json:"ans"`
}

var asaReadOnly = map[string]bool{"": true, "enable": true, "sh pager": true, "terminal pager 0": true, "sh term": true,
	"sh ver": true, "show hostname": true, "write term": true, "exit": true}
var iosReadOnly = map[string]bool{"": true, "enable": true, "term len 0": true, "term width 512": true, "sh ver": true,
	"sh run": true, "exit": true}
var linuxReadOnly = map[string]bool{"uname -r": true, "uname -m": true, "hostname -s": true, "iptables-save": true,
	"ip route show": true, "echo $?": true, "which iptables-restore": true, "exit": true}

type cliSim struct {
	scn     CliScn
	in      *bufio.Reader
	tr      *os.File
	n       int
	mode    string // login | exec | config
	prompt  string
	journal []string
	errDone bool
}

// errAnswer: the error line, once, if `line` is the command the scenario wants rejected.
func (s *cliSim) errAnswer(line string) string {
	if s.scn.ErrOn != "" && line == s.scn.ErrOn && !s.errDone {
		s.errDone = true
		return "ERROR: % Invalid input detected at '^' marker.\n"
	}
	return ""
}

func (s *cliSim) out(text string) {
	os.Stdout.WriteString(strings.ReplaceAll(text, "\n", "\r\n"))
}

// classify is the device's own view of a received line.
func (s *cliSim) classify(line string) string {
	if s.mode == "login" {
		return "login"
	}
	switch s.scn.Type {
	case "ASA":
		if s.mode == "config" {
			if line == "terminal width 511" || line == "end" {
				return "session"
			}
			return "change"
		}
		switch {
		case asaReadOnly[line]:
			return "read"
		case line == "configure terminal":
			return "session"
		case line == "write memory":
			return "save"
		}
		return "change"
	case "IOS":
		if s.mode == "config" {
			return "change"
		}
		switch {
		case iosReadOnly[line]:
			return "read"
		case line == "write memory":
			return "save"
		}
		return "change"
	default: // Linux
		switch {
		case linuxReadOnly[line]:
			return "read"
		case strings.HasPrefix(line, "PS1="):
			return "read"
		case strings.HasPrefix(line, "grep '") && strings.HasSuffix(line, "' /etc/issue"):
			return "read"
		}
		return "change"
	}
}

// read one line from the client; record it; apply the fault if it is due.
func (s *cliSim) read() (string, bool) {
	line, err := s.in.ReadString('\n')
	if err != nil {
		return "", false
	}
	line = strings.TrimRight(line, "\r\n")
	kind := s.classify(line)
	rec, _ := json.Marshal(SimLine{s.n, line, kind, s.mode, s.grepAnswer(line)})
	s.tr.Write(append(rec, '\n'))
	if kind == "change" || kind == "save" {
		s.journal = append(s.journal, line)
	}
	if s.n == s.scn.FaultAt {
		s.n++
		switch s.scn.FaultKind {
		case "silence":
			time.Sleep(8 * time.Second)
		}
		s.tr.Close()
		os.Exit(0)
	}
	s.n++
	return line, true
}

func (s *cliSim) echo(line string) { s.out(line + "\n") }

// issueLines: what `grep '<re>' /etc/issue` prints (the device's grep is taken to understand the
// regexp as Go does; the harness only uses patterns that mean the same to grep)
func (s *cliSim) issueLines(line string) []string {
	re := strings.TrimSuffix(strings.TrimPrefix(line, "grep '"), "' /etc/issue")
	var out []string
	if rx, err := regexp.Compile(re); err == nil && re != "" {
		for _, l := range strings.Split(s.scn.Issue, "\n") {
			if l != "" && rx.MatchString(l) {
				out = append(out, l)
			}
		}
	}
	return out
}

func (s *cliSim) grepAnswer(line string) int {
	if s.scn.Type == "Linux" && s.mode != "login" && strings.HasPrefix(line, "grep '") && strings.HasSuffix(line, "' /etc/issue") {
		return len(s.issueLines(line))
	}
	return -1
}

func simMain(path string) {
	data, err := os.ReadFile(path)
	if err != nil {
		fmt.Fprintln(os.Stderr, err)
		os.Exit(2)
	}
	var scn CliScn
	if err := json.Unmarshal(data, &scn); err != nil {
		fmt.Fprintln(os.Stderr, err)
		os.Exit(2)
	}
	tr, err := os.OpenFile(scn.Transcript, os.O_APPEND|os.O_CREATE|os.O_WRONLY, 0644)
	if err != nil {
		fmt.Fprintln(os.Stderr, err)
		os.Exit(2)
	}
	s := &cliSim{scn: scn, in: bufio.NewReader(os.Stdin), tr: tr, mode: "login"}
	defer tr.Close()
	if scn.Type == "Linux" {
		s.linux()
	} else {
		s.cisco()
	}
}

func (s *cliSim) cisco() {
	scn := s.scn
	name := scn.PromptName
	// ---- login dialogue
	if scn.HostKey {
		s.out("The authenticity of host 'router (10.1.1.1)' can't be established.\nAre you sure you want to continue connecting (yes/no)? ")
		l, ok := s.read()
		if !ok {
			return
		}
		s.echo(l)
	}
	if scn.Banner != "" {
		s.out(scn.Banner + "\n")
	}
	s.out("admin@10.1.2.3's password: ")
	l, ok := s.read()
	if !ok {
		return
	}
	s.echo(l)
	s.out("Type help or '?' for a list of available commands.\n")
	awaitEnablePass := false
	if scn.Login == "direct" {
		s.mode = "exec"
		s.out(name + "#")
	} else {
		s.out(name + ">")
	}
	for {
		line, ok := s.read()
		if !ok {
			return
		}
		s.echo(line)
		if awaitEnablePass {
			awaitEnablePass = false
			s.mode = "exec"
			s.out(name + "#")
			continue
		}
		if s.mode == "login" {
			if line == "enable" {
				if scn.Login == "enable-refused" {
					s.out("% Access denied\n")
					s.out(name + ">")
					continue
				}
				if scn.Login == "enable-pass" {
					s.out("Password: ")
					awaitEnablePass = true
					continue
				}
				s.mode = "exec"
			}
			if s.mode == "login" {
				s.out(name + ">")
			} else {
				s.out(name + "#")
			}
			continue
		}
		// ---- exec / config mode
		if line == "exit" {
			return
		}
		e := s.errAnswer(line)
		a := s.ciscoAnswer(line)
		if e != "" {
			a = e
		}
		s.out(a)
		s.out(name + "#")
	}
}

func (s *cliSim) ciscoAnswer(line string) string {
	scn := s.scn
	if s.mode == "config" {
		if line == "end" {
			s.mode = "exec"
		}
		return ""
	}
	lookup := strings.TrimPrefix(line, "do ")
	switch lookup {
	case "configure terminal":
		s.mode = "config"
		if scn.Type == "IOS" {
			return "Enter configuration commands, one per line.  End with CNTL/Z.\n"
		}
	case "sh pager":
		if scn.PagerOff {
			return "no pager\n"
		}
		return "pager lines 24\n"
	case "sh term":
		if scn.Width511 {
			return "\nWidth = 511, no monitor\nterminal interactive\n"
		}
		return "\nWidth = 80, no monitor\nterminal interactive\n"
	case "sh ver":
		if scn.Type == "ASA" {
			return "Cisco Adaptive Security Appliance Software Version 9.4(4)5\n"
		}
		return "Cisco IOS Software, C2900 Software (C2900-UNIVERSALK9-M), Version 15.1(4)M4,\n"
	case "show hostname":
		return scn.Hostname + "\n"
	case "write term", "sh run":
		return scn.Config
	case "write memory":
		if scn.Type == "ASA" {
			return "Building configuration...\nCryptochecksum: abcdef01 44444444 12345678 98765432\n\n123456 bytes copied in 0.330 secs\n[OK]\n"
		}
		return "Building configuration...\n  Compressed configuration from 106098 bytes to 30504 bytes[OK]\n"
	case "reload in 2":
		s.out("\nSystem configuration has been modified. Save? [yes/no]: ")
		l, ok := s.read()
		if !ok {
			os.Exit(0)
		}
		s.echo(l)
		s.out("Reload reason: Reload Command\nProceed with reload? [confirm]")
		l, ok = s.read()
		if !ok {
			os.Exit(0)
		}
		s.echo(l)
		return ""
	case "reload cancel":
		return "\n\n***\n*** --- SHUTDOWN ABORTED ---\n***\n"
	}
	return ""
}

func (s *cliSim) linux() {
	scn := s.scn
	if scn.HostKey {
		s.out("The authenticity of host 'router (10.1.1.1)' can't be established.\nAre you sure you want to continue connecting (yes/no)? ")
		l, ok := s.read()
		if !ok {
			return
		}
		s.echo(l)
	}
	if scn.Login != "nopass" {
		s.out("Enter Password:")
		l, ok := s.read()
		if !ok {
			return
		}
		s.echo(l)
	}
	s.prompt = "root@" + scn.PromptName + ":~#"
	s.out("\n" + s.prompt)
	s.mode = "exec"
	status := "0"
	for {
		line, ok := s.read()
		if !ok {
			return
		}
		s.echo(line)
		switch {
		case line == "exit":
			return
		case strings.HasPrefix(line, "PS1="):
			s.prompt = strings.TrimPrefix(line, "PS1=")
		case line == "echo $?":
			s.out(status + "\n")
		case s.scn.ErrOn != "" && line == s.scn.ErrOn && !s.errDone:
			s.out(s.errAnswer(line))
		case line == "uname -r":
			s.out("3.2.89-2.custom\n")
		case line == "uname -m":
			s.out("i686\n")
		case line == "hostname -s":
			s.out(scn.Hostname + "\n")
		case strings.HasPrefix(line, "grep '") && strings.HasSuffix(line, "' /etc/issue"):
			for _, l := range s.issueLines(line) {
				s.out(l + "\n")
			}
		case line == "ip route show":
			s.out(scn.Routes)
		case line == "iptables-save":
			s.out(scn.IPTables)
		case line == "which iptables-restore":
			s.out("/sbin/iptables-restore\n")
		}
		s.out(s.prompt)
	}
}

// ---------------------------------------------------------------- transcript reading (harness side)

func readTranscript(path string) []SimLine {
	data, err := os.ReadFile(path)
	if err != nil {
		return nil
	}
	var out []SimLine
	for _, l := range strings.Split(string(data), "\n") {
		if l == "" {
			continue
		}
		var sl SimLine
		if json.Unmarshal([]byte(l), &sl) == nil {
			out = append(out, sl)
		}
	}
	return out
}
