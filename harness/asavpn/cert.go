package main

// Fragment H = fragment G + certificate maps, tunnel-group-map rules, toplevel webvpn with certificate-group-map rules
// (Lean model NA.Vpn.G.runH, driver op `H`): structural encoding, the tie, and a generator of such pairs.

import (
	"fmt"
	"os"
	"strings"

	. "verifharness/vhlib"
)

var dbgN int

func certKind(k string) bool { return graphKind(k) || k == "certmap" }

// inCertFragment: like inGraphFragment, plus certificate maps with ONE entry each, tunnel-group-map rules and webvpn.
// The entries of certificate maps that carry the same subject-name must have the same index on both sides: the tool
// compares such entries in place under the device's index, the model by the index.
func inCertFragment(d *vdev) bool {
	seen := map[ref]bool{}
	for _, b := range d.Blocks {
		w := b.words()
		k, n := headKind(w)
		if k == "tgmap" && defaultTG[w[len(w)-1]] != "" {
			return false // rules for built-in tunnel-groups: the built-in objects are not in the model
		}
		if k == "webvpn" {
			for _, sx := range b.Subs {
				if sw := strings.Fields(sx); len(sw) == 4 && sw[0] == "certificate-group-map" && defaultTG[sw[3]] != "" {
					return false
				}
			}
		}
		switch {
		case k == "" || k == "interface" || k == "tgmap" || k == "webvpn":
		case k == "certmap":
			if seen[ref{k, n}] {
				return false
			}
			seen[ref{k, n}] = true
		case k == "aaa":
			for _, s := range b.Subs {
				if strings.HasPrefix(s, "ldap-attribute-map") {
					return false
				}
			}
		case graphKind(k):
			if k == "user" && d.localUser(n) {
				return false // local accounts are not in the model
			}
			if defaultTG[n] != "" || n == defaultGP {
				return false
			}
			if k == "acl" && len(headSlots(w)) > 1 {
				return false
			}
		default:
			return false
		}
	}
	return true
}

func subjectOf(b *block) string {
	for _, s := range b.Subs {
		if strings.HasPrefix(s, "subject-name attr") {
			return strings.ToLower(s)
		}
	}
	return ""
}

// sameIndexPerSubject: certificate map entries with the same subject-name have the same index (both configurations).
func sameIndexPerSubject(a, b *vdev) bool {
	idx := map[string]string{}
	for _, d := range []*vdev{a, b} {
		for _, x := range d.Blocks {
			w := x.words()
			if k, _ := headKind(w); k == "certmap" {
				s := subjectOf(x)
				if old, ok := idx[s]; ok && old != w[5] {
					return false
				}
				idx[s] = w[5]
			}
		}
	}
	return true
}

func encodeCertObjs(d *vdev) string {
	var objs []string
	if g := encodeGraph(d); g != "" {
		objs = append(objs, g)
	}
	for _, o := range d.objects() {
		if o.kind != "certmap" {
			continue
		}
		var secs []string
		for _, b := range d.blocksOf(o) {
			w := b.words()
			var subs []string
			for _, s := range b.Subs {
				sw := strings.Fields(s)
				key := strings.Join(sw, " ")
				if sw[0] == "subject-name" {
					key = strings.ToLower(key) // stored in lower case; compared in lower case
				}
				subs = append(subs, strings.Join([]string{key, strings.Join(sw, " "), "", ""}, "\x07"))
			}
			secs = append(secs, strings.Join([]string{w[5], "1", strings.Join(subs, "\x06")}, "\x05"))
		}
		objs = append(objs, strings.Join([]string{"certmap", o.name, flag(strings.Contains(o.name, "-DRC-")), "0", "", strings.Join(secs, "\x04")}, "\x02"))
	}
	return strings.Join(objs, "\x01")
}

func encodeRules(d *vdev) (tgmap, web string) {
	web = "-"
	var t []string
	rule := func(w []string) string {
		if len(w) == 3 && w[1] == "default-group" {
			return strings.Join([]string{"", "", w[2]}, "\x02")
		}
		return strings.Join([]string{w[1], w[2], w[3]}, "\x02")
	}
	for _, b := range d.Blocks {
		w := b.words()
		switch k, _ := headKind(w); k {
		case "tgmap":
			t = append(t, rule(w))
		case "webvpn":
			var l []string
			for _, s := range b.Subs {
				sw := strings.Fields(s)
				if len(sw) == 4 && sw[0] == "certificate-group-map" {
					l = append(l, rule(sw))
				}
			}
			web = strings.Join(l, "\x01")
		}
	}
	return strings.Join(t, "\x01"), web
}

// checkCert: the model's change list against the real one; the answer carries what the Lean device makes of it.
func (l *leanTie) checkCert(c cfgCase, out string, status int) *graphAns {
	if !inCertFragment(c.dev) || !inCertFragment(c.spoc) {
		return nil
	}
	hasRules := false
	for _, d := range []*vdev{c.dev, c.spoc} {
		for _, b := range d.Blocks {
			if k, _ := headKind(b.words()); k == "tgmap" || k == "webvpn" || k == "certmap" {
				hasRules = true
			}
		}
	}
	if !hasRules {
		return nil // fragment G proper: op G
	}
	if !sameIndexPerSubject(c.dev, c.spoc) {
		l.res.Count("lean:cert-outside-fragment:certificate-map-index-differs")
		return nil
	}
	ta, wa := encodeRules(c.dev)
	tb, wb := encodeRules(c.spoc)
	line := "H\ta=" + encodeCertObjs(c.dev) + "\tb=" + encodeCertObjs(c.spoc) + "\tta=" + ta + "\ttb=" + tb + "\twa=" + wa + "\twb=" + wb
	ans := l.drv.Ask(line)
	if os.Getenv("VPN_DEBUG") != "" {
		dbgN++
		os.WriteFile(fmt.Sprintf("/tmp/b-vpn/line-%d.txt", dbgN), []byte(line+"\n"), 0644)
	}
	if ans == "outside" {
		l.res.Count("lean:cert-outside-fragment")
		return nil
	}
	l.res.TracesVsImpl++
	l.res.Count("lean:cert-compared")
	in := map[string]any{"vpn_device": c.Dev, "vpn_netspoc": c.Spoc}
	if status != 0 {
		if ans != "abort" {
			l.res.Disagree("vpn-cert", in, "abort", ans)
		}
		return nil
	}
	f := strings.Split(ans, "\t")
	impl := strings.Join(splitLines(out), "|")
	if len(f) != 4 || f[0] != "ok" || f[1] != impl {
		l.res.Disagree("vpn-cert", in, "ok\t"+impl, ans)
		return nil
	}
	return &graphAns{acc: strings.HasPrefix(f[2], "acc"), conv: strings.Contains(f[2], "+conv"), frame: strings.Contains(f[2], "+frame"), second: f[3]}
}

// ---------------------------------------------------------------- generator

func (g *gen) genCert() cfgCase {
	r := g.r
	b := &vdev{}
	var note []string
	say := func(s string) { note = append(note, s) }
	plainGP := []string{"banner value Welcome0", "vpn-idle-timeout 60", "vpn-idle-timeout 120", "vpn-session-timeout 40", "split-tunnel-policy tunnelall"}
	plainGen := []string{"password-management", "strip-realm", "authorization-required", "dhcp-server 10.1.1.9"}
	plainIpsec := []string{"peer-id-validate req", "peer-id-validate nocheck", "trust-point TP0", "trust-point TP1", "chain"}
	plainWeb := []string{"authentication certificate", "authentication aaa certificate", "group-alias X enable"}
	pick := func(l []string, n int) []string {
		c := append([]string{}, l...)
		Shuffle(r, c)
		var out []string
		seen := map[string]bool{}
		for _, x := range c {
			k := strings.Fields(x)[0]
			if !seen[k] && len(out) < n {
				seen[k] = true
				out = append(out, x)
			}
		}
		return out
	}
	mkGP := func(name string) {
		if b.exists(ref{"gp", name}) {
			return
		}
		b.add("group-policy " + name + " internal")
		subs := pick(plainGP, r.Intn(3))
		if r.Chance(60) {
			an := "vpn-filter-" + name
			addACL(b, an, g.aclLines("filter", 1+r.Intn(2)))
			subs = append(subs, "vpn-filter value "+an)
		}
		if r.Chance(50) {
			pn := fmt.Sprintf("pool%d", 1+r.Intn(2))
			if !b.exists(ref{"pool", pn}) {
				b.add(fmt.Sprintf("ip local pool %s 10.3.%s.0-10.3.%s.63 mask 255.255.255.192", pn, pn[4:], pn[4:]))
			}
			subs = append(subs, "address-pools value "+pn)
		}
		Shuffle(r, subs)
		if len(subs) > 0 || r.Chance(50) {
			b.add("group-policy "+name+" attributes", subs...)
		}
	}
	var web []string
	hasWeb := r.Chance(60)
	nra := r.Intn(4)
	for k := 1; k <= nra; k++ {
		cm := fmt.Sprintf("ca-map-%d", k)
		subs := []string{fmt.Sprintf("subject-name attr ea co @Sub%d.example.com", k)}
		if r.Chance(40) {
			subs = append(subs, "extended-key-usage co "+Pick(r, []string{"clientauth", "1.3.6.1.4.1.311.20.2.2"}))
		}
		b.add(fmt.Sprintf("crypto ca certificate map %s %d", cm, 10*k), subs...)
		tg := fmt.Sprintf("VPN-tunnel-%d", k)
		if k > 1 && r.Chance(15) {
			tg = "VPN-tunnel-1" // two certificate maps lead to one tunnel-group
		} else if r.Chance(15) {
			// a certificate map bound to an address-named (l2l) tunnel-group
			tg = fmt.Sprintf("10.0.0.%d", k)
			b.add("tunnel-group " + tg + " type ipsec-l2l")
			b.add("tunnel-group "+tg+" ipsec-attributes", pick(plainIpsec, 1+r.Intn(2))...)
		}
		if !b.exists(ref{"tg", tg}) {
			b.add("tunnel-group " + tg + " type remote-access")
			gp := fmt.Sprintf("VPN-group-%d", k)
			if k > 1 && r.Chance(30) {
				gp = "VPN-group-1"
			}
			mkGP(gp)
			b.add("tunnel-group "+tg+" general-attributes", append(pick(plainGen, r.Intn(2)), "default-group-policy "+gp)...)
			if r.Chance(60) {
				b.add("tunnel-group "+tg+" ipsec-attributes", pick(plainIpsec, 1+r.Intn(2))...)
			}
			if r.Chance(40) {
				b.add("tunnel-group "+tg+" webvpn-attributes", pick(plainWeb, 1)...)
			}
		}
		inMap := r.Chance(75)
		if inMap {
			b.add(fmt.Sprintf("tunnel-group-map %s %d %s", cm, 10*k, tg))
		}
		if hasWeb && (!inMap || r.Chance(60)) && !isIPName(tg) {
			web = append(web, fmt.Sprintf("certificate-group-map %s %d %s", cm, 10*k, tg))
		} else if !inMap {
			b.add(fmt.Sprintf("tunnel-group-map %s %d %s", cm, 10*k, tg))
		}
	}
	if nra > 0 && r.Chance(20) && b.exists(ref{"tg", "VPN-tunnel-1"}) {
		b.add("tunnel-group-map default-group VPN-tunnel-1")
	}
	if hasWeb && (len(web) > 0 || r.Chance(30)) {
		b.add("webvpn", web...)
	}
	for i, n := 0, r.Intn(3); i < n; i++ {
		u := fmt.Sprintf("user%d@example.com", 1+r.Intn(4))
		if b.exists(ref{"user", u}) {
			continue
		}
		b.add("username " + u + " nopassword")
		subs := []string{"service-type remote-access"}
		if r.Chance(60) {
			gp := fmt.Sprintf("VPN-group-%d", 1+r.Intn(2))
			mkGP(gp)
			subs = append(subs, "vpn-group-policy "+gp)
		}
		b.add("username "+u+" attributes", subs...)
	}
	// ---- device
	a := &vdev{}
	a.add("hostname fw1")
	for i, n := range []string{"inside", "outside"} {
		a.add(fmt.Sprintf("interface Ethernet0/%d", i), "nameif "+n)
	}
	if r.Chance(8) {
		say("empty-device")
		return cfgCase{Name: "cert", Dev: a.print(), Spoc: b.print(), Note: note, dev: a, spoc: b}
	}
	for _, x := range b.clone().Blocks {
		a.Blocks = append(a.Blocks, x)
	}
	for _, o := range a.objects() {
		if fixedName(o) {
			continue
		}
		switch k := r.Intn(100); {
		case k < 70:
			a.rename(o, fmt.Sprintf("%s-DRC-%d", o.name, r.Intn(2)))
		case k < 80:
			a.rename(o, "old-"+o.name)
		}
	}
	rules := func() []*block {
		var out []*block
		for _, x := range a.Blocks {
			if k, _ := headKind(x.words()); k == "tgmap" {
				out = append(out, x)
			}
		}
		return out
	}
	webBlock := func() *block {
		for _, x := range a.Blocks {
			if k, _ := headKind(x.words()); k == "webvpn" {
				return x
			}
		}
		return nil
	}
	// position of some certificate-group-map rule of the block (-1 = none); other sub-commands are not touched
	cgmRule := func(wb *block) int {
		var idx []int
		for j, s := range wb.Subs {
			if sw := strings.Fields(s); len(sw) == 4 && sw[0] == "certificate-group-map" {
				idx = append(idx, j)
			}
		}
		if len(idx) == 0 {
			return -1
		}
		return idx[r.Intn(len(idx))]
	}
	for i, nm := 0, r.Intn(6); i < nm; i++ {
		switch k := r.Intn(100); {
		case k < 10:
			if o, ok := g.pickRef(a.kindObjects("certmap")); ok {
				x := a.blocksOf(o)[0]
				if r.Chance(35) {
					// a map without any subject-name (key ""): never matched with a rule of the target
					for j := 0; j < len(x.Subs); j++ {
						if strings.HasPrefix(x.Subs[j], "subject-name") {
							x.Subs = append(x.Subs[:j:j], x.Subs[j+1:]...)
							j--
						}
					}
					say("certmap-without-subject-name")
				} else {
					for j, s := range x.Subs {
						if strings.HasPrefix(s, "subject-name") {
							x.Subs[j] = fmt.Sprintf("subject-name attr ea co @Other%d.example.com", r.Intn(2))
						}
					}
					say("certmap-subject-changed")
				}
			}
		case k < 20:
			if o, ok := g.pickRef(a.kindObjects("certmap")); ok {
				x := a.blocksOf(o)[0]
				has := false
				for j, s := range x.Subs {
					if strings.HasPrefix(s, "extended-key-usage") {
						has = true
						if r.Chance(50) {
							x.Subs = append(x.Subs[:j:j], x.Subs[j+1:]...)
						} else {
							x.Subs[j] = "extended-key-usage co 1.2.3.4"
						}
						break
					}
				}
				if !has {
					x.Subs = append(x.Subs, "extended-key-usage co clientauth")
				}
				say("certmap-key-usage-changed")
			}
		case k < 28:
			if l := rules(); len(l) > 0 {
				x := Pick(r, l)
				a.removeBlock(x)
				say("tunnel-group-map-rule-missing")
				// … while webvpn still has a rule for the same map: the map is transferred anew for the tunnel-group-map rule and the
				// webvpn rule changes its certificate map (makeEqual, changedCertMap)
				if w := x.words(); len(w) == 4 {
					if wb := webBlock(); wb != nil {
						for _, sx := range wb.Subs {
							if sw := strings.Fields(sx); len(sw) == 4 && sw[1] == w[1] {
								say("certificate-map-of-webvpn-rule-replaced")
							}
						}
					}
				}
			}
		case k < 36:
			// another index on the device: the entry of the certificate map and every rule that names it
			if o, ok := g.pickRef(a.kindObjects("certmap")); ok {
				ns := fmt.Sprint(5 + r.Intn(40))
				for _, x := range a.blocksOf(o) {
					w := x.words()
					w[5] = ns
					x.Head = strings.Join(w, " ")
				}
				for _, x := range a.Blocks {
					w := x.words()
					kk, _ := headKind(w)
					if kk == "tgmap" && len(w) == 4 && w[1] == o.name {
						w[2] = ns
						x.Head = strings.Join(w, " ")
					}
					if kk == "webvpn" {
						for j, sx := range x.Subs {
							sw := strings.Fields(sx)
							if len(sw) == 4 && sw[0] == "certificate-group-map" && sw[1] == o.name {
								sw[2] = ns
								x.Subs[j] = strings.Join(sw, " ")
							}
						}
					}
				}
				say("certificate-map-other-index")
			}
		case k < 46:
			// a rule points to another tunnel-group of the device
			if l := rules(); len(l) > 0 {
				x := Pick(r, l)
				if o, ok := g.pickRef(a.kindObjects("tg")); ok && a.exists(o) {
					w := x.words()
					w[len(w)-1] = o.name
					x.Head = strings.Join(w, " ")
					say("tunnel-group-map-points-to-other-tunnel-group")
				}
			}
		case k < 54:
			// an extra rule with its own certificate map and tunnel-group
			n := r.Intn(2)
			cm, tg := fmt.Sprintf("gone-map-DRC-%d", n), fmt.Sprintf("gone-tunnel-DRC-%d", n)
			if !a.exists(ref{"certmap", cm}) && !a.exists(ref{"tg", tg}) {
				a.add("crypto ca certificate map "+cm+" 10", fmt.Sprintf("subject-name attr ea co @gone%d.example.com", n))
				a.add("tunnel-group " + tg + " type remote-access")
				if r.Chance(60) {
					a.add("tunnel-group-map " + cm + " 10 " + tg)
				}
				if wb := webBlock(); wb != nil && r.Chance(50) {
					wb.Subs = append(wb.Subs, "certificate-group-map "+cm+" 10 "+tg)
				}
				say("extra-rule-with-own-objects")
			}
		case k < 62:
			if wb := webBlock(); wb != nil {
				if j := cgmRule(wb); j >= 0 && r.Chance(70) {
					wb.Subs = append(wb.Subs[:j:j], wb.Subs[j+1:]...)
					say("certificate-group-map-rule-missing")
				} else {
					a.removeBlock(wb)
					say("webvpn-missing")
				}
			}
		case k < 68:
			if wb := webBlock(); wb != nil && cgmRule(wb) >= 0 {
				j := cgmRule(wb)
				sw := strings.Fields(wb.Subs[j])
				if o, ok := g.pickRef(a.kindObjects("tg")); ok && !isIPName(o.name) {
					sw[3] = o.name
					say("certificate-group-map-points-to-other-tunnel-group")
				}
				wb.Subs[j] = strings.Join(sw, " ")
			} else if wb == nil && r.Chance(50) {
				a.add("webvpn", "enable outside")
				say("webvpn-without-rules-on-device")
			}
		case k < 76:
			// the webvpn rule uses a copy of the certificate map of the tunnel-group-map rule
			if wb := webBlock(); wb != nil && cgmRule(wb) >= 0 {
				j := cgmRule(wb)
				sw := strings.Fields(wb.Subs[j])
				o := ref{"certmap", sw[1]}
				n := baseName(strings.TrimPrefix(o.name, "old-")) + fmt.Sprintf("-DRC-%d", 7+r.Intn(2))
				if bl := a.blocksOf(o); len(bl) == 1 && !a.exists(ref{"certmap", n}) {
					nb := &block{Head: "crypto ca certificate map " + n + " " + bl[0].words()[5], Subs: append([]string{}, bl[0].Subs...)}
					a.insertAfterLast(nb, func(y *block) bool { return y == bl[0] })
					sw[1] = n
					wb.Subs[j] = strings.Join(sw, " ")
					say("webvpn-rule-uses-copy-of-certificate-map")
				}
			}
		case k < 84:
			var secs []*block
			for _, x := range a.Blocks {
				if m := modeOf(x.words()); strings.HasPrefix(m, "tg-") || m == "gp-attr" {
					secs = append(secs, x)
				}
			}
			if len(secs) > 0 {
				x := Pick(r, secs)
				mode := modeOf(x.words())
				pool := plainGP
				switch mode {
				case "tg-general-attributes":
					pool = plainGen
				case "tg-ipsec-attributes":
					pool = plainIpsec
				case "tg-webvpn-attributes":
					pool = plainWeb
				}
				n := Pick(r, pool)
				kw := strings.Fields(n)[0]
				done := false
				for j, s := range x.Subs {
					if strings.Fields(s)[0] == kw {
						x.Subs[j] = n
						done = true
					}
				}
				if !done {
					x.Subs = append(x.Subs, n)
				}
				say("attributes-changed:" + mode)
			}
		case k < 90:
			if l := rules(); len(l) > 0 {
				for _, x := range l {
					if w := x.words(); len(w) == 3 {
						if r.Chance(50) {
							a.removeBlock(x)
							say("default-group-missing")
						} else if o, ok := g.pickRef(a.kindObjects("tg")); ok {
							x.Head = "tunnel-group-map default-group " + o.name
							say("default-group-other-tunnel-group")
						}
						break
					}
				}
			} else if o, ok := g.pickRef(a.kindObjects("tg")); ok {
				a.add("tunnel-group-map default-group " + o.name)
				say("default-group-extra")
			}
		case k < 95:
			n := fmt.Sprintf("ca-map-1-DRC-%d", 5+r.Intn(2))
			if !a.exists(ref{"certmap", n}) {
				a.add("crypto ca certificate map "+n+" 10", "subject-name attr ea co @left.example.com")
				say("leftover-certificate-map")
			}
		default:
			if !a.exists(ref{"certmap", "MANUAL-MAP"}) {
				a.add("crypto ca certificate map MANUAL-MAP 10", "subject-name attr cn eq manual")
				say("manual-certificate-map")
			}
		}
	}
	return cfgCase{Name: "cert", Dev: a.print(), Spoc: b.print(), Note: note, dev: a, spoc: b}
}
