package main

// IOS mode (-prop C02): crypto map entries of Cisco IOS — `crypto map NAME SEQ ipsec-isakmp` with sub-commands `set peer P`
// and `set ip access-group ACL in|out`, bound by the sub-command `crypto map NAME` of an interface.  matchCryptoMap,
// makeEqual, addCmds, delCmds and deleteUnused are the same code as for ASA (cisco/diff.go); on IOS the entry is ONE
// command with sub-commands, the map's name is not fixed and the binding is a sub-command of `interface`.
//
// Oracle: the real script (drc.Main in-process, model IOS) is executed on a strict specification-side IOS device:
// every command accepted (sequence numbers 1..65535, referenced map / ACL exists, `no` only for what is there, a bound
// map is not emptied, sub-commands inside their mode), the bound map of every interface ends with exactly the target's
// entries (sets of peers with their filter ACLs by content; sequence numbers and names ignored), no generated object
// is left over, a second compare is empty, an empty script only for an equivalent device.
// Tie: the bare matchCryptoMap in IOS shape (one command per entry, peer in the sub-commands) against NA.Vpn.matchCryptoMap.

import (
	"fmt"
	"os"
	"path/filepath"
	"sort"
	"strconv"
	"strings"

	"github.com/hknutzen/Netspoc-Approve/go/pkg/drc"

	. "verifharness/vhlib"
)

type iosEntry struct {
	Seq  int
	Gdoi bool     // `crypto map N S gdoi` (GETVPN, configured by hand): the tool leaves such a map and its bindings alone
	Subs []string // `set peer P`, `set ip access-group A in`, lines the tool does not model (`match address X`)
}

type iosIntf struct {
	Name   string
	Lines  []string // address etc.
	Crypto string
}

type iosDev struct {
	Unknown []string
	Intfs   []*iosIntf
	Maps    map[string][]*iosEntry
	MOrder  []string
	ACLs    map[string][]string
	AOrder  []string
}

func newIOS() *iosDev { return &iosDev{Maps: map[string][]*iosEntry{}, ACLs: map[string][]string{}} }

func (d *iosDev) clone() *iosDev {
	c := newIOS()
	c.Unknown = append([]string{}, d.Unknown...)
	for _, i := range d.Intfs {
		c.Intfs = append(c.Intfs, &iosIntf{i.Name, append([]string{}, i.Lines...), i.Crypto})
	}
	for _, n := range d.MOrder {
		for _, e := range d.Maps[n] {
			c.Maps[n] = append(c.Maps[n], &iosEntry{e.Seq, e.Gdoi, append([]string{}, e.Subs...)})
		}
	}
	c.MOrder = append([]string{}, d.MOrder...)
	for _, n := range d.AOrder {
		c.ACLs[n] = append([]string{}, d.ACLs[n]...)
	}
	c.AOrder = append([]string{}, d.AOrder...)
	return c
}

func (d *iosDev) print() string {
	var sb strings.Builder
	for _, l := range d.Unknown {
		sb.WriteString(l + "\n")
	}
	for _, n := range d.AOrder {
		sb.WriteString("ip access-list extended " + n + "\n")
		for _, l := range d.ACLs[n] {
			sb.WriteString(" " + l + "\n")
		}
	}
	for _, n := range d.MOrder {
		for _, e := range d.Maps[n] {
			kind := "ipsec-isakmp"
			if e.Gdoi {
				kind = "gdoi"
			}
			fmt.Fprintf(&sb, "crypto map %s %d %s\n", n, e.Seq, kind)
			for _, s := range e.Subs {
				sb.WriteString(" " + s + "\n")
			}
		}
	}
	for _, i := range d.Intfs {
		sb.WriteString("interface " + i.Name + "\n")
		for _, l := range i.Lines {
			sb.WriteString(" " + l + "\n")
		}
		if i.Crypto != "" {
			sb.WriteString(" crypto map " + i.Crypto + "\n")
		}
	}
	return sb.String()
}

func parseIOS(text string) *iosDev {
	d := newIOS()
	var curI *iosIntf
	var curE *iosEntry
	curA := ""
	for _, line := range strings.Split(text, "\n") {
		if strings.TrimSpace(line) == "" {
			continue
		}
		if strings.HasPrefix(line, " ") {
			t := strings.TrimSpace(line)
			switch {
			case curI != nil && strings.HasPrefix(t, "crypto map "):
				curI.Crypto = strings.TrimPrefix(t, "crypto map ")
			case curI != nil:
				curI.Lines = append(curI.Lines, t)
			case curE != nil:
				curE.Subs = append(curE.Subs, t)
			case curA != "":
				d.ACLs[curA] = append(d.ACLs[curA], t)
			}
			continue
		}
		curI, curE, curA = nil, nil, ""
		w := strings.Fields(line)
		switch {
		case len(w) == 2 && w[0] == "interface":
			curI = &iosIntf{Name: w[1]}
			d.Intfs = append(d.Intfs, curI)
		case len(w) == 5 && w[0] == "crypto" && w[1] == "map" && (w[4] == "ipsec-isakmp" || w[4] == "gdoi"):
			n, _ := strconv.Atoi(w[3])
			curE = &iosEntry{Seq: n, Gdoi: w[4] == "gdoi"}
			if _, ok := d.Maps[w[2]]; !ok {
				d.MOrder = append(d.MOrder, w[2])
			}
			d.Maps[w[2]] = append(d.Maps[w[2]], curE)
		case len(w) == 4 && w[0] == "ip" && w[1] == "access-list" && w[2] == "extended":
			curA = w[3]
			d.ACLs[curA] = nil
			d.AOrder = append(d.AOrder, curA)
		default:
			d.Unknown = append(d.Unknown, line)
		}
	}
	return d
}

func (d *iosDev) mapBound(n string) bool {
	for _, i := range d.Intfs {
		if i.Crypto == n {
			return true
		}
	}
	return false
}

func (d *iosDev) aclReferenced(n string) bool {
	for _, es := range d.Maps {
		for _, e := range es {
			for _, s := range e.Subs {
				w := strings.Fields(s)
				if len(w) == 5 && w[1] == "ip" && w[2] == "access-group" && w[3] == n {
					return true
				}
			}
		}
	}
	return false
}

func removeStr(l []string, s string) []string {
	var out []string
	for _, x := range l {
		if x != s {
			out = append(out, x)
		}
	}
	return out
}

type iosExec struct {
	d    *iosDev
	intf *iosIntf
	ent  *iosEntry
	acl  string
}

func (e *iosExec) leave() { e.intf, e.ent, e.acl = nil, nil, "" }

func (e *iosExec) exec1(cmd string) error {
	d := e.d
	w := strings.Fields(cmd)
	if len(w) == 0 {
		return nil
	}
	if cmd == "exit" {
		if e.intf == nil && e.ent == nil && e.acl == "" {
			return fmt.Errorf("exit outside of a sub-mode")
		}
		e.leave()
		return nil
	}
	pw, no := w, false
	if w[0] == "no" {
		pw, no = w[1:], true
	}
	switch {
	// ---- sub-commands
	case len(pw) == 3 && pw[0] == "set" && pw[1] == "peer", len(pw) == 5 && pw[0] == "set" && pw[1] == "ip" && pw[2] == "access-group":
		if e.ent == nil {
			return fmt.Errorf("sub-command outside crypto map mode: %s", cmd)
		}
		line := strings.Join(pw, " ")
		if no {
			if !contains(e.ent.Subs, line) {
				return fmt.Errorf("line to remove is not there: %s", line)
			}
			e.ent.Subs = removeStr(e.ent.Subs, line)
			return nil
		}
		if pw[1] == "ip" {
			if _, ok := d.ACLs[pw[3]]; !ok {
				return fmt.Errorf("access-list %s does not exist: %s", pw[3], cmd)
			}
			for i, s := range e.ent.Subs {
				sw := strings.Fields(s)
				if len(sw) == 5 && sw[2] == "access-group" && sw[4] == pw[4] {
					e.ent.Subs[i] = line // one filter per direction
					return nil
				}
			}
		}
		if contains(e.ent.Subs, line) {
			return fmt.Errorf("line is already there: %s", line)
		}
		e.ent.Subs = append(e.ent.Subs, line)
		return nil
	case len(pw) == 3 && pw[0] == "crypto" && pw[1] == "map" && e.intf != nil:
		if no {
			if e.intf.Crypto != pw[2] {
				return fmt.Errorf("crypto map %s is not bound to %s", pw[2], e.intf.Name)
			}
			e.intf.Crypto = ""
			return nil
		}
		if len(d.Maps[pw[2]]) == 0 {
			return fmt.Errorf("crypto map %s does not exist: %s", pw[2], cmd)
		}
		e.intf.Crypto = pw[2]
		return nil
	case (pw[0] == "permit" || pw[0] == "deny") && e.acl != "":
		if no {
			return fmt.Errorf("command outside the modelled fragment: %s", cmd)
		}
		if contains(d.ACLs[e.acl], strings.Join(pw, " ")) {
			return fmt.Errorf("access-list %s already contains: %s", e.acl, cmd)
		}
		d.ACLs[e.acl] = append(d.ACLs[e.acl], strings.Join(pw, " "))
		return nil
	}
	// ---- top-level commands (leave the sub-mode implicitly)
	e.leave()
	switch {
	case len(pw) == 2 && pw[0] == "interface" && !no:
		for _, i := range d.Intfs {
			if i.Name == pw[1] {
				e.intf = i
				return nil
			}
		}
		return fmt.Errorf("interface %s does not exist", pw[1])
	case len(pw) == 5 && pw[0] == "crypto" && pw[1] == "map" && pw[4] == "ipsec-isakmp":
		name := pw[2]
		seq, err := strconv.Atoi(pw[3])
		if err != nil || seq < 1 || seq > 65535 {
			return fmt.Errorf("sequence number %s is outside 1..65535: %s", pw[3], cmd)
		}
		if no {
			for i, x := range d.Maps[name] {
				if x.Seq == seq {
					if len(d.Maps[name]) == 1 {
						if d.mapBound(name) {
							return fmt.Errorf("last entry of bound crypto map %s removed", name)
						}
						delete(d.Maps, name)
						d.MOrder = removeStr(d.MOrder, name)
						return nil
					}
					d.Maps[name] = append(d.Maps[name][:i:i], d.Maps[name][i+1:]...)
					return nil
				}
			}
			return fmt.Errorf("entry to remove does not exist: %s", cmd)
		}
		for _, x := range d.Maps[name] {
			if x.Seq == seq {
				e.ent = x
				return nil
			}
		}
		if _, ok := d.Maps[name]; !ok {
			d.MOrder = append(d.MOrder, name)
		}
		e.ent = &iosEntry{Seq: seq}
		d.Maps[name] = append(d.Maps[name], e.ent)
		return nil
	case len(pw) == 4 && pw[0] == "ip" && pw[1] == "access-list" && pw[2] == "extended":
		if no {
			if _, ok := d.ACLs[pw[3]]; !ok {
				return fmt.Errorf("access-list to remove does not exist: %s", cmd)
			}
			if d.aclReferenced(pw[3]) {
				return fmt.Errorf("access-list %s is still referenced", pw[3])
			}
			delete(d.ACLs, pw[3])
			d.AOrder = removeStr(d.AOrder, pw[3])
			return nil
		}
		if _, ok := d.ACLs[pw[3]]; !ok {
			d.ACLs[pw[3]] = nil
			d.AOrder = append(d.AOrder, pw[3])
		}
		e.acl = pw[3]
		return nil
	}
	return fmt.Errorf("command outside the modelled fragment: %s", cmd)
}

// view: per interface the set of entries (peers and filters by content) of the bound map.
func (d *iosDev) view(intfs []string) string {
	var out []string
	for _, n := range intfs {
		var i *iosIntf
		for _, x := range d.Intfs {
			if x.Name == n {
				i = x
			}
		}
		if i == nil || i.Crypto == "" || d.isGdoi(i.Crypto) {
			out = append(out, "["+n+"] none") // a GDOI map is not Netspoc's
			continue
		}
		var es []string
		for _, e := range d.Maps[i.Crypto] {
			var ls []string
			for _, s := range e.Subs {
				w := strings.Fields(s)
				switch {
				case len(w) == 5 && w[2] == "access-group":
					ls = append(ls, "filter "+w[4]+" {"+strings.Join(d.ACLs[w[3]], "; ")+"}")
				case len(w) == 3 && w[1] == "peer":
					ls = append(ls, s)
				}
			}
			sort.Strings(ls)
			es = append(es, "("+strings.Join(ls, "; ")+")")
		}
		sort.Strings(es)
		out = append(out, "["+n+"] "+strings.Join(es, " "))
	}
	return strings.Join(out, "\n") + "\n"
}

func (d *iosDev) isGdoi(m string) bool {
	es := d.Maps[m]
	return len(es) > 0 && es[0].Gdoi
}

// gdoiFrame: the GDOI maps with their entries and the interfaces bound to them.
func (d *iosDev) gdoiFrame() string {
	var out []string
	for _, n := range d.MOrder {
		if d.isGdoi(n) {
			for _, e := range d.Maps[n] {
				out = append(out, fmt.Sprintf("crypto map %s %d gdoi: %s", n, e.Seq, strings.Join(e.Subs, "; ")))
			}
		}
	}
	for _, i := range d.Intfs {
		if i.Crypto != "" && d.isGdoi(i.Crypto) {
			out = append(out, "interface "+i.Name+" crypto map "+i.Crypto)
		}
	}
	return strings.Join(out, "\n")
}

func (d *iosDev) leftovers() []string {
	var out []string
	for _, n := range d.MOrder {
		if strings.Contains(n, "-DRC-") && !d.mapBound(n) {
			out = append(out, "crypto map "+n)
		}
	}
	for _, n := range d.AOrder {
		if strings.Contains(n, "-DRC-") && !d.aclReferenced(n) {
			out = append(out, "access-list "+n)
		}
	}
	return out
}

// ---------------------------------------------------------------- generator

type iosCase struct {
	Dev  string   `json:"ios_device"`
	Spoc string   `json:"ios_netspoc"`
	Note []string `json:"mutations"`
}

func genIOS(r *RNG) iosCase {
	b := newIOS()
	var note []string
	say := func(s string) { note = append(note, s) }
	names := []string{"Ethernet0", "Ethernet1", "Dialer1"}
	for k, n := range names {
		b.Intfs = append(b.Intfs, &iosIntf{Name: n, Lines: []string{fmt.Sprintf("ip address 10.1.%d.1 255.255.255.0", k)}})
	}
	peer := 0
	for _, i := range b.Intfs[1:] {
		if i.Name == "Dialer1" && !r.Chance(35) {
			continue
		}
		m := "crypto-" + i.Name
		n := 1 + r.Intn(5)
		for s := 1; s <= n; s++ {
			peer++
			e := &iosEntry{Seq: s, Subs: []string{fmt.Sprintf("set peer 10.156.4.%d", peer)}}
			if r.Chance(30) {
				an := fmt.Sprintf("crypto-filter-%s-%d", i.Name, s)
				b.ACLs[an] = []string{fmt.Sprintf("permit tcp host 10.127.18.%d host 10.1.11.40 eq 49", peer), "deny ip any any"}
				b.AOrder = append(b.AOrder, an)
				e.Subs = append([]string{"set ip access-group " + an + " in"}, e.Subs...)
			}
			b.Maps[m] = append(b.Maps[m], e)
		}
		b.MOrder = append(b.MOrder, m)
		i.Crypto = m
	}
	a := b.clone()
	a.Unknown = []string{"hostname r1"}
	// names on the device
	for _, n := range append([]string{}, a.MOrder...) {
		to := n
		switch k := r.Intn(10); {
		case k < 5:
			to = n + "-DRC-" + fmt.Sprint(r.Intn(2))
		case k < 7:
			to = "VPN-" + n
		}
		if to != n {
			a.Maps[to] = a.Maps[n]
			delete(a.Maps, n)
			for j, x := range a.MOrder {
				if x == n {
					a.MOrder[j] = to
				}
			}
			for _, i := range a.Intfs {
				if i.Crypto == n {
					i.Crypto = to
				}
			}
		}
	}
	for _, n := range append([]string{}, a.AOrder...) {
		if r.Chance(70) {
			to := n + "-DRC-" + fmt.Sprint(r.Intn(2))
			a.ACLs[to] = a.ACLs[n]
			delete(a.ACLs, n)
			for j, x := range a.AOrder {
				if x == n {
					a.AOrder[j] = to
				}
			}
			for _, es := range a.Maps {
				for _, e := range es {
					for j, s := range e.Subs {
						if s == "set ip access-group "+n+" in" {
							e.Subs[j] = "set ip access-group " + to + " in"
						}
					}
				}
			}
		}
	}
	for k, nm := 0, r.Intn(6); k < nm && len(a.MOrder) > 0; k++ {
		m := Pick(r, a.MOrder)
		es := a.Maps[m]
		switch r.Intn(5) {
		case 0:
			// entries of the target are missing on the device (several at once: several fresh numbers in one run)
			for j := 0; j < 1+r.Intn(3) && len(es) > 1; j++ {
				i := r.Intn(len(es))
				es = append(es[:i:i], es[i+1:]...)
			}
			a.Maps[m] = es
			say("entries-missing-on-device")
		case 1:
			s := 1 + r.Intn(9)
			used := false
			for _, e := range es {
				if e.Seq == s {
					used = true
				}
			}
			if !used {
				a.Maps[m] = append(es, &iosEntry{Seq: s, Subs: []string{fmt.Sprintf("set peer 10.156.9.%d", 1+r.Intn(3))}})
				say("entry-extra-on-device")
			}
		case 2:
			// other numbers on the device, with gaps
			seen := map[int]bool{}
			for _, e := range es {
				for {
					s := 1 + r.Intn(3*len(es)+2)
					if !seen[s] {
						seen[s] = true
						e.Seq = s
						break
					}
				}
			}
			if r.Chance(50) {
				sort.Slice(es, func(i, j int) bool { return es[i].Seq < es[j].Seq })
			}
			say("renumber-entries")
		case 3:
			for _, i := range a.Intfs {
				if i.Crypto == m && r.Chance(50) {
					i.Crypto = ""
					say("unbound-on-device")
				}
			}
		case 4:
			if len(es) > 0 {
				e := Pick(r, es)
				e.Subs = append(e.Subs, "match address manual-acl")
				say("unmodelled-sub-command")
			}
		}
	}
	// GETVPN configured by hand on an interface that has no crypto map in the target: map and binding must survive
	if r.Chance(15) {
		for _, i := range a.Intfs {
			if i.Crypto == "" {
				nm := Pick(r, []string{"GD", "GDOI-03"})
				if _, ok := a.Maps[nm]; !ok {
					a.Maps[nm] = []*iosEntry{{Seq: 10, Gdoi: true, Subs: []string{"set group " + nm}}}
					a.MOrder = append(a.MOrder, nm)
				}
				i.Crypto = nm
				say("gdoi-crypto-map-on-device")
				break
			}
		}
	}
	// ACLs the mutations orphaned stay on the device as left-overs (generated names) or manual objects
	return iosCase{Dev: a.print(), Spoc: b.print(), Note: note}
}

func iosCorpus() []iosCase {
	return []iosCase{
		{Note: []string{"corpus:gdoi-map-and-binding-stay"}, Dev: `hostname r1
crypto map GDOI-03 10 gdoi
 set group GDOI-03
crypto map VPN 1 ipsec-isakmp
 set peer 10.156.4.1
interface Ethernet0
 ip address 10.1.0.1 255.255.255.0
 crypto map GDOI-03
interface Ethernet1
 ip address 10.1.1.1 255.255.255.0
 crypto map VPN
`, Spoc: `crypto map crypto-Ethernet1 1 ipsec-isakmp
 set peer 10.156.4.1
crypto map crypto-Ethernet1 2 ipsec-isakmp
 set peer 10.156.4.2
interface Ethernet0
 ip address 10.1.0.1 255.255.255.0
interface Ethernet1
 ip address 10.1.1.1 255.255.255.0
 crypto map crypto-Ethernet1
`},
		{Note: []string{"corpus:fresh-numbers-with-gaps"}, Dev: `hostname r1
crypto map VPN 1 ipsec-isakmp
 set peer 10.156.4.1
crypto map VPN 3 ipsec-isakmp
 set peer 10.156.4.2
crypto map VPN 4 ipsec-isakmp
 set peer 10.156.4.3
interface Ethernet1
 ip address 10.1.1.1 255.255.255.0
 crypto map VPN
`, Spoc: `crypto map crypto-Ethernet1 1 ipsec-isakmp
 set peer 10.156.4.1
crypto map crypto-Ethernet1 2 ipsec-isakmp
 set peer 10.156.4.2
crypto map crypto-Ethernet1 3 ipsec-isakmp
 set peer 10.156.4.3
crypto map crypto-Ethernet1 4 ipsec-isakmp
 set peer 10.156.4.4
crypto map crypto-Ethernet1 5 ipsec-isakmp
 set peer 10.156.4.5
crypto map crypto-Ethernet1 6 ipsec-isakmp
 set peer 10.156.4.6
interface Ethernet1
 ip address 10.1.1.1 255.255.255.0
 crypto map crypto-Ethernet1
`},
	}
}

func runDrcIOS(dev, spoc string) (stdout, stderr string, status int, pan string) {
	caseNo++
	d := filepath.Join(workDir, fmt.Sprintf("i%d", caseNo%64))
	os.RemoveAll(d)
	WriteFiles(d, map[string]string{"dev": dev, "spoc": spoc, "spoc.info": `{"model":"IOS"}`})
	old := os.Args
	os.Args = []string{"drc", "-q", filepath.Join(d, "dev"), filepath.Join(d, "spoc")}
	stdout, stderr, status, pan = Captured(drc.Main)
	os.Args = old
	return
}

func runIOS(ctx *Ctx) *Result {
	res := NewResult()
	res.Rule = "pairs of IOS configurations with crypto maps: 1-2 interfaces with a crypto map of 1-5 entries (`set peer`, optional inbound filter ACL); " +
		"device = target under other names (VPN-…, …-DRC-n) plus up to 5 mutations (1-3 entries missing, extra entry, other sequence numbers with gaps, " +
		"unbound map, unmodelled sub-command); real drc.Main in-process with model IOS; script executed on the strict specification-side IOS device " +
		"(harness/asavpn/ios.go). non-trivial = non-empty script; plus the bare matchCryptoMap in IOS shape against NA.Vpn.matchCryptoMap"
	res.Assumptions = []string{"IOS command semantics of the crypto map fragment is a written specification (harness/asavpn/ios.go); filter ACLs are only created or removed as a whole in this mode"}
	var err error
	workDir, err = os.MkdirTemp("", "vh-iosvpn-")
	if err != nil {
		panic(err)
	}
	defer os.RemoveAll(workDir)
	lean := newLeanTie(ctx, res)
	defer lean.close()
	iosRun(ctx, res, lean, ctx.N(1500, 30000), true)
	lean.finish()
	return res
}

// iosRun: the IOS cases (corpus + n random ones), or the replay file if it holds an IOS case; also called from the ASA
// run under C07 / C08 so that the IOS crypto code is driven under these properties too.
func iosRun(ctx *Ctx, res *Result, lean *leanTie, n int, replay bool) {
	sig := func(pred string, extra ...string) map[string]any {
		m := map[string]any{"frag": "ios-crypto", "pred": pred}
		for i := 0; i+1 < len(extra); i += 2 {
			m[extra[i]] = extra[i+1]
		}
		return m
	}
	runCase := func(c iosCase) {
		dev, spoc := parseIOS(c.Dev), parseIOS(c.Spoc)
		out, errOut, status, pan := runDrcIOS(c.Dev, c.Spoc)
		canon := c.Dev + "--\n" + c.Spoc
		if pan != "" {
			res.Eval(canon, false)
			res.Fail(sig("drc_panic"), "panic: "+pan, c)
			return
		}
		if status != 0 {
			res.Eval(canon, false)
			res.Fail(sig("valid_pair_rejected_by_drc"), "drc refuses a valid pair: "+strings.TrimSpace(errOut), c)
			return
		}
		cmds := splitScript(out)
		res.Eval(canon, len(cmds) > 0)
		for _, n := range c.Note {
			res.Count("mut:" + n)
		}
		res.Count(fmt.Sprintf("cmds:%02d", min(len(cmds)/4*4, 40)))
		var intfs []string
		for _, i := range spoc.Intfs {
			intfs = append(intfs, i.Name)
		}
		want := spoc.view(intfs)
		ex := &iosExec{d: dev.clone()}
		for i, cmd := range cmds {
			if err := ex.exec1(cmd); err != nil {
				res.Fail(sig("command_rejected_by_strict_device", "reason", reasonOf(err.Error())), fmt.Sprintf("command %d %q: %v\nscript:\n%s", i, cmd, err, out), c)
				return
			}
		}
		res.TracesVsImpl++
		final := ex.d
		if len(res.Samples) < 3 && len(cmds) > 5 {
			res.Sample(map[string]any{"device": c.Dev, "netspoc": c.Spoc, "script": out})
		}
		if g0 := dev.gdoiFrame(); g0 != "" {
			res.Count("gdoi-frames-compared")
			if g1 := final.gdoiFrame(); g1 != g0 {
				res.Fail(sig("gdoi_crypto_map_touched"), "a GDOI crypto map or its binding changed:\n"+g1+"\n-- before\n"+g0+"\n-- script\n"+out, c)
			}
		}
		if got := final.view(intfs); got != want {
			res.Fail(sig("not_converged"), "after executing the script the crypto maps differ from the target:\n"+got+"-- want\n"+want+"-- script\n"+out, c)
			return
		}
		if lo := final.leftovers(); len(lo) > 0 {
			res.Fail(sig("leftover_generated_object"), "unreferenced generated objects remain: "+strings.Join(lo, ", ")+"\n-- script\n"+out, c)
		}
		out2, err2, st2, pan2 := runDrcIOS(final.print(), c.Spoc)
		if pan2 != "" || st2 != 0 {
			res.Fail(sig("second_compare_failed"), fmt.Sprintf("second compare: exit %d %s %s", st2, pan2, err2), c)
		} else if strings.TrimSpace(out2) != "" {
			res.Fail(sig("second_compare_not_empty"), "second compare reports changes:\n"+out2+"-- first script\n"+out, c)
		}
		if len(cmds) == 0 && dev.view(intfs) != want {
			res.Fail(sig("unchanged_reported_for_different_device"), "empty script although the device is not equivalent", c)
		}
		// the bare function on the maps of this case, IOS shape
		for _, i := range spoc.Intfs {
			if i.Crypto == "" {
				continue
			}
			for _, ai := range dev.Intfs {
				if ai.Name == i.Name && ai.Crypto != "" {
					lean.askMatchIOS(ai.Crypto, dev.Maps[ai.Crypto], i.Crypto, spoc.Maps[i.Crypto])
				}
			}
		}
	}
	if ctx.Replay != "" {
		var c iosCase
		if err := ReadReplay(ctx.Replay, &c); err != nil {
			fmt.Fprintln(os.Stderr, err)
			os.Exit(2)
		}
		if c.Dev != "" || replay {
			runCase(c)
		}
		return
	}
	for _, c := range iosCorpus() {
		res.Count("corpus")
		runCase(c)
	}
	for i := 0; i < n; i++ {
		runCase(genIOS(ctx.Rng.Fork()))
	}
}
