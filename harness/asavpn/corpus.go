package main

// Hand-written cases (run first on every tier) and the generator of the crypto-map-only sub-fragment
// that the Lean engine model covers.

import (
	"fmt"
	"strings"

	. "verifharness/vhlib"
)

const devHead = `hostname fw1
interface Ethernet0/0
 nameif inside
interface Ethernet0/1
 nameif outside
interface Ethernet0/2
 nameif dmz
`

func mk(name, dev, spoc string) cfgCase {
	dev = devHead + strings.TrimLeft(dev, "\n")
	spoc = strings.TrimLeft(spoc, "\n")
	return cfgCase{Name: name, Dev: dev, Spoc: spoc, Note: []string{"corpus:" + name}}
}

func corpus() []cfgCase {
	return []cfgCase{
		// device and target number the same peer differently and the crypto ACL differs:
		// the new `match address` must go to the DEVICE's sequence number
		mk("seq-differs-acl-changed", `
access-list crypto-outside-1-DRC-0 extended permit ip 10.1.1.0 255.255.255.0 10.99.1.0 255.255.255.0
access-list crypto-outside-2-DRC-0 extended permit ip 10.1.2.0 255.255.255.0 10.99.2.0 255.255.255.0
crypto ipsec ikev1 transform-set Trans1-DRC-0 esp-3des esp-md5-hmac
crypto map crypto-outside 5 match address crypto-outside-1-DRC-0
crypto map crypto-outside 5 set peer 10.0.0.1
crypto map crypto-outside 5 set ikev1 transform-set Trans1-DRC-0
crypto map crypto-outside 7 match address crypto-outside-2-DRC-0
crypto map crypto-outside 7 set peer 10.0.0.2
crypto map crypto-outside 7 set ikev1 transform-set Trans1-DRC-0
crypto map crypto-outside interface outside
`, `
access-list crypto-outside-1 extended permit ip 10.1.2.0 255.255.255.0 10.99.2.0 255.255.255.0
access-list crypto-outside-2 extended permit ip 10.1.5.0 255.255.255.0 10.99.3.0 255.255.255.0
crypto ipsec ikev1 transform-set Trans1 esp-3des esp-md5-hmac
crypto map crypto-outside 1 match address crypto-outside-1
crypto map crypto-outside 1 set peer 10.0.0.2
crypto map crypto-outside 1 set ikev1 transform-set Trans1
crypto map crypto-outside 2 match address crypto-outside-2
crypto map crypto-outside 2 set peer 10.0.0.1
crypto map crypto-outside 2 set ikev1 transform-set Trans1
crypto map crypto-outside interface outside
`),
		// the same with a changed transform-set (changedRef on `set ikev1`: `no <orig>` + new line)
		mk("seq-differs-ts-changed", `
crypto ipsec ikev1 transform-set Trans1-DRC-0 esp-3des esp-md5-hmac
crypto map crypto-outside 5 set peer 10.0.0.1
crypto map crypto-outside 5 set ikev1 transform-set Trans1-DRC-0
crypto map crypto-outside 7 set peer 10.0.0.2
crypto map crypto-outside 7 set ikev1 transform-set Trans1-DRC-0
crypto map crypto-outside interface outside
`, `
crypto ipsec ikev1 transform-set Trans1 esp-3des esp-md5-hmac
crypto ipsec ikev1 transform-set Trans2 esp-aes-256 esp-sha-hmac
crypto map crypto-outside 1 set peer 10.0.0.2
crypto map crypto-outside 1 set ikev1 transform-set Trans2
crypto map crypto-outside 2 set peer 10.0.0.1
crypto map crypto-outside 2 set ikev1 transform-set Trans1
crypto map crypto-outside interface outside
`),
		// certificate map and tunnel-group-map with other sequence numbers on the device
		mk("certmap-seq-differs", `
crypto ca certificate map ca-map-1-DRC-0 20
 subject-name attr ea co @sub1.example.com
tunnel-group VPN-tunnel-1-DRC-0 type remote-access
tunnel-group VPN-tunnel-1-DRC-0 ipsec-attributes
 trust-point TP1
tunnel-group-map ca-map-1-DRC-0 20 VPN-tunnel-1-DRC-0
`, `
crypto ca certificate map ca-map-1 10
 subject-name attr ea co @Sub1.example.com
 extended-key-usage co clientauth
tunnel-group VPN-tunnel-1 type remote-access
tunnel-group VPN-tunnel-1 ipsec-attributes
 trust-point TP2
tunnel-group VPN-tunnel-1 webvpn-attributes
 authentication certificate
tunnel-group-map ca-map-1 10 VPN-tunnel-1
`),
		// dynamic-map with another sequence number on the device, ACL changed
		mk("dynmap-seq-differs", `
access-list crypto-outside-65535-DRC-0 extended permit ip 10.1.1.0 255.255.255.0 10.99.1.0 255.255.255.0
crypto dynamic-map name1@example.com 40 match address crypto-outside-65535-DRC-0
crypto map crypto-outside 65530 ipsec-isakmp dynamic name1@example.com
crypto map crypto-outside interface outside
`, `
access-list crypto-outside-65535 extended permit ip 10.1.3.0 255.255.255.0 10.99.1.0 255.255.255.0
crypto dynamic-map name1@example.com 20 match address crypto-outside-65535
crypto map crypto-outside 65535 ipsec-isakmp dynamic name1@example.com
crypto map crypto-outside interface outside
`),
		// users change while webvpn is new: top-level webvpn after a username attributes block
		mk("webvpn-after-username", `
crypto ca certificate map ca-map-1-DRC-0 10
 subject-name attr ea co @sub1.example.com
tunnel-group VPN-tunnel-1-DRC-0 type remote-access
tunnel-group-map ca-map-1-DRC-0 10 VPN-tunnel-1-DRC-0
username user1@example.com nopassword
username user1@example.com attributes
 service-type remote-access
`, `
crypto ca certificate map ca-map-1 10
 subject-name attr ea co @sub1.example.com
tunnel-group VPN-tunnel-1 type remote-access
tunnel-group-map ca-map-1 10 VPN-tunnel-1
webvpn
 certificate-group-map ca-map-1 10 VPN-tunnel-1
username user1@example.com nopassword
username user1@example.com attributes
 service-type remote-access
 vpn-idle-timeout 60
`),
		// webvpn exists on both sides, one rule is new, and a group-policy of a user changes just before:
		// `exit` is needed between the attributes mode and the top-level webvpn
		mk("webvpn-rule-after-username", `
crypto ca certificate map ca-map-1-DRC-0 10
 subject-name attr ea co @sub1.example.com
crypto ca certificate map ca-map-2-DRC-0 20
 subject-name attr ea co @sub2.example.com
tunnel-group VPN-tunnel-1-DRC-0 type remote-access
tunnel-group VPN-tunnel-2-DRC-0 type remote-access
tunnel-group-map ca-map-1-DRC-0 10 VPN-tunnel-1-DRC-0
tunnel-group-map ca-map-2-DRC-0 20 VPN-tunnel-2-DRC-0
webvpn
 certificate-group-map ca-map-1-DRC-0 10 VPN-tunnel-1-DRC-0
username user1@example.com nopassword
username user1@example.com attributes
 service-type remote-access
`, `
crypto ca certificate map ca-map-1 10
 subject-name attr ea co @sub1.example.com
crypto ca certificate map ca-map-2 20
 subject-name attr ea co @sub2.example.com
tunnel-group VPN-tunnel-1 type remote-access
tunnel-group VPN-tunnel-2 type remote-access
tunnel-group-map ca-map-1 10 VPN-tunnel-1
tunnel-group-map ca-map-2 20 VPN-tunnel-2
webvpn
 certificate-group-map ca-map-1 10 VPN-tunnel-1
 certificate-group-map ca-map-2 20 VPN-tunnel-2
username user1@example.com nopassword
username user1@example.com attributes
 service-type remote-access
 vpn-idle-timeout 60
`),
		// two NEW dynamic entries while the device's map exists and its top numbers are taken:
		// the dynamic counter has to go DOWN after each number handed out
		mk("two-new-dynamic-entries", `
crypto dynamic-map gone0@example.com 20 set pfs
crypto map crypto-outside 1 set peer 10.0.0.1
crypto map crypto-outside 65535 ipsec-isakmp dynamic gone0@example.com
crypto map crypto-outside interface outside
`, `
crypto dynamic-map name1@example.com 20 set pfs
crypto dynamic-map name2@example.com 20 set pfs group5
crypto dynamic-map name3@example.com 20 set nat-t-disable
crypto map crypto-outside 1 set peer 10.0.0.1
crypto map crypto-outside 65533 ipsec-isakmp dynamic name3@example.com
crypto map crypto-outside 65534 ipsec-isakmp dynamic name2@example.com
crypto map crypto-outside 65535 ipsec-isakmp dynamic name1@example.com
crypto map crypto-outside interface outside
`),
		mk("three-new-dynamic-entries-free-top", `
crypto map crypto-outside 1 set peer 10.0.0.1
crypto map crypto-outside interface outside
`, `
crypto dynamic-map name1@example.com 20 set pfs
crypto dynamic-map name2@example.com 20 set pfs group5
crypto dynamic-map name3@example.com 20 set nat-t-disable
crypto map crypto-outside 1 set peer 10.0.0.1
crypto map crypto-outside 65533 ipsec-isakmp dynamic name3@example.com
crypto map crypto-outside 65534 ipsec-isakmp dynamic name2@example.com
crypto map crypto-outside 65535 ipsec-isakmp dynamic name1@example.com
crypto map crypto-outside interface outside
`),
		// an LDAP server group with three hosts on the device (Netspoc writes one `host X` line); a map-value is new
		mk("ldap-server-group-with-three-hosts", `
group-policy VPN-ldap-0-DRC-0 internal
group-policy VPN-ldap-0-DRC-0 attributes
 vpn-idle-timeout 60
crypto ca certificate map ca-map-1-DRC-0 10
 subject-name attr ea co @sub1.example.com
aaa-server LDAP1 protocol ldap
aaa-server LDAP1 (inside) host 10.2.8.16
 ldap-base-dn DC=example,DC=com
 ldap-attribute-map LDAPMAP1
aaa-server LDAP1 (inside) host 10.2.8.17
 ldap-base-dn DC=example,DC=com
 ldap-attribute-map LDAPMAP1
aaa-server LDAP1 (inside) host 10.2.8.18
 ldap-base-dn DC=example,DC=com
 ldap-attribute-map LDAPMAP1
ldap attribute-map LDAPMAP1
 map-name memberOf Group-Policy
 map-value memberOf "CN=g-m0,OU=VPN,DC=example,DC=com" VPN-ldap-0-DRC-0
tunnel-group VPN-tunnel-1-DRC-0 type remote-access
tunnel-group VPN-tunnel-1-DRC-0 general-attributes
 authentication-server-group LDAP1
tunnel-group-map ca-map-1-DRC-0 10 VPN-tunnel-1-DRC-0
`, `
group-policy VPN-ldap-0 internal
group-policy VPN-ldap-0 attributes
 vpn-idle-timeout 60
group-policy VPN-ldap-1 internal
group-policy VPN-ldap-1 attributes
 vpn-idle-timeout 30
crypto ca certificate map ca-map-1 10
 subject-name attr ea co @sub1.example.com
aaa-server LDAP1 protocol ldap
aaa-server LDAP1 host X
 ldap-attribute-map LDAPMAP1
ldap attribute-map LDAPMAP1
 map-name memberOf Group-Policy
 map-value memberOf "CN=g-m0,OU=VPN,DC=example,DC=com" VPN-ldap-0
 map-value memberOf "CN=g-m1,OU=VPN,DC=example,DC=com" VPN-ldap-1
tunnel-group VPN-tunnel-1 type remote-access
tunnel-group VPN-tunnel-1 general-attributes
 authentication-server-group LDAP1
tunnel-group-map ca-map-1 10 VPN-tunnel-1
`),
		// lines the command table ignores inside MANAGED objects: the hand-made webvpn block of a group-policy (with the
		// lines of its sub-sub-mode), pre-shared keys and isakmp keepalive of tunnel-groups; the rest of the objects differs
		mk("ignored-lines-in-managed-objects", `
access-list vpn-filter-DRC-0 extended permit ip host 10.3.4.1 10.1.1.0 255.255.255.0
ip local pool pool1-DRC-0 10.3.4.8-10.3.4.15 mask 255.255.255.248
group-policy VPN-group-1-DRC-0 internal
group-policy VPN-group-1-DRC-0 attributes
 address-pools value pool1-DRC-0
 webvpn
  anyconnect keep-installer installed
  anyconnect profiles value VPN-PROFILE type user
 vpn-filter value vpn-filter-DRC-0
 vpn-idle-timeout 60
crypto ca certificate map ca-map-1-DRC-0 10
 subject-name attr ea co @sub1.example.com
tunnel-group VPN-tunnel-1-DRC-0 type remote-access
tunnel-group VPN-tunnel-1-DRC-0 general-attributes
 default-group-policy VPN-group-1-DRC-0
tunnel-group VPN-tunnel-1-DRC-0 ipsec-attributes
 isakmp keepalive threshold 15 retry 3
 trust-point TP1
tunnel-group-map ca-map-1-DRC-0 10 VPN-tunnel-1-DRC-0
tunnel-group 10.0.0.1 type ipsec-l2l
tunnel-group 10.0.0.1 ipsec-attributes
 ikev1 pre-shared-key *****
 ikev2 local-authentication pre-shared-key *****
 ikev2 remote-authentication pre-shared-key *****
 peer-id-validate nocheck
`, `
access-list vpn-filter extended permit ip host 10.3.4.1 10.1.1.0 255.255.255.0
access-list vpn-filter extended permit ip host 10.3.4.2 10.1.1.0 255.255.255.0
ip local pool pool1 10.3.4.8-10.3.4.15 mask 255.255.255.248
group-policy VPN-group-1 internal
group-policy VPN-group-1 attributes
 address-pools value pool1
 vpn-filter value vpn-filter
 vpn-idle-timeout 120
crypto ca certificate map ca-map-1 10
 subject-name attr ea co @sub1.example.com
tunnel-group VPN-tunnel-1 type remote-access
tunnel-group VPN-tunnel-1 general-attributes
 default-group-policy VPN-group-1
tunnel-group VPN-tunnel-1 ipsec-attributes
 trust-point TP2
tunnel-group-map ca-map-1 10 VPN-tunnel-1
tunnel-group 10.0.0.1 type ipsec-l2l
tunnel-group 10.0.0.1 ipsec-attributes
 peer-id-validate req
`),
		// known findings together with something else that must still be judged (docs/ORACLE_AUDIT.md item 8):
		// a crypto map shared with an unknown interface AND a hand-made group-policy that must stay
		mk("shared-crypto-map-and-manual-group-policy", `
interface Ethernet0/3
 nameif mgmt
access-list crypto-outside-1-DRC-0 extended permit ip 10.1.1.0 255.255.255.0 10.99.1.0 255.255.255.0
crypto ipsec ikev1 transform-set Trans1-DRC-0 esp-3des esp-md5-hmac
crypto map crypto-outside 1 match address crypto-outside-1-DRC-0
crypto map crypto-outside 1 set peer 10.0.0.1
crypto map crypto-outside 1 set ikev1 transform-set Trans1-DRC-0
crypto map crypto-outside interface outside
crypto map crypto-outside interface mgmt
group-policy MANUAL-GP internal
group-policy MANUAL-GP attributes
 vpn-idle-timeout 30
`, `
access-list crypto-outside-1 extended permit ip 10.1.1.0 255.255.255.0 10.99.1.0 255.255.255.0
crypto ipsec ikev1 transform-set Trans1 esp-3des esp-md5-hmac
crypto map crypto-outside 1 match address crypto-outside-1
crypto map crypto-outside 1 set peer 10.0.0.1
crypto map crypto-outside 1 set ikev1 transform-set Trans1
crypto map crypto-outside interface outside
`),
		// a duplicate peer in the target AND a user whose attributes differ
		mk("duplicate-peer-and-user-changed", `
access-list crypto-outside-1-DRC-0 extended permit ip 10.1.1.0 255.255.255.0 10.99.1.0 255.255.255.0
access-list crypto-outside-2-DRC-0 extended permit ip 10.1.2.0 255.255.255.0 10.99.2.0 255.255.255.0
crypto ipsec ikev1 transform-set Trans1-DRC-0 esp-3des esp-md5-hmac
crypto map crypto-outside 1 match address crypto-outside-1-DRC-0
crypto map crypto-outside 1 set peer 10.0.0.1
crypto map crypto-outside 1 set ikev1 transform-set Trans1-DRC-0
crypto map crypto-outside 2 match address crypto-outside-2-DRC-0
crypto map crypto-outside 2 set peer 10.0.0.1
crypto map crypto-outside 2 set ikev1 transform-set Trans1-DRC-0
crypto map crypto-outside interface outside
username user1@example.com nopassword
username user1@example.com attributes
 service-type remote-access
 vpn-idle-timeout 30
`, `
access-list crypto-outside-1 extended permit ip 10.1.1.0 255.255.255.0 10.99.1.0 255.255.255.0
access-list crypto-outside-2 extended permit ip 10.1.2.0 255.255.255.0 10.99.2.0 255.255.255.0
crypto ipsec ikev1 transform-set Trans1 esp-3des esp-md5-hmac
crypto map crypto-outside 1 match address crypto-outside-1
crypto map crypto-outside 1 set peer 10.0.0.1
crypto map crypto-outside 1 set ikev1 transform-set Trans1
crypto map crypto-outside 2 match address crypto-outside-2
crypto map crypto-outside 2 set peer 10.0.0.1
crypto map crypto-outside 2 set ikev1 transform-set Trans1
crypto map crypto-outside interface outside
username user1@example.com nopassword
username user1@example.com attributes
 service-type remote-access
 vpn-idle-timeout 60
`),
		// the target keeps the aaa-server but gives up its ldap-attribute-map: the reference inside the host line may go, the manually
		// maintained map and the hand-made group-policy / ACL / pool that only it reaches must stay (seeded change C07-Y1)
		mk("ldap-attribute-map-given-up", `interface Ethernet0/0
 nameif inside
access-list vpn-filter-G1 extended permit ip 10.3.4.8 255.255.255.248 any4
access-list vpn-filter-G1 extended deny ip any4 any4
ip local pool pool-G1 10.3.4.8-10.3.4.15 mask 255.255.255.248
group-policy VPN-group-G1 internal
group-policy VPN-group-G1 attributes
 address-pools value pool-G1
 vpn-filter value vpn-filter-G1
crypto ca certificate map ca-map-G1 10
 subject-name attr cn co G1
tunnel-group VPN-tunnel-G1 type remote-access
tunnel-group VPN-tunnel-G1 general-attributes
 authentication-server-group LDAP_KV
tunnel-group VPN-tunnel-G1 webvpn-attributes
 authentication aaa certificate
tunnel-group-map ca-map-G1 10 VPN-tunnel-G1
aaa-server LDAP_KV protocol ldap
aaa-server LDAP_KV (inside) host 10.2.8.16
 ldap-base-dn DC=example,DC=com
 ldap-scope subtree
 ldap-login-password *****
 ldap-attribute-map LDAPMAP
ldap attribute-map LDAPMAP
 map-name memberOf Group-Policy
 map-value memberOf "CN=g-m1,OU=VPN,OU=group,DC=example,DC=com" VPN-group-G1
`, `crypto ca certificate map ca-map-G1 10
 subject-name attr cn co G1
tunnel-group VPN-tunnel-G1 type remote-access
tunnel-group VPN-tunnel-G1 general-attributes
 authentication-server-group LDAP_KV
tunnel-group VPN-tunnel-G1 webvpn-attributes
 authentication aaa certificate
tunnel-group-map ca-map-G1 10 VPN-tunnel-G1
aaa-server LDAP_KV protocol ldap
aaa-server LDAP_KV host X
`),
		// an interface Netspoc does not use carries an access-group (ACL with object-group) AND a crypto map: all of it is the
		// administrator's (seeded change C07-Z1: the crypto map binding overwrote the access-groups in the protection table)
		mk("unknown-interface-with-access-group-and-crypto-map", `
access-list inside_in-DRC-0 extended permit ip any4 any4
access-group inside_in-DRC-0 in interface inside
object-group network g-web
 network-object host 10.1.2.10
access-list dmz_in extended permit tcp any4 object-group g-web eq 80
access-group dmz_in in interface dmz
crypto ipsec ikev1 transform-set ESP-AES esp-aes-256 esp-sha-hmac
access-list crypto-dmz extended permit ip 10.1.2.0 255.255.255.0 10.9.0.0 255.255.0.0
crypto map map-dmz 10 match address crypto-dmz
crypto map map-dmz 10 set peer 10.2.2.2
crypto map map-dmz 10 set ikev1 transform-set ESP-AES
crypto map map-dmz interface dmz
`, `
access-list inside_in extended permit ip any4 any4
access-group inside_in in interface inside
`),
		// the device's tunnel-group authenticates against an aaa-server of ANOTHER name (both exist on the device, both with the
		// attribute map): only the reference in the tunnel-group changes; aaa-servers and the map are never written (coverage item 5)
		mk("tunnel-group-uses-other-aaa-server", `
group-policy VPN-ldap-0-DRC-0 internal
group-policy VPN-ldap-0-DRC-0 attributes
 vpn-idle-timeout 60
crypto ca certificate map ca-map-1-DRC-0 10
 subject-name attr ea co @sub1.example.com
aaa-server LDAP_A protocol ldap
aaa-server LDAP_A (inside) host 10.2.8.16
 ldap-base-dn DC=example,DC=com
 ldap-attribute-map LDAPMAP1
aaa-server LDAP_B protocol ldap
aaa-server LDAP_B (inside) host 10.2.8.20
 ldap-base-dn DC=example,DC=com
 ldap-attribute-map LDAPMAP1
ldap attribute-map LDAPMAP1
 map-name memberOf Group-Policy
 map-value memberOf "CN=g-m0,OU=VPN,DC=example,DC=com" VPN-ldap-0-DRC-0
tunnel-group VPN-tunnel-1-DRC-0 type remote-access
tunnel-group VPN-tunnel-1-DRC-0 general-attributes
 authentication-server-group LDAP_B
tunnel-group-map ca-map-1-DRC-0 10 VPN-tunnel-1-DRC-0
`, `
group-policy VPN-ldap-0 internal
group-policy VPN-ldap-0 attributes
 vpn-idle-timeout 60
crypto ca certificate map ca-map-1 10
 subject-name attr ea co @sub1.example.com
aaa-server LDAP_A protocol ldap
aaa-server LDAP_A host X
 ldap-attribute-map LDAPMAP1
ldap attribute-map LDAPMAP1
 map-name memberOf Group-Policy
 map-value memberOf "CN=g-m0,OU=VPN,DC=example,DC=com" VPN-ldap-0
tunnel-group VPN-tunnel-1 type remote-access
tunnel-group VPN-tunnel-1 general-attributes
 authentication-server-group LDAP_A
tunnel-group-map ca-map-1 10 VPN-tunnel-1
`),
		// the certificate map of the device's certificate-group-map rule is replaced: the tunnel-group-map rule is new and transfers the
		// map under a new name first; `no <old rule>` then the new rule inside webvpn (runs under C10 too: cuts between the two; item 9)
		mk("certificate-map-of-webvpn-rule-replaced", `
crypto ca certificate map ca-map-1-DRC-0 10
 subject-name attr ea co @sub1.example.com
tunnel-group VPN-tunnel-1-DRC-0 type remote-access
tunnel-group VPN-tunnel-1-DRC-0 ipsec-attributes
 trust-point TP1
crypto ca certificate map ca-map-2-DRC-0 20
 subject-name attr ea co @sub2.example.com
tunnel-group VPN-tunnel-2-DRC-0 type remote-access
tunnel-group-map ca-map-2-DRC-0 20 VPN-tunnel-2-DRC-0
webvpn
 certificate-group-map ca-map-1-DRC-0 10 VPN-tunnel-1-DRC-0
 certificate-group-map ca-map-2-DRC-0 20 VPN-tunnel-2-DRC-0
`, `
crypto ca certificate map ca-map-1 10
 subject-name attr ea co @sub1.example.com
tunnel-group VPN-tunnel-1 type remote-access
tunnel-group VPN-tunnel-1 ipsec-attributes
 trust-point TP2
crypto ca certificate map ca-map-2 20
 subject-name attr ea co @sub2.example.com
tunnel-group VPN-tunnel-2 type remote-access
tunnel-group-map ca-map-1 10 VPN-tunnel-1
tunnel-group-map ca-map-2 20 VPN-tunnel-2
webvpn
 certificate-group-map ca-map-1 10 VPN-tunnel-1
 certificate-group-map ca-map-2 20 VPN-tunnel-2
`),
		// built-in objects: referenced without being defined (target), partly defined on the device only (coverage item 13)
		mk("built-in-objects-referenced-and-partly-defined", `
tunnel-group DefaultRAGroup ipsec-attributes
 trust-point TP9
group-policy DfltGrpPolicy attributes
 vpn-idle-timeout 30
tunnel-group-map default-group DefaultL2LGroup
`, `
tunnel-group DefaultRAGroup general-attributes
 default-group-policy DfltGrpPolicy
tunnel-group DefaultWEBVPNGroup webvpn-attributes
 authentication certificate
tunnel-group-map default-group DefaultRAGroup
`),
		// a map-value whose DN is one word is written without quotes on the device; a RADIUS server group (two hosts, other settings per
		// host) used by a hand-made tunnel-group is none of the tool's business (coverage item 19)
		mk("unquoted-map-value-and-radius-server", `
group-policy VPN-ldap-0-DRC-0 internal
group-policy VPN-ldap-0-DRC-0 attributes
 vpn-idle-timeout 60
crypto ca certificate map ca-map-1-DRC-0 10
 subject-name attr ea co @sub1.example.com
aaa-server LDAP1 protocol ldap
aaa-server LDAP1 (inside) host 10.2.8.16
 ldap-attribute-map LDAPMAP1
aaa-server RAD protocol radius
aaa-server RAD (inside) host 10.2.7.1
 key *****
aaa-server RAD (inside) host 10.2.7.2
 key *****
 timeout 5
tunnel-group MANUAL-RA type remote-access
tunnel-group MANUAL-RA general-attributes
 authentication-server-group RAD
ldap attribute-map LDAPMAP1
 map-name memberOf Group-Policy
 map-value memberOf CN=g-m0,OU=VPN,DC=example,DC=com VPN-ldap-0-DRC-0
tunnel-group VPN-tunnel-1-DRC-0 type remote-access
tunnel-group VPN-tunnel-1-DRC-0 general-attributes
 authentication-server-group LDAP1
tunnel-group-map ca-map-1-DRC-0 10 VPN-tunnel-1-DRC-0
`, `
group-policy VPN-ldap-0 internal
group-policy VPN-ldap-0 attributes
 vpn-idle-timeout 60
crypto ca certificate map ca-map-1 10
 subject-name attr ea co @sub1.example.com
aaa-server LDAP1 protocol ldap
aaa-server LDAP1 host X
 ldap-attribute-map LDAPMAP1
ldap attribute-map LDAPMAP1
 map-name memberOf Group-Policy
 map-value memberOf "CN=g-m0,OU=VPN,DC=example,DC=com" VPN-ldap-0
tunnel-group VPN-tunnel-1 type remote-access
tunnel-group VPN-tunnel-1 general-attributes
 authentication-server-group LDAP1
tunnel-group-map ca-map-1 10 VPN-tunnel-1
`),
		// two device rules whose certificate maps have NO subject-name (key ""), and a crypto map entry with the maximum of eleven
		// transform-sets, one of them changed (coverage item 30)
		mk("certmaps-without-subject-and-eleven-transform-sets", `
crypto ca certificate map old-map-1 10
 extended-key-usage co clientauth
crypto ca certificate map old-map-2 20
 extended-key-usage co clientauth
tunnel-group VPN-tunnel-1-DRC-0 type remote-access
tunnel-group-map old-map-1 10 VPN-tunnel-1-DRC-0
tunnel-group-map old-map-2 20 VPN-tunnel-1-DRC-0
access-list crypto-outside-1-DRC-0 extended permit ip 10.1.1.0 255.255.255.0 10.99.1.0 255.255.255.0
crypto ipsec ikev1 transform-set T1-DRC-0 esp-aes esp-sha-hmac
crypto ipsec ikev1 transform-set T2-DRC-0 esp-3des esp-md5-hmac
crypto ipsec ikev1 transform-set T3-DRC-0 esp-aes esp-sha-hmac
crypto ipsec ikev1 transform-set T4-DRC-0 esp-3des esp-md5-hmac
crypto ipsec ikev1 transform-set T5-DRC-0 esp-aes esp-sha-hmac
crypto ipsec ikev1 transform-set T6-DRC-0 esp-3des esp-md5-hmac
crypto ipsec ikev1 transform-set T7-DRC-0 esp-aes esp-sha-hmac
crypto ipsec ikev1 transform-set T8-DRC-0 esp-3des esp-md5-hmac
crypto ipsec ikev1 transform-set T9-DRC-0 esp-aes esp-sha-hmac
crypto ipsec ikev1 transform-set T10-DRC-0 esp-3des esp-md5-hmac
crypto ipsec ikev1 transform-set T11-DRC-0 esp-aes esp-sha-hmac
crypto map crypto-outside 1 match address crypto-outside-1-DRC-0
crypto map crypto-outside 1 set peer 10.0.0.1
crypto map crypto-outside 1 set ikev1 transform-set T1-DRC-0 T2-DRC-0 T3-DRC-0 T4-DRC-0 T5-DRC-0 T6-DRC-0 T7-DRC-0 T8-DRC-0 T9-DRC-0 T10-DRC-0 T11-DRC-0
crypto map crypto-outside interface outside
`, `
crypto ca certificate map ca-map-1 10
 subject-name attr ea co @sub1.example.com
tunnel-group VPN-tunnel-1 type remote-access
tunnel-group-map ca-map-1 10 VPN-tunnel-1
access-list crypto-outside-1 extended permit ip 10.1.1.0 255.255.255.0 10.99.1.0 255.255.255.0
crypto ipsec ikev1 transform-set T1 esp-aes esp-sha-hmac
crypto ipsec ikev1 transform-set T2 esp-3des esp-md5-hmac
crypto ipsec ikev1 transform-set T3 esp-aes-256 esp-sha-hmac
crypto ipsec ikev1 transform-set T4 esp-3des esp-md5-hmac
crypto ipsec ikev1 transform-set T5 esp-aes esp-sha-hmac
crypto ipsec ikev1 transform-set T6 esp-3des esp-md5-hmac
crypto ipsec ikev1 transform-set T7 esp-aes esp-sha-hmac
crypto ipsec ikev1 transform-set T8 esp-3des esp-md5-hmac
crypto ipsec ikev1 transform-set T9 esp-aes esp-sha-hmac
crypto ipsec ikev1 transform-set T10 esp-3des esp-md5-hmac
crypto ipsec ikev1 transform-set T11 esp-aes esp-sha-hmac
crypto map crypto-outside 1 match address crypto-outside-1
crypto map crypto-outside 1 set peer 10.0.0.1
crypto map crypto-outside 1 set ikev1 transform-set T1 T2 T3 T4 T5 T6 T7 T8 T9 T10 T11
crypto map crypto-outside interface outside
`),
		// a device line that itself starts with `no` and is not wanted: the positive form is sent (coverage item 12)
		mk("no-sysopt-line-on-device-only", `
no sysopt connection permit-vpn
username user1@example.com nopassword
username user1@example.com attributes
 service-type remote-access
`, `
username user1@example.com nopassword
username user1@example.com attributes
 service-type remote-access
`),
		// twelve transform-sets in one line (the limit is eleven): must be refused (coverage item 30)
		mk("twelve-transform-sets", `
`, `
access-list crypto-outside-1 extended permit ip 10.1.1.0 255.255.255.0 10.99.1.0 255.255.255.0
crypto ipsec ikev1 transform-set T1 esp-aes esp-sha-hmac
crypto ipsec ikev1 transform-set T2 esp-aes esp-sha-hmac
crypto ipsec ikev1 transform-set T3 esp-aes esp-sha-hmac
crypto ipsec ikev1 transform-set T4 esp-aes esp-sha-hmac
crypto ipsec ikev1 transform-set T5 esp-aes esp-sha-hmac
crypto ipsec ikev1 transform-set T6 esp-aes esp-sha-hmac
crypto ipsec ikev1 transform-set T7 esp-aes esp-sha-hmac
crypto ipsec ikev1 transform-set T8 esp-aes esp-sha-hmac
crypto ipsec ikev1 transform-set T9 esp-aes esp-sha-hmac
crypto ipsec ikev1 transform-set T10 esp-aes esp-sha-hmac
crypto ipsec ikev1 transform-set T11 esp-aes esp-sha-hmac
crypto ipsec ikev1 transform-set T12 esp-aes esp-sha-hmac
crypto map crypto-outside 1 match address crypto-outside-1
crypto map crypto-outside 1 set peer 10.0.0.1
crypto map crypto-outside 1 set ikev1 transform-set T1 T2 T3 T4 T5 T6 T7 T8 T9 T10 T11 T12
crypto map crypto-outside interface outside
`),
		// the target has no VPN part at all: everything is removed in an order the device accepts
		mk("everything-removed", `
access-list vpn-filter-DRC-0 extended permit ip host 10.3.4.1 10.1.1.0 255.255.255.0
ip local pool pool1-DRC-0 10.3.4.8-10.3.4.15 mask 255.255.255.248
group-policy VPN-group-1-DRC-0 internal
group-policy VPN-group-1-DRC-0 attributes
 address-pools value pool1-DRC-0
 vpn-filter value vpn-filter-DRC-0
crypto ca certificate map ca-map-1-DRC-0 10
 subject-name attr ea co @sub1.example.com
tunnel-group VPN-tunnel-1-DRC-0 type remote-access
tunnel-group VPN-tunnel-1-DRC-0 general-attributes
 default-group-policy VPN-group-1-DRC-0
tunnel-group-map ca-map-1-DRC-0 10 VPN-tunnel-1-DRC-0
webvpn
 certificate-group-map ca-map-1-DRC-0 10 VPN-tunnel-1-DRC-0
username user1@example.com nopassword
username user1@example.com attributes
 vpn-group-policy VPN-group-1-DRC-0
crypto ipsec ikev1 transform-set Trans1-DRC-0 esp-3des esp-md5-hmac
access-list crypto-outside-1-DRC-0 extended permit ip 10.1.1.0 255.255.255.0 10.99.1.0 255.255.255.0
crypto map crypto-outside 1 match address crypto-outside-1-DRC-0
crypto map crypto-outside 1 set peer 10.0.0.1
crypto map crypto-outside 1 set ikev1 transform-set Trans1-DRC-0
crypto map crypto-outside interface outside
tunnel-group 10.0.0.1 type ipsec-l2l
tunnel-group 10.0.0.1 ipsec-attributes
 peer-id-validate nocheck
`, `
access-list outside_in extended deny ip any4 any4
access-group outside_in in interface outside
`),
	}
}

// ---------------------------------------------------------------- crypto-map-only sub-fragment (Lean engine model)

// genCryptoOnly: crypto maps with static entries (set peer, plain attributes, ikev1 transform-set references),
// transform-sets, interface bindings; nothing else.
func (g *gen) genCryptoOnly() cfgCase {
	r := g.r
	b := &vdev{}
	a := &vdev{}
	a.add("hostname fw1")
	for i, n := range []string{"inside", "outside", "dmz"} {
		a.add(fmt.Sprintf("interface Ethernet0/%d", i), "nameif "+n)
	}
	unk := r.Chance(15)
	if unk {
		a.add("interface Ethernet0/3", "nameif mgmt")
	}
	var note []string
	say := func(s string) { note = append(note, s) }
	plain := func() []string {
		var out []string
		if r.Chance(40) {
			out = append(out, "set pfs"+Pick(r, pfsVals))
		}
		if r.Chance(30) {
			out = append(out, fmt.Sprintf("set security-association lifetime seconds %d", Pick(r, []int{3600, 28800})))
		}
		if r.Chance(10) {
			out = append(out, "set nat-t-disable")
		}
		return out
	}
	tsRef := func(d *vdev, suffix string) string {
		if r.Chance(20) {
			return ""
		}
		pick := func() string {
			i := r.Intn(len(tsContents))
			n := fmt.Sprintf("Trans%d%s", i+1, suffix)
			if !d.exists(ref{"ts", n}) {
				d.add("crypto ipsec ikev1 transform-set " + n + " " + tsContents[i])
			}
			return n
		}
		first := pick()
		s := "set ikev1 transform-set " + first
		if r.Chance(20) {
			if second := pick(); second != first { // a name occurs once in the list
				s += " " + second
			}
		}
		return s
	}
	intfs := []string{"outside"}
	if r.Chance(20) {
		intfs = append(intfs, "dmz")
	}
	if r.Chance(10) {
		intfs = []string{"dmz"}
	}
	for _, intf := range intfs {
		m := "crypto-" + intf
		if intf == "dmz" && len(intfs) == 2 && r.Chance(25) {
			m = "crypto-outside" // one map bound to two interfaces
			b.add("crypto map " + m + " interface " + intf)
			continue
		}
		pp := append([]string{}, peerPool...)
		Shuffle(r, pp)
		n := 1 + r.Intn(4)
		seq := 0
		for i := 0; i < n; i++ {
			seq += 1 + r.Intn(2)*r.Intn(3)
			pre := fmt.Sprintf("crypto map %s %d ", m, seq)
			peer := pp[i]
			if i > 0 && r.Chance(4) {
				peer = pp[i-1] // duplicate peer in the target
				say("duplicate-peer-in-target")
			}
			var lines []string
			lines = append(lines, pre+"set peer "+peer)
			if t := tsRef(b, ""); t != "" {
				lines = append(lines, pre+t)
			}
			for _, p := range plain() {
				lines = append(lines, pre+p)
			}
			if r.Chance(30) {
				Shuffle(r, lines)
			}
			for _, l := range lines {
				b.add(l)
			}
		}
		b.add("crypto map " + m + " interface " + intf)
	}
	// device
	if r.Chance(6) {
		say("empty-device")
		return cfgCase{Dev: a.print(), Spoc: b.print(), Note: note, dev: a, spoc: b}
	}
	for _, x := range b.clone().Blocks {
		a.Blocks = append(a.Blocks, x)
	}
	for _, o := range a.kindObjects("ts") {
		switch k := r.Intn(100); {
		case k < 60:
			a.rename(o, fmt.Sprintf("%s-DRC-%d", o.name, r.Intn(2)))
		case k < 75:
			a.rename(o, "old-"+o.name)
		}
	}
	for i, nm := 0, r.Intn(6); i < nm; i++ {
		cmaps := a.kindObjects("cmap")
		if len(cmaps) == 0 {
			break
		}
		m := Pick(r, cmaps)
		seqs := a.seqsOf(m)
		switch k := r.Intn(100); {
		case k < 15:
			if len(seqs) > 1 {
				for _, x := range a.entry(m, Pick(r, seqs)) {
					a.removeBlock(x)
				}
				say("peer-missing-on-device")
			}
		case k < 30:
			peer := fmt.Sprintf("10.0.9.%d", 1+r.Intn(3))
			if r.Chance(30) {
				peer = Pick(r, peerPool)
			}
			s := g.freshSeq(a, m, 1, 9)
			a.add(fmt.Sprintf("crypto map %s %s set peer %s", m.name, s, peer))
			if t := tsRef(a, "-DRC-0"); t != "" {
				a.add(fmt.Sprintf("crypto map %s %s %s", m.name, s, t))
			}
			say("peer-extra-on-device")
		case k < 55:
			for _, s := range seqs {
				a.setSeq(m, s, "tmp"+g.freshSeqTmp(a, m, 1, 10))
			}
			for _, x := range a.Blocks {
				x.Head = strings.Replace(x.Head, "crypto map "+m.name+" tmp", "crypto map "+m.name+" ", 1)
			}
			say("renumber-entries")
		case k < 70:
			if o, ok := g.pickRef(a.kindObjects("ts")); ok {
				switch r.Intn(3) {
				case 0:
					a.blocksOf(o)[0].Head = "crypto ipsec ikev1 transform-set " + o.name + " " + Pick(r, tsContents)
					say("ts-content-changed")
				case 1:
					w := a.blocksOf(o)[0].words()
					n := fmt.Sprintf("%s-DRC-%d", Pick(r, []string{"Aaa", "Trans1", "Zzz", baseName(o.name)}), 3+r.Intn(3))
					if !a.exists(ref{"ts", n}) {
						a.add("crypto ipsec ikev1 transform-set " + n + " " + strings.Join(w[5:], " "))
						say("ts-twin-on-device")
					}
				case 2:
					for _, x := range a.blocksOf(m) {
						w := x.words()
						if cryptoAttrKey(w) == "set ikev1 transform-set" && r.Chance(50) {
							w[7] = o.name
							x.Head = strings.Join(w, " ")
							say("ts-other-reference")
							break
						}
					}
				}
			}
		case k < 85:
			if len(seqs) > 0 {
				s := Pick(r, seqs)
				ent := a.entry(m, s)
				x := Pick(r, ent)
				switch key := cryptoAttrKey(x.words()); {
				case key == "set pfs":
					x.Head = strings.Join(x.words()[:6], " ") + Pick(r, pfsVals)
					say("entry-attribute-changed")
				case strings.HasPrefix(key, "set security") || key == "set nat-t-disable":
					a.removeBlock(x)
					say("entry-attribute-missing")
				case key == "set ikev1 transform-set" && r.Chance(40):
					a.removeBlock(x)
					say("entry-ts-missing")
				default:
					has := false
					for _, y := range ent {
						if cryptoAttrKey(y.words()) == "set pfs" {
							has = true
						}
					}
					if !has {
						last := ent[len(ent)-1]
						a.insertAfterLast(&block{Head: fmt.Sprintf("crypto map %s %s set pfs%s", m.name, s, Pick(r, pfsVals))}, func(y *block) bool { return y == last })
						say("entry-attribute-extra")
					}
				}
			}
		case k < 90:
			a.rename(m, "other-"+m.name)
			say("crypto-map-other-name")
		case k < 95:
			for _, x := range a.Blocks {
				w := x.words()
				if kk, _ := headKind(w); kk == "cbind" && w[2] == m.name {
					a.removeBlock(x)
					say("crypto-map-unbound-on-device")
					break
				}
			}
		default:
			n := fmt.Sprintf("Trans%d-DRC-%d", 1+r.Intn(3), 5+r.Intn(2))
			if !a.exists(ref{"ts", n}) {
				a.add("crypto ipsec ikev1 transform-set " + n + " " + Pick(r, tsContents))
				say("leftover-transform-set")
			}
		}
	}
	if unk {
		tsn := "TransM"
		if ts := a.kindObjects("ts"); len(ts) > 0 && r.Chance(60) {
			tsn = Pick(r, ts).name
		} else {
			a.add("crypto ipsec ikev1 transform-set TransM esp-aes-256 esp-md5-hmac")
		}
		mn := "crypto-mgmt"
		if cm := a.kindObjects("cmap"); len(cm) > 0 && r.Chance(30) {
			mn = Pick(r, cm).name // the map of a managed interface is bound to the unknown interface as well
		} else {
			a.add("crypto map crypto-mgmt 1 set peer 10.0.8.8")
			a.add("crypto map crypto-mgmt 1 set ikev1 transform-set " + tsn)
		}
		a.add("crypto map " + mn + " interface mgmt")
		say("unknown-interface-with-crypto-map")
	}
	return cfgCase{Name: "crypto-only", Dev: a.print(), Spoc: b.print(), Note: note, dev: a, spoc: b}
}
