package main

// Specification-side model of the ASA VPN fragment and a STRICT command executor for it.
//
// A configuration is an ordered list of blocks: one top-level command line with its sub-command lines.
// Multi-line objects (access-list, crypto map entries, tunnel-group sections) are several blocks.
// Which word of which line is the NAME of an object of which kind is written down once (slotsOf); existence,
// "still referenced", renaming and the content-wise comparison are all derived from that table.
//
// The executor refuses what a real ASA refuses (or silently misinterprets):
//   - a referenced object that does not exist, deleting an object that is still referenced,
//   - `no X` for a line that is not there, a duplicate access-list entry, a wrong `line N`,
//   - a sub-command outside its configuration mode, a top-level `webvpn` typed inside group-policy / username
//     attribute mode (that mode has its own `webvpn` sub-mode), `exit` outside a sub-mode,
//   - emptying an access-list / crypto map / dynamic-map that is still bound or referenced.
// It is independent of the planner under test (nothing of /repo is imported here).

import (
	"fmt"
	"net/netip"
	"regexp"
	"sort"
	"strconv"
	"strings"
)

type block struct {
	Head string
	Subs []string
}

type vdev struct {
	Blocks []*block
}

func (d *vdev) clone() *vdev {
	c := &vdev{}
	for _, b := range d.Blocks {
		c.Blocks = append(c.Blocks, &block{b.Head, append([]string{}, b.Subs...)})
	}
	return c
}

func (d *vdev) print() string {
	var sb strings.Builder
	for _, b := range d.Blocks {
		sb.WriteString(b.Head + "\n")
		for _, s := range b.Subs {
			sb.WriteString(" " + s + "\n")
		}
	}
	return sb.String()
}

func parseBlocks(text string) *vdev {
	d := &vdev{}
	for _, line := range strings.Split(text, "\n") {
		if strings.TrimSpace(line) == "" {
			continue
		}
		if strings.HasPrefix(line, " ") {
			if n := len(d.Blocks); n > 0 {
				t := strings.TrimSpace(line)
				if strings.HasPrefix(line, "  ") && len(d.Blocks[n-1].Subs) > 0 {
					t = " " + t // a line of a sub-sub-mode: kept behind its parent with one leading blank
				}
				d.Blocks[n-1].Subs = append(d.Blocks[n-1].Subs, t)
			}
			continue
		}
		d.Blocks = append(d.Blocks, &block{Head: line})
	}
	return d
}

func (d *vdev) add(head string, subs ...string) *block {
	b := &block{Head: head, Subs: append([]string{}, subs...)}
	d.Blocks = append(d.Blocks, b)
	return b
}

// ---------------------------------------------------------------- name slots

type slot struct {
	idx  int
	kind string
	def  bool
}

var defaultTG = map[string]string{"DefaultL2LGroup": "ipsec-l2l", "DefaultRAGroup": "remote-access", "DefaultWEBVPNGroup": "webvpn"}

const defaultGP = "DfltGrpPolicy"

func isNum(s string) bool {
	_, err := strconv.Atoi(s)
	return err == nil && s != ""
}

// headKind classifies a top-level line: kind of the object it belongs to ("" = not modelled), its name.
func headKind(w []string) (kind, name string) {
	n := len(w)
	switch {
	case n >= 3 && w[0] == "access-list":
		return "acl", w[1]
	case n == 3 && w[0] == "object-group" && w[1] == "network":
		return "group", w[2]
	case n >= 2 && w[0] == "access-group":
		return "access-group", ""
	case n >= 5 && w[0] == "crypto" && w[1] == "ipsec" && w[2] == "ikev1" && w[3] == "transform-set":
		return "ts", w[4]
	case n == 5 && w[0] == "crypto" && w[1] == "ipsec" && w[2] == "ikev2" && w[3] == "ipsec-proposal":
		return "prop", w[4]
	case n == 5 && w[0] == "crypto" && w[1] == "map" && w[3] == "interface":
		return "cbind", ""
	case n >= 5 && w[0] == "crypto" && w[1] == "map" && isNum(w[3]):
		return "cmap", w[2]
	case n >= 5 && w[0] == "crypto" && w[1] == "dynamic-map" && isNum(w[3]):
		return "dynmap", w[2]
	case n == 6 && w[0] == "crypto" && w[1] == "ca" && w[2] == "certificate" && w[3] == "map" && isNum(w[5]):
		return "certmap", w[4]
	case n >= 5 && w[0] == "ip" && w[1] == "local" && w[2] == "pool":
		return "pool", w[3]
	case n == 3 && w[0] == "group-policy" && (w[2] == "internal" || w[2] == "attributes"):
		return "gp", w[1]
	case n >= 3 && w[0] == "tunnel-group" && (w[2] == "type" || strings.HasSuffix(w[2], "-attributes")):
		return "tg", w[1]
	case n == 3 && w[0] == "username" && (w[2] == "nopassword" || w[2] == "attributes"):
		return "user", w[1]
	case n >= 4 && w[0] == "username" && w[2] == "password":
		return "user", w[1] // a local account: the line is not modelled by the tool, `clear configure username` removes it all the same
	case n >= 3 && w[0] == "tunnel-group-map":
		return "tgmap", ""
	case n == 1 && w[0] == "webvpn":
		return "webvpn", ""
	case n == 2 && w[0] == "interface":
		return "interface", w[1]
	case n >= 4 && w[0] == "aaa-server" && (w[2] == "protocol" || contains(w, "host")):
		return "aaa", w[1]
	case n == 3 && w[0] == "ldap" && w[1] == "attribute-map":
		return "ldapmap", w[2]
	case n == 4 && w[0] == "no" && w[1] == "sysopt" && w[2] == "connection" && w[3] == "permit-vpn":
		return "sysopt", "" // a managed toplevel line that itself starts with `no`
	}
	return "", ""
}

// cryptoAttrSlots: references inside the attribute part of a crypto [dynamic-]map entry (words from index 4).
func cryptoAttrSlots(w []string) []slot {
	var out []slot
	if len(w) >= 7 && w[4] == "match" && w[5] == "address" {
		out = append(out, slot{6, "acl", false})
	}
	if len(w) >= 8 && w[4] == "set" && w[5] == "ikev1" && w[6] == "transform-set" {
		for i := 7; i < len(w); i++ {
			out = append(out, slot{i, "ts", false})
		}
	}
	if len(w) >= 8 && w[4] == "set" && w[5] == "ikev2" && w[6] == "ipsec-proposal" {
		for i := 7; i < len(w); i++ {
			out = append(out, slot{i, "prop", false})
		}
	}
	if len(w) >= 7 && w[4] == "ipsec-isakmp" && w[5] == "dynamic" {
		out = append(out, slot{6, "dynmap", false})
	}
	return out
}

func headSlots(w []string) []slot {
	kind, _ := headKind(w)
	switch kind {
	case "acl":
		out := []slot{{1, "acl", true}}
		for i := 2; i+1 < len(w); i++ {
			if w[i] == "object-group" {
				out = append(out, slot{i + 1, "group", false})
			}
		}
		return out
	case "group":
		return []slot{{2, "group", true}}
	case "access-group":
		return []slot{{1, "acl", false}}
	case "ts", "prop":
		return []slot{{4, kind, true}}
	case "cbind":
		return []slot{{2, "cmap", false}}
	case "cmap", "dynmap":
		return append([]slot{{2, kind, true}}, cryptoAttrSlots(w)...)
	case "certmap":
		return []slot{{4, "certmap", true}}
	case "pool":
		return []slot{{3, "pool", true}}
	case "gp", "tg", "user", "aaa":
		return []slot{{1, kind, true}}
	case "ldapmap":
		return []slot{{2, kind, true}}
	case "tgmap":
		if w[1] == "default-group" && len(w) == 3 {
			return []slot{{2, "tg", false}}
		}
		if len(w) == 4 {
			return []slot{{1, "certmap", false}, {3, "tg", false}}
		}
	}
	return nil
}

// modeOf: which sub-mode a top-level line opens ("" = none).
func modeOf(w []string) string {
	kind, _ := headKind(w)
	switch kind {
	case "group":
		return "group"
	case "prop":
		return "prop"
	case "certmap":
		return "certmap"
	case "webvpn":
		return "webvpn"
	case "interface":
		return "interface"
	case "ldapmap":
		return "ldapmap"
	case "aaa":
		if contains(w, "host") {
			return "aaa-host"
		}
	case "gp":
		if w[2] == "attributes" {
			return "gp-attr"
		}
	case "user":
		if w[2] == "attributes" {
			return "user-attr"
		}
	case "tg":
		if strings.HasSuffix(w[2], "-attributes") {
			return "tg-" + w[2]
		}
	}
	return ""
}

func subSlots(mode string, w []string) []slot {
	switch mode {
	case "gp-attr":
		if len(w) == 3 && w[1] == "value" {
			switch w[0] {
			case "vpn-filter", "split-tunnel-network-list":
				return []slot{{2, "acl", false}}
			case "address-pools":
				return []slot{{2, "pool", false}}
			}
		}
	case "user-attr":
		if len(w) == 3 && w[0] == "vpn-filter" && w[1] == "value" {
			return []slot{{2, "acl", false}}
		}
		if len(w) == 2 && w[0] == "vpn-group-policy" {
			return []slot{{1, "gp", false}}
		}
	case "tg-general-attributes":
		if len(w) == 2 && w[0] == "default-group-policy" {
			return []slot{{1, "gp", false}}
		}
		if len(w) == 2 && w[0] == "authentication-server-group" {
			return []slot{{1, "aaa", false}}
		}
	case "aaa-host":
		if len(w) == 2 && w[0] == "ldap-attribute-map" {
			return []slot{{1, "ldapmap", false}}
		}
	case "ldapmap":
		if len(w) >= 4 && w[0] == "map-value" {
			return []slot{{len(w) - 1, "gp", false}}
		}
	case "webvpn":
		if len(w) == 4 && w[0] == "certificate-group-map" {
			return []slot{{1, "certmap", false}, {3, "tg", false}}
		}
	}
	return nil
}

// subKey: sub-commands that hold ONE value per key (a second one replaces the first). "" = plain line.
func subKey(mode string, w []string) string {
	if sl := subSlots(mode, w); sl != nil {
		if w[0] == "certificate-group-map" {
			return w[0] + " " + w[1] + " " + w[2]
		}
		return strings.Join(w[:sl[0].idx], " ")
	}
	return ""
}

type ref struct{ kind, name string }

func (b *block) words() []string { return strings.Fields(b.Head) }

func (b *block) refs() []ref {
	var out []ref
	w := b.words()
	for _, s := range headSlots(w) {
		if !s.def {
			out = append(out, ref{s.kind, w[s.idx]})
		}
	}
	mode := modeOf(w)
	for _, sub := range b.modelSubs() {
		sw := strings.Fields(sub)
		for _, s := range subSlots(mode, sw) {
			out = append(out, ref{s.kind, sw[s.idx]})
		}
	}
	return out
}

func (b *block) defines() (ref, bool) {
	w := b.words()
	kind, name := headKind(w)
	switch kind {
	case "acl", "group", "ts", "prop", "cmap", "dynmap", "certmap", "pool", "gp", "tg", "user", "aaa", "ldapmap":
		return ref{kind, name}, true
	}
	return ref{}, false
}

func (d *vdev) blocksOf(r ref) []*block {
	var out []*block
	for _, b := range d.Blocks {
		if x, ok := b.defines(); ok && x == r {
			out = append(out, b)
		}
	}
	return out
}

func (d *vdev) exists(r ref) bool {
	if r.kind == "tg" && defaultTG[r.name] != "" {
		return true
	}
	if r.kind == "gp" && r.name == defaultGP {
		return true
	}
	for _, b := range d.blocksOf(r) {
		w := b.words()
		switch r.kind {
		case "gp":
			if w[2] == "internal" {
				return true
			}
		case "tg":
			if w[2] == "type" {
				return true
			}
		case "user":
			if w[2] == "nopassword" || w[2] == "password" {
				return true
			}
		default:
			return true
		}
	}
	return false
}

// referencedBy returns a description of some line that references r ("" = none).
func (d *vdev) referencedBy(r ref) string {
	for _, b := range d.Blocks {
		if x, ok := b.defines(); ok && x == r {
			continue
		}
		for _, x := range b.refs() {
			if x == r {
				return b.Head
			}
		}
	}
	return ""
}

// localUser: an account defined with `username NAME password …`. Netspoc only ever writes `username NAME nopassword`:
// such a user (with its attributes) is outside Netspoc's scope.
func (d *vdev) localUser(name string) bool {
	for _, b := range d.Blocks {
		if w := b.words(); len(w) >= 4 && w[0] == "username" && w[1] == name && w[2] == "password" {
			return true
		}
	}
	return false
}

func (d *vdev) removeBlock(x *block) {
	for i, b := range d.Blocks {
		if b == x {
			d.Blocks = append(d.Blocks[:i:i], d.Blocks[i+1:]...)
			return
		}
	}
}

func (d *vdev) removeAll(r ref) {
	var keep []*block
	for _, b := range d.Blocks {
		if x, ok := b.defines(); ok && x == r {
			continue
		}
		keep = append(keep, b)
	}
	d.Blocks = keep
}

func (d *vdev) findHead(head string) *block {
	for _, b := range d.Blocks {
		if b.Head == head {
			return b
		}
	}
	return nil
}

func (d *vdev) hasIntf(n string) bool {
	for _, b := range d.Blocks {
		if k, _ := headKind(b.words()); k == "interface" {
			for _, s := range b.Subs {
				if s == "nameif "+n {
					return true
				}
			}
		}
	}
	return false
}

// insertAfterLast puts nb behind the last block satisfying pred (or at the end).
func (d *vdev) insertAfterLast(nb *block, pred func(*block) bool) {
	pos := -1
	for i, b := range d.Blocks {
		if pred(b) {
			pos = i
		}
	}
	if pos < 0 {
		d.Blocks = append(d.Blocks, nb)
		return
	}
	d.Blocks = append(d.Blocks[:pos+1:pos+1], append([]*block{nb}, d.Blocks[pos+1:]...)...)
}

// ---------------------------------------------------------------- strict executor

type executor struct {
	d     *vdev
	cur   *block // block whose sub-mode is open
	mode  string
	notes map[string]int
}

func (e *executor) note(k string) {
	if e.notes == nil {
		e.notes = map[string]int{}
	}
	e.notes[k]++
}

var topWords = map[string]bool{"access-list": true, "access-group": true, "object-group": true, "crypto": true, "tunnel-group": true,
	"tunnel-group-map": true, "group-policy": true, "ip": true, "username": true, "webvpn": true, "clear": true, "route": true,
	"interface": true, "aaa-server": true, "ldap": true, "sysopt": true}

var aclCmdRE = regexp.MustCompile(`^(no )?access-list (\S+) (?:line (\d+) )?(extended|standard) (.*)$`)
var logRE = regexp.MustCompile(` log( \S+)*$`)

func stripLog(body string) string { return logRE.ReplaceAllString(body, "") }

// cryptoAttrKey: the attribute of a crypto map entry a line sets (one value per key and entry).
func cryptoAttrKey(w []string) string {
	a := w[4:]
	switch {
	case len(a) >= 2 && a[0] == "match" && a[1] == "address":
		return "match address"
	case len(a) >= 2 && a[0] == "ipsec-isakmp" && a[1] == "dynamic":
		return "ipsec-isakmp dynamic"
	case len(a) >= 3 && a[0] == "set" && (a[1] == "ikev1" || a[1] == "ikev2"):
		return "set " + a[1] + " " + a[2]
	case len(a) >= 4 && a[0] == "set" && a[1] == "security-association" && a[2] == "lifetime":
		return "set security-association lifetime " + a[3]
	case len(a) >= 2 && a[0] == "set":
		return "set " + a[1]
	}
	return strings.Join(a, " ")
}

func (e *executor) exec1(cmd string) error {
	w := strings.Fields(cmd)
	if len(w) == 0 {
		return nil
	}
	if cmd == "exit" {
		if e.cur == nil {
			return fmt.Errorf("exit outside of a sub-mode")
		}
		e.cur, e.mode = nil, ""
		return nil
	}
	first := w[0]
	if first == "no" && len(w) > 1 {
		first = w[1]
	}
	isTop := topWords[first]
	if e.cur != nil && w[0] == "no" && len(w) == 2 && first == "webvpn" && (e.mode == "gp-attr" || e.mode == "user-attr") {
		isTop = false // removes the webvpn sub-mode of this group-policy / user
	}
	if e.cur != nil && isTop {
		if first == "webvpn" && (e.mode == "gp-attr" || e.mode == "user-attr") {
			return fmt.Errorf("top-level `%s` typed in mode (%s) of `%s`: that mode has a sub-mode of the same name", cmd, e.mode, e.cur.Head)
		}
		e.cur, e.mode = nil, "" // the device leaves the sub-mode implicitly
	}
	if !isTop {
		if e.cur == nil {
			return fmt.Errorf("sub-command outside of a configuration mode: %s", cmd)
		}
		return e.execSub(cmd, w)
	}
	return e.execTop(cmd, w)
}

func (e *executor) execSub(cmd string, w []string) error {
	b := e.cur
	if e.mode == "interface" {
		return fmt.Errorf("interface definitions must not be changed: %s", cmd)
	}
	if w[0] == "no" {
		line := strings.Join(w[1:], " ")
		for i, s := range b.Subs {
			if s == line {
				j := i + 1
				for j < len(b.Subs) && isChild(b.Subs[j]) {
					j++ // the lines of its sub-sub-mode go with it
				}
				b.Subs = append(b.Subs[:i:i], b.Subs[j:]...)
				return nil
			}
		}
		return fmt.Errorf("in `%s`: line to remove is not there: %s", b.Head, line)
	}
	for _, s := range subSlots(e.mode, w) {
		if !e.d.exists(ref{s.kind, w[s.idx]}) {
			return fmt.Errorf("in `%s`: `%s` references %s %s which does not exist", b.Head, cmd, s.kind, w[s.idx])
		}
	}
	if e.mode == "webvpn" && len(w) == 4 && w[0] == "certificate-group-map" && e.d.findHead("crypto ca certificate map "+w[1]+" "+w[2]) == nil {
		return fmt.Errorf("`%s` names rule %s of certificate map %s: no such entry", cmd, w[2], w[1])
	}
	if e.mode == "group" {
		for _, s := range b.Subs {
			if s == cmd {
				return fmt.Errorf("member already in %s: %s", b.Head, cmd)
			}
		}
	}
	if key := subKey(e.mode, w); key != "" {
		for i, s := range b.Subs {
			if subKey(e.mode, strings.Fields(s)) == key {
				b.Subs[i] = cmd
				return nil
			}
		}
	}
	for _, s := range b.Subs {
		if s == cmd {
			e.note("sub-line-already-present")
			return nil
		}
	}
	b.Subs = append(b.Subs, cmd)
	return nil
}

func (e *executor) open(head string, after func(*block) bool) {
	b := e.d.findHead(head)
	if b == nil {
		b = &block{Head: head}
		if after != nil {
			e.d.insertAfterLast(b, after)
		} else {
			e.d.Blocks = append(e.d.Blocks, b)
		}
	}
	e.cur, e.mode = b, modeOf(strings.Fields(head))
}

func sameObj(r ref) func(*block) bool {
	return func(b *block) bool { x, ok := b.defines(); return ok && x == r }
}

func (e *executor) execTop(cmd string, w []string) error {
	d := e.d
	// ---- clear configure KIND NAME
	if w[0] == "clear" {
		if len(w) < 4 || w[1] != "configure" {
			return fmt.Errorf("command outside the modelled fragment: %s", cmd)
		}
		name := w[len(w)-1]
		var kind string
		switch strings.Join(w[2:len(w)-1], " ") {
		case "access-list":
			kind = "acl"
		case "object-group":
			kind = "group"
		case "group-policy":
			kind = "gp"
		case "tunnel-group":
			kind = "tg"
		case "username":
			kind = "user"
		case "crypto ca certificate map":
			kind = "certmap"
		default:
			return fmt.Errorf("command outside the modelled fragment: %s", cmd)
		}
		r := ref{kind, name}
		if len(d.blocksOf(r)) == 0 {
			return fmt.Errorf("object to clear does not exist: %s", cmd)
		}
		if by := d.referencedBy(r); by != "" {
			return fmt.Errorf("%s %s is still referenced by `%s`", kind, name, by)
		}
		if (kind == "tg" && defaultTG[name] != "") || (kind == "gp" && name == defaultGP) {
			return fmt.Errorf("built-in object cannot be cleared: %s", cmd)
		}
		d.removeAll(r)
		return nil
	}
	// `no sysopt connection permit-vpn` is a line of the configuration; the positive form removes it
	if cmd == "no sysopt connection permit-vpn" {
		if d.findHead(cmd) != nil {
			return fmt.Errorf("line exists already: %s", cmd)
		}
		d.add(cmd)
		return nil
	}
	if cmd == "sysopt connection permit-vpn" {
		b := d.findHead("no " + cmd)
		if b == nil {
			return fmt.Errorf("line to remove is not there: no %s", cmd)
		}
		d.removeBlock(b)
		return nil
	}
	no := w[0] == "no"
	pw := w
	pos := cmd
	if no {
		pw = w[1:]
		pos = strings.Join(pw, " ")
	}
	kind, name := headKind(pw)
	switch kind {
	case "acl":
		return e.execACL(cmd)
	case "group":
		r := ref{"group", name}
		if no {
			if !d.exists(r) {
				return fmt.Errorf("object-group %s does not exist", name)
			}
			if by := d.referencedBy(r); by != "" {
				return fmt.Errorf("object-group %s is still referenced by `%s`", name, by)
			}
			d.removeAll(r)
			return nil
		}
		e.open(pos, nil)
		return nil
	case "access-group":
		if len(pw) != 5 || pw[3] != "interface" {
			return fmt.Errorf("command outside the modelled fragment: %s", cmd)
		}
		if no {
			b := d.findHead(pos)
			if b == nil {
				return fmt.Errorf("binding to remove does not exist: %s", pos)
			}
			d.removeBlock(b)
			return nil
		}
		if !d.exists(ref{"acl", pw[1]}) {
			return fmt.Errorf("access-group: access-list %s does not exist", pw[1])
		}
		if !d.hasIntf(pw[4]) {
			return fmt.Errorf("access-group: interface %s does not exist", pw[4])
		}
		for _, b := range d.Blocks {
			bw := b.words()
			if k, _ := headKind(bw); k == "access-group" && len(bw) == 5 && bw[2] == pw[2] && bw[4] == pw[4] {
				b.Head = pos
				return nil
			}
		}
		d.add(pos)
		return nil
	case "ts", "pool":
		r := ref{kind, name}
		if no {
			b := d.findHead(pos)
			if b == nil {
				return fmt.Errorf("object to remove does not exist (or differs): %s", pos)
			}
			if by := d.referencedBy(r); by != "" {
				return fmt.Errorf("%s %s is still referenced by `%s`", kind, name, by)
			}
			d.removeBlock(b)
			return nil
		}
		if d.exists(r) {
			return fmt.Errorf("%s %s exists already: %s", kind, name, cmd)
		}
		d.add(pos)
		return nil
	case "prop":
		r := ref{kind, name}
		if no {
			if !d.exists(r) {
				return fmt.Errorf("object to remove does not exist: %s", pos)
			}
			if by := d.referencedBy(r); by != "" {
				return fmt.Errorf("%s %s is still referenced by `%s`", kind, name, by)
			}
			d.removeAll(r)
			return nil
		}
		e.open(pos, nil)
		return nil
	case "cbind":
		intf := pw[4]
		if no {
			b := d.findHead(pos)
			if b == nil {
				return fmt.Errorf("binding to remove does not exist: %s", pos)
			}
			d.removeBlock(b)
			return nil
		}
		if !d.exists(ref{"cmap", pw[2]}) {
			return fmt.Errorf("crypto map %s does not exist", pw[2])
		}
		if !d.hasIntf(intf) {
			return fmt.Errorf("crypto map interface: interface %s does not exist", intf)
		}
		for _, b := range d.Blocks {
			bw := b.words()
			if k, _ := headKind(bw); k == "cbind" && bw[4] == intf {
				b.Head = pos
				return nil
			}
		}
		d.add(pos)
		return nil
	case "cmap", "dynmap":
		r := ref{kind, name}
		seq := pw[3]
		if no {
			b := d.findHead(pos)
			if b == nil {
				return fmt.Errorf("line to remove does not exist: %s", pos)
			}
			if len(d.blocksOf(r)) == 1 {
				if by := d.referencedBy(r); by != "" {
					return fmt.Errorf("last line of %s %s removed while it is still referenced by `%s`", pw[1], name, by)
				}
			}
			d.removeBlock(b)
			return nil
		}
		for _, s := range cryptoAttrSlots(pw) {
			if !d.exists(ref{s.kind, pw[s.idx]}) {
				return fmt.Errorf("`%s` references %s %s which does not exist", cmd, s.kind, pw[s.idx])
			}
		}
		if n, err := strconv.Atoi(seq); err != nil || n < 1 || n > 65535 {
			return fmt.Errorf("sequence number %s is outside 1..65535: %s", seq, cmd)
		}
		key := cryptoAttrKey(pw)
		sameEntry := func(b *block) bool {
			bw := b.words()
			k, n := headKind(bw)
			return k == kind && n == name && bw[3] == seq
		}
		// an entry is either a dynamic one (exactly one `ipsec-isakmp dynamic D` line) or a static one
		for _, b := range d.Blocks {
			if !sameEntry(b) || b.Head == pos {
				continue
			}
			bk := cryptoAttrKey(b.words())
			if key == "ipsec-isakmp dynamic" || bk == "ipsec-isakmp dynamic" || (key == "set peer" && bk == "set peer") {
				// (a further `set peer` would be appended to the entry's peer list by a real device: the entry of ANOTHER peer)
				return fmt.Errorf("sequence number %s of %s %s is occupied by `%s`: %s", seq, pw[1], name, b.Head, cmd)
			}
		}
		for _, b := range d.Blocks {
			if sameEntry(b) && cryptoAttrKey(b.words()) == key {
				if key == "set peer" {
					have := b.words()[6:]
					for _, p := range pw[6:] {
						if !contains(have, p) {
							b.Head += " " + p
						}
					}
					return nil
				}
				b.Head = pos
				return nil
			}
		}
		nb := &block{Head: pos}
		has := false
		for _, b := range d.Blocks {
			if sameEntry(b) {
				has = true
			}
		}
		if has {
			d.insertAfterLast(nb, sameEntry)
		} else {
			d.insertAfterLast(nb, sameObj(r))
		}
		return nil
	case "certmap":
		if no {
			return fmt.Errorf("command outside the modelled fragment: %s", cmd)
		}
		e.open(pos, sameObj(ref{kind, name}))
		return nil
	case "gp":
		r := ref{kind, name}
		if pw[2] == "internal" {
			if no {
				return fmt.Errorf("command outside the modelled fragment: %s", cmd)
			}
			if d.exists(r) {
				return fmt.Errorf("group-policy %s exists already", name)
			}
			d.add(pos)
			return nil
		}
		if no {
			b := d.findHead(pos)
			if b == nil {
				return fmt.Errorf("section to remove does not exist: %s", pos)
			}
			d.removeBlock(b)
			return nil
		}
		if !d.exists(r) {
			return fmt.Errorf("group-policy %s does not exist: %s", name, cmd)
		}
		e.open(pos, sameObj(r))
		return nil
	case "tg":
		r := ref{kind, name}
		if pw[2] == "type" {
			if no || len(pw) != 4 {
				return fmt.Errorf("command outside the modelled fragment: %s", cmd)
			}
			if t := defaultTG[name]; t != "" {
				if t != pw[3] {
					return fmt.Errorf("type of built-in tunnel-group cannot be changed: %s", cmd)
				}
				if d.findHead(pos) == nil {
					d.add(pos)
				}
				return nil
			}
			for _, b := range d.blocksOf(r) {
				if bw := b.words(); bw[2] == "type" {
					if bw[3] != pw[3] {
						return fmt.Errorf("tunnel-group %s exists with type %s: %s", name, bw[3], cmd)
					}
					return nil
				}
			}
			d.add(pos)
			return nil
		}
		if no {
			b := d.findHead(pos)
			if b == nil {
				return fmt.Errorf("section to remove does not exist: %s", pos)
			}
			d.removeBlock(b)
			return nil
		}
		if !d.exists(r) {
			return fmt.Errorf("tunnel-group %s does not exist: %s", name, cmd)
		}
		e.open(pos, sameObj(r))
		return nil
	case "user":
		r := ref{kind, name}
		if no {
			return fmt.Errorf("command outside the modelled fragment: %s", cmd)
		}
		if pw[2] == "password" {
			return fmt.Errorf("command outside the modelled fragment: %s", cmd)
		}
		if pw[2] == "nopassword" {
			if d.localUser(name) {
				return fmt.Errorf("username %s is a local account with a password: %s", name, cmd)
			}
			if d.findHead(pos) == nil {
				d.add(pos)
			}
			return nil
		}
		if !d.exists(r) {
			return fmt.Errorf("username %s does not exist: %s", name, cmd)
		}
		e.open(pos, sameObj(r))
		return nil
	case "tgmap":
		sl := headSlots(pw)
		if sl == nil {
			return fmt.Errorf("command outside the modelled fragment: %s", cmd)
		}
		if no {
			b := d.findHead(pos)
			if b == nil {
				return fmt.Errorf("rule to remove does not exist: %s", pos)
			}
			d.removeBlock(b)
			return nil
		}
		for _, s := range sl {
			if !d.exists(ref{s.kind, pw[s.idx]}) {
				return fmt.Errorf("`%s` references %s %s which does not exist", cmd, s.kind, pw[s.idx])
			}
		}
		if len(pw) == 4 && d.findHead("crypto ca certificate map "+pw[1]+" "+pw[2]) == nil {
			return fmt.Errorf("`%s` names rule %s of certificate map %s: no such entry", cmd, pw[2], pw[1])
		}
		key := strings.Join(pw[:len(pw)-1], " ")
		for _, b := range d.Blocks {
			bw := b.words()
			if k, _ := headKind(bw); k == "tgmap" && strings.Join(bw[:len(bw)-1], " ") == key {
				b.Head = pos
				return nil
			}
		}
		d.add(pos)
		return nil
	case "webvpn":
		if no {
			return fmt.Errorf("command outside the modelled fragment: %s", cmd)
		}
		e.open(pos, nil)
		return nil
	case "ldapmap":
		if no || d.findHead(pos) == nil {
			return fmt.Errorf("ldap attribute-map %s does not exist (such objects are transferred manually): %s", name, cmd)
		}
		e.open(pos, nil)
		return nil
	case "aaa":
		// the one thing the tool models inside an aaa-server is the reference `ldap-attribute-map M` of a host line: entering
		// the mode of an EXISTING host line is no change; defining or removing servers / hosts is refused
		if !no && contains(pw, "host") && d.findHead(pos) != nil {
			e.open(pos, nil)
			return nil
		}
		return fmt.Errorf("aaa-server definitions must not be changed: %s", cmd)
	}
	return fmt.Errorf("command outside the modelled fragment: %s", cmd)
}

func (e *executor) execACL(cmd string) error {
	d := e.d
	m := aclCmdRE.FindStringSubmatch(cmd)
	if m == nil {
		return fmt.Errorf("command outside the modelled fragment: %s", cmd)
	}
	no, name, lineS, typ, body := m[1] != "", m[2], m[3], m[4], m[5]
	r := ref{"acl", name}
	ls := d.blocksOf(r)
	text := typ + " " + body
	bodyOf := func(b *block) string { return strings.TrimPrefix(b.Head, "access-list "+name+" ") }
	if no {
		if lineS == "" {
			return fmt.Errorf("delete without line number not expected: %s", cmd)
		}
		n, _ := strconv.Atoi(lineS)
		if n < 1 || n > len(ls) || bodyOf(ls[n-1]) != text {
			return fmt.Errorf("line %d of %s is not %q", n, name, text)
		}
		if len(ls) == 1 {
			if by := d.referencedBy(r); by != "" {
				return fmt.Errorf("last line of access-list %s deleted while it is referenced by `%s`", name, by)
			}
		}
		d.removeBlock(ls[n-1])
		return nil
	}
	for _, x := range (&block{Head: "access-list " + name + " " + text}).refs() {
		if !d.exists(x) {
			return fmt.Errorf("referenced %s %s does not exist", x.kind, x.name)
		}
	}
	for _, l := range ls {
		if stripLog(bodyOf(l)) == stripLog(text) {
			return fmt.Errorf("access-list %s already contains this entry: %s", name, text)
		}
		if strings.HasPrefix(bodyOf(l), "standard ") != (typ == "standard") {
			return fmt.Errorf("access-list %s exists with another type: %s", name, cmd)
		}
	}
	nb := &block{Head: "access-list " + name + " " + text}
	if lineS != "" {
		n, _ := strconv.Atoi(lineS)
		if n < 1 || n > len(ls)+1 {
			return fmt.Errorf("line %d out of range for %s (%d lines)", n, name, len(ls))
		}
		if n <= len(ls) {
			for i, b := range d.Blocks {
				if b == ls[n-1] {
					d.Blocks = append(d.Blocks[:i:i], append([]*block{nb}, d.Blocks[i:]...)...)
					return nil
				}
			}
		}
	}
	d.insertAfterLast(nb, sameObj(r))
	return nil
}

// splitScript turns drc's printed change list into single commands (joined lines are two commands).
func splitScript(out string) []string {
	var cmds []string
	for _, line := range strings.Split(strings.TrimSuffix(out, "\n"), "\n") {
		if line == "" {
			continue
		}
		cmds = append(cmds, strings.Split(line, "\\N ")...)
	}
	return cmds
}

func contains(l []string, s string) bool {
	for _, x := range l {
		if x == s {
			return true
		}
	}
	return false
}

// ---------------------------------------------------------------- content-wise views

func isIPName(s string) bool {
	_, err := netip.ParseAddr(s)
	return err == nil
}

// content prints an object with every reference replaced by the content of the referenced object.
func (d *vdev) content(r ref, depth int) string {
	if depth > 6 {
		return "<deep>"
	}
	bl := d.blocksOf(r)
	expandWords := func(w []string, sl []slot) string {
		out := append([]string{}, w...)
		for _, s := range sl {
			if !s.def {
				out[s.idx] = "{" + d.content(ref{s.kind, w[s.idx]}, depth+1) + "}"
			}
		}
		return strings.Join(out, " ")
	}
	subsOf := func(b *block) []string {
		mode := modeOf(b.words())
		var out []string
		for _, s := range b.modelSubs() {
			sw := strings.Fields(s)
			if mode == "certmap" && sw[0] == "subject-name" {
				s = strings.ToLower(s)
				sw = strings.Fields(s)
			}
			if mode == "ldapmap" && len(sw) == 4 && sw[0] == "map-value" {
				// a single word is the same value with and without double quotes
				sw[2] = strings.Trim(sw[2], `"`)
			}
			out = append(out, expandWords(sw, subSlots(mode, sw)))
		}
		sort.Strings(out)
		return out
	}
	switch r.kind {
	case "acl":
		var ls []string
		for _, b := range bl {
			w := b.words()
			ls = append(ls, expandWords(w[2:], shift(headSlots(w), 2)))
		}
		return strings.Join(ls, "; ")
	case "group":
		var ls []string
		for _, b := range bl {
			ls = append(ls, subsOf(b)...)
		}
		sort.Strings(ls)
		return strings.Join(ls, ",")
	case "ts", "pool":
		if len(bl) == 0 {
			return "<missing>"
		}
		w := bl[0].words()
		idx := 5
		if r.kind == "pool" {
			idx = 4
		}
		return strings.Join(w[idx:], " ")
	case "prop":
		if len(bl) == 0 {
			return "<missing>"
		}
		return strings.Join(subsOf(bl[0]), "; ")
	case "cmap", "dynmap":
		// entries keyed by peer; sequence numbers are not part of the content
		entries := map[string][]string{}
		var seqs []string
		for _, b := range bl {
			w := b.words()
			if _, ok := entries[w[3]]; !ok {
				seqs = append(seqs, w[3])
			}
			entries[w[3]] = append(entries[w[3]], expandWords(w[4:], shift(cryptoAttrSlots(w), 4)))
		}
		var out []string
		for _, s := range seqs {
			l := entries[s]
			// a stripped default: `set pfs group14` and `set pfs` are the same setting for the tool
			for i := range l {
				if l[i] == "set pfs group14" {
					l[i] = "set pfs"
				}
			}
			sort.Strings(l)
			out = append(out, "("+strings.Join(l, "; ")+")")
		}
		sort.Strings(out)
		return strings.Join(out, " ")
	case "certmap":
		var out []string
		for _, b := range bl {
			out = append(out, "("+strings.Join(subsOf(b), "; ")+")")
		}
		sort.Strings(out)
		return strings.Join(out, " ")
	case "aaa", "ldapmap":
		// host address, interface and the unmodelled sub-lines of the server are the administrator's business
		var out []string
		for _, b := range bl {
			for _, s := range subsOf(b) {
				if r.kind == "ldapmap" || strings.HasPrefix(s, "ldap-attribute-map ") {
					out = append(out, s)
				}
			}
		}
		sort.Strings(out)
		var uniq []string
		for _, x := range out {
			if len(uniq) == 0 || uniq[len(uniq)-1] != x {
				uniq = append(uniq, x)
			}
		}
		if r.kind == "aaa" {
			out = uniq // several hosts of one server group carry the same map
		}
		return strings.Join(out, "; ")
	case "gp", "tg", "user":
		var out []string
		for _, b := range bl {
			w := b.words()
			subs := subsOf(b)
			if strings.HasSuffix(w[2], "attributes") {
				if len(subs) == 0 {
					continue
				}
				out = append(out, w[2]+"("+strings.Join(subs, "; ")+")")
			} else {
				out = append(out, strings.Join(w[2:], " "))
			}
		}
		if r.kind == "tg" && defaultTG[r.name] != "" && !contains(out, "type "+defaultTG[r.name]) {
			out = append(out, "type "+defaultTG[r.name])
		}
		if r.kind == "gp" && r.name == defaultGP && !contains(out, "internal") {
			out = append(out, "internal")
		}
		sort.Strings(out)
		return strings.Join(out, " ")
	}
	return "?"
}

func shift(sl []slot, by int) []slot {
	var out []slot
	for _, s := range sl {
		if s.idx >= by {
			out = append(out, slot{s.idx - by, s.kind, s.def})
		}
	}
	return out
}

// implicitIntfs: interfaces a configuration mentions in access-group / crypto map interface lines.
func (d *vdev) implicitIntfs() map[string]bool {
	m := map[string]bool{}
	for _, b := range d.Blocks {
		w := b.words()
		switch k, _ := headKind(w); k {
		case "access-group":
			if len(w) == 5 {
				m[w[4]] = true
			}
		case "cbind":
			m[w[4]] = true
		}
	}
	return m
}

// managedView: everything the target specifies, by content. `managed` = interfaces known to Netspoc.
func (d *vdev) managedView(managed map[string]bool) string {
	var out []string
	users := map[string]bool{}
	tgs := map[string]bool{}
	for n := range defaultTG {
		tgs[n] = true
	}
	var tgmap, cgm []string
	for _, b := range d.Blocks {
		w := b.words()
		kind, name := headKind(w)
		switch kind {
		case "sysopt":
			out = append(out, "[sysopt] "+b.Head)
		case "access-group":
			if len(w) == 5 && managed[w[4]] {
				out = append(out, fmt.Sprintf("[access-group %s %s] %s", w[2], w[4], d.content(ref{"acl", w[1]}, 0)))
			} else if len(w) == 3 {
				out = append(out, fmt.Sprintf("[access-group global] %s", d.content(ref{"acl", w[1]}, 0)))
			}
		case "cbind":
			if managed[w[4]] {
				out = append(out, fmt.Sprintf("[crypto map interface %s] %s", w[4], d.content(ref{"cmap", w[2]}, 0)))
			}
		case "user":
			if !d.localUser(name) {
				users[name] = true
			}
		case "tg":
			if isIPName(name) {
				tgs[name] = true
			}
		case "tgmap":
			if w[1] == "default-group" {
				tgmap = append(tgmap, "default-group -> "+d.content(ref{"tg", w[2]}, 0))
			} else {
				tgmap = append(tgmap, "{"+d.content(ref{"certmap", w[1]}, 0)+"} -> "+d.content(ref{"tg", w[3]}, 0))
			}
		case "webvpn":
			for _, s := range b.Subs {
				sw := strings.Fields(s)
				if len(sw) == 4 && sw[0] == "certificate-group-map" {
					cgm = append(cgm, "{"+d.content(ref{"certmap", sw[1]}, 0)+"} -> "+d.content(ref{"tg", sw[3]}, 0))
				}
			}
		}
	}
	for n := range users {
		out = append(out, fmt.Sprintf("[username %s] %s", n, d.content(ref{"user", n}, 0)))
	}
	for n := range tgs {
		c := d.content(ref{"tg", n}, 0)
		if defaultTG[n] != "" && c == "type "+defaultTG[n] {
			continue
		}
		out = append(out, fmt.Sprintf("[tunnel-group %s] %s", n, c))
	}
	if c := d.content(ref{"gp", defaultGP}, 0); c != "internal" {
		out = append(out, "[group-policy "+defaultGP+"] "+c)
	}
	for _, l := range tgmap {
		out = append(out, "[tunnel-group-map] "+l)
	}
	for _, l := range cgm {
		out = append(out, "[certificate-group-map] "+l)
	}
	sort.Strings(out)
	return strings.Join(out, "\n") + "\n"
}

// anchorRefs: the objects the managed anchors of d reference directly.
func (d *vdev) anchorRoots(managed map[string]bool) []ref {
	var out []ref
	for _, b := range d.Blocks {
		w := b.words()
		kind, name := headKind(w)
		switch kind {
		case "access-group":
			if len(w) == 3 || managed[w[4]] {
				out = append(out, b.refs()...)
			}
		case "cbind":
			if managed[w[4]] {
				out = append(out, b.refs()...)
			}
		case "user":
			if !d.localUser(name) {
				out = append(out, ref{"user", name})
			}
		case "tg":
			if isIPName(name) || defaultTG[name] != "" {
				out = append(out, ref{"tg", name})
			}
		case "gp":
			if name == defaultGP {
				out = append(out, ref{"gp", name})
			}
		case "tgmap":
			out = append(out, b.refs()...)
		case "webvpn":
			out = append(out, b.refs()...)
		}
	}
	return out
}

func (d *vdev) closure(roots []ref) map[ref]bool {
	seen := map[ref]bool{}
	var walk func(r ref)
	walk = func(r ref) {
		if seen[r] {
			return
		}
		seen[r] = true
		for _, b := range d.blocksOf(r) {
			for _, x := range b.refs() {
				walk(x)
			}
		}
	}
	for _, r := range roots {
		walk(r)
	}
	return seen
}

func (d *vdev) objects() []ref {
	seen := map[ref]bool{}
	var out []ref
	for _, b := range d.Blocks {
		if r, ok := b.defines(); ok && !seen[r] {
			seen[r] = true
			out = append(out, r)
		}
	}
	return out
}

// leftovers: generated objects nothing references.
func (d *vdev) leftovers() []string {
	var out []string
	for _, r := range d.objects() {
		if strings.Contains(r.name, "-DRC-") && d.referencedBy(r) == "" {
			out = append(out, r.kind+" "+r.name)
		}
	}
	return out
}
