package main

// Generator of (device, target) pairs of the ASA VPN fragment.
// The target is written the way Netspoc writes it (plain names, sequence numbers 1..n / 65535 downward);
// the device is the target after an earlier approve (generated names NAME-DRC-n) plus mutations plus
// content outside Netspoc's scope.

import (
	"fmt"
	"sort"
	"strings"

	. "verifharness/vhlib"
)

var tsContents = []string{"esp-3des esp-md5-hmac", "esp-aes-256 esp-sha-hmac", "esp-aes esp-sha-hmac", "esp-3des esp-sha-hmac", "esp-aes-192 esp-md5-hmac"}
var propContents = [][]string{
	{"protocol esp encryption aes-256", "protocol esp integrity sha-1"},
	{"protocol esp encryption aes-192 aes-256", "protocol esp integrity sha-256"},
	{"protocol esp encryption aes", "protocol esp integrity sha-1 md5"},
}
var peerPool = []string{"10.0.0.1", "10.0.0.2", "10.0.0.3", "10.0.0.4", "10.0.0.5", "10.0.0.6", "10.0.0.7"}
var pfsVals = []string{"", " group2", " group5", " group19", " group14"}

type gen struct {
	r *RNG
	n int // counter for distinct names
}

func (g *gen) aclLines(typ string, n int) []string {
	var ls []string
	for len(ls) < n {
		var l string
		switch typ {
		case "crypto":
			l = fmt.Sprintf("extended permit ip 10.1.%d.0 255.255.255.0 10.99.%d.0 255.255.255.0", g.r.Intn(6), g.r.Intn(4))
		case "filter":
			l = fmt.Sprintf("extended permit ip host 10.3.4.%d 10.1.%d.0 255.255.255.0", 1+g.r.Intn(6), g.r.Intn(6))
			if g.r.Chance(25) {
				l = fmt.Sprintf("extended permit tcp host 10.3.4.%d 10.1.%d.0 255.255.255.0 eq %d", 1+g.r.Intn(6), g.r.Intn(6), Pick(g.r, []int{22, 80, 443}))
			}
		case "split":
			l = fmt.Sprintf("standard permit 10.1.%d.0 255.255.255.0", g.r.Intn(8))
		case "intf":
			l = fmt.Sprintf("extended permit tcp 10.1.%d.0 255.255.255.0 host 10.2.2.%d eq %d", g.r.Intn(6), 1+g.r.Intn(5), Pick(g.r, []int{22, 25, 80}))
		}
		if !contains(ls, l) {
			ls = append(ls, l)
		}
	}
	if typ == "filter" || typ == "intf" {
		if g.r.Chance(75) {
			ls = append(ls, "extended deny ip any4 any4")
		}
	}
	return ls
}

func addACL(d *vdev, name string, lines []string) {
	for _, l := range lines {
		d.add("access-list " + name + " " + l)
	}
}

// ensureTS defines transform-set number i of the target on first use and returns its name.
func (g *gen) ensureTS(b *vdev, i int) string {
	name := fmt.Sprintf("Trans%d", i+1)
	if !b.exists(ref{"ts", name}) {
		b.add("crypto ipsec ikev1 transform-set " + name + " " + tsContents[i])
	}
	return name
}

func (g *gen) ensureProp(b *vdev, i int) string {
	name := fmt.Sprintf("Proposal%d", i+1)
	if !b.exists(ref{"prop", name}) {
		b.add("crypto ipsec ikev2 ipsec-proposal "+name, propContents[i]...)
	}
	return name
}

func (g *gen) cryptoAttrs(b *vdev, prefix string) []string {
	var out []string
	switch k := g.r.Intn(10); {
	case k < 5:
		out = append(out, prefix+" set ikev1 transform-set "+g.ensureTS(b, g.r.Intn(len(tsContents))))
	case k < 7:
		i := g.r.Intn(len(tsContents))
		j := (i + 1 + g.r.Intn(len(tsContents)-1)) % len(tsContents)
		out = append(out, prefix+" set ikev1 transform-set "+g.ensureTS(b, i)+" "+g.ensureTS(b, j))
	case k < 9:
		out = append(out, prefix+" set ikev2 ipsec-proposal "+g.ensureProp(b, g.r.Intn(len(propContents))))
	}
	if g.r.Chance(45) {
		out = append(out, prefix+" set pfs"+Pick(g.r, pfsVals))
	}
	if g.r.Chance(35) {
		out = append(out, fmt.Sprintf("%s set security-association lifetime seconds %d", prefix, Pick(g.r, []int{3600, 28800, 43200})))
	}
	if g.r.Chance(15) {
		out = append(out, fmt.Sprintf("%s set security-association lifetime kilobytes %d", prefix, Pick(g.r, []int{4608000, 100000})))
	}
	if g.r.Chance(10) {
		out = append(out, prefix+" set nat-t-disable")
	}
	return out
}

func (g *gen) groupPolicy(b *vdev, name string, ra bool) {
	if b.exists(ref{"gp", name}) {
		return
	}
	b.add("group-policy " + name + " internal")
	var subs []string
	if ra {
		if !b.exists(ref{"pool", "pool1"}) {
			b.add("ip local pool pool1 10.3.4.8-10.3.4.15 mask 255.255.255.248")
		}
		pool := "pool1"
		if g.r.Chance(25) {
			pool = "pool2"
			if !b.exists(ref{"pool", "pool2"}) {
				b.add("ip local pool pool2 10.3.5.0-10.3.5.127 mask 255.255.255.128")
			}
		}
		subs = append(subs, "address-pools value "+pool)
		if g.r.Chance(60) {
			subs = append(subs, "banner value Welcome"+fmt.Sprint(g.r.Intn(3)))
		}
		if g.r.Chance(60) {
			sn := "split-" + name
			addACL(b, sn, g.aclLines("split", 1+g.r.Intn(2)))
			subs = append(subs, "split-tunnel-network-list value "+sn, "split-tunnel-policy tunnelspecified")
		}
	}
	if g.r.Chance(80) {
		fn := "vpn-filter-" + name
		addACL(b, fn, g.aclLines("filter", 1+g.r.Intn(3)))
		subs = append(subs, "vpn-filter value "+fn)
	}
	if g.r.Chance(60) {
		subs = append(subs, fmt.Sprintf("vpn-idle-timeout %d", Pick(g.r, []int{30, 60, 120})))
	}
	if len(subs) > 0 || g.r.Chance(50) {
		b.add("group-policy "+name+" attributes", subs...)
	}
}

func (g *gen) genTarget() *vdev {
	r := g.r
	b := &vdev{}
	if r.Chance(85) {
		addACL(b, "inside_in", g.aclLines("intf", 1+r.Intn(3)))
		b.add("access-group inside_in in interface inside")
	}
	var peers []string
	for _, intf := range []string{"outside", "dmz"} {
		if (intf == "outside" && !r.Chance(80)) || (intf == "dmz" && !r.Chance(12)) {
			continue
		}
		m := "crypto-" + intf
		nstat := r.Intn(5)
		ndyn := 0
		if r.Chance(40) {
			ndyn = 1 + r.Intn(3)
		}
		if nstat+ndyn == 0 {
			nstat = 1
		}
		pp := append([]string{}, peerPool...)
		Shuffle(r, pp)
		seq := 0
		for i := 0; i < nstat; i++ {
			seq += 1
			if r.Chance(10) {
				seq += r.Intn(3)
			}
			peer := pp[i]
			if contains(peers, peer) {
				continue
			}
			peers = append(peers, peer)
			pre := fmt.Sprintf("crypto map %s %d", m, seq)
			an := fmt.Sprintf("crypto-%s-%d", intf, seq)
			addACL(b, an, g.aclLines("crypto", 1+r.Intn(3)))
			attrs := g.cryptoAttrs(b, pre)
			b.add(pre + " match address " + an)
			b.add(pre + " set peer " + peer)
			for _, a := range attrs {
				b.add(a)
			}
			if r.Chance(60) {
				b.add("tunnel-group " + peer + " type ipsec-l2l")
				if r.Chance(30) {
					gp := fmt.Sprintf("GP-l2l-%d", len(peers))
					g.groupPolicy(b, gp, false)
					b.add("tunnel-group "+peer+" general-attributes", "default-group-policy "+gp)
				}
				var subs []string
				switch r.Intn(3) {
				case 0:
					subs = []string{"peer-id-validate nocheck"}
				case 1:
					subs = []string{"ikev2 local-authentication certificate TP" + fmt.Sprint(r.Intn(2)), "ikev2 remote-authentication certificate"}
				case 2:
					subs = []string{"peer-id-validate nocheck", "trust-point TP" + fmt.Sprint(r.Intn(3))}
				}
				b.add("tunnel-group "+peer+" ipsec-attributes", subs...)
			}
		}
		for j := 0; j < ndyn; j++ {
			dn := fmt.Sprintf("name%d@example.com", 1+r.Intn(4))
			if b.exists(ref{"dynmap", dn}) {
				continue
			}
			dseq := 65535 - j
			an := fmt.Sprintf("crypto-%s-%d", intf, dseq)
			addACL(b, an, g.aclLines("crypto", 1+r.Intn(2)))
			pre := fmt.Sprintf("crypto dynamic-map %s 20", dn)
			b.add(pre + " match address " + an)
			for _, a := range g.cryptoAttrs(b, pre) {
				b.add(a)
			}
			b.add(fmt.Sprintf("crypto map %s %d ipsec-isakmp dynamic %s", m, dseq, dn))
		}
		if b.exists(ref{"cmap", m}) {
			b.add("crypto map " + m + " interface " + intf)
		}
	}
	// remote access: certificate map -> tunnel-group -> group-policy -> pool / ACLs
	if r.Chance(50) {
		var web []string
		nra := 1 + r.Intn(2)
		for k := 1; k <= nra; k++ {
			cm := fmt.Sprintf("ca-map-%d", k)
			subs := []string{fmt.Sprintf("subject-name attr ea co @Sub%d.example.com", k)}
			if r.Chance(40) {
				subs = append(subs, "extended-key-usage co "+Pick(r, []string{"clientauth", "1.3.6.1.4.1.311.20.2.2"}))
			}
			b.add(fmt.Sprintf("crypto ca certificate map %s %d", cm, 10*k), subs...)
			tg := fmt.Sprintf("VPN-tunnel-%d", k)
			b.add("tunnel-group " + tg + " type remote-access")
			gp := fmt.Sprintf("VPN-group-%d", k)
			if k == 2 && r.Chance(30) {
				gp = "VPN-group-1"
			}
			g.groupPolicy(b, gp, true)
			if r.Chance(25) {
				// group-policy chosen by an LDAP attribute map; server and map are transferred manually
				srv, lm := fmt.Sprintf("LDAP%d", k), fmt.Sprintf("LDAPMAP%d", k)
				b.add("aaa-server " + srv + " protocol ldap")
				b.add("aaa-server "+srv+" host X", "ldap-attribute-map "+lm)
				subs := []string{"map-name memberOf Group-Policy"}
				for j, n := 0, 1+r.Intn(3); j < n; j++ {
					lg := fmt.Sprintf("VPN-ldap-%d-%d", k, j)
					g.groupPolicy(b, lg, true)
					dn := fmt.Sprintf(`"CN=g-m%d,OU=VPN,DC=example,DC=com"`, j)
					if r.Chance(30) {
						dn = fmt.Sprintf(`"CN=g-m%d,OU=local group,DC=example,DC=com"`, j)
					}
					subs = append(subs, "map-value memberOf "+dn+" "+lg)
				}
				b.add("ldap attribute-map "+lm, subs...)
				b.add("tunnel-group "+tg+" general-attributes", "default-group-policy "+gp, "authentication-server-group "+srv)
			} else {
				b.add("tunnel-group "+tg+" general-attributes", "default-group-policy "+gp)
			}
			if r.Chance(70) {
				b.add("tunnel-group "+tg+" ipsec-attributes", "peer-id-validate req", "trust-point TP"+fmt.Sprint(r.Intn(3)))
			}
			if r.Chance(40) {
				b.add("tunnel-group "+tg+" webvpn-attributes", "authentication "+Pick(r, []string{"aaa certificate", "certificate"}))
			}
			b.add(fmt.Sprintf("tunnel-group-map %s %d %s", cm, 10*k, tg))
			if r.Chance(50) {
				web = append(web, fmt.Sprintf("certificate-group-map %s %d %s", cm, 10*k, tg))
			}
		}
		if r.Chance(15) {
			b.add("tunnel-group-map default-group VPN-tunnel-1")
		}
		if len(web) > 0 {
			b.add("webvpn", web...)
		}
	}
	if r.Chance(40) {
		nu := 1 + r.Intn(3)
		for k := 1; k <= nu; k++ {
			u := fmt.Sprintf("user%d@example.com", 1+r.Intn(5))
			if b.exists(ref{"user", u}) {
				continue
			}
			b.add("username " + u + " nopassword")
			subs := []string{fmt.Sprintf("vpn-framed-ip-address 10.3.4.%d 255.255.255.0", 1+r.Intn(6)), "service-type remote-access"}
			if r.Chance(70) {
				fn := "vpn-filter-" + u
				addACL(b, fn, g.aclLines("filter", 1+r.Intn(2)))
				subs = append(subs, "vpn-filter value "+fn)
			}
			if r.Chance(60) {
				g.groupPolicy(b, "VPN-users", true)
				subs = append(subs, "vpn-group-policy VPN-users")
			}
			b.add("username "+u+" attributes", subs...)
		}
	}
	if r.Chance(10) {
		b.add("group-policy DfltGrpPolicy attributes", "vpn-idle-timeout 240", "vpn-tunnel-protocol ikev2")
	}
	if r.Chance(6) {
		b.add("tunnel-group DefaultL2LGroup ipsec-attributes", "peer-id-validate nocheck")
	}
	if r.Chance(12) {
		b.add("no sysopt connection permit-vpn") // a managed line that itself starts with `no` (coverage item 12)
	}
	// references to built-in objects that the file does not define (coverage item 13)
	hasDefRule := false
	for _, x := range b.Blocks {
		if w := x.words(); len(w) == 3 && w[0] == "tunnel-group-map" {
			hasDefRule = true
		}
	}
	if !hasDefRule && r.Chance(10) {
		b.add("tunnel-group-map default-group " + Pick(r, []string{"DefaultRAGroup", "DefaultWEBVPNGroup", "DefaultL2LGroup"}))
	}
	if r.Chance(8) {
		b.add("tunnel-group DefaultRAGroup general-attributes", "default-group-policy DfltGrpPolicy")
	}
	if r.Chance(6) {
		b.add("tunnel-group DefaultWEBVPNGroup webvpn-attributes", "authentication certificate")
	}
	return b
}

// rename an object everywhere (definitions and references).
func (d *vdev) rename(from ref, to string) {
	if from.name == to || len(d.blocksOf(ref{from.kind, to})) > 0 {
		return
	}
	for _, b := range d.Blocks {
		w := b.words()
		mode := modeOf(w)
		for i, s := range b.Subs {
			sw := strings.Fields(s)
			ch := false
			for _, sl := range subSlots(mode, sw) {
				if sl.kind == from.kind && sw[sl.idx] == from.name {
					sw[sl.idx] = to
					ch = true
				}
			}
			if ch {
				b.Subs[i] = strings.Join(sw, " ")
			}
		}
		ch := false
		for _, sl := range headSlots(w) {
			if sl.kind == from.kind && w[sl.idx] == from.name {
				w[sl.idx] = to
				ch = true
			}
		}
		if ch {
			b.Head = strings.Join(w, " ")
		}
	}
}

func fixedName(r ref) bool {
	switch r.kind {
	case "cmap", "dynmap", "user", "aaa", "ldapmap":
		return true
	case "tg":
		return isIPName(r.name) || defaultTG[r.name] != ""
	case "gp":
		return r.name == defaultGP
	}
	return false
}

func baseName(n string) string { return strings.SplitN(n, "-DRC-", 2)[0] }

// entry handling for crypto [dynamic-]maps
func (d *vdev) seqsOf(r ref) []string {
	var out []string
	for _, b := range d.blocksOf(r) {
		if s := b.words()[3]; !contains(out, s) {
			out = append(out, s)
		}
	}
	return out
}

func (d *vdev) entry(r ref, seq string) []*block {
	var out []*block
	for _, b := range d.blocksOf(r) {
		if b.words()[3] == seq {
			out = append(out, b)
		}
	}
	return out
}

func (d *vdev) setSeq(r ref, from, to string) {
	for _, b := range d.entry(r, from) {
		w := b.words()
		w[3] = to
		b.Head = strings.Join(w, " ")
	}
}

func (d *vdev) isStatic(r ref, seq string) bool {
	for _, b := range d.entry(r, seq) {
		if cryptoAttrKey(b.words()) == "set peer" {
			return true
		}
	}
	return false
}

func (d *vdev) kindObjects(kind string) []ref {
	var out []ref
	for _, r := range d.objects() {
		if r.kind == kind {
			out = append(out, r)
		}
	}
	return out
}

func (g *gen) freshSeq(d *vdev, r ref, lo, hi int) string {
	for i := 0; i < 50; i++ {
		s := fmt.Sprint(lo + g.r.Intn(hi-lo+1))
		if len(d.entry(r, s)) == 0 {
			return s
		}
	}
	return fmt.Sprint(hi + 1)
}

// editACL changes the content of an ACL of the device a little (or completely).
func (g *gen) editACL(a *vdev, r ref, whole bool) {
	bl := a.blocksOf(r)
	if len(bl) == 0 {
		return
	}
	typ := "crypto"
	switch {
	case strings.Contains(bl[0].Head, " standard "):
		typ = "split"
	case strings.Contains(bl[0].Head, "host 10.3.4."):
		typ = "filter"
	case strings.Contains(bl[0].Head, "host 10.2.2."):
		typ = "intf"
	}
	has := func(l string) bool {
		for _, b := range a.blocksOf(r) {
			if stripLog(b.Head) == stripLog("access-list "+r.name+" "+l) {
				return true
			}
		}
		return false
	}
	fresh := func() string {
		for i := 0; i < 30; i++ {
			l := g.aclLines(typ, 1)[0]
			if !has(l) {
				return l
			}
		}
		return ""
	}
	if whole {
		n := len(bl)
		var nl []string
		for i := 0; i < n; i++ {
			if l := fresh(); l != "" && !contains(nl, l) {
				nl = append(nl, l)
			}
		}
		if len(nl) == 0 {
			return
		}
		for _, b := range bl[1:] {
			a.removeBlock(b)
		}
		bl[0].Head = "access-list " + r.name + " " + nl[0]
		for _, l := range nl[1:] {
			a.insertAfterLast(&block{Head: "access-list " + r.name + " " + l}, sameObj(r))
		}
		return
	}
	switch g.r.Intn(3) {
	case 0:
		if len(bl) > 1 {
			a.removeBlock(bl[g.r.Intn(len(bl))])
		}
	case 1:
		if l := fresh(); l != "" {
			at := bl[g.r.Intn(len(bl))]
			nb := &block{Head: "access-list " + r.name + " " + l}
			for i, b := range a.Blocks {
				if b == at {
					a.Blocks = append(a.Blocks[:i:i], append([]*block{nb}, a.Blocks[i:]...)...)
					break
				}
			}
		}
	case 2:
		if l := fresh(); l != "" {
			bl[g.r.Intn(len(bl))].Head = "access-list " + r.name + " " + l
		}
	}
}

func (g *gen) pickRef(l []ref) (ref, bool) {
	if len(l) == 0 {
		return ref{}, false
	}
	return Pick(g.r, l), true
}

// genDevice derives the device from the target.
func (g *gen) genDevice(b *vdev) (*vdev, []string) {
	r := g.r
	a := &vdev{}
	var note []string
	say := func(s string) { note = append(note, s) }
	a.add("hostname fw1")
	if r.Chance(30) {
		a.add("snmp-server host inside 10.0.0.9 community x")
	}
	for i, n := range []string{"inside", "outside", "dmz"} {
		a.add(fmt.Sprintf("interface Ethernet0/%d", i), "nameif "+n)
	}
	unkIntf := r.Chance(25)
	if unkIntf {
		if r.Chance(40) {
			a.add("interface Ethernet0/3", "shutdown", "nameif mgmt")
		} else {
			a.add("interface Ethernet0/3", "nameif mgmt")
		}
	}
	for _, x := range b.clone().Blocks {
		a.Blocks = append(a.Blocks, x)
	}
	if r.Chance(8) {
		// empty device: everything is transferred
		a.Blocks = a.Blocks[:len(a.Blocks)-len(b.Blocks)]
		say("empty-device")
		unkIntf = false
		return a, note
	}
	// names as an earlier approve left them
	for _, o := range a.objects() {
		if fixedName(o) {
			continue
		}
		switch k := r.Intn(100); {
		case k < 70:
			a.rename(o, fmt.Sprintf("%s-DRC-%d", o.name, r.Intn(2)))
		case k < 80:
			a.rename(o, "old-"+o.name)
		}
	}
	// the device shows an aaa-server with interface, address and the administrator's settings
	for _, x := range a.Blocks {
		w := x.words()
		if k, _ := headKind(w); k == "aaa" && contains(w, "host") {
			x.Head = "aaa-server " + w[1] + " (inside) host 10.2.8.16"
			x.Subs = append([]string{"ldap-base-dn DC=example,DC=com", "ldap-scope subtree"}, x.Subs...)
		}
	}
	for _, o := range a.kindObjects("aaa") {
		if r.Chance(60) {
			// a server group with several hosts (all with the same attribute map)
			var host *block
			for _, x := range a.blocksOf(o) {
				if contains(x.words(), "host") {
					host = x
				}
			}
			if host != nil {
				for h := 0; h < 1+r.Intn(2); h++ {
					nb := &block{Head: fmt.Sprintf("aaa-server %s (inside) host 10.2.8.%d", o.name, 17+h), Subs: append([]string{}, host.Subs...)}
					a.insertAfterLast(nb, sameObj(o))
				}
				say("aaa-server-group-with-several-hosts")
			}
		}
	}
	// the device's tunnel-group uses an aaa-server of another name (a copy with the same attribute map); the target's one exists too
	for _, o := range a.kindObjects("aaa") {
		if !r.Chance(30) {
			continue
		}
		n := o.name + "_B"
		if a.exists(ref{"aaa", n}) {
			continue
		}
		var cp []*block
		for _, x := range a.blocksOf(o) {
			w := x.words()
			w[1] = n
			if contains(w, "host") {
				w[len(w)-1] = "10.2.9.1"
			}
			cp = append(cp, &block{Head: strings.Join(w, " "), Subs: append([]string{}, x.Subs...)})
		}
		used := false
		for _, x := range a.Blocks {
			for j, sx := range x.Subs {
				if sx == "authentication-server-group "+o.name {
					x.Subs[j] = "authentication-server-group " + n
					used = true
				}
			}
		}
		if used {
			a.Blocks = append(a.Blocks, cp...)
			say("tunnel-group-uses-other-aaa-server")
		}
	}
	nmut := r.Intn(7)
	for i := 0; i < nmut; i++ {
		if lms := a.kindObjects("ldapmap"); len(lms) > 0 && r.Chance(15) {
			lm := a.blocksOf(Pick(r, lms))[0]
			switch r.Intn(3) {
			case 0:
				for j, s := range lm.Subs {
					if strings.HasPrefix(s, "map-value ") {
						lm.Subs = append(lm.Subs[:j:j], lm.Subs[j+1:]...)
						say("ldap-map-value-missing")
						break
					}
				}
			case 1:
				n := "VPN-ldap-old-DRC-0"
				if !a.exists(ref{"gp", n}) {
					a.add("group-policy " + n + " internal")
					a.add("group-policy "+n+" attributes", "vpn-idle-timeout 7")
					lm.Subs = append(lm.Subs, `map-value memberOf "CN=g-old,OU=VPN,DC=example,DC=com" `+n)
					say("ldap-map-value-extra")
				}
			case 2:
				if r.Chance(40) {
					for _, o := range append(a.kindObjects("aaa"), a.kindObjects("ldapmap")...) {
						a.removeAll(o)
					}
					for _, x := range a.Blocks {
						for j := 0; j < len(x.Subs); j++ {
							if strings.HasPrefix(x.Subs[j], "authentication-server-group ") {
								x.Subs = append(x.Subs[:j:j], x.Subs[j+1:]...)
								j--
							}
						}
					}
					say("aaa-server-missing-on-device")
				}
			}
			continue
		}
		cmaps := a.kindObjects("cmap")
		if len(cmaps) > 0 && r.Chance(12) {
			m := Pick(r, cmaps)
			var dyn []*block
			for _, x := range a.blocksOf(m) {
				if cryptoAttrKey(x.words()) == "ipsec-isakmp dynamic" {
					dyn = append(dyn, x)
				}
			}
			if len(dyn) > 0 && len(dyn) < len(a.seqsOf(m)) && r.Chance(60) {
				// all dynamic entries of the target are new for the device (the dynamic-maps stay or go with them)
				gone := r.Chance(50)
				for _, x := range dyn {
					a.removeBlock(x)
					if gone {
						a.removeAll(ref{"dynmap", x.words()[6]})
					}
				}
				say("dynamic-entries-missing-on-device")
			}
			if r.Chance(50) {
				// the top numbers are taken by dynamic entries the target does not know
				for j := 0; j < 1+r.Intn(2); j++ {
					dn := fmt.Sprintf("gone%d@example.com", j)
					s := fmt.Sprint(65535 - j)
					if len(a.entry(m, s)) == 0 && !a.exists(ref{"dynmap", dn}) {
						a.add(fmt.Sprintf("crypto dynamic-map %s 20 set pfs", dn))
						a.add(fmt.Sprintf("crypto map %s %s ipsec-isakmp dynamic %s", m.name, s, dn))
						say("top-numbers-occupied-on-device")
					}
				}
			}
			continue
		}
		switch k := r.Intn(100); {
		case k < 10 && len(cmaps) > 0:
			// a peer of the target is missing on the device
			m := Pick(r, cmaps)
			if seqs := a.seqsOf(m); len(seqs) > 1 {
				s := Pick(r, seqs)
				for _, x := range a.entry(m, s) {
					a.removeBlock(x)
				}
				say("peer-missing-on-device")
			}
		case k < 18 && len(cmaps) > 0:
			// an additional peer on the device (possibly the peer of another entry: duplicate peer)
			m := Pick(r, cmaps)
			peer := fmt.Sprintf("10.0.9.%d", 1+r.Intn(3))
			if r.Chance(20) {
				peer = Pick(r, peerPool)
			}
			s := g.freshSeq(a, m, 1, 8)
			pre := fmt.Sprintf("crypto map %s %s", m.name, s)
			if r.Chance(70) {
				an := fmt.Sprintf("crypto-x-%s-DRC-0", s)
				if !a.exists(ref{"acl", an}) {
					addACL(a, an, g.aclLines("crypto", 1))
					a.add(pre + " match address " + an)
				}
			}
			a.add(pre + " set peer " + peer)
			if ts := a.kindObjects("ts"); len(ts) > 0 && r.Chance(70) {
				a.add(pre + " set ikev1 transform-set " + Pick(r, ts).name)
			}
			say("peer-extra-on-device")
		case k < 32 && len(cmaps) > 0:
			// other sequence numbers on the device for the same peers
			m := Pick(r, cmaps)
			seqs := a.seqsOf(m)
			switch r.Intn(3) {
			case 0:
				off := 1 + r.Intn(4)
				for j := len(seqs) - 1; j >= 0; j-- {
					if a.isStatic(m, seqs[j]) {
						var n int
						fmt.Sscan(seqs[j], &n)
						a.setSeq(m, seqs[j], "tmp"+fmt.Sprint(n+off))
					}
				}
			case 1:
				// reverse the order of the static entries
				var st []string
				for _, s := range seqs {
					if a.isStatic(m, s) {
						st = append(st, s)
					}
				}
				for j, s := range st {
					a.setSeq(m, s, "tmp"+st[len(st)-1-j])
				}
			case 2:
				for _, s := range seqs {
					if a.isStatic(m, s) {
						a.setSeq(m, s, "tmp"+g.freshSeqTmp(a, m, 1, 12))
					} else {
						a.setSeq(m, s, "tmp"+g.freshSeqTmp(a, m, 65520, 65535))
					}
				}
			}
			for _, x := range a.blocksOf(m) {
				x.Head = strings.Replace(x.Head, " tmp", " ", 1)
			}
			// `crypto map M tmpN …` is not recognised as an entry while renumbering: fix lines that lost their kind
			for _, x := range a.Blocks {
				x.Head = strings.Replace(x.Head, "crypto map "+m.name+" tmp", "crypto map "+m.name+" ", 1)
			}
			say("renumber-entries")
		case k < 42:
			// content of a crypto ACL / filter ACL differs
			var acls []ref
			for _, o := range a.kindObjects("acl") {
				if a.referencedBy(o) != "" {
					acls = append(acls, o)
				}
			}
			if o, ok := g.pickRef(acls); ok {
				whole := r.Chance(30)
				g.editACL(a, o, whole)
				if whole {
					say("acl-replaced-as-a-whole")
				} else {
					say("acl-edited")
				}
			}
		case k < 50:
			// transform-sets: other content, a twin under another name, shared use
			ts := a.kindObjects("ts")
			if o, ok := g.pickRef(ts); ok {
				switch r.Intn(3) {
				case 0:
					x := a.blocksOf(o)[0]
					x.Head = "crypto ipsec ikev1 transform-set " + o.name + " " + Pick(r, tsContents)
					say("ts-content-changed")
				case 1:
					w := a.blocksOf(o)[0].words()
					n := fmt.Sprintf("%s-DRC-%d", Pick(r, []string{"Aaa", "Trans1", "Zzz", baseName(o.name)}), 3+r.Intn(3))
					if !a.exists(ref{"ts", n}) {
						a.add("crypto ipsec ikev1 transform-set " + n + " " + strings.Join(w[5:], " "))
						say("ts-twin-on-device")
					}
				case 2:
					// one device entry uses another transform-set than the target says
					for _, x := range a.Blocks {
						w := x.words()
						if kk, _ := headKind(w); (kk == "cmap" || kk == "dynmap") && cryptoAttrKey(w) == "set ikev1 transform-set" && r.Chance(50) {
							w[7] = o.name
							x.Head = strings.Join(w, " ")
							say("ts-other-reference")
							break
						}
					}
				}
			}
		case k < 58:
			// plain attributes of an entry differ
			var cands []*block
			for _, x := range a.Blocks {
				w := x.words()
				if kk, _ := headKind(w); kk == "cmap" || kk == "dynmap" {
					key := cryptoAttrKey(w)
					if strings.HasPrefix(key, "set pfs") || strings.HasPrefix(key, "set security") || key == "set nat-t-disable" {
						cands = append(cands, x)
					}
				}
			}
			if len(cands) > 0 && r.Chance(70) {
				x := Pick(r, cands)
				w := x.words()
				switch cryptoAttrKey(w) {
				case "set pfs":
					x.Head = strings.Join(w[:6], " ") + Pick(r, pfsVals)
				case "set nat-t-disable":
					a.removeBlock(x)
				default:
					w[len(w)-1] = fmt.Sprint(Pick(r, []int{1800, 3600, 7200, 100000}))
					x.Head = strings.Join(w, " ")
				}
				say("entry-attribute-changed")
			} else if len(cmaps) > 0 {
				m := Pick(r, cmaps)
				if seqs := a.seqsOf(m); len(seqs) > 0 {
					s := Pick(r, seqs)
					if a.isStatic(m, s) {
						has := false
						for _, x := range a.entry(m, s) {
							if cryptoAttrKey(x.words()) == "set pfs" {
								has = true
							}
						}
						if !has {
							ent := a.entry(m, s)
							last := ent[len(ent)-1]
							a.insertAfterLast(&block{Head: fmt.Sprintf("crypto map %s %s set pfs%s", m.name, s, Pick(r, pfsVals))},
								func(x *block) bool { return x == last })
							say("entry-attribute-extra")
						}
					}
				}
			}
		case k < 66:
			// group-policy attributes
			var cands []*block
			for _, x := range a.Blocks {
				if modeOf(x.words()) == "gp-attr" {
					cands = append(cands, x)
				}
			}
			if len(cands) > 0 {
				x := Pick(r, cands)
				switch r.Intn(4) {
				case 0:
					x.Subs = append(x.Subs, fmt.Sprintf("vpn-session-timeout %d", 10+r.Intn(3)))
				case 1:
					for j, s := range x.Subs {
						if subSlots("gp-attr", strings.Fields(s)) == nil {
							x.Subs = append(x.Subs[:j:j], x.Subs[j+1:]...)
							break
						}
					}
				case 2:
					for j, s := range x.Subs {
						if strings.HasPrefix(s, "vpn-idle-timeout") || strings.HasPrefix(s, "banner") {
							x.Subs[j] = s + "9"
							break
						}
					}
				case 3:
					// a reference is missing on the device
					for j, s := range x.Subs {
						if strings.HasPrefix(s, "vpn-filter") {
							x.Subs = append(x.Subs[:j:j], x.Subs[j+1:]...)
							break
						}
					}
				}
				say("group-policy-attributes-changed")
			}
		case k < 70:
			if o, ok := g.pickRef(a.kindObjects("pool")); ok {
				a.blocksOf(o)[0].Head = "ip local pool " + o.name + " 10.3.6.0-10.3.6.63 mask 255.255.255.192"
				say("pool-changed")
			}
		case k < 78:
			// users
			users := a.kindObjects("user")
			switch r.Intn(3) {
			case 0:
				if o, ok := g.pickRef(users); ok {
					a.removeAll(o)
					say("user-missing-on-device")
				}
			case 1:
				u := fmt.Sprintf("gone%d@example.com", r.Intn(3))
				if !a.exists(ref{"user", u}) {
					a.add("username " + u + " nopassword")
					subs := []string{"service-type remote-access"}
					if gps := a.kindObjects("gp"); len(gps) > 0 && r.Chance(50) {
						subs = append(subs, "vpn-group-policy "+Pick(r, gps).name)
					}
					if r.Chance(50) {
						an := "vpn-filter-" + u + "-DRC-0"
						addACL(a, an, g.aclLines("filter", 1))
						subs = append(subs, "vpn-filter value "+an)
					}
					a.add("username "+u+" attributes", subs...)
					say("user-extra-on-device")
				}
			case 2:
				for _, x := range a.Blocks {
					if modeOf(x.words()) == "user-attr" && r.Chance(50) {
						if r.Chance(50) && len(x.Subs) > 0 {
							j := r.Intn(len(x.Subs))
							x.Subs = append(x.Subs[:j:j], x.Subs[j+1:]...)
						} else {
							x.Subs = append(x.Subs, "password-storage enable")
						}
						say("user-attributes-changed")
						break
					}
				}
			}
		case k < 86:
			// tunnel-groups
			var cands []*block
			for _, x := range a.Blocks {
				if strings.HasPrefix(modeOf(x.words()), "tg-") {
					cands = append(cands, x)
				}
			}
			if len(cands) > 0 {
				x := Pick(r, cands)
				switch r.Intn(4) {
				case 0:
					refd := false
					for _, s := range x.Subs {
						if subSlots(modeOf(x.words()), strings.Fields(s)) != nil {
							refd = true
						}
					}
					if !refd || r.Chance(30) {
						a.removeBlock(x)
						say("tunnel-group-section-missing")
					}
				case 1:
					x.Subs = append(x.Subs, "chain")
					say("tunnel-group-attribute-extra")
				case 2:
					for j, s := range x.Subs {
						if strings.HasPrefix(s, "trust-point") || strings.HasPrefix(s, "authentication") {
							x.Subs[j] = "trust-point TP9"
							say("tunnel-group-attribute-changed")
							break
						}
					}
				case 3:
					w := x.words()
					h := "tunnel-group " + w[1] + " webvpn-attributes"
					if a.findHead(h) == nil {
						a.insertAfterLast(&block{Head: h, Subs: []string{"authentication aaa"}}, func(y *block) bool { return y == x })
						say("tunnel-group-section-extra")
					}
				}
			}
		case k < 92:
			// certificate maps and their bindings
			cms := a.kindObjects("certmap")
			if o, ok := g.pickRef(cms); ok {
				switch r.Intn(4) {
				case 0:
					// other sequence numbers on the device (certificate map and rule)
					ns := fmt.Sprint(5 + r.Intn(30))
					for _, x := range a.blocksOf(o) {
						w := x.words()
						w[5] = ns
						x.Head = strings.Join(w, " ")
					}
					for _, x := range a.Blocks {
						w := x.words()
						kk, _ := headKind(w)
						if kk == "tgmap" && len(w) == 4 && w[1] == o.name {
							w[2] = ns // a rule names an entry of its certificate map by its index
							x.Head = strings.Join(w, " ")
						}
						if kk == "webvpn" {
							for j, s := range x.Subs {
								sw := strings.Fields(s)
								if len(sw) == 4 && sw[1] == o.name {
									sw[2] = ns
									x.Subs[j] = strings.Join(sw, " ")
								}
							}
						}
					}
					say("certmap-other-sequence-numbers")
				case 1:
					x := a.blocksOf(o)[0]
					has := false
					for j, s := range x.Subs {
						if strings.HasPrefix(s, "extended-key-usage") {
							has = true
							if r.Chance(50) {
								x.Subs = append(x.Subs[:j:j], x.Subs[j+1:]...)
							} else {
								x.Subs[j] = "extended-key-usage co 1.2.3.4"
							}
							break
						}
					}
					if !has {
						x.Subs = append(x.Subs, "extended-key-usage co clientauth")
					}
					say("certmap-key-usage-changed")
				case 2:
					for _, x := range a.Blocks {
						w := x.words()
						if kk, _ := headKind(w); kk == "tgmap" && len(w) == 4 && w[1] == o.name {
							a.removeBlock(x)
							say("tunnel-group-map-missing")
							break
						}
					}
				case 3:
					for _, x := range a.Blocks {
						if kk, _ := headKind(x.words()); kk == "webvpn" {
							if len(x.Subs) > 1 && r.Chance(60) {
								j := r.Intn(len(x.Subs))
								x.Subs = append(x.Subs[:j:j], x.Subs[j+1:]...)
								say("certificate-group-map-rule-missing")
							} else {
								a.removeBlock(x)
								say("webvpn-missing")
							}
							break
						}
					}
				}
			}
		case k < 95 && len(cmaps) > 0:
			m := Pick(r, cmaps)
			switch r.Intn(3) {
			case 0:
				a.rename(m, "other-"+m.name)
				say("crypto-map-other-name")
			case 1:
				for _, x := range a.Blocks {
					w := x.words()
					if kk, _ := headKind(w); kk == "cbind" && w[2] == m.name {
						a.removeBlock(x)
						say("crypto-map-unbound-on-device")
						break
					}
				}
			case 2:
				for _, o := range a.kindObjects("dynmap") {
					for _, s := range a.seqsOf(o) {
						a.setSeq(o, s, fmt.Sprint(10*(1+r.Intn(5))))
					}
					say("dynamic-map-other-sequence-number")
					break
				}
			}
		default:
			// generated objects an earlier run left behind
			switch r.Intn(6) {
			case 0:
				n := fmt.Sprintf("left-DRC-%d", r.Intn(3))
				if !a.exists(ref{"acl", n}) {
					addACL(a, n, g.aclLines("crypto", 1))
					say("leftover-acl")
				}
			case 1:
				n := fmt.Sprintf("Trans%d-DRC-%d", 1+r.Intn(3), 5+r.Intn(2))
				if !a.exists(ref{"ts", n}) {
					a.add("crypto ipsec ikev1 transform-set " + n + " " + Pick(r, tsContents))
					say("leftover-transform-set")
				}
			case 2:
				n := fmt.Sprintf("VPN-group-1-DRC-%d", 5+r.Intn(2))
				if !a.exists(ref{"gp", n}) {
					an := n + "-f-DRC-0"
					addACL(a, an, g.aclLines("filter", 1))
					a.add("group-policy " + n + " internal")
					a.add("group-policy "+n+" attributes", "vpn-filter value "+an, "vpn-idle-timeout 5")
					say("leftover-group-policy-with-acl")
				}
			case 3:
				n := fmt.Sprintf("pool1-DRC-%d", 5+r.Intn(2))
				if !a.exists(ref{"pool", n}) {
					a.add("ip local pool " + n + " 10.3.7.0-10.3.7.7 mask 255.255.255.248")
					say("leftover-pool")
				}
			case 4:
				n := fmt.Sprintf("VPN-tunnel-1-DRC-%d", 5+r.Intn(2))
				if !a.exists(ref{"tg", n}) {
					a.add("tunnel-group " + n + " type remote-access")
					a.add("tunnel-group "+n+" ipsec-attributes", "trust-point TP0")
					say("leftover-tunnel-group")
				}
			case 5:
				n := fmt.Sprintf("ca-map-1-DRC-%d", 5+r.Intn(2))
				if !a.exists(ref{"certmap", n}) {
					a.add("crypto ca certificate map "+n+" 10", "subject-name attr ea co @left.example.com")
					say("leftover-certificate-map")
				}
			}
		}
	}
	// `no sysopt connection permit-vpn`: on the device only (must be removed by the positive form) or missing there
	if x := a.findHead("no sysopt connection permit-vpn"); x != nil {
		if r.Chance(50) {
			a.removeBlock(x)
			say("sysopt-line-missing-on-device")
		}
	} else if r.Chance(10) {
		a.add("no sysopt connection permit-vpn")
		say("sysopt-line-on-device-only")
	}
	// map-values whose DN is a single word lose their quotes on the device; a RADIUS / TACACS+ server group of the administrator
	if r.Chance(40) {
		for _, x := range a.Blocks {
			if k, _ := headKind(x.words()); k == "ldapmap" {
				for j, sx := range x.Subs {
					if sw := strings.Fields(sx); len(sw) == 4 && sw[0] == "map-value" && strings.HasPrefix(sw[2], `"`) {
						sw[2] = strings.Trim(sw[2], `"`)
						x.Subs[j] = strings.Join(sw, " ")
						say("map-value-without-quotes")
					}
				}
			}
		}
	}
	if r.Chance(10) && !a.exists(ref{"aaa", "RAD"}) {
		proto := Pick(r, []string{"radius", "tacacs+"})
		a.add("aaa-server RAD protocol " + proto)
		a.add("aaa-server RAD (inside) host 10.2.7.1", "key *****")
		a.add("aaa-server RAD (inside) host 10.2.7.2", "key *****", "timeout 5")
		if !a.exists(ref{"tg", "MANUAL-RA"}) {
			a.add("tunnel-group MANUAL-RA type remote-access")
			a.add("tunnel-group MANUAL-RA general-attributes", "authentication-server-group RAD")
		}
		say("manual-aaa-server-" + proto)
	}
	// built-in objects partly defined on the device only (they are anchors with fixed names: compared, never renamed or cleared)
	if r.Chance(8) && a.findHead("tunnel-group DefaultRAGroup ipsec-attributes") == nil {
		a.add("tunnel-group DefaultRAGroup ipsec-attributes", "trust-point TP9")
		say("default-tunnel-group-section-on-device-only")
	}
	if r.Chance(8) && a.findHead("group-policy DfltGrpPolicy attributes") == nil {
		a.add("group-policy DfltGrpPolicy attributes", "vpn-idle-timeout 30")
		say("default-group-policy-attributes-on-device-only")
	}
	// ---- content outside Netspoc's scope
	if r.Chance(25) {
		// manually created tunnel-group -> generated group-policy -> generated ACL (two reference hops; nothing of it in the target)
		addACL(a, "vpnf-DRC-7", []string{"extended permit ip any4 host 10.7.7.7"})
		a.add("ip local pool mpool-DRC-7 10.7.7.0-10.7.7.7 mask 255.255.255.248")
		a.add("group-policy MGP-DRC-7 internal")
		a.add("group-policy MGP-DRC-7 attributes", "vpn-filter value vpnf-DRC-7", "address-pools value mpool-DRC-7")
		a.add("tunnel-group MANUALTG type remote-access")
		a.add("tunnel-group MANUALTG general-attributes", "default-group-policy MGP-DRC-7")
		say("manual-tunnel-group-chain")
	}
	if r.Chance(15) {
		a.add("group-policy MANUALGP internal")
		a.add("group-policy MANUALGP attributes", "banner value hands off")
		say("manual-group-policy")
	}
	if unkIntf {
		// interface unknown to Netspoc with its own crypto map (transform-set possibly shared with managed entries)
		addACL(a, "crypto-mgmt-1-DRC-0", []string{"extended permit ip 10.50.0.0 255.255.0.0 10.60.0.0 255.255.0.0"})
		tsn := "TransM"
		if ts := a.kindObjects("ts"); len(ts) > 0 && r.Chance(50) {
			tsn = Pick(r, ts).name
		} else {
			a.add("crypto ipsec ikev1 transform-set TransM esp-aes-256 esp-md5-hmac")
		}
		a.add("crypto map crypto-mgmt 1 match address crypto-mgmt-1-DRC-0")
		a.add("crypto map crypto-mgmt 1 set peer 10.0.8.8")
		a.add("crypto map crypto-mgmt 1 set ikev1 transform-set " + tsn)
		a.add("crypto map crypto-mgmt interface mgmt")
		say("unknown-interface-with-crypto-map")
		if r.Chance(60) {
			// the same interface also carries hand-made access-groups (ACL with an object-group): both kinds of binding are the
			// administrator's, in whatever order they stand in the configuration
			a.add("object-group network g-mgmt", "network-object host 10.50.0.10", "network-object 10.50.1.0 255.255.255.0")
			acl := []*block{{Head: "access-list mgmt_in extended permit tcp any4 object-group g-mgmt eq 22"},
				{Head: "access-list mgmt_in extended deny ip any4 any4"}}
			bind := []*block{{Head: "access-group mgmt_in in interface mgmt"}}
			if r.Chance(40) {
				acl = append(acl, &block{Head: "access-list mgmt_out extended permit ip object-group g-mgmt any4"})
				bind = append(bind, &block{Head: "access-group mgmt_out out interface mgmt"})
			}
			a.Blocks = append(a.Blocks, acl...)
			if r.Chance(50) {
				a.Blocks = append(a.Blocks, bind...)
			} else {
				// before the crypto map binding
				for i, x := range a.Blocks {
					if x.Head == "crypto map crypto-mgmt interface mgmt" {
						a.Blocks = append(a.Blocks[:i:i], append(bind, a.Blocks[i:]...)...)
						break
					}
				}
			}
			say("unknown-interface-with-access-group-and-crypto-map")
		}
	}
	if r.Chance(12) {
		var w *block
		for _, x := range a.Blocks {
			if kk, _ := headKind(x.words()); kk == "webvpn" {
				w = x
			}
		}
		if w == nil {
			w = a.add("webvpn")
		}
		w.Subs = append([]string{"enable outside"}, w.Subs...)
		say("webvpn-unmodelled-sub")
	}
	sort.Strings(note)
	return a, note
}

// dropLdapMap: the target keeps its aaa-servers but gives up the ldap-attribute-map of one of them — the reference inside the
// host line, the map and what only the map reached leave the TARGET; on the device the map stays, and the group-policies only it
// reaches get hand-made names (no tag).
func (g *gen) dropLdapMap(a, b *vdev) []string {
	var host *block
	for _, x := range b.Blocks {
		if k, _ := headKind(x.words()); k == "aaa" && contains(x.words(), "host") {
			for _, s := range x.Subs {
				if strings.HasPrefix(s, "ldap-attribute-map ") {
					host = x
				}
			}
		}
	}
	if host == nil {
		return nil
	}
	lm := ""
	for j, s := range host.Subs {
		if strings.HasPrefix(s, "ldap-attribute-map ") {
			lm = strings.Fields(s)[1]
			host.Subs = append(host.Subs[:j:j], host.Subs[j+1:]...)
			break
		}
	}
	if b.referencedBy(ref{"ldapmap", lm}) != "" {
		return nil // another server of the target still uses it
	}
	b.removeAll(ref{"ldapmap", lm})
	// what nothing references any more leaves the target; the device's counterparts become hand-made objects
	for changed := true; changed; {
		changed = false
		for _, o := range b.objects() {
			if (o.kind == "gp" || o.kind == "acl" || o.kind == "pool") && b.referencedBy(o) == "" {
				b.removeAll(o)
				changed = true
				for _, da := range a.objects() {
					if da.kind == o.kind && baseName(strings.TrimPrefix(da.name, "old-")) == o.name {
						n := "manual-" + o.name
						if !a.exists(ref{o.kind, n}) {
							a.rename(da, n)
						}
					}
				}
			}
		}
	}
	return []string{"target-gives-up-ldap-attribute-map"}
}

func (g *gen) freshSeqTmp(d *vdev, r ref, lo, hi int) string {
	for i := 0; i < 80; i++ {
		s := fmt.Sprint(lo + g.r.Intn(hi-lo+1))
		if len(d.entry(r, s)) == 0 && !g.tmpUsed(d, r, s) {
			return s
		}
	}
	g.n++
	return fmt.Sprint(hi + 10 + g.n)
}

func (g *gen) tmpUsed(d *vdev, r ref, s string) bool {
	for _, b := range d.Blocks {
		w := b.words()
		if len(w) > 3 && w[0] == "crypto" && w[2] == r.name && w[3] == "tmp"+s {
			return true
		}
	}
	return false
}
