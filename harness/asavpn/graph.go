package main

// Fragment G (named object graphs): usernames and address-named tunnel-groups as anchors, group-policies, access-lists that are
// kept or replaced as a whole, ip local pools, aaa-servers.  Generator of such pairs, structural encoding for the Lean model
// NA.Vpn.G (driver op G) and the tie: the model's change list must equal the lines the real drc prints.

import (
	"fmt"
	"strings"

	. "verifharness/vhlib"
)

func graphKind(k string) bool {
	switch k {
	case "acl", "gp", "pool", "tg", "user", "aaa":
		return true
	}
	return false
}

// inGraphFragment: unmodelled lines, interfaces and objects of the kinds of fragment G only.
func inGraphFragment(d *vdev) bool {
	for _, b := range d.Blocks {
		w := b.words()
		k, _ := headKind(w)
		switch {
		case k == "" || k == "interface":
		case k == "aaa":
			for _, s := range b.Subs {
				if strings.HasPrefix(s, "ldap-attribute-map") {
					return false
				}
			}
		case graphKind(k):
			if _, n := headKind(w); k == "user" && d.localUser(n) {
				return false // local accounts are not in the model
			}
			if _, n := headKind(w); defaultTG[n] != "" || n == defaultGP {
				return false // built-in objects are anchors of their own
			}
			if k == "acl" && len(headSlots(w)) > 1 {
				return false // object-groups
			}
		default:
			return false
		}
	}
	return true
}

func encodeGraph(d *vdev) string {
	var objs []string
	for _, o := range d.objects() {
		if !graphKind(o.kind) {
			continue
		}
		var lines, secs []string
		for _, b := range d.blocksOf(o) {
			w := b.words()
			switch o.kind {
			case "acl":
				lines = append(lines, strings.Join(w[2:], " "))
			case "pool":
				lines = append(lines, strings.Join(w[4:], " "))
			case "aaa":
			default:
				mode := modeOf(w)
				var subs []string
				for _, s := range b.modelSubs() {
					sw := strings.Fields(s)
					key, rk, rn := strings.Join(sw, " "), "", ""
					if sl := subSlots(mode, sw); len(sl) == 1 {
						rk, rn = sl[0].kind, sw[sl[0].idx]
						kw := append([]string{}, sw...)
						kw[sl[0].idx] = "$REF"
						key = strings.Join(kw, " ")
					}
					subs = append(subs, strings.Join([]string{key, strings.Join(sw, " "), rk, rn}, "\x07"))
				}
				secs = append(secs, strings.Join([]string{strings.Join(w[2:], " "), flag(mode != ""), strings.Join(subs, "\x06")}, "\x05"))
			}
		}
		anchor := o.kind == "user" || (o.kind == "tg" && isIPName(o.name))
		objs = append(objs, strings.Join([]string{o.kind, o.name, flag(strings.Contains(o.name, "-DRC-")), flag(anchor),
			strings.Join(lines, "\x03"), strings.Join(secs, "\x04")}, "\x02"))
	}
	return strings.Join(objs, "\x01")
}

type graphAns struct {
	acc, conv, frame bool
	second          string
}

// checkGraph: the model's change list against the real one; the answer carries what the Lean device makes of it.
func (l *leanTie) checkGraph(c cfgCase, out string, status int) *graphAns {
	if !inGraphFragment(c.dev) || !inGraphFragment(c.spoc) {
		return nil
	}
	line := "G\ta=" + encodeGraph(c.dev) + "\tb=" + encodeGraph(c.spoc)
	ans := l.drv.Ask(line)
	if ans == "outside" {
		l.res.Count("lean:graph-outside-fragment")
		return nil
	}
	l.res.TracesVsImpl++
	l.res.Count("lean:graph-compared")
	in := map[string]any{"vpn_device": c.Dev, "vpn_netspoc": c.Spoc}
	if status != 0 {
		if ans != "abort" {
			l.res.Disagree("vpn-graph", in, "abort", ans)
		}
		return nil
	}
	f := strings.Split(ans, "\t")
	impl := strings.Join(splitLines(out), "|")
	if len(f) != 4 || f[0] != "ok" || f[1] != impl {
		l.res.Disagree("vpn-graph", in, "ok\t"+impl, ans)
		return nil
	}
	if strings.Contains(f[2], "+hyp") {
		l.res.Count("lean:graph-c07-hypotheses-hold")
	}
	if strings.Contains(f[2], "+wf\t") || strings.Contains(f[2], "+wf+") || strings.HasSuffix(f[2], "+wf") {
		l.res.Count("lean:graph-c08-hypotheses-hold")
	}
	// graph_fuel_suffices: references respect the kind rank
	if strings.Contains(f[2], "+ranked") {
		l.res.Count("lean:graph-ranked (fuel suffices)")
	}
	// graph_unchanged_only_if_equivalent: its hypotheses on the pair, for the cases with an empty script
	if strings.Contains(f[2], "+wf2") {
		l.res.Count("lean:graph-wf2-holds")
		if impl == "" {
			l.res.Count("lean:graph-unchanged-theorem-applies")
		}
	}
	// graph_converges_partial: second compare of the model empty and the result well-formed; its conclusion evaluated as well
	if strings.Contains(f[2], "+stable") {
		l.res.Count("lean:graph-converges-hypotheses-hold")
		if !strings.Contains(f[2], "+eqv") {
			l.res.Disagree("vpn-graph-theorem", in, "graph_converges_partial: hypotheses hold", "conclusion (eqv of every anchor) evaluates to false")
		}
	}
	if strings.Contains(f[2], "+eqv") != strings.Contains(f[2], "+conv") && strings.HasPrefix(f[2], "acc") {
		l.res.Count("lean:graph-eqv-and-view-differ")
	}
	return &graphAns{acc: strings.HasPrefix(f[2], "acc"), conv: strings.Contains(f[2], "+conv"), frame: strings.Contains(f[2], "+frame"), second: f[3]}
}

// ---------------------------------------------------------------- generator

func (g *gen) genGraph() cfgCase {
	r := g.r
	b := &vdev{}
	var note []string
	say := func(s string) { note = append(note, s) }
	plainGP := []string{"banner value Welcome0", "vpn-idle-timeout 60", "vpn-idle-timeout 120", "vpn-session-timeout 40", "split-tunnel-policy tunnelall", "pfs enable"}
	plainUser := []string{"service-type remote-access", "vpn-framed-ip-address 10.3.4.1 255.255.255.0", "vpn-framed-ip-address 10.3.4.2 255.255.255.0", "password-storage enable", "vpn-simultaneous-logins 4"}
	plainIpsec := []string{"peer-id-validate nocheck", "trust-point TP0", "trust-point TP1", "ikev2 remote-authentication certificate", "chain"}
	pick := func(l []string, n int) []string {
		c := append([]string{}, l...)
		Shuffle(r, c)
		var out []string
		seen := map[string]bool{}
		for _, x := range c {
			k := strings.Fields(x)[0]
			if !seen[k] && len(out) < n {
				seen[k] = true
				out = append(out, x)
			}
		}
		return out
	}
	mkGP := func(name string) {
		if b.exists(ref{"gp", name}) {
			return
		}
		b.add("group-policy " + name + " internal")
		subs := pick(plainGP, r.Intn(4))
		if r.Chance(70) {
			an := "vpn-filter-" + name
			addACL(b, an, g.aclLines("filter", 1+r.Intn(3)))
			subs = append(subs, "vpn-filter value "+an)
		}
		if r.Chance(50) {
			pn := fmt.Sprintf("pool%d", 1+r.Intn(3))
			if !b.exists(ref{"pool", pn}) {
				b.add(fmt.Sprintf("ip local pool %s 10.3.%s.0-10.3.%s.63 mask 255.255.255.192", pn, pn[4:], pn[4:]))
			}
			subs = append(subs, "address-pools value "+pn)
		}
		if r.Chance(30) {
			an := "split-" + name
			addACL(b, an, g.aclLines("split", 1+r.Intn(2)))
			subs = append(subs, "split-tunnel-network-list value "+an)
		}
		Shuffle(r, subs)
		if len(subs) > 0 || r.Chance(50) {
			b.add("group-policy "+name+" attributes", subs...)
		}
	}
	needAAA := false
	for i, n := 0, r.Intn(4); i < n; i++ {
		ip := fmt.Sprintf("10.0.0.%d", 1+r.Intn(6))
		if b.exists(ref{"tg", ip}) {
			continue
		}
		b.add("tunnel-group " + ip + " type ipsec-l2l")
		var ga []string
		if r.Chance(50) {
			gp := fmt.Sprintf("GP-l2l-%d", 1+r.Intn(3))
			mkGP(gp)
			ga = append(ga, "default-group-policy "+gp)
		}
		if r.Chance(25) {
			needAAA = true
			ga = append(ga, "authentication-server-group "+Pick(r, []string{"AAA1", "AAA2"}))
		}
		if len(ga) > 0 || r.Chance(20) {
			b.add("tunnel-group "+ip+" general-attributes", ga...)
		}
		if r.Chance(70) {
			b.add("tunnel-group "+ip+" ipsec-attributes", pick(plainIpsec, 1+r.Intn(3))...)
		}
	}
	for i, n := 0, r.Intn(5); i < n; i++ {
		u := fmt.Sprintf("user%d@example.com", 1+r.Intn(6))
		if b.exists(ref{"user", u}) {
			continue
		}
		b.add("username " + u + " nopassword")
		subs := pick(plainUser, r.Intn(4))
		if r.Chance(60) {
			an := "vpn-filter-" + u
			addACL(b, an, g.aclLines("filter", 1+r.Intn(2)))
			subs = append(subs, "vpn-filter value "+an)
		}
		if r.Chance(65) {
			gp := "VPN-users"
			if r.Chance(40) {
				gp = fmt.Sprintf("VPN-group-%d", 1+r.Intn(2))
			}
			mkGP(gp)
			subs = append(subs, "vpn-group-policy "+gp)
		}
		Shuffle(r, subs)
		if len(subs) > 0 || r.Chance(50) {
			b.add("username "+u+" attributes", subs...)
		}
	}
	if needAAA {
		for _, n := range []string{"AAA1", "AAA2"} {
			if b.referencedBy(ref{"aaa", n}) != "" {
				b.add("aaa-server " + n + " protocol ldap")
				b.add("aaa-server " + n + " host X")
			}
		}
	}
	// ---- device
	a := &vdev{}
	a.add("hostname fw1")
	for i, n := range []string{"inside", "outside"} {
		a.add(fmt.Sprintf("interface Ethernet0/%d", i), "nameif "+n)
	}
	if r.Chance(7) {
		say("empty-device")
		// aaa-servers are never created: with an empty device the run must abort if one is needed
		return cfgCase{Name: "graph", Dev: a.print(), Spoc: b.print(), Note: note, dev: a, spoc: b}
	}
	for _, x := range b.clone().Blocks {
		a.Blocks = append(a.Blocks, x)
	}
	for _, x := range a.Blocks {
		w := x.words()
		if k, _ := headKind(w); k == "aaa" && contains(w, "host") {
			x.Head = "aaa-server " + w[1] + " (inside) host 10.2.8.16"
			x.Subs = []string{"ldap-base-dn DC=example,DC=com"}
		}
	}
	for _, o := range a.objects() {
		if fixedName(o) {
			continue
		}
		switch k := r.Intn(100); {
		case k < 65:
			a.rename(o, fmt.Sprintf("%s-DRC-%d", o.name, r.Intn(2)))
		case k < 80:
			a.rename(o, "old-"+o.name)
		}
	}
	secBlocks := func(mode string) []*block {
		var out []*block
		for _, x := range a.Blocks {
			if m := modeOf(x.words()); m == mode || (mode == "tg" && strings.HasPrefix(m, "tg-")) {
				out = append(out, x)
			}
		}
		return out
	}
	editPlain := func(x *block, pool []string) {
		mode := modeOf(x.words())
		switch r.Intn(3) {
		case 0:
			for j, s := range x.Subs {
				if subSlots(mode, strings.Fields(s)) == nil && r.Chance(60) {
					x.Subs = append(x.Subs[:j:j], x.Subs[j+1:]...)
					return
				}
			}
		case 1:
			n := Pick(r, pool)
			k := strings.Fields(n)[0]
			for j, s := range x.Subs {
				if strings.Fields(s)[0] == k {
					x.Subs[j] = n
					return
				}
			}
			x.Subs = append(x.Subs, n)
		case 2:
			for j, s := range x.Subs {
				if subSlots(mode, strings.Fields(s)) != nil && r.Chance(50) {
					x.Subs = append(x.Subs[:j:j], x.Subs[j+1:]...) // a reference is missing on the device
					return
				}
			}
		}
	}
	for i, nm := 0, r.Intn(7); i < nm; i++ {
		switch k := r.Intn(100); {
		case k < 14:
			if l := secBlocks("gp-attr"); len(l) > 0 {
				editPlain(Pick(r, l), plainGP)
				say("group-policy-attributes-changed")
			}
		case k < 26:
			if l := secBlocks("user-attr"); len(l) > 0 {
				editPlain(Pick(r, l), plainUser)
				say("user-attributes-changed")
			}
		case k < 36:
			if l := secBlocks("tg"); len(l) > 0 {
				x := Pick(r, l)
				if r.Chance(30) {
					refd := false
					for _, s := range x.Subs {
						if subSlots(modeOf(x.words()), strings.Fields(s)) != nil {
							refd = true
						}
					}
					if !refd || r.Chance(50) {
						a.removeBlock(x)
						say("tunnel-group-section-missing")
					}
				} else {
					editPlain(x, plainIpsec)
					say("tunnel-group-attributes-changed")
				}
			}
		case k < 50:
			var acls []ref
			for _, o := range a.kindObjects("acl") {
				if a.referencedBy(o) != "" {
					acls = append(acls, o)
				}
			}
			if o, ok := g.pickRef(acls); ok {
				g.editACL(a, o, true)
				say("acl-replaced-as-a-whole")
			}
		case k < 58:
			if o, ok := g.pickRef(a.kindObjects("pool")); ok {
				switch r.Intn(2) {
				case 0:
					a.blocksOf(o)[0].Head = "ip local pool " + o.name + " 10.3.9.0-10.3.9.63 mask 255.255.255.192"
					say("pool-changed")
				case 1:
					w := a.blocksOf(o)[0].words()
					n := fmt.Sprintf("%s-DRC-%d", Pick(r, []string{"Aaa", "pool1", "Zzz"}), 3+r.Intn(3))
					if !a.exists(ref{"pool", n}) {
						a.add("ip local pool " + n + " " + strings.Join(w[4:], " "))
						say("pool-twin-on-device")
					}
				}
			}
		case k < 66:
			users := a.kindObjects("user")
			if r.Chance(50) {
				if o, ok := g.pickRef(users); ok {
					a.removeAll(o)
					say("user-missing-on-device")
				}
			} else {
				u := fmt.Sprintf("gone%d@example.com", r.Intn(3))
				if !a.exists(ref{"user", u}) {
					a.add("username " + u + " nopassword")
					subs := []string{"service-type remote-access"}
					if gps := a.kindObjects("gp"); len(gps) > 0 && r.Chance(60) {
						subs = append(subs, "vpn-group-policy "+Pick(r, gps).name)
					}
					a.add("username "+u+" attributes", subs...)
					say("user-extra-on-device")
				}
			}
		case k < 72:
			tgs := a.kindObjects("tg")
			if r.Chance(50) {
				if o, ok := g.pickRef(tgs); ok {
					a.removeAll(o)
					say("tunnel-group-missing-on-device")
				}
			} else {
				ip := fmt.Sprintf("10.0.9.%d", 1+r.Intn(3))
				if !a.exists(ref{"tg", ip}) {
					a.add("tunnel-group " + ip + " type ipsec-l2l")
					a.add("tunnel-group "+ip+" ipsec-attributes", "peer-id-validate nocheck")
					say("tunnel-group-extra-on-device")
				}
			}
		case k < 82:
			// sharing differs: two referrers of the device use ONE group-policy / access-list where the target has two, or the other way round
			var refBlocks []*block
			for _, x := range a.Blocks {
				m := modeOf(x.words())
				for _, s := range x.Subs {
					if sl := subSlots(m, strings.Fields(s)); sl != nil && (sl[0].kind == "gp" || sl[0].kind == "acl") {
						refBlocks = append(refBlocks, x)
						break
					}
				}
			}
			if len(refBlocks) >= 2 {
				x, y := Pick(r, refBlocks), Pick(r, refBlocks)
				mx, my := modeOf(x.words()), modeOf(y.words())
				for _, sx := range x.Subs {
					wx := strings.Fields(sx)
					slx := subSlots(mx, wx)
					if slx == nil {
						continue
					}
					for j, sy := range y.Subs {
						wy := strings.Fields(sy)
						sly := subSlots(my, wy)
						if sly != nil && x != y && sly[0].kind == slx[0].kind && wx[0] == wy[0] && mx == my {
							wy[sly[0].idx] = wx[slx[0].idx]
							y.Subs[j] = strings.Join(wy, " ")
							say("device-shares-one-object")
						}
					}
				}
			}
		case k < 90:
			switch r.Intn(4) {
			case 0:
				n := fmt.Sprintf("left-DRC-%d", r.Intn(3))
				if !a.exists(ref{"acl", n}) {
					addACL(a, n, g.aclLines("filter", 1))
					say("leftover-acl")
				}
			case 1:
				n := fmt.Sprintf("VPN-group-1-DRC-%d", 5+r.Intn(2))
				if !a.exists(ref{"gp", n}) {
					an := n + "-f-DRC-0"
					addACL(a, an, g.aclLines("filter", 1))
					a.add("group-policy " + n + " internal")
					a.add("group-policy "+n+" attributes", "vpn-filter value "+an, "vpn-idle-timeout 5")
					say("leftover-group-policy-with-acl")
				}
			case 2:
				n := fmt.Sprintf("pool1-DRC-%d", 5+r.Intn(2))
				if !a.exists(ref{"pool", n}) {
					a.add("ip local pool " + n + " 10.3.7.0-10.3.7.7 mask 255.255.255.248")
					say("leftover-pool")
				}
			case 3:
				n := fmt.Sprintf("VPN-tunnel-1-DRC-%d", 5+r.Intn(2))
				if !a.exists(ref{"tg", n}) {
					a.add("tunnel-group " + n + " type remote-access")
					a.add("tunnel-group "+n+" ipsec-attributes", "trust-point TP0")
					say("leftover-tunnel-group")
				}
			}
		case k < 96:
			// the device references something the target does not: an untagged / tagged object of its own behind a user, group-policy or tunnel-group
			tag := Pick(r, []string{"old-extra", "extra-DRC-0", "extra"})
			switch r.Intn(3) {
			case 0:
				if l := secBlocks("user-attr"); len(l) > 0 {
					x := Pick(r, l)
					has := false
					for _, s := range x.Subs {
						if strings.HasPrefix(s, "vpn-group-policy ") {
							has = true
						}
					}
					gn, an := "gp-"+tag, "acl-"+tag
					if !has && !a.exists(ref{"gp", gn}) && !a.exists(ref{"acl", an}) {
						addACL(a, an, g.aclLines("filter", 1))
						a.add("group-policy " + gn + " internal")
						a.add("group-policy "+gn+" attributes", "vpn-filter value "+an, "vpn-idle-timeout 7")
						x.Subs = append(x.Subs, "vpn-group-policy "+gn)
						say("extra-reference-on-device")
					}
				}
			case 1:
				if l := secBlocks("gp-attr"); len(l) > 0 {
					x := Pick(r, l)
					has := false
					for _, s := range x.Subs {
						if strings.HasPrefix(s, "vpn-filter ") {
							has = true
						}
					}
					an := "filter-" + tag
					if !has && !a.exists(ref{"acl", an}) {
						addACL(a, an, g.aclLines("filter", 2))
						x.Subs = append(x.Subs, "vpn-filter value "+an)
						say("extra-reference-on-device")
					}
				}
			case 2:
				u := "gone9@example.com"
				gn, an := "gp-user-"+tag, "acl-user-"+tag
				if !a.exists(ref{"user", u}) && !a.exists(ref{"gp", gn}) && !a.exists(ref{"acl", an}) {
					addACL(a, an, g.aclLines("filter", 1))
					a.add("ip local pool pool-" + tag + " 10.3.8.0-10.3.8.7 mask 255.255.255.248")
					a.add("group-policy " + gn + " internal")
					a.add("group-policy "+gn+" attributes", "address-pools value pool-"+tag, "vpn-filter value "+an)
					a.add("username " + u + " nopassword")
					a.add("username "+u+" attributes", "vpn-group-policy "+gn, "service-type remote-access")
					say("extra-user-with-own-objects")
				}
			}
		default:
			if o, ok := g.pickRef(a.kindObjects("aaa")); ok && r.Chance(40) {
				a.removeAll(o)
				for _, x := range a.Blocks {
					for j := 0; j < len(x.Subs); j++ {
						if x.Subs[j] == "authentication-server-group "+o.name {
							x.Subs = append(x.Subs[:j:j], x.Subs[j+1:]...)
							j--
						}
					}
				}
				say("aaa-server-missing-on-device")
			}
		}
	}
	if r.Chance(25) {
		addACL(a, "vpnf-DRC-7", []string{"extended permit ip any4 host 10.7.7.7"})
		a.add("ip local pool mpool-DRC-7 10.7.7.0-10.7.7.7 mask 255.255.255.248")
		a.add("group-policy MGP-DRC-7 internal")
		a.add("group-policy MGP-DRC-7 attributes", "vpn-filter value vpnf-DRC-7", "address-pools value mpool-DRC-7")
		a.add("tunnel-group MANUALTG type remote-access")
		a.add("tunnel-group MANUALTG general-attributes", "default-group-policy MGP-DRC-7")
		say("manual-tunnel-group-chain")
	}
	if r.Chance(15) {
		a.add("group-policy MANUALGP internal")
		a.add("group-policy MANUALGP attributes", "banner value hands off")
		say("manual-group-policy")
	}
	return cfgCase{Name: "graph", Dev: a.print(), Spoc: b.print(), Note: note, dev: a, spoc: b}
}
