package main

// Configuration-level oracle for the ASA backend on the VPN fragment: crypto map entries (static and dynamic),
// crypto map interface bindings, ikev1 transform-sets / ikev2 proposals, crypto dynamic-maps, tunnel-groups,
// group-policies, ip local pools, usernames, crypto ca certificate maps, tunnel-group-map, webvpn
// certificate-group-map, together with the ACLs they reference and content outside Netspoc's scope.
//
// Serves C01 (convergence, second compare empty, unchanged only if equivalent), C07 (unmanaged content untouched),
// C08 (every command accepted by the strict device), C10 (resume from every cut).
// Real code: drc.Main in-process (compare-files mode).  Specification side: dev.go.
// Correspondence with the Lean model of matchCryptoMap / makeEqual / addCmds / deleteUnused on the
// crypto-map-only sub-fragment: lean.go (driver nadrv-c10).

import (
	"fmt"
	"os"
	"path/filepath"
	"sort"
	"strings"

	"github.com/hknutzen/Netspoc-Approve/go/pkg/drc"

	. "verifharness/vhlib"
)

func main() {
	Main(map[string]PropFunc{"C01": run, "C07": run, "C08": run, "C10": run, "C02": runIOS})
}

// The JSON names differ from those of harness/asacfg and harness/f1 on purpose: `./check Cxx --replay` hands a replay
// file to every harness of the property, and a VPN case must be an empty case for the others (and vice versa).
type cfgCase struct {
	Dev  string   `json:"vpn_device"`
	Spoc string   `json:"vpn_netspoc"`
	Note []string `json:"mutations"`
	Name string   `json:"name,omitempty"`
	dev  *vdev
	spoc *vdev
}

var workDir string
var caseNo int

func runDrc(dev, spoc string) (stdout, stderr string, status int, pan string) {
	caseNo++
	d := filepath.Join(workDir, fmt.Sprintf("c%d", caseNo%64))
	os.RemoveAll(d)
	WriteFiles(d, map[string]string{"dev": dev, "spoc": spoc, "spoc.info": `{"model":"ASA"}`})
	old := os.Args
	os.Args = []string{"drc", "-q", filepath.Join(d, "dev"), filepath.Join(d, "spoc")}
	stdout, stderr, status, pan = Captured(drc.Main)
	os.Args = old
	return
}

// reasonOf classifies a refusal of the strict device (root cause class of a finding).
func reasonOf(msg string) string {
	switch {
	case strings.Contains(msg, "outside 1..65535"):
		return "sequence_number_out_of_range"
	case strings.Contains(msg, "is occupied by"):
		return "sequence_number_occupied_by_other_entry"
	case strings.Contains(msg, "aaa-server definitions"):
		return "aaa_server_touched"
	case strings.Contains(msg, "typed in mode"):
		return "toplevel_webvpn_typed_inside_attributes_mode"
	case strings.Contains(msg, "last line of access-list"):
		return "last_line_of_referenced_acl_deleted"
	case strings.Contains(msg, "last line of crypto"):
		return "referenced_crypto_map_emptied"
	case strings.Contains(msg, "no such entry"):
		return "rule_names_missing_entry_of_certificate_map"
	case strings.Contains(msg, "certmap") && strings.Contains(msg, "still referenced"):
		return "certificate_map_cleared_while_a_rule_still_names_it"
	case strings.Contains(msg, "still referenced"):
		return "referenced_object_deleted"
	case strings.Contains(msg, "which does not exist"), strings.Contains(msg, "does not exist:"), strings.Contains(msg, "access-list") && strings.Contains(msg, "does not exist"):
		return "missing_referenced_object"
	case strings.Contains(msg, "sub-command outside"):
		return "sub_command_outside_mode"
	case strings.Contains(msg, "exit outside"):
		return "exit_outside_mode"
	case strings.Contains(msg, "is not there"), strings.Contains(msg, "to remove does not exist"), strings.Contains(msg, "to clear does not exist"):
		return "removed_line_not_present"
	case strings.Contains(msg, "exists already"), strings.Contains(msg, "already contains"), strings.Contains(msg, "already in"):
		return "duplicate"
	case strings.Contains(msg, "exists with type"), strings.Contains(msg, "type of built-in"):
		return "tunnel_group_type_changed_in_place"
	case strings.Contains(msg, "line ") && strings.Contains(msg, " of "):
		return "wrong_line_number"
	case strings.Contains(msg, "outside the modelled fragment"):
		return "unmodelled_command"
	}
	return "other"
}

func drcReason(stderr string) string {
	switch {
	case strings.Contains(stderr, "Missing peer or dynamic"):
		return "crypto_map_entry_without_peer"
	case strings.Contains(stderr, "references unknown"):
		return "dangling_reference"
	case strings.Contains(stderr, "must be transferred manually"):
		return "manual_transfer_required"
	}
	return "other"
}

// unmanagedSet: the objects of the initial device that are outside Netspoc's scope, and those of them that
// are reachable from a managed anchor as well (shared).
func unmanagedSet(a, b *vdev, managed map[string]bool) (u map[ref]bool, shared []ref) {
	roots := a.anchorRoots(managed)
	for _, o := range b.objects() {
		if fixedName(o) {
			roots = append(roots, o)
		}
	}
	m := a.closure(roots)
	var u0 []ref
	for _, o := range a.objects() {
		if !m[o] && !strings.Contains(o.name, "-DRC-") {
			u0 = append(u0, o)
		}
	}
	for _, x := range a.Blocks {
		w := x.words()
		switch k, _ := headKind(w); k {
		case "cbind":
			if !managed[w[4]] {
				u0 = append(u0, x.refs()...)
			}
		case "access-group":
			if len(w) == 5 && !managed[w[4]] {
				u0 = append(u0, x.refs()...)
			}
		}
	}
	u = a.closure(u0)
	for o := range u {
		if m[o] {
			shared = append(shared, o)
		}
	}
	sort.Slice(shared, func(i, j int) bool { return shared[i].kind+shared[i].name < shared[j].kind+shared[j].name })
	return
}

// dupPeerInTarget: some crypto map of the target has two entries with the same peer.
func dupPeerInTarget(b *vdev) bool {
	for _, m := range b.kindObjects("cmap") {
		seen := map[string]bool{}
		for _, x := range b.blocksOf(m) {
			w := x.words()
			if k := cryptoAttrKey(w); k == "set peer" || k == "ipsec-isakmp dynamic" {
				p := strings.Join(w[4:], " ")
				if seen[p] {
					return true
				}
				seen[p] = true
			}
		}
	}
	return false
}

// mapSharedWithUnknownIntf: a crypto map of the device is bound to an interface unknown to Netspoc and is also
// bound to a managed interface or carries the name of a crypto map of the target.
func mapSharedWithUnknownIntf(a, b *vdev, managed map[string]bool) bool {
	m, u := map[string]bool{}, map[string]bool{}
	for _, x := range a.Blocks {
		w := x.words()
		if k, _ := headKind(w); k == "cbind" {
			if managed[w[4]] {
				m[w[2]] = true
			} else {
				u[w[2]] = true
			}
		}
	}
	for n := range u {
		if m[n] || b.exists(ref{"cmap", n}) {
			return true
		}
	}
	return false
}

// sharedMapNames: crypto maps of the device bound to an interface unknown to Netspoc AND to a managed interface (or named by the target).
func sharedMapNames(a, b *vdev, managed map[string]bool) map[string]bool {
	m, u := map[string]bool{}, map[string]bool{}
	for _, x := range a.Blocks {
		w := x.words()
		if k, _ := headKind(w); k == "cbind" {
			if managed[w[4]] {
				m[w[2]] = true
			} else {
				u[w[2]] = true
			}
		}
	}
	out := map[string]bool{}
	for n := range u {
		if m[n] || b.exists(ref{"cmap", n}) {
			out[n] = true
		}
	}
	return out
}

// dupPeerMaps: crypto maps of the target with two entries for the same peer.
func dupPeerMaps(b *vdev) map[string]bool {
	out := map[string]bool{}
	for _, m := range b.kindObjects("cmap") {
		seen := map[string]bool{}
		for _, x := range b.blocksOf(m) {
			w := x.words()
			if k := cryptoAttrKey(w); k == "set peer" || k == "ipsec-isakmp dynamic" {
				p := strings.Join(w[4:], " ")
				if seen[p] {
					out[m.name] = true
				}
				seen[p] = true
			}
		}
	}
	return out
}

// culprits: which object a failure is about. Every attribute is computed from the INPUT (the two configurations) and from the
// place of the failure (the rejected command, the commands of a further script, the lines in which two views differ) —
// never from a case-wide flag.
type culprits struct {
	shared, dup map[string]bool   // crypto map names (input)
	bindOf      map[string]string // interface -> crypto map bound to it (device and target)
	devBind     map[string]string // interface -> crypto map of the device
	tgtBind     map[string]string // interface -> crypto map of the target
}

func (cu *culprits) ofMap(name string) string {
	switch {
	case cu.shared[name]:
		return "crypto_map_shared_with_unknown_interface"
	case cu.dup[name]:
		return "crypto_map_with_duplicate_peer_in_target"
	}
	// the same binding under the other side's name: the device's map bound to the interface of such a target map, the target's
	// map bound to the interface of a shared device map
	for intf, dn := range cu.devBind {
		if dn == name && cu.dup[cu.tgtBind[intf]] {
			return "crypto_map_with_duplicate_peer_in_target"
		}
		if cu.tgtBind[intf] == name && cu.shared[dn] {
			return "crypto_map_shared_with_unknown_interface"
		}
	}
	return "other"
}

// ofCmds: every command is `[no ]crypto map M …` for maps of ONE culprit class (object definitions that only serve such
// entries — ACLs, transform-sets created for them — are not judged here: they come with the entry).
func (cu *culprits) ofCmds(cmds []string) string {
	class := ""
	for _, c := range cmds {
		w := strings.Fields(strings.TrimPrefix(c, "no "))
		if len(w) >= 3 && w[0] == "crypto" && w[1] == "map" {
			k := cu.ofMap(w[2])
			if class == "" {
				class = k
			} else if class != k {
				return "other"
			}
			continue
		}
		if len(w) >= 2 && (w[0] == "access-list" || (w[0] == "crypto" && w[1] == "ipsec") || (w[0] == "clear" && len(w) > 2 && w[2] == "access-list")) {
			continue
		}
		return "other"
	}
	if class == "" {
		return "other"
	}
	return class
}

// classesOfCmds: the culprit classes of the crypto map commands of a script, each class once ("other" for anything that is no crypto
// map command of a culprit map; definitions of ACLs / transform-sets come with an entry and are not judged). A script that touches maps
// of two known classes is judged per class — never excused as a whole.
func (cu *culprits) classesOfCmds(cmds []string) []string {
	seen := map[string]bool{}
	var out []string
	add := func(k string) {
		if !seen[k] {
			seen[k] = true
			out = append(out, k)
		}
	}
	for _, c := range cmds {
		w := strings.Fields(strings.TrimPrefix(c, "no "))
		if len(w) >= 3 && w[0] == "crypto" && w[1] == "map" {
			add(cu.ofMap(w[2]))
			continue
		}
		if len(w) >= 2 && (w[0] == "access-list" || (w[0] == "crypto" && w[1] == "ipsec") || (w[0] == "clear" && len(w) > 2 && w[2] == "access-list")) {
			continue
		}
		add("other")
	}
	if len(out) == 0 {
		out = []string{"other"}
	}
	sort.Strings(out)
	return out
}

// ofLeftovers: every leftover object was referenced on the initial device only by entries of crypto maps of ONE culprit class.
func (cu *culprits) ofLeftovers(lo []string, dev *vdev) string {
	class := ""
	for _, l := range lo {
		f := strings.SplitN(l, " ", 2)
		if len(f) != 2 {
			return "other"
		}
		r := ref{f[0], f[1]}
		n := 0
		for _, x := range dev.Blocks {
			uses := false
			for _, y := range x.refs() {
				if y == r {
					uses = true
				}
			}
			if !uses {
				continue
			}
			n++
			w := x.words()
			k := "other"
			if kk, _ := headKind(w); kk == "cmap" {
				k = cu.ofMap(w[2])
			}
			if class == "" {
				class = k
			} else if class != k {
				return "other"
			}
		}
		if n == 0 {
			return "other"
		}
	}
	if class == "" {
		return "other"
	}
	return class
}

// withoutGivenUpMaps: the configuration with the `ldap-attribute-map` line removed from EVERY host of the aaa-servers whose host line
// in the target has none (the tool looks at the first host of a server group only).
func withoutGivenUpMaps(d, spoc *vdev) (*vdev, bool) {
	gone := map[string]bool{}
	for _, x := range spoc.Blocks {
		w := x.words()
		if k, n := headKind(w); k == "aaa" && contains(w, "host") {
			has := false
			for _, s := range x.Subs {
				if strings.HasPrefix(s, "ldap-attribute-map ") {
					has = true
				}
			}
			if !has {
				gone[n] = true
			}
		}
	}
	c := d.clone()
	changed := false
	for _, x := range c.Blocks {
		w := x.words()
		if k, n := headKind(w); k == "aaa" && contains(w, "host") && gone[n] {
			for j := 0; j < len(x.Subs); j++ {
				if strings.HasPrefix(x.Subs[j], "ldap-attribute-map ") {
					x.Subs = append(x.Subs[:j:j], x.Subs[j+1:]...)
					j--
					changed = true
				}
			}
		}
	}
	return c, changed
}

// mixedMapHosts: some aaa-server whose target host line has no ldap-attribute-map has hosts WITH and hosts WITHOUT the map in d.
func mixedMapHosts(d, spoc *vdev) bool {
	c, changed := withoutGivenUpMaps(d, spoc)
	if !changed {
		return false
	}
	// some host of such a server already lacks the line
	for i, x := range d.Blocks {
		w := x.words()
		if k, _ := headKind(w); k == "aaa" && contains(w, "host") && len(c.Blocks[i].Subs) == len(x.Subs) {
			for _, y := range d.Blocks {
				yw := y.words()
				if ky, _ := headKind(yw); ky == "aaa" && contains(yw, "host") && yw[1] == w[1] && y != x {
					for _, sx := range y.Subs {
						if strings.HasPrefix(sx, "ldap-attribute-map ") {
							return true
						}
					}
				}
			}
		}
	}
	return false
}

// ofViews: the lines in which the two views differ are all `[crypto map interface X]` lines of maps of ONE culprit class.
func (cu *culprits) ofViews(got, want string) string {
	in := func(l []string) map[string]bool {
		m := map[string]bool{}
		for _, x := range l {
			m[x] = true
		}
		return m
	}
	g, w := strings.Split(strings.TrimSpace(got), "\n"), strings.Split(strings.TrimSpace(want), "\n")
	gm, wm := in(g), in(w)
	class := ""
	for _, l := range append(append([]string{}, g...), w...) {
		if gm[l] && wm[l] {
			continue
		}
		if !strings.HasPrefix(l, "[crypto map interface ") {
			return "other"
		}
		intf := strings.TrimSuffix(strings.Fields(strings.TrimPrefix(l, "[crypto map interface "))[0], "]")
		k := cu.ofMap(cu.bindOf[intf])
		if class == "" {
			class = k
		} else if class != k {
			return "other"
		}
	}
	if class == "" {
		return "other"
	}
	return class
}

// classesOfViews: the culprit classes of the view lines in which the two views differ, each class once ("other" for a line that is
// not the `[crypto map interface X]` line of a culprit map): judged per class.
func (cu *culprits) classesOfViews(got, want string) []string {
	in := func(l []string) map[string]bool {
		m := map[string]bool{}
		for _, x := range l {
			m[x] = true
		}
		return m
	}
	g, w := strings.Split(strings.TrimSpace(got), "\n"), strings.Split(strings.TrimSpace(want), "\n")
	gm, wm := in(g), in(w)
	seen := map[string]bool{}
	var out []string
	for _, l := range append(append([]string{}, g...), w...) {
		if gm[l] && wm[l] {
			continue
		}
		k := "other"
		if strings.HasPrefix(l, "[crypto map interface ") {
			intf := strings.TrimSuffix(strings.Fields(strings.TrimPrefix(l, "[crypto map interface "))[0], "]")
			k = cu.ofMap(cu.bindOf[intf])
		}
		if !seen[k] {
			seen[k] = true
			out = append(out, k)
		}
	}
	if len(out) == 0 {
		out = []string{"other"}
	}
	sort.Strings(out)
	return out
}

// changedHeads: the top-level lines whose block (line with its sub-lines) is not the same in both texts.
func changedHeads(before, after string) []string {
	parse := func(t string) map[string]string {
		m := map[string]string{}
		cur := ""
		for _, l := range strings.Split(t, "\n") {
			if l == "" {
				continue
			}
			if strings.HasPrefix(l, " ") {
				m[cur] += "\n" + l
			} else {
				cur = l
				m[cur] += "\n"
			}
		}
		return m
	}
	b, a := parse(before), parse(after)
	var out []string
	for h, t := range b {
		if a[h] != t {
			out = append(out, h)
		}
	}
	for h := range a {
		if _, ok := b[h]; !ok {
			out = append(out, h)
		}
	}
	sort.Strings(out)
	return out
}

// peerlessEntry: some crypto map entry of the configuration has neither `set peer` nor `ipsec-isakmp dynamic`.
func peerlessEntry(d *vdev) bool {
	has := map[string]bool{}
	all := map[string]bool{}
	for _, x := range d.Blocks {
		w := x.words()
		if k, _ := headKind(w); k == "cmap" {
			e := w[2] + " " + w[3]
			all[e] = true
			if a := cryptoAttrKey(w); a == "set peer" || a == "ipsec-isakmp dynamic" {
				has[e] = true
			}
		}
	}
	for e := range all {
		if !has[e] {
			return true
		}
	}
	return false
}

// repointedRule: the command (executed in state d, webvpn mode or top level) creates a tunnel-group-map /
// certificate-group-map rule for a certificate map NAME, while the device holds a rule of the same kind for a
// certificate map of another name with the same subject-name (the tool matched the two rules by subject-name).
func repointedRule(d *vdev, mode string, w []string) bool {
	subject := func(cm string) string {
		for _, x := range d.blocksOf(ref{"certmap", cm}) {
			for _, s := range x.Subs {
				if strings.HasPrefix(s, "subject-name") {
					return strings.ToLower(s)
				}
			}
		}
		return ""
	}
	var kind, cm string
	switch {
	case mode == "webvpn" && len(w) == 4 && w[0] == "certificate-group-map":
		kind, cm = "cgm", w[1]
	case len(w) == 4 && w[0] == "tunnel-group-map":
		kind, cm = "tgmap", w[1]
	default:
		return false
	}
	sub := subject(cm)
	for _, x := range d.Blocks {
		xw := x.words()
		k, _ := headKind(xw)
		if kind == "tgmap" && k == "tgmap" && len(xw) == 4 && xw[1] != cm && subject(xw[1]) == sub {
			return true
		}
		if kind == "cgm" && k == "webvpn" {
			for _, s := range x.Subs {
				sw := strings.Fields(s)
				if len(sw) == 4 && sw[0] == "certificate-group-map" && sw[1] != cm && subject(sw[1]) == sub {
					return true
				}
			}
		}
	}
	return false
}

// deletionTarget: the object a `no …` / `clear configure …` command removes (or removes a line of).
func deletionTarget(cmd string) ref {
	w := strings.Fields(cmd)
	if len(w) >= 4 && w[0] == "clear" && w[1] == "configure" {
		kinds := map[string]string{"access-list": "acl", "object-group": "group", "group-policy": "gp", "tunnel-group": "tg",
			"username": "user", "crypto ca certificate map": "certmap"}
		return ref{kinds[strings.Join(w[2:len(w)-1], " ")], w[len(w)-1]}
	}
	if len(w) >= 2 && w[0] == "no" {
		b := &block{Head: strings.Join(w[1:], " ")}
		if k, n := headKind(b.words()); k == "interface" {
			return ref{"interface", n}
		}
		if o, ok := b.defines(); ok {
			return o
		}
	}
	return ref{}
}

func unmanagedView(d *vdev, u map[ref]bool, managed map[string]bool) string {
	var sb strings.Builder
	for _, x := range d.Blocks {
		w := x.words()
		k, _ := headKind(w)
		keep := false
		switch k {
		case "", "interface":
			keep = true
		case "cbind":
			keep = !managed[w[4]]
		case "access-group":
			keep = len(w) == 5 && !managed[w[4]]
		case "webvpn":
			for _, s := range x.Subs {
				if !strings.HasPrefix(s, "certificate-group-map ") {
					sb.WriteString("webvpn: " + s + "\n")
				}
			}
		default:
			if o, ok := x.defines(); ok && u[o] {
				keep = true
			}
		}
		if keep {
			sb.WriteString(x.Head + "\n")
			for _, s := range x.Subs {
				sb.WriteString(" " + s + "\n")
			}
		}
	}
	return sb.String()
}

func run(ctx *Ctx) *Result {
	res := NewResult()
	prop := ctx.Prop
	res.Rule = "pairs (ASA device config, Netspoc target) of the VPN fragment: crypto map with 0-4 static and 0-2 dynamic entries bound to 1-2 interfaces, " +
		"crypto ACLs, ikev1 transform-sets / ikev2 proposals, l2l tunnel-groups named by peer address (+ group-policy with vpn-filter), remote-access " +
		"tunnel-groups with certificate maps, tunnel-group-map, webvpn certificate-group-map, group-policies with pool / split-tunnel / filter ACLs, usernames, " +
		"aaa-server + ldap attribute-map with map-value -> group-policy (never created by the tool: a device lacking them must be refused); " +
		"device = target under generated names plus up to 6 mutations (peer missing/extra, other sequence numbers, ACL edited/replaced, transform-set " +
		"content/twin/shared, attributes, group-policy, pool, users, tunnel-group sections, certificate map sequence numbers and rules, ldap map-values, other crypto map " +
		"name, unbound map, left-over -DRC- objects) plus content outside Netspoc's scope (manual tunnel-group -> generated group-policy -> generated ACL/pool, " +
		"manual group-policy, interface unknown to Netspoc with a crypto map, unmodelled webvpn lines); real drc.Main in-process; script executed command " +
		"by command on the strict specification-side device. non-trivial = non-empty script; distinct by text of both configurations"
	res.Assumptions = []string{"ASA command semantics of the VPN fragment is a written specification (harness/asavpn/dev.go): one value per crypto map attribute, " +
		"per referencing sub-command and per tunnel-group-map rule (a second one replaces the first), peers accumulate, referenced objects must exist and cannot be deleted",
		"equivalence: per crypto map interface binding the set of entries keyed by content (sequence numbers ignored) with ACLs, transform-sets, proposals, dynamic-maps by content; " +
			"per username / address-named or built-in tunnel-group / tunnel-group-map rule / certificate-group-map rule the attributes with every referenced object by content; empty attribute sections ignored"}
	var err error
	workDir, err = os.MkdirTemp("", "vh-asavpn-")
	if err != nil {
		panic(err)
	}
	defer os.RemoveAll(workDir)
	lean := newLeanTie(ctx, res)
	defer lean.close()
	droppedIgn, addedIgn := loadIgnored(ctx.Repo)
	res.CountN("ignored-entries-of-command-table", len(ignored))
	for _, e := range droppedIgn {
		res.Count("ignored-entry-missing-in-tree-under-test:" + e)
	}
	for _, e := range addedIgn {
		res.Count("ignored-entry-not-in-snapshot:" + e)
	}

	runCase := func(c cfgCase) {
		if c.dev == nil {
			c.dev, c.spoc = parseBlocks(c.Dev), parseBlocks(c.Spoc)
		}
		out, errOut, status, pan := runDrc(c.Dev, c.Spoc)
		canon := c.Dev + "--\n" + c.Spoc
		if pan != "" {
			res.Eval(canon, false)
			res.Fail(map[string]any{"frag": "vpn", "pred": "drc_panic"}, "panic: "+pan, c)
			return
		}
		ga := lean.checkGraph(c, out, status)
		certCase := false
		if ga == nil {
			if ga = lean.checkCert(c, out, status); ga != nil {
				certCase = true
			}
		}
		_ = certCase
		// aaa-server and ldap attribute-map are never created by the tool: a target that needs one the device lacks must be refused
		missingManual := ""
		for _, o := range c.spoc.objects() {
			if (o.kind == "aaa" || o.kind == "ldapmap") && len(c.dev.blocksOf(o)) == 0 {
				missingManual = o.kind + " " + o.name
			}
		}
		if missingManual != "" {
			res.Eval(canon, true)
			if status == 0 {
				res.Fail(map[string]any{"frag": "vpn", "pred": "manual_transfer_not_demanded"}, "the device lacks "+missingManual+" but drc produced a script:\n"+out, c)
			} else {
				res.Count("manual-transfer-demanded")
			}
			return
		}
		// more than eleven transform-sets / proposals in one crypto map line: the tool must refuse the pair
		tooMany := false
		for _, d := range []*vdev{c.dev, c.spoc} {
			for _, x := range d.Blocks {
				if w := x.words(); len(w) > 7+11 && w[0] == "crypto" && (w[1] == "map" || w[1] == "dynamic-map") && w[4] == "set" && (w[5] == "ikev1" || w[5] == "ikev2") {
					tooMany = true
				}
			}
		}
		if tooMany {
			res.Eval(canon, true)
			if status == 0 {
				res.Fail(map[string]any{"frag": "vpn", "pred": "more_than_eleven_transform_sets_accepted"}, "drc accepts a crypto map line with more than 11 names:\n"+out, c)
			} else {
				res.Count("too-many-transform-sets-refused")
			}
			return
		}
		if status != 0 {
			// every generated pair is valid (complete entries, no dangling reference): a refusal is a failure of its own
			res.Eval(canon, false)
			res.Count("rejected-by-drc:" + drcReason(errOut))
			res.Fail(map[string]any{"frag": "vpn", "pred": "valid_pair_rejected_by_drc", "reason": drcReason(errOut)},
				"drc refuses a valid pair: "+strings.TrimSpace(errOut), c)
			return
		}
		cmds := splitScript(out)
		res.Eval(canon, len(cmds) > 0)
		res.Count(fmt.Sprintf("cmds:%02d", min(len(cmds)/5*5, 60)))
		for _, n := range c.Note {
			res.Count("mut:" + n)
		}
		for _, cmd := range cmds {
			w := strings.Fields(cmd)
			k := w[0]
			if len(w) > 1 && (k == "no" || k == "crypto" || k == "clear") {
				k += " " + w[1]
			}
			if len(w) > 2 && (k == "no crypto" || k == "crypto ipsec" || k == "crypto ca" || k == "clear configure") {
				k += " " + w[2]
			}
			res.Count("cmd:" + k)
		}
		managed := c.spoc.implicitIntfs()
		wantView := c.spoc.managedView(managed)
		uSet, shared := unmanagedSet(c.dev, c.spoc, managed)
		frame0 := unmanagedView(c.dev, uSet, managed)
		cu := &culprits{shared: sharedMapNames(c.dev, c.spoc, managed), dup: dupPeerMaps(c.spoc), bindOf: map[string]string{},
			devBind: map[string]string{}, tgtBind: map[string]string{}}
		for i, d := range []*vdev{c.dev, c.spoc} {
			for _, x := range d.Blocks {
				if w := x.words(); len(w) == 5 {
					if k, _ := headKind(w); k == "cbind" {
						cu.bindOf[w[4]] = w[2]
						if i == 0 {
							cu.devBind[w[4]] = w[2]
						} else {
							cu.tgtBind[w[4]] = w[2]
						}
					}
				}
			}
		}
		if len(cu.shared) > 0 {
			res.Count("flag:crypto-map-shared-with-unknown-interface")
		}
		if len(cu.dup) > 0 {
			res.Count("flag:duplicate-peer-in-target")
		}
		// what the Lean model of the crypto engine (the unchanged code's mirror) says about this input: "yes" = it predicts that
		// the run does not converge / is refused / is not stable; "no" = it predicts a clean run; "n/a" = outside its fragment
		modelPredicts := "n/a"
		hasLocalUser := false
		for _, o := range c.dev.kindObjects("user") {
			if c.dev.localUser(o.name) {
				hasLocalUser = true
			}
		}
		sig := func(pred string, extra ...string) map[string]any {
			m := map[string]any{"frag": "vpn", "pred": pred}
			m["model_predicts_failure"] = modelPredicts
			if hasLocalUser {
				m["local_user_with_password_on_device"] = true
			}
			for i := 0; i+1 < len(extra); i += 2 {
				m[extra[i]] = extra[i+1]
			}
			return m
		}
		la := lean.check(c, out)
		if la != nil {
			if !la.acc || !la.conv || la.second != "" {
				modelPredicts = "yes"
			} else {
				modelPredicts = "no"
			}
		}
		if prop == "C07" {
			// aaa-server, ldap attribute-map and interface definitions are the administrator's: no command may define or remove them
			for i, cmd := range cmds {
				w := strings.Fields(cmd)
				if w[0] == "no" || w[0] == "clear" {
					w = w[1:]
				}
				if len(w) > 0 && w[0] == "configure" {
					w = w[1:]
				}
				neg := strings.HasPrefix(cmd, "no ") || strings.HasPrefix(cmd, "clear ")
				if !neg && len(w) > 0 && w[0] == "aaa-server" && c.dev.findHead(cmd) != nil {
					continue // enters the mode of an existing host line (to edit the modelled reference `ldap-attribute-map M`)
				}
				if len(w) > 0 && (w[0] == "aaa-server" || w[0] == "interface" || (neg && len(w) > 1 && w[0] == "ldap" && w[1] == "attribute-map")) {
					res.Fail(sig("manually_maintained_object_touched"), fmt.Sprintf("command %d %q changes an object that must be left to the administrator\nscript:\n%s", i, cmd, out), c)
					break
				}
			}
		}
		// execute
		ex := &executor{d: c.dev.clone()}
		var states []*vdev
		skipped := false
		ign0 := c.dev.ignoredLines()
		if len(ign0) > 0 {
			res.Count("device-with-ignored-lines")
		}
		for i, cmd := range cmds {
			if prop == "C07" && ex.cur != nil {
				// lines the command table marks as ignored (pre-shared keys, keepalive, webvpn sub-block) are not modelled: hands off
				if w := strings.Fields(strings.TrimPrefix(cmd, "no ")); len(w) > 0 && cmd != "exit" && ignoredSub(ex.mode, strings.Join(w, " ")) {
					res.Fail(sig("ignored_line_touched"), fmt.Sprintf("command %d %q in mode of `%s` touches a line the tool does not model\nscript:\n%s", i, cmd, ex.cur.Head, out), c)
				}
			}
			if err := ex.exec1(cmd); err != nil {
				if ga != nil && ga.acc && !skipped {
					res.Disagree("vpn-graph-device", c, "dev.go rejects command "+fmt.Sprint(i)+": "+err.Error(), "NA.Vpn.G.execAll accepts the script")
				}
				if la != nil && la.acc && !skipped {
					res.Disagree("vpn-device", c, "dev.go rejects command "+fmt.Sprint(i)+": "+err.Error(), "NA.Vpn.applyAll accepts the script")
				}
				if prop == "C08" || prop == "C01" || prop == "C10" {
					res.Fail(sig("command_rejected_by_strict_device", "reason", reasonOf(err.Error()), "culprit", cu.ofCmds([]string{cmd})), fmt.Sprintf("command %d %q: %v\nscript:\n%s", i, cmd, err, out), c)
				}
				if prop == "C07" {
					// the device refused: nothing changed by this command. An attempt to delete something outside
					// Netspoc's scope is a violation all the same; otherwise go on with the rest of the script.
					if o := deletionTarget(cmd); o.kind == "interface" || uSet[o] {
						res.Fail(sig("deletion_of_unmanaged_object_attempted"), fmt.Sprintf("command %d %q tries to delete %s %s (refused by the device: %v)\nscript:\n%s", i, cmd, o.kind, o.name, err, out), c)
					}
					res.Count("c07:rejected-command-skipped")
					states = append(states, ex.d.clone())
					skipped = true
					continue
				}
				return
			}
			states = append(states, ex.d.clone())
		}
		for k, n := range ex.notes {
			res.CountN("exec:"+k, n)
		}
		res.TracesVsImpl++
		final := ex.d
		if ga != nil && !ga.acc && !skipped {
			res.Disagree("vpn-graph-device", c, "dev.go accepts the script", "NA.Vpn.G.execAll rejects it")
		}
		if la != nil && !la.acc && !skipped {
			res.Disagree("vpn-device", c, "dev.go accepts the script", "NA.Vpn.applyAll rejects it")
		}
		if len(res.Samples) < 3 && len(cmds) > 6 {
			res.Sample(map[string]any{"device": c.Dev, "netspoc": c.Spoc, "script": out, "mutations": c.Note})
		}
		if prop == "C01" {
			if ga != nil && ga.acc {
				res.Count("lean:graph-convergence-compared")
				if conv := final.managedView(managed) == wantView; conv != ga.conv {
					res.Disagree("vpn-graph-view", c, fmt.Sprintf("dev.go: converged=%v", conv), fmt.Sprintf("NA.Vpn.G.view: converged=%v", ga.conv))
					if os.Getenv("VPN_DEBUG") != "" {
						os.WriteFile(fmt.Sprintf("/tmp/b-vpn/dbg-%d.json", len(res.Disagreements)), []byte(fmt.Sprintf("%s\n--SPOC\n%s\n--OUT\n%s\n--GOT\n%s\n--WANT\n%s", c.Dev, c.Spoc, out, final.managedView(managed), wantView)), 0644)
					}
				}
			}
			if la != nil && la.acc {
				res.Count("lean:convergence-compared")
				if conv := final.managedView(managed) == wantView; conv != la.conv {
					res.Disagree("vpn-view", c, fmt.Sprintf("dev.go: converged=%v", conv), fmt.Sprintf("NA.Vpn.viewOn: converged=%v", la.conv))
				}
			}
			if got := final.managedView(managed); got != wantView {
				classes := cu.classesOfViews(got, wantView)
				if f2, ch := withoutGivenUpMaps(final, c.spoc); len(classes) == 1 && classes[0] == "other" && ch && f2.managedView(managed) == wantView {
					classes = []string{"ldap_attribute_map_left_on_further_hosts_of_aaa_server"}
				}
				for _, culprit := range classes[1:] {
					res.Fail(sig("not_converged", "culprit", culprit), "after executing the script the managed part differs from the target:\n"+got+"-- want\n"+wantView+"-- script\n"+out, c)
				}
				culprit := classes[0]
				res.Fail(sig("not_converged", "culprit", culprit), "after executing the script the managed part differs from the target:\n"+got+"-- want\n"+wantView+"-- script\n"+out, c)
				return
			}
			if lo := final.leftovers(); len(lo) > 0 {
				res.Fail(sig("leftover_generated_object", "culprit", cu.ofLeftovers(lo, c.dev)), "unreferenced generated objects remain: "+strings.Join(lo, ", ")+"\n-- script\n"+out, c)
			}
			out2, err2, st2, pan2 := runDrc(final.print(), c.Spoc)
			if ga != nil && ga.acc {
				impl2 := strings.Join(splitLines(out2), "|")
				if st2 != 0 {
					impl2 = "abort"
				}
				res.Count("lean:graph-second-run-compared")
				if impl2 != ga.second {
					res.Disagree("vpn-graph-second-run", c, impl2, ga.second)
				}
			}
			if la != nil && la.acc {
				impl2 := strings.Join(splitLines(out2), "|")
				if st2 != 0 {
					impl2 = "abort"
				}
				res.Count("lean:second-run-compared")
				if impl2 != la.second {
					res.Disagree("vpn-second-run", c, impl2, la.second)
				}
			}
			if pan2 != "" || st2 != 0 {
				culprit := "other"
				if mixedMapHosts(final, c.spoc) {
					culprit = "ldap_attribute_map_left_on_further_hosts_of_aaa_server"
				}
				res.Fail(sig("second_compare_failed", "reason", drcReason(err2), "culprit", culprit), fmt.Sprintf("second compare: exit %d %s %s", st2, pan2, err2), c)
			} else if strings.TrimSpace(out2) != "" {
				for _, k := range cu.classesOfCmds(splitScript(out2)) {
					res.Fail(sig("second_compare_not_empty", "culprit", k), "second compare reports changes:\n"+out2+"-- first script\n"+out, c)
				}
			}
			if len(cmds) == 0 && c.dev.managedView(managed) != wantView {
				res.Fail(sig("unchanged_reported_for_different_device"), "empty script although the device is not equivalent:\n"+c.dev.managedView(managed)+"-- want\n"+wantView, c)
			}
			if len(cmds) == 0 {
				res.Count("unchanged")
			}
		}
		if prop == "C07" {
			if ga != nil && ga.acc && !skipped {
				res.Count("lean:graph-frame-compared")
				if same := unmanagedView(final, uSet, managed) == frame0; same != ga.frame {
					res.Disagree("vpn-graph-frame", c, fmt.Sprintf("dev.go: unmanaged objects untouched=%v", same), fmt.Sprintf("NA.Vpn.G.frame: untouched=%v", ga.frame))
				}
			}
			if got := unmanagedView(final, uSet, managed); got != frame0 {
				// per object: every top-level line whose block differs belongs to an object that is reachable from a manual AND a
				// managed object, or is an entry of a crypto map shared with an unknown interface
				class := ""
				isShared := map[ref]bool{}
				for _, o := range shared {
					isShared[o] = true
				}
				for _, head := range changedHeads(frame0, got) {
					k := "other"
					hb := &block{Head: head}
					if o, ok := hb.defines(); ok && isShared[o] {
						k = "object_shared_between_manual_and_managed_objects"
					}
					if w := hb.words(); len(w) >= 4 && w[0] == "crypto" && w[1] == "map" && isNum(w[3]) && cu.shared[w[2]] {
						k = "entries_of_crypto_map_shared_with_unknown_interface"
					}
					if class == "" {
						class = k
					} else if class != k {
						class = "other"
					}
				}
				if class == "" {
					class = "other"
				}
				res.Fail(sig("unmanaged_content_changed", "class", class), "unmanaged content differs after the script:\n"+got+"-- before\n"+frame0+"-- script\n"+out, c)
			}
			if len(shared) > 0 {
				res.Count("c07:shared-object-cases")
			}
			ign1 := final.ignoredLines()
			for head, l0 := range ign0 {
				o, _ := c.dev.findHead(head).defines()
				if len(final.blocksOf(o)) == 0 {
					res.Count("c07:object-with-ignored-lines-deleted-as-a-whole")
					continue
				}
				res.Count("c07:ignored-lines-compared")
				if strings.Join(l0, "\n") != strings.Join(ign1[head], "\n") {
					how := "line_edited"
					if final.findHead(head) == nil && contains(cmds, "no "+head) {
						how = "section_removed_as_a_whole" // `no tunnel-group X ipsec-attributes`: the target has no such section
					}
					res.Fail(sig("ignored_line_touched", "how", how), fmt.Sprintf("unmodelled lines of `%s` differ after the script:\n%s\n-- before\n%s\n-- script\n%s",
						head, strings.Join(ign1[head], "\n"), strings.Join(l0, "\n"), out), c)
				}
			}
			res.CountN("c07:unmanaged-objects", len(uSet))
		}
		if prop == "C10" {
			for k, st := range states[:max(len(states)-1, 0)] {
				res.Count("resume-cuts")
				out2, err2, st2, pan2 := runDrc(st.print(), c.Spoc)
				where := fmt.Sprintf("cut after %d of %d commands (last: %q)", k+1, len(cmds), cmds[k])
				if pan2 != "" {
					res.Fail(sig("resume_drc_panic"), where+": panic "+pan2, c)
					continue
				}
				if la != nil {
					lean.checkCut(st, c.spoc, out2, st2)
				}
				if st2 != 0 {
					culprit := "other"
					// both attributes are computed from the state; drc's message only selects which of two present causes it names
					switch {
					case peerlessEntry(st) && (drcReason(err2) == "crypto_map_entry_without_peer" || !mixedMapHosts(st, c.spoc)):
						culprit = "crypto_map_entry_without_peer_in_intermediate_state"
					case mixedMapHosts(st, c.spoc):
						culprit = "ldap_attribute_map_left_on_further_hosts_of_aaa_server"
					}
					res.Fail(sig("resume_state_not_accepted", "reason", drcReason(err2), "culprit", culprit), where+": drc rejects the intermediate device: "+strings.TrimSpace(err2)+"\n-- script\n"+out, c)
					continue
				}
				ex2 := &executor{d: st.clone()}
				bad := false
				for i, cmd := range splitScript(out2) {
					if err := ex2.exec1(cmd); err != nil {
						res.Fail(sig("resume_command_rejected", "reason", reasonOf(err.Error()), "culprit", cu.ofCmds([]string{cmd})), fmt.Sprintf("%s: second script command %d %q: %v\n-- first script\n%s-- second script\n%s", where, i, cmd, err, out, out2), c)
						bad = true
						break
					}
				}
				if bad {
					continue
				}
				if got := ex2.d.managedView(managed); got != wantView {
					classes := cu.classesOfViews(got, wantView)
					if f2, ch := withoutGivenUpMaps(ex2.d, c.spoc); len(classes) == 1 && classes[0] == "other" && ch && f2.managedView(managed) == wantView {
						classes = []string{"ldap_attribute_map_left_on_further_hosts_of_aaa_server"}
					}
					for _, k := range classes[1:] {
						res.Fail(sig("resume_not_converged", "culprit", k), fmt.Sprintf("%s: second run ends in\n%s-- want\n%s", where, got, wantView), c)
					}
					culprit := classes[0]
					res.Fail(sig("resume_not_converged", "culprit", culprit), fmt.Sprintf("%s: second run ends in\n%s-- want\n%s-- first script\n%s-- second script\n%s", where, got, wantView, out, out2), c)
					continue
				}
				if k%3 == 0 {
					out3, _, st3, _ := runDrc(ex2.d.print(), c.Spoc)
					if st3 != 0 || strings.TrimSpace(out3) != "" {
						for _, k := range cu.classesOfCmds(splitScript(out3)) {
							res.Fail(sig("resume_further_compare_not_empty", "culprit", k), fmt.Sprintf("%s: a further compare after the second run reports\n%s", where, out3), c)
						}
					}
				}
			}
		}
	}

	if ctx.Replay != "" {
		var c cfgCase
		if err := ReadReplay(ctx.Replay, &c); err != nil {
			fmt.Fprintln(os.Stderr, err)
			os.Exit(2)
		}
		if c.Dev != "" || c.Spoc != "" {
			runCase(c)
		} else if prop == "C07" || prop == "C08" {
			iosRun(ctx, res, lean, 0, false) // an IOS case (ios_device / ios_netspoc)
		} else {
			runCase(c)
		}
		return res
	}
	for _, c := range corpus() {
		res.Count("corpus")
		runCase(c)
	}
	n := ctx.N(1500, 30000)
	if prop == "C10" {
		n = ctx.N(200, 5000)
	}
	for i := 0; i < n; i++ {
		g := &gen{r: ctx.Rng.Fork()}
		var c cfgCase
		if i%4 == 3 {
			c = g.genCryptoOnly()
		} else if i%8 == 5 {
			c = g.genCert()
		} else if i%4 == 1 {
			c = g.genGraph()
		} else {
			b := g.genTarget()
			a, note := g.genDevice(b)
			if len(a.kindObjects("ldapmap")) > 0 && len(b.kindObjects("ldapmap")) > 0 && g.r.Chance(35) {
				note = append(note, g.dropLdapMap(a, b)...)
			}
			c = cfgCase{Dev: a.print(), Spoc: b.print(), Note: note, dev: a, spoc: b}
		}
		if i%2 == 0 && g.r.Chance(15) {
			c.Note = append(c.Note, g.addLocalUser(c.dev, c.spoc)...)
			c.Dev = c.dev.print()
		}
		if i%2 == 0 || i%8 == 1 {
			c.Note = append(c.Note, g.sprinkleIgnored(c.dev)...)
			c.Dev = c.dev.print()
		}
		runCase(c)
	}
	if prop == "C07" || prop == "C08" {
		// the IOS crypto map code (sub-command form, GDOI maps) under these properties too
		workDirASA := workDir
		iosRun(ctx, res, lean, ctx.N(300, 5000), false)
		workDir = workDirASA
	}
	lean.finish()
	return res
}
