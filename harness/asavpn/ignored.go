package main

// Sub-commands the ASA command table marks with `!`: parsed but ignored. They are "lines the tool does not model" inside
// objects it does manage (pre-shared keys, isakmp keepalive, the webvpn sub-block of a group-policy): no command may add,
// change or remove them (C07). The set is the UNION of
//   - ignored_gen.go, written by translate/vpnignored from the pinned tree, and
//   - the `!` entries of go/pkg/asa/cmd-info.go of the tree under test, read at start,
// so that an entry that is dropped from (or added to) the table is still exercised.

import (
	"os"
	"path/filepath"
	"strings"

	. "verifharness/vhlib"
)

type ignTmpl struct {
	mode  string
	words []string // a last word "*" stands for one or more words
}

var ignored []ignTmpl

// specIgnored: sub-modes of the ASA that the tool does not model although the table of some tree may lack the `!` entry
// (written specification, independent of /repo: `webvpn` is a sub-mode of group-policy AND of username attributes).
var specIgnored = [][2]string{
	{"group-policy $NAME attributes", "webvpn"},
	{"username $NAME attributes", "webvpn"},
}

func addIgnored(parent, sub string) bool {
	pw := strings.Fields(strings.ReplaceAll(parent, "$NAME", "N"))
	mode := modeOf(pw)
	if mode == "" {
		return false
	}
	w := strings.Fields(sub)
	for _, t := range ignored {
		if t.mode == mode && strings.Join(t.words, " ") == strings.Join(w, " ") {
			return false
		}
	}
	ignored = append(ignored, ignTmpl{mode, w})
	return true
}

// loadIgnored returns (entries of the snapshot missing in the tree under test, entries only there).
func loadIgnored(repo string) (dropped, added []string) {
	ignored = nil
	for _, e := range ignoredSnapshot {
		addIgnored(e[0], e[1])
	}
	for _, e := range specIgnored {
		addIgnored(e[0], e[1])
	}
	data, err := os.ReadFile(filepath.Join(repo, "go/pkg/asa/cmd-info.go"))
	if err != nil {
		return nil, nil
	}
	have := map[string]bool{}
	parent := ""
	for _, line := range strings.Split(string(data), "\n") {
		switch {
		case strings.HasPrefix(line, " !"):
			sub := strings.TrimPrefix(line, " !")
			have[parent+" / "+sub] = true
			if addIgnored(parent, sub) {
				added = append(added, parent+" / "+sub)
			}
		case strings.HasPrefix(line, " "), strings.HasPrefix(line, "#"), strings.HasPrefix(line, "["), line == "":
		default:
			f := strings.Fields(line)
			parent = strings.ReplaceAll(f[0], "_", " ") + " " + strings.Join(f[1:], " ")
		}
	}
	for _, e := range ignoredSnapshot {
		if !have[e[0]+" / "+e[1]] {
			dropped = append(dropped, e[0]+" / "+e[1])
		}
	}
	return
}

// isChild: a line of a sub-sub-mode (kept with one leading blank behind its parent sub-command).
func isChild(sub string) bool { return strings.HasPrefix(sub, " ") }

func ignoredSub(mode, sub string) bool {
	if isChild(sub) {
		return false
	}
	w := strings.Fields(sub)
	for _, t := range ignored {
		if t.mode != mode {
			continue
		}
		n := len(t.words)
		if n > 0 && t.words[n-1] == "*" {
			if len(w) >= n && strings.Join(w[:n-1], " ") == strings.Join(t.words[:n-1], " ") {
				return true
			}
		} else if strings.Join(w, " ") == strings.Join(t.words, " ") {
			return true
		}
	}
	return false
}

// modelSubs: the sub-commands the tool models (without ignored lines and without lines of sub-sub-modes).
func (b *block) modelSubs() []string {
	mode := modeOf(b.words())
	var out []string
	for _, s := range b.Subs {
		if isChild(s) || ignoredSub(mode, s) {
			continue
		}
		out = append(out, s)
	}
	return out
}

// ignoredLines: per top-level line the ignored sub-commands with their children, in order.
func (d *vdev) ignoredLines() map[string][]string {
	m := map[string][]string{}
	for _, b := range d.Blocks {
		mode := modeOf(b.words())
		in := false
		for _, s := range b.Subs {
			if isChild(s) {
				if in {
					m[b.Head] = append(m[b.Head], s)
				}
				continue
			}
			in = ignoredSub(mode, s)
			if in {
				m[b.Head] = append(m[b.Head], s)
			}
		}
	}
	return m
}

var ignFill = map[string][]string{
	"pre-shared-key": {"*****"},
	"keepalive":      {"threshold 15 retry 3", "disable", "threshold infinite"},
}
var ignChildren = []string{"anyconnect keep-installer installed", "anyconnect profiles value VPN-PROFILE type user", "anyconnect ask none default anyconnect",
	"anyconnect ssl dtls enable", "always-on-vpn profile-setting"}

// sprinkleIgnored puts ignored lines into the device's sections of the modes that have such entries.
func (g *gen) sprinkleIgnored(a *vdev) []string {
	var note []string
	r := g.r
	for _, b := range a.Blocks {
		mode := modeOf(b.words())
		for _, t := range ignored {
			if t.mode != mode || !r.Chance(30) {
				continue
			}
			n := len(t.words)
			var lines []string
			if t.words[n-1] == "*" {
				fill := []string{"X1"}
				if n > 1 && ignFill[t.words[n-2]] != nil {
					fill = ignFill[t.words[n-2]]
				}
				lines = []string{strings.Join(t.words[:n-1], " ") + " " + fill[r.Intn(len(fill))]}
			} else {
				// may open a sub-sub-mode
				lines = []string{strings.Join(t.words, " ")}
				for k := r.Intn(3); k > 0; k-- {
					lines = append(lines, " "+ignChildren[r.Intn(len(ignChildren))])
				}
			}
			if ignoredSubPresent(b, mode, lines[0]) {
				continue
			}
			// position: before some sub-command (never between a line and its children)
			var pos []int
			for i, s := range b.Subs {
				if !isChild(s) {
					pos = append(pos, i)
				}
			}
			pos = append(pos, len(b.Subs))
			p := pos[r.Intn(len(pos))]
			b.Subs = append(b.Subs[:p:p], append(lines, b.Subs[p:]...)...)
			note = append(note, "ignored-line:"+mode+":"+t.words[0])
		}
	}
	return note
}

func ignoredSubPresent(b *block, mode, line string) bool {
	w := strings.Fields(line)
	for _, s := range b.Subs {
		if !isChild(s) && ignoredSub(mode, s) {
			sw := strings.Fields(s)
			if sw[0] == w[0] && (len(w) < 2 || len(sw) < 2 || sw[1] == w[1]) {
				return true
			}
		}
	}
	return false
}

// addLocalUser: a local administrative account (password line, which the tool does not parse) with or without attributes;
// the attributes may use a group-policy of the device.
func (g *gen) addLocalUser(a, b *vdev) []string {
	r := g.r
	name := Pick(r, []string{"admin", "backup-admin", "netops"})
	if a.exists(ref{"user", name}) {
		return nil
	}
	nb := []*block{{Head: "username " + name + " password $sha512$5000$Zm9vYmFy$abcdef pbkdf2 privilege 15"}}
	note := "local-user-with-password"
	if r.Chance(70) {
		at := &block{Head: "username " + name + " attributes", Subs: []string{"service-type admin"}}
		if gps := a.kindObjects("gp"); len(gps) > 0 && r.Chance(40) {
			// (a hand-made group-policy: not generated, not named by the target)
			if gp := Pick(r, gps); a.exists(gp) && !strings.Contains(gp.name, "-DRC-") && !b.exists(gp) && a.referencedBy(gp) == "" {
				at.Subs = append(at.Subs, "vpn-group-policy "+gp.name)
				note += "+group-policy"
			}
		}
		nb = append(nb, at)
		note += "+attributes"
	}
	p := r.Intn(len(a.Blocks) + 1)
	if r.Chance(50) {
		p = len(a.Blocks)
	}
	a.Blocks = append(a.Blocks[:p:p], append(nb, a.Blocks[p:]...)...)
	return []string{note}
}
