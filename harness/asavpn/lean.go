package main

// Tie with the Lean models of NA.Vpn (driver nadrv-c10):
//   E: every generated pair that lies in the crypto-map-only sub-fragment (interfaces, ikev1 transform-sets, crypto map
//      entries with `set peer` / plain attributes / `set ikev1 transform-set` references, crypto map interface bindings)
//      is encoded structurally; the model's change list must equal the lines the real drc printed.
//   M: matchCryptoMap alone (hook cisco.VerifMatchCryptoMap, real function on commands built from the same data):
//      the calls of f, with the names and sequence numbers the target's commands carry at the time of the call.

import (
	"fmt"
	"strings"

	"github.com/hknutzen/Netspoc-Approve/go/pkg/cisco"

	. "verifharness/vhlib"
)

type leanTie struct {
	ctx *Ctx
	res *Result
	drv *Nadrv
}

func newLeanTie(ctx *Ctx, res *Result) *leanTie {
	return &leanTie{ctx: ctx, res: res, drv: ctx.StartNadrv("c10")}
}

func (l *leanTie) close() { l.drv.Close() }

var plainKeys = map[string]bool{"set peer": true, "set pfs": true, "set security-association lifetime seconds": true,
	"set security-association lifetime kilobytes": true, "set nat-t-disable": true, "set ikev1 transform-set": true}

// inFragment: the configuration consists of unmodelled lines, interfaces, transform-sets, static crypto map entries, bindings.
func inFragment(d *vdev) bool {
	for _, b := range d.Blocks {
		w := b.words()
		switch k, _ := headKind(w); k {
		case "", "interface", "ts", "cbind":
		case "cmap":
			if !plainKeys[cryptoAttrKey(w)] {
				return false
			}
		default:
			return false
		}
	}
	return true
}

func flag(b bool) string {
	if b {
		return "1"
	}
	return "0"
}

func encodeSide(d *vdev, side string) []string {
	var intfs, ts, binds []string
	maps := map[string][]string{}
	var order []string
	for _, b := range d.Blocks {
		w := b.words()
		switch k, name := headKind(w); k {
		case "interface":
			for _, s := range b.Subs {
				if strings.HasPrefix(s, "nameif ") {
					intfs = append(intfs, strings.TrimPrefix(s, "nameif "))
				}
			}
		case "ts":
			ts = append(ts, name+"~"+strings.Join(w[5:], " ")+"~"+flag(strings.Contains(name, "-DRC-")))
		case "cbind":
			binds = append(binds, w[2]+"~"+w[4])
		case "cmap":
			if _, ok := maps[name]; !ok {
				order = append(order, name)
				maps[name] = []string{name + "~" + flag(strings.Contains(name, "-DRC-"))}
			}
			orig := strings.Join(w[4:], " ")
			key := orig
			var refs []string
			peer := ""
			switch cryptoAttrKey(w) {
			case "set ikev1 transform-set":
				refs = w[7:]
				key = "set ikev1 transform-set" + strings.Repeat(" $REF", len(refs))
			case "set pfs":
				if orig == "set pfs group14" {
					key = "set pfs"
				}
			}
			// getPeer: strings.Cut(parsed, "set peer ")
			if _, p, found := strings.Cut("crypto map $NAME $SEQ "+key, "set peer "); found {
				peer = "S:" + p
			}
			id := len(maps[name]) - 1
			maps[name] = append(maps[name], fmt.Sprintf("%d~%s~%s~%s~%s~%s~%s", id, w[3], key, orig, peer, strings.Join(refs, ","), cryptoAttrKey(w)))
		}
	}
	var ms []string
	for _, n := range order {
		ms = append(ms, strings.Join(maps[n], "#"))
	}
	out := []string{side + "ts=" + strings.Join(ts, ";"), side + "m=" + strings.Join(ms, ";"), side + "b=" + strings.Join(binds, ";")}
	if side == "a" {
		out = append([]string{"ai=" + strings.Join(intfs, ",")}, out...)
	}
	return out
}

type leanAns struct {
	conv   bool   // ... and its result is equivalent to the target (NA.Vpn.viewOn)
	acc    bool   // the Lean device accepts the model's script
	second string // change list of a second run of the model on the result
}

// check compares the model's change list with the real one; the answer also carries what the Lean device
// makes of it (compared with dev.go and with the real second compare by the caller).
func (l *leanTie) check(c cfgCase, out string) *leanAns {
	if !inFragment(c.dev) || !inFragment(c.spoc) {
		return nil
	}
	line := "E\t" + strings.Join(append(encodeSide(c.dev, "a"), encodeSide(c.spoc, "b")...), "\t")
	ans := l.drv.Ask(line)
	impl := strings.Join(splitLines(out), "|")
	l.res.TracesVsImpl++
	l.res.Count("lean:engine-compared")
	f := strings.Split(ans, "\t")
	l.matchTie(c)
	if len(f) != 4 || f[0] != "ok" || f[1] != impl {
		l.res.Disagree("vpn-engine", map[string]any{"device": c.Dev, "netspoc": c.Spoc, "encoded": line}, impl, ans)
		return nil
	}
	return &leanAns{acc: strings.HasPrefix(f[2], "acc"), conv: f[2] == "acc+conv", second: f[3]}
}

// checkCut: the model on an intermediate device of an interrupted run (entries may be incomplete: abort expected then).
func (l *leanTie) checkCut(st, spoc *vdev, out2 string, status int) {
	if !inFragment(st) || !inFragment(spoc) {
		return
	}
	line := "E\t" + strings.Join(append(encodeSide(st, "a"), encodeSide(spoc, "b")...), "\t")
	ans := l.drv.Ask(line)
	impl := "ok\t" + strings.Join(splitLines(out2), "|")
	if status != 0 {
		impl = "abort"
	}
	f := strings.Split(ans, "\t")
	got := ans
	if len(f) == 4 {
		got = f[0] + "\t" + f[1]
	}
	l.res.TracesVsImpl++
	l.res.Count("lean:cut-state-compared")
	if got != impl {
		l.res.Disagree("vpn-engine-cut", map[string]any{"device": st.print(), "netspoc": spoc.print(), "encoded": line}, impl, ans)
	}
}

func splitLines(out string) []string {
	var ls []string
	for _, x := range strings.Split(strings.TrimSuffix(out, "\n"), "\n") {
		if x != "" {
			ls = append(ls, x)
		}
	}
	return ls
}

// ---- matchCryptoMap alone

type mcmd struct {
	name, key, peer string
	seq             int
}

func encM(l []mcmd) string {
	var out []string
	for i, c := range l {
		out = append(out, fmt.Sprintf("%d~%s~%d~%s~%s", i, c.name, c.seq, c.key, c.peer))
	}
	return strings.Join(out, "#")
}

func (l *leanTie) askMatch(al, bl []mcmd) {
	conv := func(l []mcmd) []cisco.VerifVpnCmd {
		var out []cisco.VerifVpnCmd
		for i, c := range l {
			x := cisco.VerifVpnCmd{ID: i, Name: c.name, Seq: c.seq, Parsed: "crypto map $NAME $SEQ " + c.key}
			if strings.HasPrefix(c.key, "ipsec-isakmp dynamic ") {
				x.Parsed = "crypto map $NAME $SEQ ipsec-isakmp dynamic $REF"
				x.Ref = []string{strings.TrimPrefix(c.key, "ipsec-isakmp dynamic ")}
			}
			out = append(out, x)
		}
		return out
	}
	l.compareMatch(conv(al), conv(bl), al, bl)
}

func (l *leanTie) compareMatch(ha, hb []cisco.VerifVpnCmd, al, bl []mcmd) {
	calls, aborted := cisco.VerifMatchCryptoMap(ha, hb)
	impl := "abort"
	if !aborted {
		var cs []string
		for _, call := range calls {
			var as, bs []string
			for _, x := range call.A {
				as = append(as, fmt.Sprint(x.ID))
			}
			for _, x := range call.B {
				bs = append(bs, fmt.Sprintf("%d:%s:%d", x.ID, x.Name, x.Seq))
			}
			cs = append(cs, strings.Join(as, ",")+">"+strings.Join(bs, ","))
		}
		impl = "ok\t" + strings.Join(cs, ";")
	}
	line := "M\t" + encM(al) + "\t" + encM(bl)
	ans := l.drv.Ask(line)
	l.res.TracesVsImpl++
	l.res.Count("lean:match-compared")
	if aborted {
		l.res.Count("lean:match-abort")
	}
	if ans != impl {
		l.res.Disagree("vpn-matchCryptoMap", map[string]any{"encoded": line}, impl, ans)
	}
}

// askMatchIOS: one command per entry, the peer is found in the sub-commands (getPeer: `len(l) == 1 && l[0].sub != nil`).
func (l *leanTie) askMatchIOS(an string, ae []*iosEntry, bn string, be []*iosEntry) {
	conv := func(name string, es []*iosEntry) ([]cisco.VerifVpnCmd, []mcmd) {
		var hc []cisco.VerifVpnCmd
		var mc []mcmd
		for i, e := range es {
			x := cisco.VerifVpnCmd{ID: i, Name: name, Seq: e.Seq, Parsed: "crypto map $NAME $SEQ ipsec-isakmp"}
			peer := ""
			for _, s := range e.Subs {
				w := strings.Fields(s)
				switch {
				case len(w) == 5 && w[2] == "access-group":
					x.Sub = append(x.Sub, "set ip access-group $REF "+w[4])
				case len(w) == 3 && w[1] == "peer":
					x.Sub = append(x.Sub, s)
					if peer == "" {
						_, p, _ := strings.Cut(s, "set peer ")
						peer = "S:" + p
					}
				}
			}
			hc = append(hc, x)
			mc = append(mc, mcmd{name, "ipsec-isakmp", peer, e.Seq})
		}
		return hc, mc
	}
	ha, ma := conv(an, ae)
	hb, mb := conv(bn, be)
	l.compareMatch(ha, hb, ma, mb)
}

// matchTie feeds the crypto maps of the case (paired by position) to the bare function.
func (l *leanTie) matchTie(c cfgCase) {
	get := func(d *vdev) [][]mcmd {
		var out [][]mcmd
		for _, m := range d.kindObjects("cmap") {
			var l []mcmd
			for _, b := range d.blocksOf(m) {
				w := b.words()
				var seq int
				fmt.Sscan(w[3], &seq)
				key := strings.Join(w[4:], " ")
				peer := ""
				if _, p, found := strings.Cut(key, "set peer "); found {
					peer = "S:" + p
				}
				l = append(l, mcmd{m.name, key, peer, seq})
			}
			out = append(out, l)
		}
		return out
	}
	am, bm := get(c.dev), get(c.spoc)
	for i := range bm {
		if i < len(am) {
			l.askMatch(am[i], bm[i])
		}
	}
}

// finish: matchCryptoMap on inputs of its own (dynamic peers, entries without peer, colliding and huge numbers).
func (l *leanTie) finish() {
	r := l.ctx.Rng.Fork()
	n := l.ctx.N(1500, 20000)
	genSide := func(name string, dev bool) []mcmd {
		var out []mcmd
		ne := r.Intn(6)
		for i := 0; i < ne; i++ {
			seq := 1 + r.Intn(8)
			switch r.Intn(10) {
			case 0:
				seq = 65535 - r.Intn(4)
			case 1:
				seq = r.Intn(3)
			}
			var lines []string
			peer := ""
			switch k := r.Intn(20); {
			case k < 12:
				peer = "S:" + Pick(r, peerPool[:4])
				lines = append(lines, "set peer "+Pick(r, peerPool[:4]))
				peer = "S:" + strings.TrimPrefix(lines[0], "set peer ")
			case k < 19:
				d := fmt.Sprintf("name%d@example.com", 1+r.Intn(3))
				lines = append(lines, "ipsec-isakmp dynamic "+d)
				peer = "D:" + d
			}
			if r.Chance(50) {
				lines = append(lines, "set pfs")
			}
			if r.Chance(30) {
				lines = append(lines, "set nat-t-disable")
			}
			if r.Chance(30) {
				Shuffle(r, lines)
			}
			for _, ln := range lines {
				p := ""
				if strings.HasPrefix(ln, "set peer ") || strings.HasPrefix(ln, "ipsec-isakmp dynamic ") {
					p = peer
				}
				out = append(out, mcmd{name, ln, p, seq})
			}
		}
		if r.Chance(30) {
			Shuffle(r, out)
		}
		return out
	}
	for i := 0; i < n; i++ {
		al := genSide("dev-map", true)
		bl := genSide("spoc-map", false)
		if i%7 == 0 {
			// a crowded device: the counters have to skip
			al = nil
			for s := 1; s <= 3+r.Intn(5); s++ {
				al = append(al, mcmd{"dev-map", "set peer 10.9.9." + fmt.Sprint(s), "S:10.9.9." + fmt.Sprint(s), s})
			}
			for s := 65535; s > 65535-r.Intn(4); s-- {
				d := fmt.Sprintf("gone%d@example.com", s)
				al = append(al, mcmd{"dev-map", "ipsec-isakmp dynamic " + d, "D:" + d, s})
			}
		}
		l.askMatch(al, bl)
	}
}
