package main

// Tie with the Lean model (driver nadrv-c10). Filled in below; see docs/VPN.md.

import (
	. "verifharness/vhlib"
)

type leanTie struct {
	ctx *Ctx
	res *Result
}

func newLeanTie(ctx *Ctx, res *Result) *leanTie { return &leanTie{ctx: ctx, res: res} }
func (l *leanTie) check(c cfgCase, out string) {}
func (l *leanTie) finish()                     {}
func (l *leanTie) close()                      {}
