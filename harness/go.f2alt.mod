module verifharness

go 1.23.1

require (
	github.com/hknutzen/Netspoc-Approve/go v0.0.0
	github.com/hknutzen/testtxt v0.0.0-20240408182449-0168fe18ebfb
	github.com/pkg/diff v0.0.0-20210226163009-20ebb0f2a09e
	github.com/tailscale/goexpect v0.0.0-20210902213824-6e8c725cea41
)

require (
	github.com/google/goterm v0.0.0-20200907032337-555d40f16ae2 // indirect
	github.com/spf13/pflag v1.0.5 // indirect
	golang.org/x/crypto v0.35.0 // indirect
	golang.org/x/sys v0.30.0 // indirect
	golang.org/x/term v0.29.0 // indirect
	gopkg.in/yaml.v3 v3.0.1 // indirect
)

replace github.com/hknutzen/Netspoc-Approve/go => /tmp/wt-f2m/go
