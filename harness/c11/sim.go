package main

// Console device simulator with fault injection and a device state (spawned by the code under
// test through SIMULATE_ROUTER="<this binary> -devsim <dir>").  Dialogue and fault kinds are those
// of harness/c09/sim.go (so that NA/Spec/SessDevice.lean describes this device too); in addition
// every COMMAND line is applied to the device state of devstate.go, the configuration shown by
// `write term` / `sh run` / `ip route show` is the state's, and the transcript carries the state
// hash at the start (S0) and at the end (S1) and, per line, what the line was for the device.  It follows the conventions of the
// repository's testdata/simulate-cisco.pl: a preamble (with <!> marking "read one line
// here"), then for every line read: echo, table output, prompt "NAME#".
// Every line received is appended to <dir>/transcript; the fault point is marked.
//
// Position p of a fault: p = 0 is the preamble, p >= 1 is the reply to the p-th line received.

import (
	"bufio"
	"encoding/json"
	"fmt"
	"os"
	"path/filepath"
	"strings"
	"time"
)

type simCfg struct {
	Backend   string            `json:"backend"`
	Config    []string          `json:"config"` // initial configuration lines (ASA, IOS) / routes (Linux)
	Name      string            `json:"name"`
	Preamble  string            `json:"preamble"`
	Table     map[string]string `json:"table"`
	FaultPos  int               `json:"fault_pos"` // -1: none
	FaultKind string            `json:"fault_kind"`
	ErrText   string            `json:"err_text"`
}

type devSim struct {
	cfg    simCfg
	dir    string
	lines  chan string
	out    *bufio.Writer
	tr     *os.File
	nRead  int
	silent bool
	st     *devState
	// the device has asked a question (password, confirm) in a reply that was cut short after it:
	// the next lines are answers to it, not commands
	answerNext int
	// fault kind "question": the device answered a command with an interactive question instead of
	// its prompt; the next line is the answer, after it the conforming reply goes on
	pendingQ    string // callhome | confirm | more
	pendingRest string // the conforming reply of the command that was asked about
	answered    bool   // the line just read was the answer to pendingQ
	atCommand   bool   // fault() is called for the reply to a command of the command loop
}

// finish records the end of the session (the harness waits for this mark) and exits.
func (d *devSim) finish() {
	d.out.Flush()
	fmt.Fprintf(d.tr, "S1 %s\n", d.st.hash())
	fmt.Fprintf(d.tr, "X %d\n", d.nRead)
	d.tr.Close()
	os.Exit(0)
}

func (d *devSim) emit(s string) {
	if d.silent {
		return
	}
	s = strings.ReplaceAll(s, "\n", "\r\n")
	d.out.WriteString(s)
	d.out.Flush()
}

// readLine returns the next line the client wrote, records it, and returns (line, ok).
// When the harness says that the program under test is done (file "stop") and nothing more
// arrives, the session is over.
func (d *devSim) readLine(isCmd bool) (string, bool) {
	tick := time.NewTicker(5 * time.Millisecond)
	defer tick.Stop()
	idle := 0
	for {
		select {
		case line, ok := <-d.lines:
			if !ok {
				return "", false
			}
			line = strings.TrimRight(line, "\r\n")
			d.nRead++
			kind := "answer" // input to a question of the device (password, yes/no, confirm)
			if isCmd && d.pendingQ != "" {
				kind = d.st.applyAnswer(d.pendingQ, line)
				d.pendingQ = ""
				d.answered = true
			} else if isCmd && d.answerNext > 0 {
				d.answerNext--
			} else if isCmd {
				kind = d.st.applyLine(line)
			}
			fmt.Fprintf(d.tr, "L %d %s %s\n", d.nRead, kind, strings.ReplaceAll(line, "\t", " "))
			return line, true
		case <-tick.C:
			if _, err := os.Stat(filepath.Join(d.dir, "stop")); err == nil {
				idle++
				if idle >= 8 {
					d.finish()
				}
			}
		}
	}
}

func (d *devSim) mark(what string) {
	fmt.Fprintf(d.tr, "F %d %s\n", d.nRead, what)
}

// fault injects the configured fault in place of the reply to the line just read
// (echoLine is what a conforming device would echo, normal its conforming reply without prompt).
// It returns true if the conforming reply has been replaced.
func (d *devSim) fault(echoLine, normal string, promptAfter string) bool {
	if d.cfg.FaultPos != d.nRead {
		return false
	}
	more := strings.Contains(normal, "<!>") // the conforming reply reads further input
	if d.cfg.FaultKind == "truncated" && (promptAfter == "" || more) {
		// the conforming reply does not end with the standard prompt either: the truncation
		// is invisible, the failure is the silence that follows
		fmt.Fprintf(d.tr, "F %d %s\n", d.nRead+1, d.cfg.FaultKind)
	} else {
		d.mark(d.cfg.FaultKind)
	}
	prompt := d.cfg.Name + "#"
	chunk, _, _ := strings.Cut(normal, "<!>") // what a conforming device prints before it reads again
	switch d.cfg.FaultKind {
	case "errtext":
		d.emit(echoLine + d.cfg.ErrText + "\n" + prompt)
	case "warntext":
		d.emit(echoLine + "WARNING: something noteworthy\n" + prompt)
	case "infotext":
		d.emit(echoLine + "INFO: something\n" + prompt)
	case "warn_then_err":
		d.emit(echoLine + "WARNING: something noteworthy\n" + d.cfg.ErrText + "\n" + prompt)
	case "info_then_err":
		d.emit(echoLine + "INFO: something\n" + d.cfg.ErrText + "\n" + prompt)
	case "err_then_warn":
		d.emit(echoLine + d.cfg.ErrText + "\nWARNING: something noteworthy\n" + prompt)
	case "warns_then_err":
		d.emit(echoLine + "WARNING: first notice\nWARNING: second notice\nINFO: and an info\n" + d.cfg.ErrText + "\n" + prompt)
	case "warns_only":
		d.emit(echoLine + "WARNING: first notice\nWARNING: second notice\n" + prompt)
	case "info_then_warn":
		d.emit(echoLine + "INFO: something\nWARNING: something noteworthy\n" + prompt)
	case "savefail":
		// a failed save as an ASA prints it: fragments of the good answer, no [OK]
		d.emit(echoLine + "Building configuration...\nCryptochecksum: 1234abcd 5678ef01 2345abcd 6789ef01\n" +
			"%Error writing disk0:/.private/startup-config (No space left on device)\nError executing command\n[FAILED]\n" + prompt)
	case "savefail_ok":
		d.emit(echoLine + "Building configuration...\n%Error: device did not answer [OK] to the write request\n[FAILED]\n" + prompt)
	case "unexpected":
		d.emit(echoLine + "some unexpected output\n" + prompt)
	case "garbled":
		// only the echo is wrong; everything else as usual
		d.emit("xx")
		return false
	case "silence":
		d.silent = true
	case "rejected":
		// the configuration retrieval is answered in full, prompt and all, but with a configuration
		// the parser of the code under test rejects
		d.emit(echoLine + normal + rejectedConfig(d.cfg.Backend, len(d.cfg.Config)+len(d.cfg.Table)) + prompt)
	case "question":
		// An interactive question instead of the prompt.  None of the texts matches a pattern the
		// code under test waits for (no `#`, `>`, `password:`, `(yes/no`, no `?` at the end), so
		// code that does not know the question sees no prompt and gives up: for it the device is
		// silent from here on.  Code that types an answer is served: the device state reacts to the
		// answer as the device would, then the conforming reply follows.
		if !d.atCommand || more {
			// inside the login dialogue, or a command whose own reply asks for input (enable →
			// Password:): plain silence
			d.silent = true
			break
		}
		cmd := strings.TrimSpace(strings.TrimPrefix(strings.TrimSpace(echoLine), "do "))
		switch {
		case cmd == "configure terminal" && d.cfg.Backend == "ASA":
			d.pendingQ = "callhome"
			d.emit(echoLine + "\n***************************** NOTICE *****************************\n\n" +
				"Help to improve the ASA platform by enabling anonymous reporting,\n" +
				"which allows Cisco to securely receive minimal error and health\n" +
				"information from the device. To learn more about this feature,\n" +
				"please visit: http://www.cisco.com/go/smartcall\n\n" +
				"Would you like to enable anonymous error reporting to help improve\n" +
				"the product? [Y]es, [N]o, [A]sk later: ")
		case d.nRead%2 == 0:
			d.pendingQ = "confirm"
			d.emit(echoLine + "This may take a while. Continue [confirm]")
		default:
			d.pendingQ = "more"
			first, _, _ := strings.Cut(chunk, "\n")
			if strings.ContainsAny(first, "#>?") || strings.Contains(strings.ToLower(first), "assword") {
				first = "" // nothing the code under test could take for a prompt or a question it knows
			}
			d.emit(echoLine + first + "\n --More-- ")
		}
		d.pendingRest = normal
	case "truncated":
		if more {
			d.emit(echoLine + chunk)
			d.answerNext = strings.Count(normal, "<!>")
		} else {
			d.emit(echoLine + normal)
		}
		d.silent = true
	case "close":
		d.finish()
	default:
		return false
	}
	return true
}

// rejectedConfig: lines that make the device parsers of the code under test give up (each variant
// checked against the real parser: `drc FILE1 FILE2` answers "While reading file …: … references
// unknown …" / "Bad indentation in subcommands" / the run aborts with "Unexpected route").
func rejectedConfig(backend string, variant int) string {
	var l []string
	switch backend {
	case "IOS":
		l = []string{
			"interface Ethernet9\n crypto map missing-map\n",                                  // dangling reference
			"ip access-list extended garbled\n  permit ip any any\n deny ip any any\n",        // sub-commands with shrinking indentation
			"interface Ethernet9\n ip address 10.9.9.1 255.255.255.0\n crypto map gone-map\n", // dangling reference, more context
		}
	case "ASA":
		l = []string{
			"access-group missing_acl in interface inside\n",                                 // dangling reference
			"tunnel-group-map missing-map 10 some-group\n",                                   // dangling certificate map
			"object-group network garbled\n  description x\n network-object host 10.1.1.2\n", // bad indentation
			"crypto map missing 10 match address missing_acl\n",
		}
	default: // Linux: a route the parser does not understand
		l = []string{"10.99.0.0/16 dev eth7 weird\n", "unreachable 10.98.0.0/16\n"}
	}
	return l[variant%len(l)]
}

// sendWithReads prints text; at each <!> it reads a line and echoes it (as the perl simulator does).
func (d *devSim) sendWithReads(text, promptAfter string) (ok, faulted bool) {
	parts := strings.Split(text, "<!>")
	for i, p := range parts {
		d.emit(p)
		if i+1 < len(parts) {
			line, ok := d.readLine(false)
			if !ok {
				return false, false
			}
			rest := strings.Join(parts[i+1:], "<!>")
			if d.fault(line+"\n", rest, promptAfter) {
				// replaced the continuation; go on with the command loop
				return true, true
			}
			d.emit(line + "\n")
		}
	}
	return true, false
}

func runDevSim(dir string) {
	data, err := os.ReadFile(filepath.Join(dir, "sim.json"))
	if err != nil {
		fmt.Fprintln(os.Stderr, err)
		os.Exit(3)
	}
	d := &devSim{dir: dir, lines: make(chan string, 64), out: bufio.NewWriter(os.Stdout)}
	go func() {
		in := bufio.NewReader(os.Stdin)
		for {
			line, err := in.ReadString('\n')
			if line != "" {
				d.lines <- line
			}
			if err != nil {
				close(d.lines)
				return
			}
		}
	}()
	if err := json.Unmarshal(data, &d.cfg); err != nil {
		fmt.Fprintln(os.Stderr, err)
		os.Exit(3)
	}
	d.tr, _ = os.OpenFile(filepath.Join(dir, "transcript"), os.O_APPEND|os.O_CREATE|os.O_WRONLY, 0644)
	d.st = newDevState(d.cfg.Backend, d.cfg.Config)
	fmt.Fprintf(d.tr, "S0 %s\n", d.st.hash())
	defer d.finish()
	// The code under test never closes the pty of a session it aborts; do not linger.
	go func() {
		time.Sleep(20 * time.Second)
		os.Exit(0)
	}()
	prompt := d.cfg.Name + "#"
	pre := strings.TrimSuffix(d.cfg.Preamble, "\n")
	if d.cfg.FaultPos == 0 {
		d.mark(d.cfg.FaultKind)
		switch d.cfg.FaultKind {
		case "silence", "truncated":
			d.silent = true
		case "close":
			return
		default:
			d.emit("some unexpected output\n")
		}
	} else if ok, _ := d.sendWithReads(pre, ""); !ok {
		return
	}
	for {
		cmd, ok := d.readLine(true)
		if !ok {
			return
		}
		lookup := strings.TrimPrefix(cmd, "do ")
		out := d.cfg.Table[lookup]
		switch lookup {
		case "write term", "sh run":
			// the configuration the device shows is its state
			out = strings.Join(d.st.Running, "\n") + "\n"
			if len(d.st.Running) == 0 {
				out = ""
			}
		case "ip route show":
			out = strings.Join(d.st.Routes, "\n") + "\n"
			if len(d.st.Routes) == 0 {
				out = ""
			}
		}
		if lookup == "exit" {
			d.emit(cmd + "\n")
			return
		}
		if d.answered {
			// the answer to a question of the device: the reply of the command asked about goes on
			d.answered = false
			d.emit(cmd + "\n")
			ok, faulted := d.sendWithReads(d.pendingRest, prompt)
			if !ok {
				return
			}
			if !faulted {
				d.emit(prompt)
			}
			continue
		}
		d.atCommand = true
		replaced := d.fault(cmd+"\n", out, prompt)
		d.atCommand = false
		if replaced {
			continue
		}
		d.emit(cmd + "\n")
		ok, faulted := d.sendWithReads(out, prompt)
		if !ok {
			return
		}
		if !faulted {
			d.emit(prompt)
		}
	}
}
