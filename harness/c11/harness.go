package main

// The harness proper: scenarios (all five device kinds, with differences between device and
// target configuration) x every step of the compare dialogue x every fault kind, each run
// against the real code (worker processes) and against the Lean session model (nadrv-c11, line
// `SESS`).  Oracle (no model of the code involved): the DEVICE classified no received line as a
// change or save, its state hash is the same before and after, no start-up file was copied, no
// change log was written; and the Lean SPECIFICATION's vocabulary (nadrv-c11, line `VOCAB`)
// contains every line the real code put on the wire.

import (
	"bufio"
	"encoding/json"
	"fmt"
	"io"
	"os"
	"os/exec"
	"sort"
	"strconv"
	"strings"
	"sync"
	"time"

	. "verifharness/vhlib"
)

// ---------------------------------------------------------------- worker pool (as harness/c09)

type worker struct {
	cmd *exec.Cmd
	in  io.WriteCloser
	out *bufio.Reader
}

func startWorker() *worker {
	cmd := exec.Command(selfExe(), "-c11worker")
	in, _ := cmd.StdinPipe()
	outp, _ := cmd.StdoutPipe()
	cmd.Stderr = io.Discard
	if err := cmd.Start(); err != nil {
		panic(err)
	}
	return &worker{cmd, in, bufio.NewReaderSize(outp, 1<<22)}
}

// run: the answer of the worker, or an error if the worker process ended or did not answer in time
func (w *worker) run(c CaseIn, limit time.Duration) (CaseOut, error) {
	data, _ := json.Marshal(c)
	if _, err := w.in.Write(append(data, '\n')); err != nil {
		return CaseOut{}, fmt.Errorf("worker died: %v", err)
	}
	type answer struct {
		line []byte
		err  error
	}
	ch := make(chan answer, 1)
	go func() {
		line, err := w.out.ReadBytes('\n')
		ch <- answer{line, err}
	}()
	select {
	case a := <-ch:
		if a.err != nil {
			return CaseOut{}, fmt.Errorf("worker died: %v", a.err)
		}
		var o CaseOut
		if err := json.Unmarshal(a.line, &o); err != nil {
			return CaseOut{}, fmt.Errorf("worker died: %v", err)
		}
		return o, nil
	case <-time.After(limit):
		w.cmd.Process.Kill()
		return CaseOut{}, fmt.Errorf("worker hung: no result after %v", limit)
	}
}

// caseLimit: a fault-free run takes well under a second, a silent device costs the time-outs of the
// scenario (1 s / 3 s times the factor), a few of them in a row
func caseLimit(c CaseIn) time.Duration {
	k := c.TScale
	if k < 1 {
		k = 1
	}
	return time.Duration(8+6*k) * time.Second
}

// runOne: the case on worker *w in a directory of its own.  If the worker ends or blocks (the code
// under test called os.Exit, crashed the runtime, hangs) the outcome is what the simulator
// journalled in that directory, and a new worker is started.
func runOne(w **worker, c CaseIn) CaseOut {
	work, err := os.MkdirTemp("", "c11case")
	if err != nil {
		panic(err)
	}
	defer os.RemoveAll(work)
	c.Work = work
	o, err := (*w).run(c, caseLimit(c))
	if err != nil {
		(*w).stop()
		o = recoverOutcome(c, work, err.Error())
		*w = startWorker()
	}
	return o
}

func (w *worker) stop() {
	w.in.Close()
	done := make(chan struct{})
	go func() { w.cmd.Wait(); close(done) }()
	select {
	case <-done:
	case <-time.After(3 * time.Second):
		w.cmd.Process.Kill()
	}
}

func runAll(cases []CaseIn, n int) []CaseOut {
	outs := make([]CaseOut, len(cases))
	idx := make(chan int, len(cases))
	for i := range cases {
		idx <- i
	}
	close(idx)
	var wg sync.WaitGroup
	for k := 0; k < n; k++ {
		wg.Add(1)
		go func() {
			defer wg.Done()
			w := startWorker()
			defer func() { w.stop() }()
			for i := range idx {
				outs[i] = runOne(&w, cases[i])
			}
		}()
	}
	wg.Wait()
	return outs
}

// ---------------------------------------------------------------- canonical transcript

func isHTTP(backend string) bool { return backend == "PAN-OS" || backend == "NSX" }

// canonLine maps a line the device received to the vocabulary of the model / specification.
func canonLine(backend, l string) string {
	switch backend {
	case "PAN-OS":
		switch {
		case strings.Contains(l, "type=keygen"):
			return "keygen"
		case strings.Contains(l, "high-availability"):
			return "show ha"
		case strings.Contains(l, "action=get"):
			return "get config"
		case strings.Contains(l, "type=commit"):
			return "commit"
		case strings.Contains(l, "<show><jobs>"):
			return "show jobs"
		}
		return strings.TrimPrefix(l, "GET /api/?key=K&")
	case "NSX":
		switch {
		case l == "POST /api/session/create":
			return "session create"
		case strings.HasPrefix(l, "GET ") && strings.HasSuffix(l, "/gateway-policies"):
			return "gateway-policies"
		case strings.HasPrefix(l, "GET ") && strings.Contains(l, "/gateway-policies/"):
			return "policy"
		case strings.HasPrefix(l, "GET ") && strings.Contains(l, "/infra/services"):
			return "services"
		case strings.HasPrefix(l, "GET ") && strings.Contains(l, "/default/groups"):
			return "groups"
		}
		return l
	}
	if l == "secret" {
		return "<secret>"
	}
	return l
}

// number of packets of the script `compare` logged with ShowChanges
func planPackets(backend, cmp string) (n int, ipt bool) {
	if strings.TrimSpace(cmp) == "" {
		return 0, false
	}
	lines := strings.Split(strings.TrimRight(cmp, "\n"), "\n")
	switch backend {
	case "Linux":
		for _, l := range lines {
			if strings.HasPrefix(l, "ip route") {
				n++
			} else {
				ipt = true
			}
		}
	case "NSX":
		n = (len(lines) + 1) / 2
	default:
		for _, l := range lines {
			if l != "" {
				n++
			}
		}
	}
	return
}

func encPlan(n int) string {
	var pk []string
	for i := 0; i < n; i++ {
		pk = append(pk, fmt.Sprintf("t%d", i))
	}
	return strings.Join(pk, "|")
}

func shapeStr(m map[string]int) string {
	var ks []string
	for k := range m {
		ks = append(ks, k)
	}
	sort.Strings(ks)
	var l []string
	for _, k := range ks {
		l = append(l, fmt.Sprintf("%s=%d", k, m[k]))
	}
	return strings.Join(l, ",")
}

func parseModel(ans string) map[string]string {
	m := map[string]string{}
	i := strings.Index(ans, " sends=")
	if i >= 0 {
		m["sends"] = ans[i+7:]
		ans = ans[:i]
	}
	for _, f := range strings.Fields(ans) {
		k, v, _ := strings.Cut(f, "=")
		m[k] = v
	}
	return m
}

// ---------------------------------------------------------------- scenario sets

// every scenario has differences between the device and the target configuration unless said otherwise
func quickParams() []ScenParams {
	return []ScenParams{
		{Backend: "ASA", Adds: 2, Replaces: 1, Dels: 1},
		{Backend: "ASA", Adds: 1, YesNo: true, EnablePW: true, PagerOff: true, Width511: true},
		{Backend: "IOS", Adds: 1, Replaces: 1, Dels: 1},
		{Backend: "IOS", Dels: 2, YesNo: true, EnablePW: true},
		{Backend: "Linux", Adds: 1, Replaces: 1, IPTables: true},
		{Backend: "Linux", Dels: 1, YesNo: true},
		{Backend: "PAN-OS", Cmds: 3, HA: "active"},
		{Backend: "PAN-OS", Cmds: 2, Vsys: 2},
		{Backend: "NSX", Cmds: 3},
		{Backend: "NSX", Cmds: 1},
	}
}

func randomParams(r *RNG, backend string) ScenParams {
	p := ScenParams{Backend: backend}
	switch backend {
	case "ASA", "IOS", "Linux":
		p.Adds, p.Replaces, p.Dels = r.Intn(4), r.Intn(3), r.Intn(3)
		p.YesNo, p.EnablePW = r.Chance(30), r.Chance(30) && backend != "Linux"
		if backend == "ASA" {
			p.PagerOff, p.Width511 = r.Chance(40), r.Chance(40)
		}
		if backend == "Linux" {
			p.IPTables = r.Chance(50)
		}
		if r.Chance(10) {
			p.Adds, p.Replaces, p.Dels, p.IPTables = 0, 0, 0, false // nothing to do: compare says "unchanged"
		}
	case "PAN-OS":
		p.Cmds = 2 + r.Intn(5)
		p.Vsys = 1 + r.Intn(3)
		if p.Vsys > 1 && p.Cmds > 4 {
			p.Cmds = 4
		}
		if r.Chance(50) {
			p.HA = "active"
		}
	case "NSX":
		p.Cmds = 1 + r.Intn(6)
	}
	return p
}

func kindsFor(backend string) []string {
	if isHTTP(backend) {
		return []string{"httpstatus", "malformed", "errtext", "close", "silence"}
	}
	return []string{"errtext", "unexpected", "garbled", "close", "warntext", "silence", "truncated", "question"}
}

// question: the device answers a command with an interactive question instead of its prompt (the
// ASA anonymous-reporting notice on the first `configure terminal`, a `[confirm]`, a `--More--`
// pager; sim.go).  The unchanged code knows none of them and gives up after its time-out, the
// device untouched — for the session model that device is silent from there on.
func modelKind(k string) string {
	if k == "question" {
		return "silence"
	}
	return k
}

// rejected: the configuration retrieval is answered with a configuration the parser of the code
// rejects (sim.go rejectedConfig).  Only at the retrieval commands.  (HTTP backends: an undecodable
// configuration answer is kind `malformed` at `get config` / the NSX GETs.)
func retrievalLine(backend, l string) bool {
	switch backend {
	case "ASA":
		return l == "write term"
	case "IOS":
		return l == "sh run"
	case "Linux":
		return l == "ip route show"
	}
	return false
}

func slowKind(k string) bool { return k == "silence" || k == "truncated" || k == "question" }

// ---------------------------------------------------------------- main run

var tools = []string{"doapprove", "drc", "drc-nolog"}

func run(ctx *Ctx) *Result {
	res := NewResult()
	res.Rule = "compare run with differences between device and target configuration or with an injected fault; distinct by (scenario, tool, position, kind)"
	drv := ctx.StartNadrv("c11")
	defer drv.Close()
	nw := 16

	if ctx.Replay != "" {
		var c CaseIn
		if err := ReadReplay(ctx.Replay, &c); err != nil || c.Scen.Backend == "" {
			// not a case of this harness (C11 has two: c06 and c11)
			return res
		}
		evalCases(ctx, res, drv, []CaseIn{c}, 1, true)
		return res
	}

	params := quickParams()
	nRandom := ctx.N(0, 30)
	backends := []string{"ASA", "IOS", "Linux", "PAN-OS", "NSX"}
	seen := map[string]bool{}
	for _, p := range params {
		seen[p.id()] = true
	}
	// quick: two seeded scenarios on top of the fixed ones
	for tries := 0; len(params) < len(quickParams())+nRandom+2 && tries < 10000; tries++ {
		p := randomParams(ctx.Rng, backends[ctx.Rng.Intn(len(backends))])
		if seen[p.id()] {
			continue
		}
		seen[p.id()] = true
		params = append(params, p)
	}
	var scens []Scenario
	for _, p := range params {
		scens = append(scens, buildScenario(p))
	}
	res.CountN("scenarios", len(scens))

	// 1. baselines: compare without fault (length of the dialogue, the script)
	var bl []CaseIn
	for _, s := range scens {
		bl = append(bl, CaseIn{Scen: s, Tool: "doapprove", FaultPos: -1})
	}
	blOut := runBaselines(res, bl, nw)
	judgeReference(res, drv, bl, blOut, refSeen)

	// 2. the matrix: every position x every kind
	var cases []CaseIn
	for i, s := range scens {
		if blOut[i].Exit != 0 || blOut[i].Panic != "" {
			if e := envClass(bl[i], blOut[i]); e != "" {
				// the length of the dialogue is not known: no fault matrix, only the fault-free runs
				res.Count("scenario_without_fault_matrix:" + e)
				for _, t := range tools {
					cases = append(cases, CaseIn{Scen: s, Tool: t, FaultPos: -1})
				}
				continue
			}
		}
		n := len(blOut[i].Lines)
		if n > 0 && blOut[i].Lines[n-1] == "exit" {
			n--
		}
		res.CountN("positions", n+1)
		for _, t := range tools {
			cases = append(cases, CaseIn{Scen: s, Tool: t, FaultPos: -1})
		}
		first := 1
		if !isHTTP(s.Backend) {
			first = 0
		}
		for pos := first; pos <= n; pos++ {
			for ki, k := range kindsFor(s.Backend) {
				if pos == 0 && (k == "errtext" || k == "garbled" || k == "warntext") {
					continue
				}
				// a question at the step that enters configuration mode: always (the one place where a
				// compare session is inside configuration mode, and where real devices do ask)
				confStep := k == "question" && pos >= 1 && pos <= len(blOut[i].Lines) && blOut[i].Lines[pos-1] == "configure terminal"
				if slowKind(k) && !ctx.Thorough() && (pos+i+ki)%3 != 0 && !confStep {
					continue // a timeout costs 1-3 s: every third position in the quick tier
				}
				cases = append(cases, CaseIn{Scen: s, Tool: tools[(pos+ki+i)%len(tools)], FaultPos: pos, FaultKind: k})
			}
			if pos >= 1 && pos <= len(blOut[i].Lines) && retrievalLine(s.Backend, blOut[i].Lines[pos-1]) {
				for _, t := range tools {
					cases = append(cases, CaseIn{Scen: s, Tool: t, FaultPos: pos, FaultKind: "rejected"})
				}
			}
		}
	}
	evalCases(ctx, res, drv, cases, nw, false)
	res.Exhaustive = false
	return res
}

// a baseline (no fault, conforming device) must end with exit status 0; on a loaded machine the
// 1-second timeouts of the scenarios can strike: such runs are repeated
func runBaselines(res *Result, cases []CaseIn, nw int) []CaseOut {
	outs := runAll(cases, nw)
	hung := map[int]int{}
	for attempt := 0; attempt < 2; attempt++ {
		var again []int
		for i, o := range outs {
			if cases[i].FaultPos == -1 && (o.Exit != 0 || o.Panic != "") {
				if strings.HasPrefix(o.Panic, "worker hung") {
					hung[i]++
				}
				changed := o.Hash0 != "" && o.Hash1 != "" && o.Hash0 != o.Hash1
				if hung[i] >= 2 || changed {
					continue // not the environment's doing: the run is judged as it is
				}
				again = append(again, i)
			}
		}
		if len(again) == 0 {
			break
		}
		res.CountN("baseline_rerun", len(again))
		var cs []CaseIn
		for _, i := range again {
			c := cases[i]
			c.TScale = rerunScale
			cs = append(cs, c)
		}
		os2 := runAll(cs, 2) // two at a time, with long time-outs
		for k, i := range again {
			outs[i] = os2[k]
		}
	}
	return outs
}

// ---------------------------------------------------------------- environment failures
//
// The real code runs in worker processes with a pty per console session and 1 s / 3 s time-outs
// while many other checks use the machine.  What the ENVIRONMENT does to a run is not a statement
// about the code: a run that could not get a pty, a worker that died, a time-out although the
// simulated device was not told to be silent.  Such a case is INCONCLUSIVE: it is run again
// serially with time-outs x rerunScale; only what shows again there is reported.

const rerunScale = 5

// envClass: "" or why the outcome of the run says nothing about the code under test
func envClass(c CaseIn, o CaseOut) string {
	all := strings.ToLower(o.Panic + "\n" + o.Stderr + "\n" + o.Log + "\n" + o.Stdout)
	if strings.HasPrefix(o.Panic, "worker died") || strings.HasPrefix(o.Panic, "worker hung") || strings.Contains(o.Panic, "bad case json") {
		return "worker_died"
	}
	for _, m := range []string{"/dev/ptmx", "no space left on device", "resource temporarily unavailable",
		"too many open files", "cannot allocate memory", "fork/exec", "out of memory"} {
		if strings.Contains(all, m) {
			return "resources"
		}
	}
	for _, m := range []string{"timer expired", "client.timeout exceeded", "i/o timeout", "deadline exceeded", "handshake timeout"} {
		if strings.Contains(all, m) {
			silenced := (c.FaultKind == "silence" || c.FaultKind == "truncated" || c.FaultKind == "question") && o.FaultAt >= 0
			if !silenced {
				return "timeout_without_injected_silence"
			}
		}
	}
	return ""
}

// scaleFor: time-out factor for the parallel phase from how long fault-free compare runs take here
// (≈ 0.1–0.3 s on an idle machine)
func scaleFor(outs []CaseOut) int {
	var ms []int64
	for _, o := range outs {
		if o.WallMs > 0 {
			ms = append(ms, o.WallMs)
		}
	}
	if len(ms) == 0 {
		return 1
	}
	sort.Slice(ms, func(i, j int) bool { return ms[i] < ms[j] })
	switch med := ms[len(ms)/2]; {
	case med > 2500:
		return 4
	case med > 900:
		return 2
	}
	return 1
}

// runSerial: one worker, one case after the other, until the deadline; done[i] says whether case i was run
func runSerial(cases []CaseIn, deadline time.Time) ([]CaseOut, []bool) {
	outs := make([]CaseOut, len(cases))
	done := make([]bool, len(cases))
	if len(cases) == 0 {
		return outs, done
	}
	w := startWorker()
	defer func() { w.stop() }()
	for i, c := range cases {
		if time.Now().After(deadline) {
			break
		}
		outs[i], done[i] = runOne(&w, c), true
	}
	return outs, done
}

// hard: a fact about what the DEVICE received or about its state — a change or save sent under
// compare, the state hash changed, a start-up file copied, a change log written, a line outside the
// compare vocabulary, configuration mode misused.  No pty shortage, time-out or dead worker can make
// the code send something: a hard finding is reported from whichever run shows it, whatever the
// environment did to that run, and is never re-judged.
type finding struct {
	sig  map[string]any
	what string
	hard bool
}

// deviceFindings: what the device received and what became of its state, judged without any model of
// the code (oracle 1: devstate.go; oracle 2: the vocabulary and the configuration-mode automaton of
// NA/Spec/C11Sess.lean through nadrv-c11 VOCAB).  Used for every run, the fault-free reference runs
// included.
func deviceFindings(drv *Nadrv, c CaseIn, o CaseOut) ([]finding, map[string]string) {
	b := c.Scen.Backend
	var fs []finding
	for k, kd := range o.Kinds {
		if kd == "change" || kd == "save" {
			fs = append(fs, finding{map[string]any{"pred": "compare_sent_" + kd, "backend": b},
				fmt.Sprintf("compare sent %q, which the device executes as a %s (line %d of the dialogue)", o.Lines[k], kd, k+1), true})
			break
		}
	}
	if o.Hash0 != "" && o.Hash1 != "" && o.Hash0 != o.Hash1 {
		fs = append(fs, finding{map[string]any{"pred": "device_state_changed", "backend": b},
			fmt.Sprintf("state hash of the device before %s, after %s", o.Hash0, o.Hash1), true})
	}
	if o.Scp {
		fs = append(fs, finding{map[string]any{"pred": "compare_copied_startup_file", "backend": b}, "compare executed scp", true})
	}
	if o.Change {
		fs = append(fs, finding{map[string]any{"pred": "compare_wrote_change_log", "backend": b},
			"compare created the .change log of an approve run", true})
	}
	var implSends []string
	for _, l := range o.Lines {
		implSends = append(implSends, canonLine(b, l))
	}
	v := drv.Ask("VOCAB\t" + b + "\t" + strings.Join(implSends, "\x1f"))
	vm := parseModel(v)
	if vm["ok"] != "1" {
		fs = append(fs, finding{map[string]any{"pred": "line_outside_compare_vocabulary", "backend": b},
			"the real compare run sent a line that NA.Spec.C11.allowedLines does not contain: " + v, true})
	}
	if vm["blk"] == "bad" || (vm["blk"] != "out" && o.Exit == 0) {
		fs = append(fs, finding{map[string]any{"pred": "config_mode_not_only_terminal_width", "backend": b},
			"in configuration mode the real compare run sent something else than the terminal width, or it ended inside configuration mode: " + v,
			vm["blk"] == "bad"})
	}
	return fs, vm
}

// judgeReference: the fault-free reference runs are runs of compare like any other
func judgeReference(res *Result, drv *Nadrv, cases []CaseIn, outs []CaseOut, seen map[string]bool) {
	for i, c := range cases {
		fs, _ := deviceFindings(drv, c, outs[i])
		for _, f := range fs {
			key := fmt.Sprintf("%s|%s|%d|%s|%v", c.Scen.ID, c.Tool, c.FaultPos, c.FaultKind, f.sig["pred"])
			if f.hard && !seen[key] {
				seen[key] = true
				res.Count("hard_finding_in_reference_run")
				res.Fail(f.sig, f.what, c)
			}
		}
	}
}

var refSeen = map[string]bool{}

type judgement struct {
	impl, model, ans string
	roBroken         bool
	fails            []finding
	blk              string
}

func (j judgement) bad() bool { return j.impl != j.model || j.roBroken || len(j.fails) > 0 }

func (j judgement) hard() bool {
	for _, f := range j.fails {
		if f.hard {
			return true
		}
	}
	return false
}

// evalCases: scripts via real compare runs, then real runs, model runs, comparison, oracle.
func evalCases(ctx *Ctx, res *Result, drv *Nadrv, cases []CaseIn, nw int, verbose bool) {
	type plans struct {
		g, e       int
		gIpt, eIpt bool
	}
	pl := map[string]*plans{}
	var pc []CaseIn
	var pk []string
	for _, c := range cases {
		id := c.Scen.ID
		if _, ok := pl[id]; ok {
			continue
		}
		pl[id] = &plans{}
		pc = append(pc, CaseIn{Scen: c.Scen, Tool: "doapprove", FaultPos: -1})
		pk = append(pk, id)
	}
	po := runBaselines(res, pc, nw)
	// (ASA, IOS) the script against a retrieval that returned unexpected text: the device looks empty
	var pc2 []CaseIn
	var pk2 []string
	for i, id := range pk {
		pl[id].g, pl[id].gIpt = planPackets(pc[i].Scen.Backend, po[i].CmpLog)
		if b := pc[i].Scen.Backend; b == "ASA" || b == "IOS" {
			pos := 0
			for j, l := range po[i].Lines {
				if l == "write term" || l == "sh run" {
					pos = j + 1
				}
			}
			c := pc[i]
			c.FaultPos, c.FaultKind = pos, "unexpected"
			pc2 = append(pc2, c)
			pk2 = append(pk2, id)
		}
	}
	po2 := runAll(pc2, nw)
	hung2 := map[int]int{}
	for attempt := 0; attempt < 2; attempt++ {
		var again []int
		for i, o := range po2 {
			if o.Exit != 0 {
				if strings.HasPrefix(o.Panic, "worker hung") {
					hung2[i]++
				}
				if hung2[i] >= 2 || (o.Hash0 != "" && o.Hash1 != "" && o.Hash0 != o.Hash1) {
					continue // not the environment's doing
				}
				again = append(again, i)
			}
		}
		if len(again) == 0 {
			break
		}
		res.CountN("baseline_rerun", len(again))
		var cs []CaseIn
		for _, i := range again {
			c := pc2[i]
			c.TScale = rerunScale
			cs = append(cs, c)
		}
		os2 := runAll(cs, 2)
		for k, i := range again {
			po2[i] = os2[k]
		}
	}
	for i, id := range pk2 {
		pl[id].e, pl[id].eIpt = planPackets(pc2[i].Scen.Backend, po2[i].CmpLog)
	}
	judgeReference(res, drv, pc, po, refSeen)
	judgeReference(res, drv, pc2, po2, refSeen)
	// a scenario whose fault-free reference run could not be had (no pty, time-outs even serially
	// with long time-outs) has no script to hand to the model: all its cases are inconclusive.
	// (A reference run that fails for a reason the environment does not explain is kept: then the
	// model and the oracle judge what the code did.)
	envScen := map[string]string{}
	for i, id := range pk {
		if po[i].Exit != 0 || po[i].Panic != "" {
			if e := envClass(pc[i], po[i]); e != "" {
				envScen[id] = e
			}
		}
	}
	for i, id := range pk2 {
		if po2[i].Exit != 0 || po2[i].Panic != "" {
			if e := envClass(pc2[i], po2[i]); e != "" {
				envScen[id] = e
			}
		}
	}

	judge := func(c CaseIn, o CaseOut) judgement {
		var j judgement
		p := pl[c.Scen.ID]
		b := c.Scen.Backend
		fp := "-"
		if c.FaultPos >= 0 {
			fp = strconv.Itoa(c.FaultPos)
		}
		kind := modelKind(c.FaultKind)
		if kind == "" {
			kind = "-"
		}
		line := strings.Join([]string{"SESS", b, shapeStr(c.Scen.Shape), encPlan(p.g), encPlan(p.e),
			strconv.Itoa(b2i(p.gIpt)), strconv.Itoa(b2i(p.eIpt)), fp, kind, "50"}, "\t")
		j.ans = drv.Ask(line)
		m := parseModel(j.ans)

		// ---- implementation, canonicalised
		var implSends []string
		for _, l := range o.Lines {
			implSends = append(implSends, canonLine(b, l))
		}
		implErr := b2i(strings.Contains(o.Log+o.Stderr, "ERROR>>>"))
		implChg := b2i(strings.Contains(o.Log+o.Stderr+o.Stdout, "comp: ***"))
		j.impl = fmt.Sprintf("exit=%d err=%d chg=%d sends=%s", o.Exit, implErr, implChg, strings.Join(implSends, ";"))

		// ---- model, canonicalised
		var modelSends []string
		if m["sends"] != "" {
			for _, s := range strings.Split(m["sends"], ";") {
				_, ls, _ := strings.Cut(s, ":")
				modelSends = append(modelSends, strings.Split(ls, "~")...)
			}
		}
		if c.FaultKind == "close" && o.FaultAt >= 0 && len(modelSends) > o.FaultAt && !isHTTP(b) {
			modelSends = modelSends[:o.FaultAt] // a closed device does not record what is still written to it
		}
		j.model = fmt.Sprintf("exit=%s err=%s chg=%s sends=%s", m["dexit"], m["err"], m["chg"], strings.Join(modelSends, ";"))
		if j.impl != j.model && j.impl+";exit" == j.model {
			// goexpect hands "exit" to its writer goroutine and the program ends: the final
			// clean-up line can be lost before it reaches the pty (see docs/C09.md)
			res.Count("final_exit_line_not_observed")
			j.impl = j.model
		}
		j.roBroken = m["ro"] != "1" // the theorem compare_session_readonly says this cannot happen

		// ---- oracle 1 (the device's own view, devstate.go) and oracle 2 (the Lean specification's
		// vocabulary on the real transcript): facts about what the device received
		if o.Panic != "" {
			j.fails = append(j.fails, finding{map[string]any{"pred": "go_panic", "backend": b}, "runtime panic: " + o.Panic, false})
		}
		hf, vm := deviceFindings(drv, c, o)
		j.fails = append(j.fails, hf...)
		j.blk = vm["blk"]
		if !(c.FaultKind == "close" && !isHTTP(b)) && m["blk"] != vm["blk"] {
			j.model += " blk=" + m["blk"]
			j.impl += " blk=" + vm["blk"]
		}
		return j
	}

	// time-outs of the parallel phase follow the speed of this machine now
	base := scaleFor(po)
	res.Count(fmt.Sprintf("timeout_scale_parallel:%d", base))
	for i := range cases {
		if cases[i].TScale == 0 && base > 1 {
			cases[i].TScale = base
		}
	}
	outs := runAll(cases, nw)
	js := make([]judgement, len(cases))
	for i, c := range cases {
		js[i] = judge(c, outs[i])
	}
	// What looks wrong is run again SERIALLY with long time-outs (the machine is shared, a pty or a
	// process slot may have been missing, a 1 s time-out may have struck): a defect of the code
	// under test shows again, an accident of the environment does not.  Cases whose outcome is
	// explained by the environment are re-run last; the re-run has a wall budget; a case that
	// could not be re-run, or whose re-run failed for lack of resources again, is inconclusive if
	// the environment explains its outcome and is reported as it is otherwise.
	inconclusive := map[int]string{}
	hardOnly := map[int]bool{} // only the hard findings of the case are reported (the model had no proper input)
	var suspects []int
	for i := range cases {
		if e, ok := envScen[cases[i].Scen.ID]; ok {
			if js[i].hard() {
				hardOnly[i] = true
			} else {
				inconclusive[i] = "no_reference_run:" + e
			}
		} else if js[i].bad() && !js[i].hard() {
			suspects = append(suspects, i) // a case with a hard finding is final as it is
		}
	}
	if len(suspects) > 0 {
		sort.SliceStable(suspects, func(a, b int) bool {
			return envClass(cases[suspects[a]], outs[suspects[a]]) == "" && envClass(cases[suspects[b]], outs[suspects[b]]) != ""
		})
		budget := 25 * time.Second
		if ctx.Thorough() {
			budget = 240 * time.Second
		}
		if ctx.Replay != "" {
			budget = 120 * time.Second
		}
		deadline := time.Now().Add(budget)
		res.CountN("suspect_first_run", len(suspects))
		pending := suspects
		for round, scale := range []int{rerunScale, 2 * rerunScale} {
			if len(pending) == 0 {
				break
			}
			var cs []CaseIn
			for _, i := range pending {
				c := cases[i]
				c.TScale = scale
				cs = append(cs, c)
			}
			os2, done := runSerial(cs, deadline)
			var next []int
			for k, i := range pending {
				first := envClass(cases[i], outs[i])
				if !done[k] {
					// no budget left.  Never re-run: inconclusive if the environment explains the
					// outcome, else reported as it is.  Re-run once already (bad with 5 s / 15 s,
					// alone on a worker): reported in that form.
					if round == 0 && first != "" {
						inconclusive[i] = first + "/not_rerun"
					}
					continue
				}
				res.Count("rerun_serial")
				j2 := judge(cs[k], os2[k])
				switch e2 := envClass(cs[k], os2[k]); {
				case j2.hard():
					// a fact about the device, whichever run shows it
					outs[i], js[i] = os2[k], j2
					delete(inconclusive, i)
				case !j2.bad():
					// A re-run can confirm a verdict, it cannot replace one: the first run looked
					// wrong, this one does not — the case is not judged (counted, no evaluation).
					if first == "" {
						first = "unexplained"
					}
					inconclusive[i] = "first_run_not_reproduced:" + first
				case e2 == "resources":
					inconclusive[i] = e2
					next = append(next, i)
				case e2 != "" && round == 0:
					// a dead / hung worker or a time-out with 5 s / 15 s, serially: once more with
					// 10 s / 30 s; what shows three times, the last two alone on a worker, is the code's
					outs[i], js[i] = os2[k], j2
					delete(inconclusive, i)
					next = append(next, i)
				default:
					// reproduced with long time-outs, alone on a worker: reported, in the form that reproduces
					outs[i], js[i] = os2[k], j2
					delete(inconclusive, i)
				}
			}
			pending = next
		}
	}
	nInc := 0
	for i := range inconclusive {
		if !js[i].hard() {
			nInc++
		}
	}
	res.CountN("cases_planned", len(cases))
	res.CountN("cases_inconclusive", nInc)

	for i, c := range cases {
		o := outs[i]
		j := js[i]
		p := pl[c.Scen.ID]
		b := c.Scen.Backend
		kind := c.FaultKind
		if kind == "" {
			kind = "-"
		}
		if why, ok := inconclusive[i]; ok && !j.hard() {
			// says nothing about the code: neither an evaluation nor a disagreement
			res.Count("inconclusive:" + why)
			if verbose {
				fmt.Fprintf(os.Stderr, "INCONCLUSIVE (%s): %s\n", why, j.impl)
			}
			continue
		}
		canon := fmt.Sprintf("%s|%s|%d|%s", c.Scen.ID, c.Tool, c.FaultPos, c.FaultKind)
		res.Eval(canon, c.FaultPos >= 0 || p.g > 0 || p.gIpt)
		res.Count("backend:" + b)
		res.Count("kind:" + kind)
		res.Count("tool:" + c.Tool)
		res.Count(fmt.Sprintf("script_packets:%d", p.g))
		if c.FaultPos >= 0 {
			res.Count(fmt.Sprintf("fault_pos:%02d", c.FaultPos))
		}
		res.TracesVsImpl++
		if j.impl != j.model && !hardOnly[i] {
			res.Disagree("c11-compare-session", c, j.impl, j.model)
		}
		if j.roBroken {
			res.Disagree("c11-model-readonly", c, "n/a", j.ans)
		}
		for _, f := range j.fails {
			if f.hard || !hardOnly[i] {
				res.Fail(f.sig, f.what, c)
			}
		}
		if o.Hash0 == "" || o.Hash1 == "" {
			res.Count("state_hash_missing")
		} else if o.Hash0 == o.Hash1 {
			res.Count("state_hash_equal")
		}
		for _, k := range o.Kinds {
			res.Count("device_saw:" + k)
		}
		res.Count("config_mode_at_end:" + j.blk)
		if verbose {
			fmt.Fprintf(os.Stderr, "impl : %s\nmodel: %s\nkinds: %v hash %s -> %s\n", j.impl, j.model, o.Kinds, o.Hash0, o.Hash1)
		}
		if i < 3 {
			res.Sample(map[string]any{"scenario": c.Scen.ID, "pos": c.FaultPos, "kind": c.FaultKind, "impl": j.impl})
		}
	}
}
