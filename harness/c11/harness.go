package main

// The harness proper: scenarios (all five device kinds, with differences between device and
// target configuration) x every step of the compare dialogue x every fault kind, each run
// against the real code (worker processes) and against the Lean session model (nadrv-c11, line
// `SESS`).  Oracle (no model of the code involved): the DEVICE classified no received line as a
// change or save, its state hash is the same before and after, no start-up file was copied, no
// change log was written; and the Lean SPECIFICATION's vocabulary (nadrv-c11, line `VOCAB`)
// contains every line the real code put on the wire.

import (
	"bufio"
	"encoding/json"
	"fmt"
	"io"
	"os"
	"os/exec"
	"sort"
	"strconv"
	"strings"
	"sync"
	"time"

	. "verifharness/vhlib"
)

// ---------------------------------------------------------------- worker pool (as harness/c09)

type worker struct {
	cmd *exec.Cmd
	in  io.WriteCloser
	out *bufio.Reader
}

func startWorker() *worker {
	cmd := exec.Command(selfExe(), "-c11worker")
	in, _ := cmd.StdinPipe()
	outp, _ := cmd.StdoutPipe()
	cmd.Stderr = io.Discard
	if err := cmd.Start(); err != nil {
		panic(err)
	}
	return &worker{cmd, in, bufio.NewReaderSize(outp, 1<<22)}
}

func (w *worker) run(c CaseIn) (CaseOut, error) {
	data, _ := json.Marshal(c)
	if _, err := w.in.Write(append(data, '\n')); err != nil {
		return CaseOut{}, err
	}
	line, err := w.out.ReadBytes('\n')
	if err != nil {
		return CaseOut{}, err
	}
	var o CaseOut
	if err := json.Unmarshal(line, &o); err != nil {
		return CaseOut{}, err
	}
	return o, nil
}

func (w *worker) stop() {
	w.in.Close()
	done := make(chan struct{})
	go func() { w.cmd.Wait(); close(done) }()
	select {
	case <-done:
	case <-time.After(3 * time.Second):
		w.cmd.Process.Kill()
	}
}

func runAll(cases []CaseIn, n int) []CaseOut {
	outs := make([]CaseOut, len(cases))
	idx := make(chan int, len(cases))
	for i := range cases {
		idx <- i
	}
	close(idx)
	var wg sync.WaitGroup
	for k := 0; k < n; k++ {
		wg.Add(1)
		go func() {
			defer wg.Done()
			w := startWorker()
			defer func() { w.stop() }()
			for i := range idx {
				o, err := w.run(cases[i])
				if err != nil {
					o = CaseOut{Exit: 2, Panic: "worker died: " + err.Error(), FaultAt: -1}
					w.stop()
					w = startWorker()
				}
				outs[i] = o
			}
		}()
	}
	wg.Wait()
	return outs
}

// ---------------------------------------------------------------- canonical transcript

func isHTTP(backend string) bool { return backend == "PAN-OS" || backend == "NSX" }

// canonLine maps a line the device received to the vocabulary of the model / specification.
func canonLine(backend, l string) string {
	switch backend {
	case "PAN-OS":
		switch {
		case strings.Contains(l, "type=keygen"):
			return "keygen"
		case strings.Contains(l, "high-availability"):
			return "show ha"
		case strings.Contains(l, "action=get"):
			return "get config"
		case strings.Contains(l, "type=commit"):
			return "commit"
		case strings.Contains(l, "<show><jobs>"):
			return "show jobs"
		}
		return strings.TrimPrefix(l, "GET /api/?key=K&")
	case "NSX":
		switch {
		case l == "POST /api/session/create":
			return "session create"
		case strings.HasPrefix(l, "GET ") && strings.HasSuffix(l, "/gateway-policies"):
			return "gateway-policies"
		case strings.HasPrefix(l, "GET ") && strings.Contains(l, "/gateway-policies/"):
			return "policy"
		case strings.HasPrefix(l, "GET ") && strings.Contains(l, "/infra/services"):
			return "services"
		case strings.HasPrefix(l, "GET ") && strings.Contains(l, "/default/groups"):
			return "groups"
		}
		return l
	}
	if l == "secret" {
		return "<secret>"
	}
	return l
}

// number of packets of the script `compare` logged with ShowChanges
func planPackets(backend, cmp string) (n int, ipt bool) {
	if strings.TrimSpace(cmp) == "" {
		return 0, false
	}
	lines := strings.Split(strings.TrimRight(cmp, "\n"), "\n")
	switch backend {
	case "Linux":
		for _, l := range lines {
			if strings.HasPrefix(l, "ip route") {
				n++
			} else {
				ipt = true
			}
		}
	case "NSX":
		n = (len(lines) + 1) / 2
	default:
		for _, l := range lines {
			if l != "" {
				n++
			}
		}
	}
	return
}

func encPlan(n int) string {
	var pk []string
	for i := 0; i < n; i++ {
		pk = append(pk, fmt.Sprintf("t%d", i))
	}
	return strings.Join(pk, "|")
}

func shapeStr(m map[string]int) string {
	var ks []string
	for k := range m {
		ks = append(ks, k)
	}
	sort.Strings(ks)
	var l []string
	for _, k := range ks {
		l = append(l, fmt.Sprintf("%s=%d", k, m[k]))
	}
	return strings.Join(l, ",")
}

func parseModel(ans string) map[string]string {
	m := map[string]string{}
	i := strings.Index(ans, " sends=")
	if i >= 0 {
		m["sends"] = ans[i+7:]
		ans = ans[:i]
	}
	for _, f := range strings.Fields(ans) {
		k, v, _ := strings.Cut(f, "=")
		m[k] = v
	}
	return m
}

// ---------------------------------------------------------------- scenario sets

// every scenario has differences between the device and the target configuration unless said otherwise
func quickParams() []ScenParams {
	return []ScenParams{
		{Backend: "ASA", Adds: 2, Replaces: 1, Dels: 1},
		{Backend: "ASA", Adds: 1, YesNo: true, EnablePW: true, PagerOff: true, Width511: true},
		{Backend: "IOS", Adds: 1, Replaces: 1, Dels: 1},
		{Backend: "IOS", Dels: 2, YesNo: true, EnablePW: true},
		{Backend: "Linux", Adds: 1, Replaces: 1, IPTables: true},
		{Backend: "Linux", Dels: 1, YesNo: true},
		{Backend: "PAN-OS", Cmds: 3, HA: "active"},
		{Backend: "PAN-OS", Cmds: 2, Vsys: 2},
		{Backend: "NSX", Cmds: 3},
		{Backend: "NSX", Cmds: 1},
	}
}

func randomParams(r *RNG, backend string) ScenParams {
	p := ScenParams{Backend: backend}
	switch backend {
	case "ASA", "IOS", "Linux":
		p.Adds, p.Replaces, p.Dels = r.Intn(4), r.Intn(3), r.Intn(3)
		p.YesNo, p.EnablePW = r.Chance(30), r.Chance(30) && backend != "Linux"
		if backend == "ASA" {
			p.PagerOff, p.Width511 = r.Chance(40), r.Chance(40)
		}
		if backend == "Linux" {
			p.IPTables = r.Chance(50)
		}
		if r.Chance(10) {
			p.Adds, p.Replaces, p.Dels, p.IPTables = 0, 0, 0, false // nothing to do: compare says "unchanged"
		}
	case "PAN-OS":
		p.Cmds = 2 + r.Intn(5)
		p.Vsys = 1 + r.Intn(3)
		if p.Vsys > 1 && p.Cmds > 4 {
			p.Cmds = 4
		}
		if r.Chance(50) {
			p.HA = "active"
		}
	case "NSX":
		p.Cmds = 1 + r.Intn(6)
	}
	return p
}

func kindsFor(backend string) []string {
	if isHTTP(backend) {
		return []string{"httpstatus", "malformed", "errtext", "close", "silence"}
	}
	return []string{"errtext", "unexpected", "garbled", "close", "warntext", "silence", "truncated"}
}

func slowKind(k string) bool { return k == "silence" || k == "truncated" }

// ---------------------------------------------------------------- main run

var tools = []string{"doapprove", "drc", "drc-nolog"}

func run(ctx *Ctx) *Result {
	res := NewResult()
	res.Rule = "compare run with differences between device and target configuration or with an injected fault; distinct by (scenario, tool, position, kind)"
	drv := ctx.StartNadrv("c11")
	defer drv.Close()
	nw := 16

	if ctx.Replay != "" {
		var c CaseIn
		if err := ReadReplay(ctx.Replay, &c); err != nil || c.Scen.Backend == "" {
			// not a case of this harness (C11 has two: c06 and c11)
			return res
		}
		evalCases(ctx, res, drv, []CaseIn{c}, 1, true)
		return res
	}

	params := quickParams()
	nRandom := ctx.N(0, 30)
	backends := []string{"ASA", "IOS", "Linux", "PAN-OS", "NSX"}
	seen := map[string]bool{}
	for _, p := range params {
		seen[p.id()] = true
	}
	// quick: two seeded scenarios on top of the fixed ones
	for tries := 0; len(params) < len(quickParams())+nRandom+2 && tries < 10000; tries++ {
		p := randomParams(ctx.Rng, backends[ctx.Rng.Intn(len(backends))])
		if seen[p.id()] {
			continue
		}
		seen[p.id()] = true
		params = append(params, p)
	}
	var scens []Scenario
	for _, p := range params {
		scens = append(scens, buildScenario(p))
	}
	res.CountN("scenarios", len(scens))

	// 1. baselines: compare without fault (length of the dialogue, the script)
	var bl []CaseIn
	for _, s := range scens {
		bl = append(bl, CaseIn{Scen: s, Tool: "doapprove", FaultPos: -1})
	}
	blOut := runBaselines(res, bl, nw)

	// 2. the matrix: every position x every kind
	var cases []CaseIn
	for i, s := range scens {
		n := len(blOut[i].Lines)
		if n > 0 && blOut[i].Lines[n-1] == "exit" {
			n--
		}
		res.CountN("positions", n+1)
		for _, t := range tools {
			cases = append(cases, CaseIn{Scen: s, Tool: t, FaultPos: -1})
		}
		first := 1
		if !isHTTP(s.Backend) {
			first = 0
		}
		for pos := first; pos <= n; pos++ {
			for ki, k := range kindsFor(s.Backend) {
				if pos == 0 && (k == "errtext" || k == "garbled" || k == "warntext") {
					continue
				}
				if slowKind(k) && !ctx.Thorough() && (pos+i+ki)%3 != 0 {
					continue // a timeout costs 1-3 s: every third position in the quick tier
				}
				cases = append(cases, CaseIn{Scen: s, Tool: tools[(pos+ki+i)%len(tools)], FaultPos: pos, FaultKind: k})
			}
		}
	}
	evalCases(ctx, res, drv, cases, nw, false)
	res.Exhaustive = false
	return res
}

// a baseline (no fault, conforming device) must end with exit status 0; on a loaded machine the
// 1-second timeouts of the scenarios can strike: such runs are repeated
func runBaselines(res *Result, cases []CaseIn, nw int) []CaseOut {
	outs := runAll(cases, nw)
	for attempt := 0; attempt < 3; attempt++ {
		var again []int
		for i, o := range outs {
			if cases[i].FaultPos == -1 && (o.Exit != 0 || o.Panic != "") {
				again = append(again, i)
			}
		}
		if len(again) == 0 {
			break
		}
		res.CountN("baseline_rerun", len(again))
		var cs []CaseIn
		for _, i := range again {
			cs = append(cs, cases[i])
		}
		os2 := runAll(cs, 2)
		for k, i := range again {
			outs[i] = os2[k]
		}
	}
	return outs
}

type finding struct {
	sig  map[string]any
	what string
}

type judgement struct {
	impl, model, ans string
	roBroken         bool
	fails            []finding
	blk              string
}

func (j judgement) bad() bool { return j.impl != j.model || j.roBroken || len(j.fails) > 0 }

// evalCases: scripts via real compare runs, then real runs, model runs, comparison, oracle.
func evalCases(ctx *Ctx, res *Result, drv *Nadrv, cases []CaseIn, nw int, verbose bool) {
	type plans struct {
		g, e       int
		gIpt, eIpt bool
	}
	pl := map[string]*plans{}
	var pc []CaseIn
	var pk []string
	for _, c := range cases {
		id := c.Scen.ID
		if _, ok := pl[id]; ok {
			continue
		}
		pl[id] = &plans{}
		pc = append(pc, CaseIn{Scen: c.Scen, Tool: "doapprove", FaultPos: -1})
		pk = append(pk, id)
	}
	po := runBaselines(res, pc, nw)
	// (ASA, IOS) the script against a retrieval that returned unexpected text: the device looks empty
	var pc2 []CaseIn
	var pk2 []string
	for i, id := range pk {
		pl[id].g, pl[id].gIpt = planPackets(pc[i].Scen.Backend, po[i].CmpLog)
		if b := pc[i].Scen.Backend; b == "ASA" || b == "IOS" {
			pos := 0
			for j, l := range po[i].Lines {
				if l == "write term" || l == "sh run" {
					pos = j + 1
				}
			}
			c := pc[i]
			c.FaultPos, c.FaultKind = pos, "unexpected"
			pc2 = append(pc2, c)
			pk2 = append(pk2, id)
		}
	}
	po2 := runAll(pc2, nw)
	for attempt := 0; attempt < 3; attempt++ {
		var again []int
		for i, o := range po2 {
			if o.Exit != 0 {
				again = append(again, i)
			}
		}
		if len(again) == 0 {
			break
		}
		res.CountN("baseline_rerun", len(again))
		for _, i := range again {
			po2[i] = runAll([]CaseIn{pc2[i]}, 1)[0]
		}
	}
	for i, id := range pk2 {
		pl[id].e, pl[id].eIpt = planPackets(pc2[i].Scen.Backend, po2[i].CmpLog)
	}

	judge := func(c CaseIn, o CaseOut) judgement {
		var j judgement
		p := pl[c.Scen.ID]
		b := c.Scen.Backend
		fp := "-"
		if c.FaultPos >= 0 {
			fp = strconv.Itoa(c.FaultPos)
		}
		kind := c.FaultKind
		if kind == "" {
			kind = "-"
		}
		line := strings.Join([]string{"SESS", b, shapeStr(c.Scen.Shape), encPlan(p.g), encPlan(p.e),
			strconv.Itoa(b2i(p.gIpt)), strconv.Itoa(b2i(p.eIpt)), fp, kind, "50"}, "\t")
		j.ans = drv.Ask(line)
		m := parseModel(j.ans)

		// ---- implementation, canonicalised
		var implSends []string
		for _, l := range o.Lines {
			implSends = append(implSends, canonLine(b, l))
		}
		implErr := b2i(strings.Contains(o.Log+o.Stderr, "ERROR>>>"))
		implChg := b2i(strings.Contains(o.Log+o.Stderr+o.Stdout, "comp: ***"))
		j.impl = fmt.Sprintf("exit=%d err=%d chg=%d sends=%s", o.Exit, implErr, implChg, strings.Join(implSends, ";"))

		// ---- model, canonicalised
		var modelSends []string
		if m["sends"] != "" {
			for _, s := range strings.Split(m["sends"], ";") {
				_, ls, _ := strings.Cut(s, ":")
				modelSends = append(modelSends, strings.Split(ls, "~")...)
			}
		}
		if c.FaultKind == "close" && o.FaultAt >= 0 && len(modelSends) > o.FaultAt && !isHTTP(b) {
			modelSends = modelSends[:o.FaultAt] // a closed device does not record what is still written to it
		}
		j.model = fmt.Sprintf("exit=%s err=%s chg=%s sends=%s", m["dexit"], m["err"], m["chg"], strings.Join(modelSends, ";"))
		if j.impl != j.model && j.impl+";exit" == j.model {
			// goexpect hands "exit" to its writer goroutine and the program ends: the final
			// clean-up line can be lost before it reaches the pty (see docs/C09.md)
			res.Count("final_exit_line_not_observed")
			j.impl = j.model
		}
		j.roBroken = m["ro"] != "1" // the theorem compare_session_readonly says this cannot happen

		// ---- oracle 1: the device's own view (devstate.go)
		if o.Panic != "" {
			j.fails = append(j.fails, finding{map[string]any{"pred": "go_panic", "backend": b}, "runtime panic: " + o.Panic})
		}
		for k, kd := range o.Kinds {
			if kd == "change" || kd == "save" {
				j.fails = append(j.fails, finding{map[string]any{"pred": "compare_sent_" + kd, "backend": b},
					fmt.Sprintf("compare sent %q, which the device executes as a %s (line %d of the dialogue)", o.Lines[k], kd, k+1)})
				break
			}
		}
		if o.Hash0 != "" && o.Hash1 != "" && o.Hash0 != o.Hash1 {
			j.fails = append(j.fails, finding{map[string]any{"pred": "device_state_changed", "backend": b},
				fmt.Sprintf("state hash of the device before %s, after %s", o.Hash0, o.Hash1)})
		}
		if o.Scp {
			j.fails = append(j.fails, finding{map[string]any{"pred": "compare_copied_startup_file", "backend": b}, "compare executed scp"})
		}
		if o.Change {
			j.fails = append(j.fails, finding{map[string]any{"pred": "compare_wrote_change_log", "backend": b},
				"compare created the .change log of an approve run"})
		}
		// ---- oracle 2: the Lean specification's vocabulary on the real transcript
		v := drv.Ask("VOCAB\t" + b + "\t" + strings.Join(implSends, "\x1f"))
		vm := parseModel(v)
		if vm["ok"] != "1" {
			j.fails = append(j.fails, finding{map[string]any{"pred": "line_outside_compare_vocabulary", "backend": b},
				"the real compare run sent a line that NA.Spec.C11.allowedLines does not contain: " + v})
		}
		if vm["blk"] == "bad" || (vm["blk"] != "out" && o.Exit == 0) {
			j.fails = append(j.fails, finding{map[string]any{"pred": "config_mode_not_only_terminal_width", "backend": b},
				"in configuration mode the real compare run sent something else than the terminal width, or it ended inside configuration mode: " + v})
		}
		j.blk = vm["blk"]
		if !(c.FaultKind == "close" && !isHTTP(b)) && m["blk"] != vm["blk"] {
			j.model += " blk=" + m["blk"]
			j.impl += " blk=" + vm["blk"]
		}
		return j
	}

	outs := runAll(cases, nw)
	js := make([]judgement, len(cases))
	for i, c := range cases {
		js[i] = judge(c, outs[i])
	}
	// what looks wrong is run again, alone: the scenarios use 1-second timeouts and this machine is
	// shared; a defect of the code under test shows every time
	for attempt := 0; attempt < 2; attempt++ {
		var again []int
		for i := range cases {
			if js[i].bad() {
				again = append(again, i)
			}
		}
		if len(again) == 0 || len(again) > 60 {
			break
		}
		res.CountN("rerun_of_suspect_case", len(again))
		var cs []CaseIn
		for _, i := range again {
			cs = append(cs, cases[i])
		}
		os2 := runAll(cs, 2)
		for k, i := range again {
			outs[i] = os2[k]
			js[i] = judge(cases[i], os2[k])
		}
	}

	for i, c := range cases {
		o := outs[i]
		j := js[i]
		p := pl[c.Scen.ID]
		b := c.Scen.Backend
		kind := c.FaultKind
		if kind == "" {
			kind = "-"
		}
		canon := fmt.Sprintf("%s|%s|%d|%s", c.Scen.ID, c.Tool, c.FaultPos, c.FaultKind)
		res.Eval(canon, c.FaultPos >= 0 || p.g > 0 || p.gIpt)
		res.Count("backend:" + b)
		res.Count("kind:" + kind)
		res.Count("tool:" + c.Tool)
		res.Count(fmt.Sprintf("script_packets:%d", p.g))
		if c.FaultPos >= 0 {
			res.Count(fmt.Sprintf("fault_pos:%02d", c.FaultPos))
		}
		res.TracesVsImpl++
		if j.impl != j.model {
			res.Disagree("c11-compare-session", c, j.impl, j.model)
		}
		if j.roBroken {
			res.Disagree("c11-model-readonly", c, "n/a", j.ans)
		}
		for _, f := range j.fails {
			res.Fail(f.sig, f.what, c)
		}
		if o.Hash0 == "" || o.Hash1 == "" {
			res.Count("state_hash_missing")
		} else if o.Hash0 == o.Hash1 {
			res.Count("state_hash_equal")
		}
		for _, k := range o.Kinds {
			res.Count("device_saw:" + k)
		}
		res.Count("config_mode_at_end:" + j.blk)
		if verbose {
			fmt.Fprintf(os.Stderr, "impl : %s\nmodel: %s\nkinds: %v hash %s -> %s\n", j.impl, j.model, o.Kinds, o.Hash0, o.Hash1)
		}
		if i < 3 {
			res.Sample(map[string]any{"scenario": c.Scen.ID, "pos": c.FaultPos, "kind": c.FaultKind, "impl": j.impl})
		}
	}
}
