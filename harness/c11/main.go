package main

// C11 — compare never changes the device: the dynamic oracle over device STATE, all five device
// kinds, differences present, a fault of every kind at every step of the compare dialogue; and the
// tie of the session model (C09's, in compare mode) that the theorems of NA/Props/C11Sess.lean are
// about.  See docs/C11.md.  Modes of this binary:
//   vh-c11 -devsim <dir>      console device simulator (spawned via SIMULATE_ROUTER)
//   vh-c11 -c11worker         run cases (JSON lines) against the real code in-process
//   vh-c11 -probe <file>      run one CaseIn and print the CaseOut (debugging)
//   vh-c11 -mkscen <json>     print the CaseIn of a scenario (debugging)
//   vh-c11 -prop C11 ...      the harness proper (vhlib.Main)

import (
	"encoding/json"
	"fmt"
	"os"

	. "verifharness/vhlib"
)

func main() {
	if len(os.Args) >= 3 && os.Args[1] == "-devsim" {
		runDevSim(os.Args[2])
		return
	}
	if len(os.Args) >= 2 && os.Args[1] == "-c11worker" {
		runWorker()
		return
	}
	if len(os.Args) >= 3 && os.Args[1] == "-probe" {
		data, err := os.ReadFile(os.Args[2])
		if err != nil {
			panic(err)
		}
		var c CaseIn
		if err := json.Unmarshal(data, &c); err != nil {
			panic(err)
		}
		o := runCase(c)
		out, _ := json.MarshalIndent(o, "", " ")
		fmt.Println(string(out))
		return
	}
	if len(os.Args) >= 3 && os.Args[1] == "-mkscen" {
		var p ScenParams
		if err := json.Unmarshal([]byte(os.Args[2]), &p); err != nil {
			panic(err)
		}
		c := CaseIn{Scen: buildScenario(p), Tool: "doapprove", FaultPos: -1}
		out, _ := json.MarshalIndent(c, "", " ")
		fmt.Println(string(out))
		return
	}
	Main(map[string]PropFunc{"C11": run})
}
