package main

// Device semantics of the simulators of harness/c11 — the specification side of the dynamic
// oracle of C11: what a line / request DOES to a device, independent of any model of the
// code under test and of the allow-lists of the Lean specification.
//
// A device has a state (running configuration, start-up configuration, pending reload, routes,
// files, PAN-OS candidate configuration and commits, NSX objects).  Every command received is
// applied to it.  The hash of the state before and after a compare run must be the same.

import (
	"crypto/sha256"
	"encoding/hex"
	"encoding/json"
	"net/url"
	"sort"
	"strings"
)

type devState struct {
	Backend string   `json:"backend"`
	Mode    string   `json:"-"`       // exec | config — where the session is, not part of the device's configuration
	Running []string `json:"running"` // configuration lines (ASA, IOS)
	Startup []string `json:"startup"`
	Saves   int      `json:"saves"`
	Reload  string   `json:"reload"`
	Routes  []string `json:"routes"` // Linux
	Files   []string `json:"files"`  // Linux: file operations, in order
	Cand    []string `json:"cand"`   // PAN-OS: operations on the candidate configuration
	Commits int      `json:"commits"`
	Objects []string `json:"objects"` // NSX: method + path + body of every non-GET request
	Journal []string `json:"journal"` // anything else that is not known to be read-only
	// session settings: they die with the session, not part of the hash
	Session []string `json:"-"`
}

func newDevState(backend string, config []string) *devState {
	d := &devState{Backend: backend, Mode: "exec"}
	for _, l := range config {
		if strings.TrimSpace(l) != "" {
			if backend == "Linux" {
				d.Routes = append(d.Routes, l)
			} else {
				d.Running = append(d.Running, l)
			}
		}
	}
	d.Startup = append([]string(nil), d.Running...)
	return d
}

func (d *devState) hash() string {
	b, _ := json.Marshal(d)
	h := sha256.Sum256(b)
	return hex.EncodeToString(h[:8])
}

// applyAnswer: the device has asked an interactive question instead of showing its prompt and a line
// arrives.  Result: what that line is for the device.
//
//	callhome  ASA, first `configure terminal` of a device where it has not been decided yet:
//	          "Would you like to enable anonymous error reporting to help improve the product?
//	          [Y]es, [N]o, [A]sk later:" — Y writes `call-home reporting anonymous`, N writes
//	          `no call-home reporting anonymous` into the running configuration (both a CHANGE);
//	          A (ask later) and anything else leave the configuration alone
//	confirm   "[confirm]": the line confirms (empty, y…) or refuses the command that was asked about;
//	          the commands of a compare session that can be asked about are reads: no change
//	more      "--More--" pager: the line pages on or quits; no change
func (d *devState) applyAnswer(question, line string) string {
	l := strings.ToLower(strings.TrimSpace(line))
	if question == "callhome" {
		switch {
		case l == "y" || l == "yes":
			d.Running = append(d.Running, "call-home reporting anonymous")
			return "change"
		case l == "n" || l == "no":
			d.Running = append(d.Running, "no call-home reporting anonymous")
			return "change"
		}
	}
	return "answer"
}

func hasAnyPrefix(s string, ps ...string) bool {
	for _, p := range ps {
		if strings.HasPrefix(s, p) {
			return true
		}
	}
	return false
}

// applyLine: one command line received by a console device after the login dialogue.
// Result: what the line is for the device — "read", "session", "change" or "save".
func (d *devState) applyLine(line string) string {
	switch d.Backend {
	case "ASA", "IOS":
		return d.applyCisco(line)
	}
	return d.applyLinux(line)
}

func (d *devState) applyCisco(line string) string {
	l := strings.TrimSpace(line)
	if d.Mode == "config" {
		switch {
		case l == "end" || l == "exit":
			d.Mode = "exec"
			return "session"
		case l == "":
			return "read"
		case strings.HasPrefix(l, "do "):
			save := d.Mode
			d.Mode = "exec"
			k := d.applyCisco(strings.TrimPrefix(l, "do "))
			if d.Mode == "exec" {
				d.Mode = save
			}
			return k
		case d.Backend == "ASA" && strings.HasPrefix(l, "terminal width "):
			// the session setting the statement of C11 names
			d.Session = append(d.Session, l)
			return "session"
		case strings.HasPrefix(l, "no "):
			x := strings.TrimPrefix(l, "no ")
			var keep []string
			for _, r := range d.Running {
				if r != x && !strings.HasPrefix(r, x+" ") {
					keep = append(keep, r)
				}
			}
			if len(keep) == len(d.Running) {
				d.Journal = append(d.Journal, "config: "+l)
			}
			d.Running = keep
			return "change"
		}
		d.Running = append(d.Running, l)
		return "change"
	}
	switch {
	case l == "" || l == "enable" || l == "exit" || l == "disable":
		return "read"
	case hasAnyPrefix(l, "sh ", "show ") || l == "write term" || l == "write terminal":
		return "read"
	case hasAnyPrefix(l, "terminal ", "term "):
		d.Session = append(d.Session, l)
		return "session"
	case l == "configure terminal" || l == "conf t":
		d.Mode = "config"
		return "session"
	case l == "write memory" || l == "wr mem" || l == "write" || strings.HasPrefix(l, "copy running-config"):
		d.Saves++
		d.Startup = append([]string(nil), d.Running...)
		return "save"
	case strings.HasPrefix(l, "reload"):
		d.Reload = l
		return "change"
	}
	d.Journal = append(d.Journal, "exec: "+l)
	return "change"
}

func (d *devState) applyLinux(line string) string {
	l := strings.TrimSpace(line)
	switch {
	case l == "" || l == "exit":
		return "read"
	case hasAnyPrefix(l, "uname", "grep ", "echo ", "which ", "cat ", "ls ") || l == "hostname" || l == "hostname -s":
		return "read"
	case l == "iptables-save" || l == "ip route show" || l == "ip route" || l == "iptables -L" || l == "iptables -S":
		return "read"
	case strings.HasPrefix(l, "PS1="):
		d.Session = append(d.Session, l)
		return "session"
	case strings.HasPrefix(l, "ip route "):
		for _, part := range strings.Split(l, "\n") {
			f := strings.Fields(part)
			if len(f) < 4 {
				d.Journal = append(d.Journal, part)
				continue
			}
			rest := strings.Join(f[3:], " ")
			switch f[2] {
			case "add":
				d.Routes = append(d.Routes, rest)
			case "del", "delete":
				var keep []string
				for _, r := range d.Routes {
					if r != rest {
						keep = append(keep, r)
					}
				}
				d.Routes = keep
			default:
				d.Journal = append(d.Journal, part)
			}
		}
		return "change"
	case hasAnyPrefix(l, "chmod ", "mv ", "cp ", "rm ", "/", "iptables", "sh ", "bash "):
		d.Files = append(d.Files, l)
		return "change"
	}
	d.Journal = append(d.Journal, l)
	return "change"
}

// applyHTTP: one request received by an HTTP device.
func (d *devState) applyHTTP(method, path, rawQuery, body string) string {
	if d.Backend == "PAN-OS" {
		v, _ := url.ParseQuery(rawQuery)
		typ, action, cmd := v.Get("type"), v.Get("action"), v.Get("cmd")
		switch {
		case method != "GET" && method != "POST":
			d.Journal = append(d.Journal, method+" "+path)
			return "change"
		case typ == "keygen":
			return "login"
		case typ == "op" && strings.HasPrefix(cmd, "<show>"):
			return "read"
		case typ == "config" && (action == "get" || action == "show" || action == "complete"):
			return "read"
		case typ == "config":
			d.Cand = append(d.Cand, action+" "+v.Get("xpath")+" "+v.Get("element")+v.Get("where")+v.Get("dst")+v.Get("newname"))
			return "change"
		case typ == "commit":
			d.Commits++
			return "save"
		case typ == "export" || typ == "log" || typ == "report" || typ == "version":
			return "read"
		}
		d.Journal = append(d.Journal, method+" "+path+"?"+typ+" "+action+" "+cmd)
		return "change"
	}
	// NSX
	switch {
	case method == "GET" || method == "HEAD":
		return "read"
	case method == "POST" && path == "/api/session/create":
		return "login"
	}
	d.Objects = append(d.Objects, method+" "+path+" "+body)
	sort.Strings(d.Objects)
	return "change"
}
