package main

// Scenario families (copy of harness/c09/scen.go: same devices, so NA/Spec/SessDevice.lean describes them).  Every scenario is a conforming device (it accepts everything and
// confirms the save) plus a target configuration that makes the real code plan a script of a
// chosen shape: number of commands, which of them are joined two-command lines, login shape.

import (
	"fmt"
	"strings"
)

// ScenParams: the knobs of one scenario (handed to generators; the seed picks them).
type ScenParams struct {
	Backend string
	// console
	Adds      int  // commands that add one route
	Replaces  int  // joined two-command lines (delete+add of a route)
	Dels      int  // commands that delete one route
	YesNo     bool // ssh asks to accept the host key
	EnablePW  bool // "enable" asks for a password (ASA, IOS)
	PagerOff  bool // ASA: "no pager" already set
	Width511  bool // ASA: terminal width already 511
	SaveAsk   bool // IOS: "reload in" asks whether to save the configuration
	Overwrite bool // IOS: write memory asks for NVRAM overwrite confirmation
	IPTables  bool // Linux: iptables change as well
	// http
	Cmds int    // PAN-OS: number of set commands (>=1);  NSX: number of requests
	HA   string // PAN-OS
	Pend int    // PAN-OS
	NoCh bool   // PAN-OS: commit answers "no changes"
	Vsys int    // PAN-OS: number of vsys with changes (default 1)
}

func (p ScenParams) id() string {
	b := func(x bool) int {
		if x {
			return 1
		}
		return 0
	}
	return fmt.Sprintf("%s-a%d-r%d-d%d-y%d-e%d-p%d-w%d-s%d-o%d-t%d-c%d-h%s-P%d-n%d-v%d", p.Backend, p.Adds, p.Replaces, p.Dels,
		b(p.YesNo), b(p.EnablePW), b(p.PagerOff), b(p.Width511), b(p.SaveAsk), b(p.Overwrite), b(p.IPTables), p.Cmds, p.HA, p.Pend, b(p.NoCh), p.Vsys)
}

func b2i(b bool) int {
	if b {
		return 1
	}
	return 0
}

func buildScenario(p ScenParams) Scenario {
	switch p.Backend {
	case "ASA":
		return asaScenario(p)
	case "IOS":
		return iosScenario(p)
	case "Linux":
		return linuxScenario(p)
	case "PAN-OS":
		return panosScenario(p)
	case "NSX":
		return nsxScenario(p)
	}
	panic("unknown backend " + p.Backend)
}

// routes: device has Dels + Replaces routes, target has Adds + Replaces routes.
// net i of the device: 10.(20+i).0.0/16; replaced routes keep the net and change the hop.
type routePlan struct {
	dev, tgt [][2]string // (net octet, hop)
}

func planRoutes(p ScenParams) routePlan {
	var rp routePlan
	n := 0
	for i := 0; i < p.Replaces; i++ {
		rp.dev = append(rp.dev, [2]string{fmt.Sprint(20 + n), "10.1.2.3"})
		rp.tgt = append(rp.tgt, [2]string{fmt.Sprint(20 + n), "10.1.2.4"})
		n++
	}
	for i := 0; i < p.Dels; i++ {
		rp.dev = append(rp.dev, [2]string{fmt.Sprint(20 + n), "10.1.2.3"})
		n++
	}
	for i := 0; i < p.Adds; i++ {
		rp.tgt = append(rp.tgt, [2]string{fmt.Sprint(20 + n), "10.1.2.3"})
		n++
	}
	return rp
}

// globalLines: non-default global settings of the device that the Netspoc side does not manage
// (logging levels, terminal settings, services, banners).  A "restore the setting when the session
// ends" or "save what I touched" feature would key on exactly such lines; every console scenario has
// `logging console <level>` and two or three of the others, chosen by the scenario (deterministic).
func globalLines(backend, id string) []string {
	h := 7
	for _, ch := range id {
		h = (h*131 + int(ch)) % 1000003
	}
	levels := []string{"critical", "warnings", "debugging", "errors"}
	var pool []string
	switch backend {
	case "IOS":
		pool = []string{"no logging monitor", "logging buffered 16384", "service timestamps log datetime msec",
			"ip domain name example.com", "no ip http server", "service password-encryption", "ip ssh version 2",
			// the opposites of what prepareDevice sets before an approve: a compare must read them and leave them alone
			// (seeded change C11-W1 "normalised" routing in configuration mode whenever `sh run` showed them)
			"no ip classless", "no ip subnet-zero", "no logging synchronous"}
	case "ASA":
		pool = []string{"logging enable", "no logging monitor", "logging buffered warnings", "domain-name example.com",
			"terminal width 80", "pager lines 24", "logging timestamp", "no snmp-server location"}
	default:
		return nil
	}
	l := []string{"logging console " + levels[h%len(levels)]}
	n := 2 + (h/7)%2
	for i := 0; i < n; i++ {
		x := pool[(h/11+i*3)%len(pool)]
		dup := false
		for _, y := range l {
			dup = dup || x == y
		}
		if !dup {
			l = append(l, x)
		}
	}
	return l
}

func asaScenario(p ScenParams) Scenario {
	var pre strings.Builder
	if p.YesNo {
		pre.WriteString("Are you sure you want to continue connecting (yes/no)?<!>\n")
	}
	pre.WriteString("***********************************************************\n")
	pre.WriteString("**                 managed by NetSPoC                    **\n")
	pre.WriteString("***********************************************************\n")
	pre.WriteString("netspoc@10.1.2.3's password: <!>\n")
	pre.WriteString("Type help or '?' for a list of available commands.\nrouter>\n")
	tbl := map[string]string{}
	if p.EnablePW {
		tbl["enable"] = "Password: <!>\n"
	}
	if p.PagerOff {
		tbl["sh pager"] = "no pager\n"
	} else {
		tbl["sh pager"] = "pager lines 24\n"
	}
	if p.Width511 {
		tbl["sh term"] = "\nWidth = 511, no monitor\nterminal interactive\n"
	} else {
		tbl["sh term"] = "\nWidth = 80, no monitor\nterminal interactive\n"
	}
	tbl["show hostname"] = "router\n"
	tbl["sh ver"] = "Cisco Adaptive Security Appliance Software Version 9.4(4)5\n"
	rp := planRoutes(p)
	var dev, tgt strings.Builder
	for _, g := range globalLines("ASA", p.id()) {
		dev.WriteString(g + "\n")
	}
	dev.WriteString("interface Ethernet0/0\n nameif inside\n")
	for _, r := range rp.dev {
		fmt.Fprintf(&dev, "route inside 10.%s.0.0 255.255.0.0 %s\n", r[0], r[1])
	}
	for _, r := range rp.tgt {
		fmt.Fprintf(&tgt, "route inside 10.%s.0.0 255.255.0.0 %s\n", r[0], r[1])
	}
	tbl["write term"] = dev.String()
	tbl["write memory"] = "Building configuration...\nCryptochecksum: abcdef01 44444444 12345678 98765432\n\n123456 bytes copied in 0.330 secs\n[OK]\n"
	return Scenario{ID: p.id(), Backend: "ASA", Preamble: pre.String(), Table: tbl,
		Netspoc: map[string]string{"router": tgt.String()},
		Shape:   map[string]int{"yesno": b2i(p.YesNo), "enablepw": b2i(p.EnablePW), "pageroff": b2i(p.PagerOff), "width511": b2i(p.Width511)}}
}

func iosScenario(p ScenParams) Scenario {
	var pre strings.Builder
	if p.YesNo {
		pre.WriteString("Are you sure you want to continue connecting (yes/no)? <!>\n")
	}
	pre.WriteString("Enter Password:<!>\nbanner motd  managed by NetSPoC\nrouter>\n")
	tbl := map[string]string{}
	if p.EnablePW {
		tbl["enable"] = "Password: <!>\n"
	}
	tbl["sh ver"] = "Cisco IOS Software, C2900 Software (C2900-UNIVERSALK9-M), Version 15.1(4)M4,\n"
	tbl["configure terminal"] = "Enter configuration commands, one per line.  End with CNTL/Z.\n"
	if p.SaveAsk {
		tbl["reload in 2"] = "\nSystem configuration has been modified. Save? [yes/no]: <!>\nReload reason: Reload Command\nProceed with reload? [confirm]<!>\n"
	} else {
		tbl["reload in 2"] = "\nReload reason: Reload Command\nProceed with reload? [confirm]<!>\n"
	}
	tbl["reload cancel"] = "\n\n***\n*** --- SHUTDOWN ABORTED ---\n***\n"
	if p.Overwrite {
		tbl["write memory"] = "Warning: Attempting to overwrite an NVRAM configuration previously written\nby a different version of the system image.\nOverwrite the previous NVRAM configuration?[confirm]<!>\nBuilding configuration...\n  Compressed configuration from 106098 bytes to 30504 bytes[OK]\n"
	} else {
		tbl["write memory"] = "Building configuration...\n  Compressed configuration from 106098 bytes to 30504 bytes[OK]\n"
	}
	rp := planRoutes(p)
	var dev, tgt strings.Builder
	for _, g := range globalLines("IOS", p.id()) {
		dev.WriteString(g + "\n")
	}
	for _, r := range rp.dev {
		fmt.Fprintf(&dev, "ip route 10.%s.0.0 255.255.0.0 %s\n", r[0], r[1])
	}
	for _, r := range rp.tgt {
		fmt.Fprintf(&tgt, "ip route 10.%s.0.0 255.255.0.0 %s\n", r[0], r[1])
	}
	tbl["sh run"] = dev.String()
	return Scenario{ID: p.id(), Backend: "IOS", Preamble: pre.String(), Table: tbl,
		Netspoc: map[string]string{"router": tgt.String()},
		Shape:   map[string]int{"yesno": b2i(p.YesNo), "enablepw": b2i(p.EnablePW), "saveask": b2i(p.SaveAsk), "overwrite": b2i(p.Overwrite)}}
}

func linuxScenario(p ScenParams) Scenario {
	var pre strings.Builder
	if p.YesNo {
		pre.WriteString("Are you sure you want to continue connecting (yes/no)? <!>\n")
	} else {
		pre.WriteString("\n")
	}
	pre.WriteString("root@linux-router:~#\n")
	tbl := map[string]string{
		"echo $?":                   "0\n",
		"uname -r":                  "3.2.89-2.custom\n",
		"uname -m":                  "i686\n",
		"hostname -s":               "router\n",
		"grep 'NetSPoC' /etc/issue": "--- managed by NetSPoC ---\n",
		"which iptables-restore":    "/sbin/iptables-restore\n",
	}
	rp := planRoutes(p)
	var dev, tgt strings.Builder
	for _, r := range rp.dev {
		fmt.Fprintf(&dev, "10.%s.0.0/16 via %s\n", r[0], r[1])
	}
	for _, r := range rp.tgt {
		fmt.Fprintf(&tgt, "ip route add 10.%s.0.0/16 via %s\n", r[0], r[1])
	}
	tbl["ip route show"] = dev.String()
	tbl["iptables-save"] = "*filter\n:INPUT DROP\n-A INPUT -j ACCEPT -s 10.1.11.111 -d 10.10.1.2 -p tcp --dport 23\nCOMMIT\n"
	port := "23"
	if p.IPTables {
		port = "22"
	}
	tgt.WriteString("\n*filter\n:INPUT DROP\n-A INPUT -j ACCEPT -s 10.1.11.111 -d 10.10.1.2 -p tcp --dport " + port + "\n")
	return Scenario{ID: p.id(), Backend: "Linux", Preamble: pre.String(), Table: tbl,
		Netspoc: map[string]string{"router": tgt.String()},
		Shape:   map[string]int{"yesno": b2i(p.YesNo), "iptables": b2i(p.IPTables)}}
}

func panosScenario(p ScenParams) Scenario {
	nv := p.Vsys
	if nv < 1 {
		nv = 1
	}
	var dev strings.Builder
	dev.WriteString("<response status = 'success'>\n <result>\n  <devices>\n   <entry name=\"localhost.localdomain\">\n")
	dev.WriteString("    <deviceconfig><system><hostname>router</hostname><login-banner>managed by NetSPoC</login-banner>" +
		"<timezone>Europe/Berlin</timezone><ntp-servers><primary-ntp-server><ntp-server-address>10.1.1.1</ntp-server-address></primary-ntp-server></ntp-servers>" +
		"</system><setting><management><idle-timeout>30</idle-timeout></management></setting></deviceconfig>\n    <vsys>\n")
	for v := 1; v <= nv; v++ {
		fmt.Fprintf(&dev, "     <entry name=\"vsys%d\">\n     <display-name>FW%d-managed-by-Netspoc</display-name>\n     </entry>\n", v, v)
	}
	dev.WriteString("    </vsys>\n   </entry>\n  </devices>\n </result>\n</response>\n")
	// per vsys: Cmds-1 services referenced by one rule: Cmds set commands (Cmds >= 2)
	nsvc := p.Cmds - 1
	if nsvc < 1 {
		nsvc = 1
	}
	var tgt strings.Builder
	tgt.WriteString(`<config><devices><entry name="localhost.localdomain"><vsys>` + "\n")
	for v := 1; v <= nv; v++ {
		fmt.Fprintf(&tgt, "<entry name=\"vsys%d\">\n", v)
		tgt.WriteString("<rulebase><security><rules>\n<entry name=\"r1\">\n<action>allow</action>\n<from><member>z1</member></from>\n<to><member>z2</member></to>\n")
		tgt.WriteString("<source><member>any</member></source>\n<destination><member>any</member></destination>\n<service>")
		for i := 0; i < nsvc; i++ {
			fmt.Fprintf(&tgt, "<member>tcp %d</member>", 80+10*v+i)
		}
		tgt.WriteString("</service>\n<application><member>any</member></application>\n<rule-type>interzone</rule-type>\n</entry>\n</rules></security></rulebase>\n<service>\n")
		for i := 0; i < nsvc; i++ {
			fmt.Fprintf(&tgt, "<entry name=\"tcp %d\"><protocol><tcp><port>%d</port></tcp></protocol></entry>\n", 80+10*v+i, 80+10*v+i)
		}
		tgt.WriteString("</service>\n</entry>\n")
	}
	tgt.WriteString("</vsys></entry></devices></config>\n")
	return Scenario{ID: p.id(), Backend: "PAN-OS",
		HTTP:    &HTTPScen{DeviceXML: dev.String(), HA: p.HA, Pend: p.Pend, CommitMsg: map[bool]string{true: "nochanges", false: ""}[p.NoCh]},
		Netspoc: map[string]string{"router": tgt.String()},
		Shape:   map[string]int{"pend": p.Pend, "nochanges": b2i(p.NoCh)}}
}

func nsxScenario(p ScenParams) Scenario {
	var l []string
	for i := 0; i < p.Cmds; i++ {
		l = append(l, fmt.Sprintf(`{"id": "Netspoc-icmp%d", "service_entries": [{"id": "id", "protocol": "ICMPv4", "icmp_type": %d, "resource_type": "ICMPTypeServiceEntry"}]}`, i, i))
	}
	tgt := `{"services": [` + strings.Join(l, ",\n") + `]}`
	return Scenario{ID: p.id(), Backend: "NSX",
		HTTP:    &HTTPScen{},
		Netspoc: map[string]string{"router": tgt},
		Shape:   map[string]int{}}
}
