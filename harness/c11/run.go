package main

// Running one compare case against the REAL code in-process (doapprove.Main / drc.Main) with a
// simulated stateful device: console backends through SIMULATE_ROUTER=<this binary> -devsim <dir>,
// HTTP backends through an in-process TLS server (httpsim.go).  Derived from harness/c09/run.go.

import (
	"bufio"
	"bytes"
	"encoding/json"
	"fmt"
	"os"
	"path/filepath"
	"strconv"
	"strings"
	"time"

	. "verifharness/vhlib"

	"github.com/hknutzen/Netspoc-Approve/go/pkg/doapprove"
	"github.com/hknutzen/Netspoc-Approve/go/pkg/drc"
)

// Scenario: one device + one target configuration.
type Scenario struct {
	ID       string            `json:"id"`
	Backend  string            `json:"backend"` // ASA IOS Linux PAN-OS NSX
	Preamble string            `json:"preamble,omitempty"`
	Table    map[string]string `json:"table,omitempty"`
	HTTP     *HTTPScen         `json:"http,omitempty"`
	Netspoc  map[string]string `json:"netspoc"` // files below code/: "router", "router.raw", ...
	Shape    map[string]int    `json:"shape"`   // shape of the dialogue, handed to the model
}

type CaseIn struct {
	Scen      Scenario `json:"scen"`
	Tool      string   `json:"tool"` // doapprove | drc | drc-nolog (drc -C without -L)
	FaultPos  int      `json:"fault_pos"`
	FaultKind string   `json:"fault_kind"`
	// the scenarios' time-outs (timeout = 1 s, login_timeout = 3 s) are multiplied by this: 0/1 in
	// the parallel phase on an idle machine, larger when the machine is slow and in the serial
	// re-run of a case that looked wrong (real timers are no part of the model: the outcome of a
	// run must not depend on the factor, only its duration when the device is silent)
	TScale int `json:"tscale,omitempty"`
	// directory of the run, created and removed by the PARENT of the worker (never part of a replay
	// file): the simulators journal there what the device received, so that it can be judged also
	// when the code under test ends or blocks the worker process
	Work string `json:"work,omitempty"`
}

type CaseOut struct {
	Exit    int      `json:"exit"`
	Panic   string   `json:"panic,omitempty"`
	Stdout  string   `json:"stdout"`
	Stderr  string   `json:"stderr"`
	Lines   []string `json:"lines"`    // everything the device received, in order
	Kinds   []string `json:"kinds"`    // per line: what it was for the device (answer|login|read|session|change|save)
	FaultAt int      `json:"fault_at"` // number of lines received when the fault was injected (-1: never)
	Hash0   string   `json:"hash0"`    // device state hash before the run
	Hash1   string   `json:"hash1"`    // … after the run
	Log     string   `json:"log"`
	CmpLog  string   `json:"cmp_log"`
	Change  bool     `json:"change_log"` // a .change log file exists
	Scp     bool     `json:"scp"`        // the log mentions a copy of a start-up file
	WallMs  int64    `json:"wall_ms"`
}

const devName = "router"

func selfExe() string {
	p, err := os.Executable()
	if err != nil {
		return os.Args[0]
	}
	return p
}

// configLines: the initial configuration of a console scenario (what `write term`, `sh run`,
// `ip route show` print before the run).
func configLines(s Scenario) []string {
	var text string
	switch s.Backend {
	case "ASA":
		text = s.Table["write term"]
	case "IOS":
		text = s.Table["sh run"]
	case "Linux":
		text = s.Table["ip route show"]
	}
	var l []string
	for _, x := range strings.Split(text, "\n") {
		if x != "" {
			l = append(l, x)
		}
	}
	return l
}

// envAccident: self-test of the inconclusive path.  VH_C11_INJECT_ENV=ptmx|timeout|ptmx-always makes
// every fifth case of the PARALLEL phase (time-out factor below rerunScale) suffer what a loaded
// machine does to it: no pty ("ptmx"), or time-outs of 0 s ("timeout"); "ptmx-always" also in the
// serial re-run.  Never set by ./check.
func envAccident(c CaseIn) string {
	mode := os.Getenv("VH_C11_INJECT_ENV")
	if mode == "" || (c.TScale >= rerunScale && mode != "ptmx-always") {
		return ""
	}
	h := 0
	for _, ch := range fmt.Sprintf("%s|%s|%d|%s", c.Scen.ID, c.Tool, c.FaultPos, c.FaultKind) {
		h = (h*31 + int(ch)) % 1000003
	}
	if h%5 != 0 {
		return ""
	}
	return strings.TrimSuffix(mode, "-always")
}

func runCase(c CaseIn) CaseOut {
	start := time.Now()
	var out CaseOut
	accident := envAccident(c)
	if accident == "ptmx" {
		return CaseOut{Exit: 1, Stderr: "ERROR>>> open /dev/ptmx: no space left on device\n", FaultAt: -1, WallMs: 1}
	}
	work := c.Work
	if work == "" {
		var err error
		work, err = os.MkdirTemp("", "c11case")
		if err != nil {
			panic(err)
		}
		defer os.RemoveAll(work)
	}
	prevDir, _ := os.Getwd()
	defer os.Chdir(prevDir)
	os.Chdir(work)

	policies := filepath.Join(work, "policies")
	codeDir := filepath.Join(policies, "p1", "code")
	os.MkdirAll(codeDir, 0755)
	os.Symlink("p1", filepath.Join(policies, "current"))
	files := map[string]string{}
	for k, v := range c.Scen.Netspoc {
		files[k] = v
	}
	if _, ok := files[devName+".info"]; !ok {
		files[devName+".info"] = fmt.Sprintf(
			`{"model": %q, "name_list": [%q], "ip_list": ["10.1.13.33"]}`, c.Scen.Backend, devName)
	}
	if _, ok := files[devName]; !ok {
		files[devName] = ""
	}
	WriteFiles(codeDir, files)
	for _, d := range []string{"lock", "status", "history"} {
		os.Mkdir(filepath.Join(work, d), 0755)
	}
	os.WriteFile(filepath.Join(work, "credentials"), []byte("* admin secret\n"), 0644)
	scale := c.TScale
	if scale < 1 {
		scale = 1
	}
	if accident == "timeout" {
		scale = 0
	}
	os.WriteFile(filepath.Join(work, ".netspoc-approve"), []byte(fmt.Sprintf(
		"basedir = %s\ncheckbanner = NetSPoC\nsystemuser = admin\ntimeout = %d\nlogin_timeout = %d\n", work, scale, 3*scale)), 0644)
	os.Setenv("HOME", work)
	os.Setenv("TEST_TIME", "2024-Sep-29 16:19:50")
	os.Unsetenv("LANG")

	simDir := filepath.Join(work, "sim")
	os.Mkdir(simDir, 0755)
	var hs *httpSim
	if c.Scen.HTTP != nil {
		hs = newHTTPSim(c.Scen.Backend, c.Scen.HTTP, c.FaultPos, c.FaultKind, simDir)
		os.Setenv("SIMULATE_ROUTER", hs.srv.URL)
	} else {
		cfg := simCfg{Backend: c.Scen.Backend, Config: configLines(c.Scen), Name: devName, Preamble: c.Scen.Preamble,
			Table: c.Scen.Table, FaultPos: c.FaultPos, FaultKind: c.FaultKind, ErrText: errTextOf(c.Scen.Backend)}
		data, _ := json.Marshal(cfg)
		os.WriteFile(filepath.Join(simDir, "sim.json"), data, 0644)
		os.Setenv("SIMULATE_ROUTER", selfExe()+" -devsim "+simDir)
	}

	var mainFunc func() int
	logDir := filepath.Join(policies, "p1", "log")
	logFile := ""
	switch c.Tool {
	case "drc", "drc-nolog":
		mainFunc = drc.Main
		logFile = filepath.Join(work, "drc.log")
		os.Args = []string{"drc", "--LOGFILE", logFile}
		if c.Tool == "drc" {
			os.Args = append(os.Args, "-L", logDir)
		}
		os.Args = append(os.Args, "-C", filepath.Join(codeDir, devName))
	default:
		mainFunc = doapprove.Main
		os.Args = []string{"do-approve", "compare", devName}
		logFile = filepath.Join(logDir, devName+".compare")
	}
	out.Stdout, out.Stderr, out.Exit, out.Panic = Captured(mainFunc)
	os.Unsetenv("SIMULATE_ROUTER")

	out.FaultAt = -1
	if hs != nil {
		hs.close()
		out.Lines, out.Kinds, out.FaultAt, out.Hash0, out.Hash1 = hs.transcript()
	} else {
		// the simulator is a child of the expect library and reads asynchronously: tell it
		// that the program under test is done and wait for its end mark
		tp := filepath.Join(simDir, "transcript")
		time.Sleep(10 * time.Millisecond) // goexpect writes to the pty from its own goroutine
		os.WriteFile(filepath.Join(simDir, "stop"), nil, 0644)
		for i := 0; i < 1000; i++ {
			if b, err := os.ReadFile(tp); err == nil && bytes.HasSuffix(b, []byte("\n")) && bytes.Contains(b, []byte("\nX ")) {
				break
			}
			time.Sleep(5 * time.Millisecond)
		}
		out.Lines, out.Kinds, out.FaultAt, out.Hash0, out.Hash1 = readTranscript(tp)
		if out.Hash1 == "" {
			// the simulator did not get to write its end mark: the state is a function of what it received
			st := newDevState(c.Scen.Backend, configLines(c.Scen))
			for i, l := range out.Lines {
				if out.Kinds[i] != "answer" {
					st.applyLine(l)
				}
			}
			out.Hash1 = st.hash()
		}
	}
	readLogs(c, work, &out)
	if hs != nil {
		out.Log = strings.ReplaceAll(out.Log, hs.srv.URL, "TESTSERVER")
	}
	out.WallMs = time.Since(start).Milliseconds()
	return out
}

// readLogs: what the run left in its directory besides the device's transcript
func readLogs(c CaseIn, work string, out *CaseOut) {
	logDir := filepath.Join(work, "policies", "p1", "log")
	logFile := filepath.Join(logDir, devName+".compare")
	if c.Tool == "drc" || c.Tool == "drc-nolog" {
		logFile = filepath.Join(work, "drc.log")
	}
	rd := func(p string) string { b, _ := os.ReadFile(p); return string(b) }
	out.Log = strings.ReplaceAll(rd(logFile), work+"/", "")
	out.CmpLog = rd(filepath.Join(logDir, devName+".cmp"))
	if _, err := os.Stat(filepath.Join(logDir, devName+".change")); err == nil {
		out.Change = true
	}
	out.Stderr = strings.ReplaceAll(out.Stderr, work+"/", "")
	all := out.Log + out.Stdout + out.Stderr
	out.Scp = strings.Contains(all, "Executing scp") || strings.Contains(all, ":/etc/network/")
}

// recoverOutcome: the worker process ended or blocked while it ran the case (the code under test
// called os.Exit, crashed the runtime, hangs): what the DEVICE received is in the journal of the
// simulator in the run's directory — judge that.
func recoverOutcome(c CaseIn, work, why string) CaseOut {
	out := CaseOut{Exit: 2, Panic: why, FaultAt: -1}
	if work == "" {
		return out
	}
	tp := filepath.Join(work, "sim", "transcript")
	if c.Scen.HTTP == nil {
		// the console simulator ends when its pty is closed: wait for its end mark
		os.WriteFile(filepath.Join(work, "sim", "stop"), nil, 0644)
		for i := 0; i < 300; i++ {
			if b, err := os.ReadFile(tp); err == nil && bytes.Contains(b, []byte("\nX ")) {
				break
			}
			time.Sleep(10 * time.Millisecond)
		}
	}
	out.Lines, out.Kinds, out.FaultAt, out.Hash0, out.Hash1 = readTranscript(tp)
	if out.Hash1 == "" && c.Scen.HTTP == nil && out.Hash0 != "" {
		st := newDevState(c.Scen.Backend, configLines(c.Scen))
		for i, l := range out.Lines {
			if out.Kinds[i] != "answer" {
				st.applyLine(l)
			}
		}
		out.Hash1 = st.hash()
	}
	readLogs(c, work, &out)
	return out
}

func errTextOf(backend string) string {
	switch backend {
	case "ASA":
		return "ERROR: % Invalid input detected at '^' marker."
	case "IOS":
		return "% Invalid next hop address (it's this router)"
	}
	return "-bash: line 1: command failed"
}

func readTranscript(path string) (lines, kinds []string, faultAt int, h0, h1 string) {
	faultAt = -1
	fh, err := os.Open(path)
	if err != nil {
		return
	}
	defer fh.Close()
	sc := bufio.NewScanner(fh)
	sc.Buffer(make([]byte, 1<<20), 1<<20)
	for sc.Scan() {
		t := sc.Text()
		f := strings.SplitN(t, " ", 4)
		if len(f) < 2 {
			continue
		}
		switch f[0] {
		case "L":
			l := ""
			if len(f) == 4 {
				l = f[3]
			}
			k := ""
			if len(f) >= 3 {
				k = f[2]
			}
			lines = append(lines, l)
			kinds = append(kinds, k)
		case "F":
			n, _ := strconv.Atoi(f[1])
			faultAt = n
		case "S0":
			h0 = f[1]
		case "S1":
			h1 = f[1]
		}
	}
	return
}

// worker: one JSON CaseIn per stdin line, one JSON CaseOut per stdout line.
func runWorker() {
	in := bufio.NewReaderSize(os.Stdin, 1<<22)
	w := bufio.NewWriter(os.Stdout)
	for {
		line, err := in.ReadBytes('\n')
		if len(line) > 1 {
			var c CaseIn
			if e := json.Unmarshal(line, &c); e != nil {
				fmt.Fprintln(w, `{"panic":"bad case json"}`)
			} else {
				o := runCase(c)
				data, _ := json.Marshal(o)
				w.Write(data)
				w.WriteByte('\n')
			}
			w.Flush()
		}
		if err != nil {
			return
		}
	}
}
