package main

// HTTP device simulator (PAN-OS XML API, NSX policy REST API) with fault injection and a device
// state (devstate.go): every request is applied to the state, whether it is answered or not;
// the state hash is taken before the run and after it.  Dialogue and fault kinds as harness/c09.
// Position p >= 1 of a fault: the reply to the p-th request.

import (
	"fmt"
	"io"
	"net/http"
	"net/http/httptest"
	"net/url"
	"os"
	"path/filepath"
	"regexp"
	"strings"
	"sync"
	"time"
)

type HTTPScen struct {
	// PAN-OS
	DeviceXML string `json:"device_xml,omitempty"` // body of the reply to action=get
	HA        string `json:"ha,omitempty"`         // "", "active", "passive"
	CommitMsg string `json:"commit_msg,omitempty"` // "" (job enqueued) | "nochanges"
	Pend      int    `json:"pend,omitempty"`       // number of PEND answers before the final one
	JobResult string `json:"job_result,omitempty"` // default OK
	// NSX
	PolicyList string            `json:"policy_list,omitempty"`
	Policies   map[string]string `json:"policies,omitempty"`
	Services   string            `json:"services,omitempty"`
	Groups     string            `json:"groups,omitempty"`
}

type httpSim struct {
	srv       *httptest.Server
	backend   string
	sc        *HTTPScen
	faultPos  int
	faultKind string
	mu        sync.Mutex
	lines     []string
	faultAt   int
	polls     int
	done      chan struct{}
	st        *devState
	kinds     []string // per request: what it was for the device
	hash0     string
	// every request is journalled to <simDir>/transcript as it arrives (format of the console
	// simulator: S0 hash, L n kind line, F n kind, S1 hash after every request), so that what the
	// device received survives a process that exits or hangs before it reports
	journal *os.File
}

var keyRe = regexp.MustCompile(`key=[^&]*&`)
var passRe = regexp.MustCompile(`password=[^&]*`)

func newHTTPSim(backend string, sc *HTTPScen, pos int, kind string, simDir string) *httpSim {
	h := &httpSim{backend: backend, sc: sc, faultPos: pos, faultKind: kind, faultAt: -1, done: make(chan struct{})}
	h.st = newDevState(backend, nil)
	h.hash0 = h.st.hash()
	if simDir != "" {
		h.journal, _ = os.OpenFile(filepath.Join(simDir, "transcript"), os.O_APPEND|os.O_CREATE|os.O_WRONLY, 0644)
	}
	if h.journal != nil {
		fmt.Fprintf(h.journal, "S0 %s\n", h.hash0)
	}
	h.srv = httptest.NewTLSServer(http.HandlerFunc(h.handle))
	return h
}

func (h *httpSim) close() {
	close(h.done)
	h.srv.CloseClientConnections()
	h.srv.Close()
}

func (h *httpSim) transcript() ([]string, []string, int, string, string) {
	h.mu.Lock()
	defer h.mu.Unlock()
	return append([]string(nil), h.lines...), append([]string(nil), h.kinds...), h.faultAt, h.hash0, h.st.hash()
}

func (h *httpSim) handle(w http.ResponseWriter, r *http.Request) {
	h.mu.Lock()
	q, _ := url.QueryUnescape(r.URL.RawQuery)
	q = keyRe.ReplaceAllString(q, "key=K&")
	q = passRe.ReplaceAllString(q, "password=P")
	line := r.Method + " " + r.URL.Path
	if q != "" {
		line += "?" + q
	}
	h.lines = append(h.lines, line)
	body, _ := io.ReadAll(r.Body)
	if r.Method == "POST" && r.URL.Path == "/api/session/create" {
		body = nil // the login form carries the password
	}
	h.kinds = append(h.kinds, h.st.applyHTTP(r.Method, r.URL.Path, r.URL.RawQuery, string(body)))
	idx := len(h.lines)
	if strings.Contains(q, "<show><jobs>") {
		h.polls++ // every poll counts, answered or not
	}
	fault := idx == h.faultPos
	if fault {
		h.faultAt = idx
	}
	kind := h.faultKind
	if h.journal != nil {
		jl := strings.NewReplacer("\t", " ", "\n", " ", "\r", " ").Replace(line)
		fmt.Fprintf(h.journal, "L %d %s %s\n", idx, h.kinds[idx-1], jl)
		if fault {
			fmt.Fprintf(h.journal, "F %d %s\n", idx, kind)
		}
		fmt.Fprintf(h.journal, "S1 %s\n", h.st.hash())
	}
	h.mu.Unlock()

	if fault {
		switch kind {
		case "httpstatus":
			w.WriteHeader(500)
			w.Write([]byte("device not ready\n"))
			return
		case "malformed":
			w.WriteHeader(200)
			w.Write([]byte("<invalid"))
			return
		case "errtext":
			if h.backend == "PAN-OS" {
				w.Write([]byte(`<response status="error" code="12"><msg>some error</msg></response>`))
			} else {
				w.WriteHeader(400)
				w.Write([]byte(`{"httpStatus":"BAD_REQUEST","error_code":500012,"error_message":"some error"}`))
			}
			return
		case "close":
			if hj, ok := w.(http.Hijacker); ok {
				conn, _, err := hj.Hijack()
				if err == nil {
					conn.Close()
				}
			}
			return
		case "silence":
			select {
			case <-time.After(1600 * time.Millisecond):
			case <-h.done:
			case <-r.Context().Done():
			}
			if hj, ok := w.(http.Hijacker); ok {
				conn, _, err := hj.Hijack()
				if err == nil {
					conn.Close()
				}
			}
			return
		case "errsuccess":
			w.Write([]byte(`<response status="error" code="13"><msg>commit was not a success: candidate configuration locked</msg></response>`))
			return
		case "commitmsg":
			if strings.Contains(q, "type=commit") {
				w.Write([]byte(`<response status="success" code="19"><msg>Commit failed, success not reached</msg></response>`))
				return
			}
		case "jobfail_success":
			if strings.Contains(q, "<show><jobs>") {
				w.Write([]byte(`<response status="success"><result><job><result>FAIL</result><details><line>0 of 3 success, status not OK</line></details></job></result></response>`))
				return
			}
		case "jobfail":
			if strings.Contains(q, "<show><jobs>") {
				w.Write([]byte(`<response status="success"><result><job><result>FAIL</result></job></result></response>`))
				return
			}
		}
	}
	if h.backend == "PAN-OS" {
		h.panos(w, r, q)
	} else {
		h.nsx(w, r)
	}
}

func (h *httpSim) panos(w http.ResponseWriter, r *http.Request, q string) {
	v := r.URL.Query()
	switch {
	case v.Get("type") == "keygen":
		fmt.Fprint(w, "<response status = 'success'>\n <result><key>LUFRPT=</key></result>\n</response>\n")
	case v.Get("type") == "op" && strings.Contains(v.Get("cmd"), "high-availability"):
		switch h.sc.HA {
		case "":
			fmt.Fprint(w, "<response status = 'success'><result><enabled>no</enabled></result></response>\n")
		default:
			fmt.Fprintf(w, "<response status = 'success'><result><enabled>yes</enabled><group><mode>Active-Passive</mode><local-info><state>%s</state></local-info></group></result></response>\n", h.sc.HA)
		}
	case v.Get("type") == "config" && v.Get("action") == "get":
		fmt.Fprint(w, h.sc.DeviceXML)
	case v.Get("type") == "config":
		fmt.Fprint(w, `<response status="success" code="20"></response>`)
	case v.Get("type") == "commit":
		if h.sc.CommitMsg == "nochanges" {
			fmt.Fprint(w, `<response status="success" code="19"><msg>There are no changes to commit.</msg></response>`)
		} else {
			fmt.Fprint(w, `<response status="success" code="19"><result><job>6</job></result></response>`)
		}
	case v.Get("type") == "op" && strings.Contains(v.Get("cmd"), "<jobs>"):
		h.mu.Lock()
		n := h.polls
		h.mu.Unlock()
		res := h.sc.JobResult
		if res == "" {
			res = "OK"
		}
		if n <= h.sc.Pend {
			res = "PEND"
		}
		fmt.Fprintf(w, "<response status=\"success\"><result><job>\n<result>%s</result>\n</job></result></response>", res)
	default:
		w.WriteHeader(404)
		fmt.Fprint(w, "404 page not found\n")
	}
}

func (h *httpSim) nsx(w http.ResponseWriter, r *http.Request) {
	p := r.URL.Path
	const gp = "/policy/api/v1/infra/domains/default/gateway-policies"
	orEmpty := func(s string) string {
		if s == "" {
			return "{}"
		}
		return s
	}
	switch {
	case r.Method == "POST" && p == "/api/session/create":
		w.Header().Set("x-xsrf-token", "secret")
		w.WriteHeader(200)
	case r.Method == "GET" && p == gp:
		fmt.Fprint(w, orEmpty(h.sc.PolicyList))
	case r.Method == "GET" && strings.HasPrefix(p, gp+"/"):
		fmt.Fprint(w, orEmpty(h.sc.Policies[strings.TrimPrefix(p, gp+"/")]))
	case r.Method == "GET" && p == "/policy/api/v1/infra/services":
		fmt.Fprint(w, orEmpty(h.sc.Services))
	case r.Method == "GET" && p == "/policy/api/v1/infra/domains/default/groups":
		fmt.Fprint(w, orEmpty(h.sc.Groups))
	case r.Method == "GET":
		w.WriteHeader(404)
		fmt.Fprint(w, "404 page not found\n")
	default:
		fmt.Fprint(w, "{}")
	}
}
