package main

// C13, glue stream: the REAL do-approve (doapprove.Main, in-process) against the project's own simulated
// IOS device, with `newpolicy` switching policies/current while the session is open.  The status record
// must name the policy whose code was read at the start of the run (that is what the device was compared
// with / what it carries afterwards); the listing of the real missing-approve afterwards is judged by the
// Lean specification on the history [np c1, (drift,) ok|cmp, np c2].

import (
	"encoding/json"
	"fmt"
	"os"
	"os/exec"
	"path/filepath"
	"strings"
	. "verifharness/vhlib"

	"github.com/hknutzen/Netspoc-Approve/go/pkg/doapprove"
)

type glueCase struct {
	Action  string `json:"action"`   // approve | compare
	DevHas  string `json:"dev_has"`  // A | B : the route the device shows
	P2Code  string `json:"p2_code"`  // A | B | C : code of the second policy
	Switch  string `json:"switch"`   // during | before | never
	PrevOld bool   `json:"prev_old"` // a status file from an older run exists
}

var glueRoute = map[string]string{
	"A": "ip route 10.20.0.0 255.255.0.0 10.1.2.3\n",
	"B": "ip route 10.20.0.0 255.255.0.0 10.1.2.99\n",
	"C": "ip route 10.30.0.0 255.255.0.0 10.1.2.4\n",
}
var glueCode = map[string]string{"A": "1,0,0,0,0,0", "B": "2,0,0,0,0,0", "C": "1,5,0,0,0,0"}

const glueInfo = `{ "model": "IOS", "name_list": [ "router" ], "ip_list": [ "10.1.13.33" ] }` + "\n"

func glueScenario(route string) string {
	return `Enter Password:<!>
banner motd  managed by NetSPoC
router>
# sh ver
Cisco IOS Software, C2900 Software (C2900-UNIVERSALK9-M), Version 15.1(4)M4,
# configure terminal
Enter configuration commands, one per line.  End with CNTL/Z.
# write memory
Building configuration...
  Compressed configuration from 106098 bytes to 30504 bytes[OK]
# sh run
` + route + "END\n"
}

func stripTimes(obs string) string {
	// "A=OK/3/6 C=UPTODATE/3/7 L=0" -> "A=OK/3 C=UPTODATE/3 L=0"
	var out []string
	for _, f := range strings.Fields(obs) {
		if i := strings.LastIndex(f, "/"); i > 0 && (strings.HasPrefix(f, "A=") || strings.HasPrefix(f, "C=")) {
			f = f[:i]
		}
		out = append(out, f)
	}
	return strings.Join(out, " ")
}

func runGlue(ctx *Ctx, res *Result, drv *Nadrv, tmp, maBinary string, only *glueCase) {
	simul := filepath.Join(ctx.Repo, "go", "testdata", "simulate-cisco.pl")
	if _, err := os.Stat(simul); err != nil {
		res.Disagree("c13 glue: device simulator of the project", nil, "missing "+simul, "")
		return
	}
	var cases []glueCase
	if only != nil {
		cases = []glueCase{*only}
	} else {
		for _, act := range []string{"approve", "compare"} {
			for _, dev := range []string{"A", "B", "C"} {
				for _, p2 := range []string{"A", "B", "C"} {
					for _, sw := range []string{"during", "before", "never"} {
						for _, prev := range []bool{false, true} {
							if act == "approve" {
								// the simulated device does not execute change commands: an approve
								// is run against a device that already carries the code it reads
								want := "A"
								if sw == "before" {
									want = p2
								}
								if dev != want {
									continue
								}
							}
							cases = append(cases, glueCase{act, dev, p2, sw, prev})
						}
					}
				}
			}
		}
		if !ctx.Thorough() {
			// quick tier: a seeded half of the matrix, the policy switch during the run always included
			var sel []glueCase
			for _, c := range cases {
				if c.Switch == "during" || ctx.Rng.Chance(35) {
					sel = append(sel, c)
				}
			}
			cases = sel
		}
	}
	prevHome, prevDir := os.Getenv("HOME"), ""
	prevDir, _ = os.Getwd()
	prevArgs := os.Args
	defer func() { os.Setenv("HOME", prevHome); os.Chdir(prevDir); os.Args = prevArgs; os.Unsetenv("SIMULATE_ROUTER") }()
	for i, c := range cases {
		work := filepath.Join(tmp, fmt.Sprintf("g%d", i))
		// policies: p1 = A always; p2 = c.P2Code
		WriteFiles(work, map[string]string{
			"policies/p1/code/router":      glueRoute["A"],
			"policies/p1/code/router.info": glueInfo,
			"policies/p2/code/router":      glueRoute[c.P2Code],
			"policies/p2/code/router.info": glueInfo,
			"credentials":                  "* admin secret\n",
			".netspoc-approve":             fmt.Sprintf("basedir = %s\ncheckbanner = NetSPoC\nsystemuser = admin\ntimeout = 1\n", work),
			"scenario":                     glueScenario(glueRoute[c.DevHas]),
		})
		for _, d := range []string{"lock", "status", "history"} {
			os.MkdirAll(filepath.Join(work, d), 0755)
		}
		start := "p1"
		if c.Switch == "before" {
			start = "p2"
		}
		os.Symlink(start, filepath.Join(work, "policies", "current"))
		sim := "exec perl '" + simul + "' \"$@\"\n"
		if c.Switch == "during" {
			sim = "ln -sfn p2 '" + work + "/policies/current'\n" + sim
		}
		os.WriteFile(filepath.Join(work, "sim.sh"), []byte("#!/bin/sh\n"+sim), 0755)
		if c.PrevOld {
			os.WriteFile(filepath.Join(work, "status", "router"), []byte(
				`{"approve":{"result":"OK","policy":"p1","time":1700000001},"compare":{"result":"UPTODATE","policy":"p1","time":1700000002}}`), 0644)
		}
		os.Setenv("HOME", work)
		os.Setenv("TEST_TIME", "2024-Sep-29 16:19:50")
		os.Setenv("SIMULATE_ROUTER", filepath.Join(work, "sim.sh")+" router "+filepath.Join(work, "scenario"))
		os.Chdir(work)
		os.Args = []string{"do-approve", c.Action, "router"}
		_, stderr, rc, pmsg := Captured(doapprove.Main)
		os.Unsetenv("SIMULATE_ROUTER")
		os.Chdir(prevDir)

		// what the real system recorded and lists
		var v struct {
			Approve, Compare struct{ Result, Policy string }
		}
		data, _ := os.ReadFile(filepath.Join(work, "status", "router"))
		json.Unmarshal(data, &v)
		if c.Switch == "never" {
			os.Remove(filepath.Join(work, "policies", "current"))
			os.Symlink("p2", filepath.Join(work, "policies", "current"))
		}
		cmd := exec.Command(maBinary)
		cmd.Env = append(os.Environ(), "HOME="+work)
		out, err := cmd.CombinedOutput()
		listed := "?"
		switch {
		case err != nil:
			listed = "ERR(" + strings.TrimSpace(string(out)) + ")"
		case strings.TrimSpace(string(out)) == "router":
			listed = "1"
		case strings.TrimSpace(string(out)) == "":
			listed = "0"
		}
		pn := func(p string) string {
			if p == "" {
				return "0"
			}
			return strings.TrimPrefix(p, "p")
		}
		impl := fmt.Sprintf("rc=%d A=%s/%s C=%s/%s L=%s", rc, v.Approve.Result, pn(v.Approve.Policy), v.Compare.Result, pn(v.Compare.Policy), listed)
		if pmsg != "" {
			impl += " PANIC " + pmsg
		}

		// the same history on the Lean model: policy numbers are 1 (p1) and 2 (p2)
		var es []c13Event
		ev := "ok"
		if c.Action == "compare" {
			ev = "cmp"
		}
		switch c.Switch {
		case "before": // np p1, np p2, (drift), run under p2
			es = []c13Event{{Kind: "np", Arg: glueCode["A"]}, {Kind: "np", Arg: glueCode[c.P2Code]}}
		default: // np p1, (drift), run under p1, np p2 (during the run or after it)
			es = []c13Event{{Kind: "np", Arg: glueCode["A"]}}
		}
		if c.PrevOld {
			// the older record: approve OK p1 + compare UPTODATE p1 while the device carried A
			es = append([]c13Event{es[0], {Kind: "ok"}, {Kind: "cmp"}}, es[1:]...)
		}
		es = append(es, c13Event{Kind: "drift", Arg: glueCode[c.DevHas]}, c13Event{Kind: ev})
		if c.Switch != "before" {
			es = append(es, c13Event{Kind: "np", Arg: glueCode[c.P2Code]})
		}
		ans := drv.Ask(c13Line(es))
		stepsRaw, _, _ := strings.Cut(ans, " | ")
		steps := strings.Split(stepsRaw, ";")
		last := steps[len(steps)-1]
		m, sp, _ := strings.Cut(last, " @")
		wantRC := 0
		model := fmt.Sprintf("rc=%d %s", wantRC, stripTimes(m))
		res.Eval("glue:"+JSONStr(c), c.Switch == "during")
		res.TracesVsImpl++
		res.Count("glue:" + c.Action + "/" + c.Switch)
		if impl != model {
			res.Disagree("c13 glue: status record and listing after a real do-approve run", c, impl+" stderr="+strings.TrimSpace(stderr), model)
		}
		flags := map[string]string{}
		for _, f := range strings.Split(sp, ",") {
			k, val, _ := strings.Cut(f, "=")
			flags[k] = val
		}
		if flags["needs"] == "1" && listed != "1" {
			res.Fail(map[string]any{"pred": "do_approve_records_policy_other_than_the_one_it_read", "half": "listing"},
				"after a real do-approve run with a policy change, missing-approve does not list a device that needs approve: "+JSONStr(c)+" real: "+impl, c)
		}
		if flags["needs"] == "0" && listed == "1" && flags["od"] == "1" {
			res.Fail(map[string]any{"pred": "do_approve_glue", "half": "omission"},
				"after a real do-approve run, missing-approve lists a device whose latest conclusive observation establishes the current code: "+JSONStr(c)+" real: "+impl, c)
		}
		os.RemoveAll(work)
	}
}
