package main

// C13 — missing-approve never forgets a device that needs approve.
// Tie: random / exhaustive histories are replayed on the real `status` package and the real
// `missing-approve` binary (TEST_TIME clock, real bzip2) and on the Lean model; the status
// file and the listing are compared after every event.
// Oracle: the specification (latest conclusive observation) is evaluated by the Lean side;
// a listing that contradicts it on the real binary is a failure.

import (
	"encoding/json"
	"fmt"
	"os"
	"os/exec"
	"path/filepath"
	"strconv"
	"strings"
	"time"
	. "verifharness/vhlib"

	"github.com/hknutzen/Netspoc-Approve/go/pkg/program"
	"github.com/hknutzen/Netspoc-Approve/go/pkg/status"
)

func main() { Main(map[string]PropFunc{"C13": runC13}) }

type c13Event struct {
	Kind string `json:"kind"`
	Arg  string `json:"arg"`
	Dt   int    `json:"dt"`
	Dmg  string `json:"damage,omitempty"` // what is written for a dmg event
}

func (e c13Event) enc() string { return fmt.Sprintf("%s:%s:%d", e.Kind, e.Arg, e.Dt) }

func c13Line(es []c13Event) string {
	l := make([]string, len(es))
	for i, e := range es {
		l[i] = e.enc()
	}
	return strings.Join(l, ";")
}

var c13Slots = [6][2]string{{"code", ""}, {"code", ".raw"}, {"code/ipv6", ""}, {"code/ipv6", ".raw"}, {"code/ipv4", ""}, {"code/ipv4", ".raw"}}

func c13Code(s string) []int {
	var r []int
	for _, f := range strings.Split(s, ",") {
		n, _ := strconv.Atoi(f)
		r = append(r, n)
	}
	return r
}

type c13World struct {
	dir      string
	cfg      *program.Config
	codes    [][]int
	dev      []int
	clock    int
	maBinary string
	v6decoy  bool   // the policies of this world hold an IPv6-only device (then code/ipv6 exists in every policy)
	others   string // what is wrong with the listing of the other devices (empty = all right)
}

const c13Base = 1700000000

func (w *c13World) setTime() {
	t := time.Unix(int64(c13Base+w.clock), 0).UTC()
	os.Setenv("TEST_TIME", t.Format("2006-Jan-02 15:04:05"))
}

func (w *c13World) writePolicy(n int, code []int, emptyFiles bool) {
	pdir := filepath.Join(w.dir, "policies", fmt.Sprintf("p%d", n))
	walked := false
	for i, sl := range c13Slots {
		p := filepath.Join(pdir, sl[0], "dev"+sl[1])
		if sl[0] == "code" || code[i] != 0 || emptyFiles && i%2 == 1 {
			// code/ipv6 and code/ipv4 exist only in policies that have something in them
			os.MkdirAll(filepath.Dir(p), 0755)
		}
		if code[i] != 0 {
			os.WriteFile(p, c13Content(code[i], i), 0644)
			if sl[1] == "" {
				walked = true
			}
		} else if emptyFiles && i%2 == 1 {
			os.WriteFile(p, nil, 0644) // empty raw file instead of absent
		}
	}
	if !walked {
		// the device must be found by WalkDir: an empty code file
		os.WriteFile(filepath.Join(pdir, "code", "dev"), nil, 0644)
	}
	// other devices of the same policy, whose listing is known without the model: `aaa` (sorts first) and the
	// IPv6-only `zzz6` are never approved and must always be printed; `devel` (name extends `dev`) is approved
	// successfully right after every policy change and must never be printed; files with a dot are no devices
	os.WriteFile(filepath.Join(pdir, "code", "aaa"), []byte(fmt.Sprintf("aaa %d\n", n)), 0644)
	os.WriteFile(filepath.Join(pdir, "code", "devel"), []byte(fmt.Sprintf("devel %d\n", n)), 0644)
	os.WriteFile(filepath.Join(pdir, "code", "dev.info"), []byte("{}\n"), 0644)
	if w.v6decoy {
		os.MkdirAll(filepath.Join(pdir, "code", "ipv6"), 0755)
		os.WriteFile(filepath.Join(pdir, "code", "ipv6", "zzz6"), []byte(fmt.Sprintf("zzz6 %d\n", n)), 0644)
	}
	status.SetApprove(w.cfg, "devel", fmt.Sprintf("p%d", n), false)
	cur := filepath.Join(w.dir, "policies", "current")
	os.Remove(cur)
	os.Symlink(fmt.Sprintf("p%d", n), cur)
}

// c13Content maps the abstract value k of slot i to file content such that different values give different
// content AND the contents of one slot are related the way real code files of successive policies are: in even
// slots a smaller value is a strict PREFIX of every larger one (rules appended / removed at the end), in odd slots a
// strict SUFFIX (rules prepended / removed at the top); all contents of a slot share their first and last line.
// (Seeded change C13-W1: a compressed old file was only read up to the length of the current file.)
func c13Content(k, i int) []byte {
	var lines []string
	for j := 1; j <= k; j++ {
		lines = append(lines, fmt.Sprintf("line %d of slot %d\n", j, i))
	}
	if i%2 == 1 {
		for a, b := 0, len(lines)-1; a < b; a, b = a+1, b-1 {
			lines[a], lines[b] = lines[b], lines[a]
		}
	}
	return []byte(strings.Join(lines, ""))
}

func eqCode(a, b []int) bool {
	for i := range a {
		if a[i] != b[i] {
			return false
		}
	}
	return true
}

func (w *c13World) apply(e c13Event, rng *RNG) {
	w.clock += e.Dt + 1
	w.setTime()
	cur := len(w.codes)
	pol := fmt.Sprintf("p%d", cur)
	switch e.Kind {
	case "np":
		c := c13Code(e.Arg)
		w.codes = append(w.codes, c)
		w.writePolicy(len(w.codes), c, rng.Bool())
	case "ok":
		if cur > 0 {
			w.dev = w.codes[cur-1]
			status.SetApprove(w.cfg, "dev", pol, false)
		}
	case "fail":
		if cur > 0 {
			status.SetApprove(w.cfg, "dev", pol, true)
		}
	case "cmp":
		if cur > 0 {
			status.SetCompare(w.cfg, "dev", pol, !eqCode(w.dev, w.codes[cur-1]))
		}
	case "cmperr":
		if cur > 0 {
			status.SetCompare(w.cfg, "dev", pol, true)
		}
	case "drift":
		w.dev = c13Code(e.Arg)
	case "bz":
		p, _ := strconv.Atoi(e.Arg)
		if p >= 1 && p < cur {
			pdir := filepath.Join(w.dir, "policies", fmt.Sprintf("p%d", p))
			filepath.Walk(pdir, func(path string, info os.FileInfo, err error) error {
				if err == nil && !info.IsDir() && !strings.HasSuffix(path, ".bz2") {
					exec.Command("bzip2", path).Run()
				}
				return nil
			})
		}
	case "rm":
		p, _ := strconv.Atoi(e.Arg)
		if p >= 1 && p < cur {
			os.RemoveAll(filepath.Join(w.dir, "policies", fmt.Sprintf("p%d", p)))
		}
	case "dmg":
		os.MkdirAll(filepath.Join(w.dir, "status"), 0755)
		os.WriteFile(filepath.Join(w.dir, "status", "dev"), []byte(e.Dmg), 0644)
	}
}

// observe returns the canonical `A=… C=… L=…` string of the real system.
func (w *c13World) observe() string {
	var v struct {
		Approve, Compare struct {
			Result string `json:"result"`
			Policy string `json:"policy"`
			Time   int64  `json:"time"`
		}
	}
	data, _ := os.ReadFile(filepath.Join(w.dir, "status", "dev"))
	json.Unmarshal(data, &v)
	show := func(r, p string, t int64) string {
		n := 0
		if strings.HasPrefix(p, "p") {
			n, _ = strconv.Atoi(p[1:])
		}
		if t != 0 {
			t -= c13Base
		}
		return fmt.Sprintf("%s/%d/%d", r, n, t)
	}
	listed := "?"
	if len(w.codes) > 0 {
		cmd := exec.Command(w.maBinary)
		cmd.Env = append(os.Environ(), "HOME="+w.dir)
		out, err := cmd.CombinedOutput()
		names := map[string]int{}
		for _, l := range strings.Split(strings.TrimSpace(string(out)), "\n") {
			if l != "" {
				names[l]++
			}
		}
		switch {
		case err != nil:
			listed = "ERR(" + strings.TrimSpace(string(out)) + ")"
		case names["dev"] == 1:
			listed = "1"
		case names["dev"] == 0:
			listed = "0"
		default:
			listed = "?(" + strings.TrimSpace(string(out)) + ")"
		}
		if err == nil {
			w.others = ""
			if names["aaa"] != 1 {
				w.others += fmt.Sprintf(" aaa printed %d times (never approved: must be printed once)", names["aaa"])
			}
			if w.v6decoy && names["zzz6"] != 1 || !w.v6decoy && names["zzz6"] != 0 {
				w.others += fmt.Sprintf(" zzz6 (IPv6 only) printed %d times (never approved: must be printed once)", names["zzz6"])
			}
			if names["devel"] != 0 {
				w.others += " devel printed (approved successfully for the current policy: must not be printed)"
			}
			delete(names, "aaa")
			delete(names, "zzz6")
			delete(names, "devel")
			delete(names, "dev")
			for n := range names {
				w.others += " unexpected line " + strconv.Quote(n)
			}
		}
	}
	return fmt.Sprintf("A=%s C=%s L=%s", show(v.Approve.Result, v.Approve.Policy, v.Approve.Time),
		show(v.Compare.Result, v.Compare.Policy, v.Compare.Time), listed)
}

func c13RandCode(rng *RNG, pool int) string {
	// few distinct codes so that policies with equal code (reverts) are frequent
	base := [][]int{{1, 0, 0, 0, 0, 0}, {2, 0, 0, 0, 0, 0}, {1, 5, 0, 0, 0, 0}, {0, 0, 3, 0, 0, 0}, {1, 0, 3, 4, 0, 0},
		{0, 0, 0, 0, 6, 7}, {0, 0, 0, 0, 0, 0}, {1, 0, 3, 0, 0, 0}}
	n := pool
	if n > len(base) {
		n = len(base)
	}
	c := base[rng.Intn(n)]
	l := make([]string, 6)
	for i, v := range c {
		l[i] = strconv.Itoa(v)
	}
	return strings.Join(l, ",")
}

var c13Damages = []string{"", "{", `{"approve":{"result":"OK","policy":"p1","ti`, "\x00\x01garbage", "[]]", `{"approve":`}

func c13GenHistory(rng *RNG, maxLen int) []c13Event {
	n := 2 + rng.Intn(maxLen-1)
	es := []c13Event{{Kind: "np", Arg: c13RandCode(rng, 3)}}
	pool := 3 + rng.Intn(5)
	npol := 1
	codes := []string{es[0].Arg} // codes of the policies so far: reverts, repeats and manual syncs are made frequent
	for len(es) < n {
		e := c13Event{}
		if rng.Chance(25) {
			e.Dt = rng.Intn(5)
		}
		switch k := rng.Intn(100); {
		case k < 18:
			e.Kind, e.Arg = "np", c13RandCode(rng, pool)
			switch r := rng.Intn(100); {
			case r < 25:
				e.Arg = codes[len(codes)-1] // new policy, same code for this device
			case r < 45:
				e.Arg = Pick(rng, codes) // revert to an earlier code
			case r < 70:
				// one file of the previous code grows, shrinks or vanishes (its content stays a prefix / suffix)
				c := c13Code(codes[len(codes)-1])
				i := rng.Intn(len(c))
				switch rng.Intn(3) {
				case 0:
					c[i]++
				case 1:
					if c[i] > 0 {
						c[i]--
					}
				default:
					c[i] = 0
				}
				var fs []string
				for _, v := range c {
					fs = append(fs, strconv.Itoa(v))
				}
				e.Arg = strings.Join(fs, ",")
			}
			codes = append(codes, e.Arg)
			npol++
			if rng.Chance(30) {
				// old policies are compressed soon after they stop being current
				es = append(es, e)
				e = c13Event{Kind: "bz", Arg: strconv.Itoa(1 + rng.Intn(npol-1))}
			}
		case k < 38:
			e.Kind = "ok"
		case k < 50:
			e.Kind = "fail"
		case k < 72:
			e.Kind = "cmp"
		case k < 76:
			e.Kind = "cmperr"
		case k < 84:
			e.Kind, e.Arg = "drift", c13RandCode(rng, pool)
			if rng.Chance(50) {
				e.Arg = codes[len(codes)-1] // manual change that makes the device equal to the current policy
			}
		case k < 89:
			e.Kind, e.Arg = "bz", strconv.Itoa(1+rng.Intn(npol))
		case k < 95:
			e.Kind, e.Arg = "rm", strconv.Itoa(1+rng.Intn(npol))
		default:
			e.Kind, e.Dmg = "dmg", Pick(rng, c13Damages)
		}
		es = append(es, e)
	}
	return es
}

// c13Exhaustive enumerates all histories of the given length over a small alphabet.
func c13Exhaustive(length int, f func([]c13Event)) {
	alpha := []c13Event{
		{Kind: "np", Arg: "1,0,0,0,0,0"}, {Kind: "np", Arg: "2,0,0,0,0,0"}, {Kind: "ok"}, {Kind: "fail"},
		{Kind: "cmp"}, {Kind: "drift", Arg: "2,0,0,0,0,0"}, {Kind: "rm", Arg: "1"}, {Kind: "dmg", Dmg: "{"}}
	var rec func(prefix []c13Event)
	rec = func(prefix []c13Event) {
		if len(prefix) == length {
			f(append([]c13Event{}, prefix...))
			return
		}
		for _, a := range alpha {
			rec(append(prefix, a))
		}
	}
	rec([]c13Event{{Kind: "np", Arg: "1,0,0,0,0,0"}})
}

func runC13(ctx *Ctx) *Result {
	res := NewResult()
	res.Rule = "histories over {new policy (same/different code in six files), approve ok/failed, compare, compare with errors, " +
		"drift, bzip2, removal, damaged status} with strictly increasing TEST_TIME, replayed on the real status package and the " +
		"real missing-approve binary; corpus first, then seeded random, then (thorough) all histories of length<=6 over an " +
		"8-event alphabet. non-trivial = history with at least one approve and one compare and two policies; distinct by event text"
	res.Assumptions = []string{"bzip2 compression via /usr/bin/bzip2", "status files are damaged only into non-JSON byte strings"}
	tmp, err := os.MkdirTemp("", "vh-c13-")
	if err != nil {
		panic(err)
	}
	defer os.RemoveAll(tmp)
	bin := filepath.Join(tmp, "missing-approve")
	repo := ctx.Repo
	cmd := exec.Command("go", "build", "-o", bin, "./cmd/missing-approve")
	cmd.Dir = filepath.Join(repo, "go")
	if out, err := cmd.CombinedOutput(); err != nil {
		res.Disagree("build missing-approve", nil, string(out), "")
		return res
	}
	drv := ctx.StartNadrv("c13")
	defer drv.Close()

	caseNo := 0
	runHistory := func(es []c13Event, rng *RNG) {
		caseNo++
		dir := filepath.Join(tmp, fmt.Sprintf("c%d", caseNo))
		os.MkdirAll(filepath.Join(dir, "policies"), 0755)
		os.WriteFile(filepath.Join(dir, ".netspoc-approve"), []byte("basedir = "+dir+"\n"), 0644)
		w := &c13World{dir: dir, cfg: &program.Config{BaseDir: dir}, dev: []int{0, 0, 0, 0, 0, 0}, maBinary: bin, v6decoy: caseNo%2 == 0}
		var impl []string
		for k, e := range es {
			w.apply(e, rng)
			impl = append(impl, w.observe())
			if w.others != "" {
				res.Fail(map[string]any{"pred": "other_device_listing_wrong", "half": "listing"},
					"missing-approve lists the other devices of the policy wrongly after "+c13Line(es[:k+1])+":"+w.others, es[:k+1])
			}
		}
		os.RemoveAll(dir)
		ans := drv.Ask(c13Line(es))
		modelStepsRaw, tail, _ := strings.Cut(ans, " | ")
		var modelParts, specParts []string
		for _, st := range strings.Split(modelStepsRaw, ";") {
			m, sp, _ := strings.Cut(st, " @")
			modelParts = append(modelParts, m)
			specParts = append(specParts, sp)
		}
		modelSteps := strings.Join(modelParts, ";")
		implS := strings.Join(impl, ";")
		kinds := map[string]int{}
		for _, e := range es {
			kinds[e.Kind]++
			res.Count("event:" + e.Kind)
		}
		nontrivial := kinds["ok"]+kinds["fail"] > 0 && kinds["cmp"] > 0 && kinds["np"] > 1
		res.Eval(c13Line(es), nontrivial)
		res.TracesVsImpl++
		res.Count(fmt.Sprintf("len:%02d", len(es)))
		if implS != modelSteps {
			res.Disagree("c13 status+listing per event", es, implS, modelSteps)
			// go on: the oracle below compares the REAL listing with the specification
		}
		// direct oracle on the real binary's answer after EVERY event (specification side computed in Lean)
		for k := range impl {
			if k >= len(specParts) {
				break
			}
			flags := map[string]string{}
			for _, f := range strings.Split(specParts[k], ",") {
				kk, v, _ := strings.Cut(f, "=")
				flags[kk] = v
			}
			listed := strings.HasSuffix(impl[k], "L=1")
			prefix := es[:k+1]
			if k == len(impl)-1 {
				res.Count("final:needs=" + flags["needs"] + ",listed=" + impl[k][len(impl[k])-1:])
			}
			if flags["needs"] == "1" && !listed {
				pred := "other"
				switch {
				case flags["hz"] == "1":
					pred = "failed_approve_erases_newer_ok_falls_back_to_stale_uptodate"
				case flags["ne"] == "0":
					pred = "observed_policy_removed_and_current_code_empty"
				}
				res.Fail(map[string]any{"pred": pred, "half": "listing"},
					"missing-approve does not list a device whose latest conclusive observation does not establish the current code: "+c13Line(prefix), prefix)
			}
			if flags["needs"] == "0" && listed && flags["od"] == "1" {
				switch flags["db"] {
				case "fail":
					res.Fail(map[string]any{"pred": "failed_approve_overwrites_record_of_successful_approve", "half": "omission"},
						"missing-approve lists a device whose latest conclusive observation establishes the current code: "+c13Line(prefix), prefix)
				case "cmperr", "dmg":
					// a compare that ended with errors must record DIFF (C09) and a damaged status file must
					// lead to listing (listing half): the record is legitimately gone, not a violation
					res.Count("omission-excused:" + flags["db"])
				default:
					res.Fail(map[string]any{"pred": "other", "half": "omission"},
						"missing-approve lists a device whose latest conclusive observation establishes the current code: "+c13Line(prefix), prefix)
				}
			}
		}
		if len(res.Samples) < 3 && nontrivial {
			res.Sample(map[string]any{"history": c13Line(es), "impl": implS, "spec": tail})
		}
	}

	if ctx.Replay != "" {
		var es []c13Event
		var gc glueCase
		if err := ReadReplay(ctx.Replay, &gc); err == nil && gc.Action != "" {
			runGlue(ctx, res, drv, tmp, bin, &gc)
			return res
		}
		if err := ReadReplay(ctx.Replay, &es); err != nil {
			fmt.Fprintln(os.Stderr, err)
			os.Exit(2)
		}
		runHistory(es, ctx.Rng.Fork())
		return res
	}
	// corpus
	corpus := [][]c13Event{
		{{Kind: "np", Arg: "1,0,0,0,0,0"}, {Kind: "ok"}, {Kind: "cmp"}, {Kind: "np", Arg: "2,0,0,0,0,0"}, {Kind: "ok"},
			{Kind: "np", Arg: "1,0,0,0,0,0"}, {Kind: "fail"}},
		{{Kind: "np", Arg: "1,0,0,0,0,0"}, {Kind: "ok"}, {Kind: "np", Arg: "0,0,0,0,0,0"}, {Kind: "rm", Arg: "1"}},
		{{Kind: "np", Arg: "1,0,0,0,0,0"}, {Kind: "ok"}, {Kind: "fail"}},
		// the current policy is the first to have IPv6 (or IPv4-directory) code for the device
		{{Kind: "np", Arg: "1,0,0,0,0,0"}, {Kind: "ok"}, {Kind: "np", Arg: "1,0,3,0,0,0"}},
		{{Kind: "np", Arg: "1,0,0,0,0,0"}, {Kind: "ok"}, {Kind: "np", Arg: "1,0,3,4,0,0"}, {Kind: "bz", Arg: "1"}},
		{{Kind: "np", Arg: "1,0,0,0,0,0"}, {Kind: "cmp"}, {Kind: "np", Arg: "1,0,0,0,6,7"}},
		// two UPTODATE compares across a policy change and a manual change, then a revert / a removal
		{{Kind: "np", Arg: "1,0,0,0,0,0"}, {Kind: "drift", Arg: "1,0,0,0,0,0"}, {Kind: "cmp"}, {Kind: "np", Arg: "2,0,0,0,0,0"},
			{Kind: "drift", Arg: "2,0,0,0,0,0"}, {Kind: "cmp"}, {Kind: "np", Arg: "1,0,0,0,0,0"}},
		{{Kind: "np", Arg: "1,0,0,0,0,0"}, {Kind: "drift", Arg: "1,0,0,0,0,0"}, {Kind: "cmp"}, {Kind: "np", Arg: "1,0,0,0,0,0"},
			{Kind: "cmp"}, {Kind: "rm", Arg: "1"}},
		{{Kind: "np", Arg: "1,0,0,0,0,0"}, {Kind: "cmp"}, {Kind: "ok"}, {Kind: "drift", Arg: "2,0,0,0,0,0"}, {Kind: "cmp"}, {Kind: "cmp"},
			{Kind: "ok"}, {Kind: "cmp"}, {Kind: "np", Arg: "1,0,0,0,0,0"}, {Kind: "bz", Arg: "1"}},
	}
	corpus = append(corpus,
		// C13-W1: the current file is a strict prefix / suffix of the compressed file of the device's policy, or empty
		[]c13Event{{Kind: "np", Arg: "3,0,0,0,0,0"}, {Kind: "ok"}, {Kind: "np", Arg: "2,0,0,0,0,0"}, {Kind: "bz", Arg: "1"}},
		[]c13Event{{Kind: "np", Arg: "1,3,0,0,0,0"}, {Kind: "ok"}, {Kind: "np", Arg: "1,2,0,0,0,0"}, {Kind: "bz", Arg: "1"}},
		[]c13Event{{Kind: "np", Arg: "1,0,2,0,0,0"}, {Kind: "cmp"}, {Kind: "np", Arg: "1,0,0,0,0,0"}, {Kind: "bz", Arg: "1"}},
		[]c13Event{{Kind: "np", Arg: "2,0,0,0,0,0"}, {Kind: "ok"}, {Kind: "np", Arg: "3,0,0,0,0,0"}, {Kind: "bz", Arg: "1"}})
	for _, es := range corpus {
		runHistory(es, ctx.Rng.Fork())
	}
	runGlue(ctx, res, drv, tmp, bin, nil)
	n := ctx.N(500, 6000)
	maxLen := ctx.N(12, 20)
	for i := 0; i < n; i++ {
		rng := ctx.Rng.Fork()
		runHistory(c13GenHistory(rng, maxLen), rng)
	}
	if ctx.Thorough() {
		for l := 2; l <= 5; l++ {
			c13Exhaustive(l, func(es []c13Event) { runHistory(es, ctx.Rng.Fork()) })
		}
		res.Notes = append(res.Notes, "exhaustive: all histories np·x1…xk, k<=4, over the 8-event alphabet")
	}
	return res
}
