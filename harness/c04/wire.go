package main

// Data types of the NSX fragment (mirror of lean/NA/Spec/NsxStore.lean) and the line format
// shared with the Lean driver nadrv-c04 (lean/NA/Model/NsxWire.lean).

import (
	"fmt"
	"strconv"
	"strings"
)

type Rule struct {
	Id         string   `json:"id"`
	Direction  string   `json:"direction"`
	Seq        int      `json:"seq"`
	Action     string   `json:"action"`
	Logged     bool     `json:"logged,omitempty"`
	Tag        string   `json:"tag,omitempty"`
	Disabled   bool     `json:"disabled,omitempty"`
	DstExcl    bool     `json:"dst_excl,omitempty"`
	SrcExcl    bool     `json:"src_excl,omitempty"`
	SvcEntries string   `json:"svc_entries,omitempty"`
	IPProto    string   `json:"ip_proto,omitempty"`
	Profiles   []string `json:"profiles,omitempty"`
	Scope      []string `json:"scope,omitempty"`
	Service    string   `json:"service"`
	Src        string   `json:"src"`
	Dst        string   `json:"dst"`
	Rev        int      `json:"rev,omitempty"`
}

type Group struct {
	Id     string   `json:"id"`
	ExprId string   `json:"expr_id"`
	RType  string   `json:"rtype"`
	Addrs  []string `json:"addrs"`
}

type Service struct {
	Id   string `json:"id"`
	Defn string `json:"defn"` // compact JSON of the service_entries array, relevant fields only, sorted keys
}

type Policy struct {
	Id    string `json:"id"`
	Rules []Rule `json:"rules"`
}

type Config struct {
	Policies []Policy  `json:"policies"`
	Groups   []Group   `json:"groups"`
	Services []Service `json:"services"`
}

// Call is one REST call in structured form.
type Call struct {
	Kind    string   // PS AS DS PG XA XR AE DG PP DP PR AR DR
	Id      string   // object id (policy id for rule calls)
	Rid     string   // rule id
	Defn    string   // services: canonical form (svc.go)
	RawDefn string   // services: the bytes of service_entries in the body the real code sent (not on the wire)
	Expr    string   // expression id
	RType   string   // groups
	Addrs   []string // groups
	Rule    *Rule    // PR AR
	Rules   []Rule   // PP
}

const (
	sFS = "\x1c"
	sGS = "\x1d"
	sRS = "\x1e"
	sUS = "\x1f"
)

func b2s(b bool) string {
	if b {
		return "1"
	}
	return "0"
}

func encRule(r Rule) string {
	return strings.Join([]string{r.Id, r.Direction, strconv.Itoa(r.Seq), r.Action, b2s(r.Logged), r.Tag, b2s(r.Disabled),
		b2s(r.DstExcl), b2s(r.SrcExcl), r.SvcEntries, r.IPProto, strings.Join(r.Profiles, ","), strings.Join(r.Scope, ","),
		r.Service, r.Src, r.Dst, strconv.Itoa(r.Rev)}, sUS)
}

func splitL(s, sep string) []string {
	if s == "" {
		return nil
	}
	return strings.Split(s, sep)
}

func decRule(s string) (Rule, error) {
	f := strings.Split(s, sUS)
	if len(f) != 17 {
		return Rule{}, fmt.Errorf("rule with %d fields", len(f))
	}
	seq, _ := strconv.Atoi(f[2])
	rev, _ := strconv.Atoi(f[16])
	return Rule{Id: f[0], Direction: f[1], Seq: seq, Action: f[3], Logged: f[4] == "1", Tag: f[5], Disabled: f[6] == "1",
		DstExcl: f[7] == "1", SrcExcl: f[8] == "1", SvcEntries: f[9], IPProto: f[10], Profiles: splitL(f[11], ","),
		Scope: splitL(f[12], ","), Service: f[13], Src: f[14], Dst: f[15], Rev: rev}, nil
}

func encGroup(g Group) string {
	return strings.Join([]string{g.Id, g.ExprId, g.RType, strings.Join(g.Addrs, ",")}, sUS)
}

func encPolicy(p Policy) string {
	l := []string{p.Id}
	for _, r := range p.Rules {
		l = append(l, encRule(r))
	}
	return strings.Join(l, sRS)
}

func encConfig(c *Config) string {
	var ps, gs, ss []string
	for _, p := range c.Policies {
		ps = append(ps, encPolicy(p))
	}
	for _, g := range c.Groups {
		gs = append(gs, encGroup(g))
	}
	for _, s := range c.Services {
		ss = append(ss, s.Id+sUS+s.Defn)
	}
	return strings.Join([]string{strings.Join(ps, sGS), strings.Join(gs, sGS), strings.Join(ss, sGS)}, sFS)
}

func decConfig(s string) (*Config, error) {
	c := &Config{}
	if s == "" {
		return c, nil
	}
	parts := strings.Split(s, sFS)
	if len(parts) != 3 {
		return nil, fmt.Errorf("config with %d parts", len(parts))
	}
	for _, ps := range splitL(parts[0], sGS) {
		f := strings.Split(ps, sRS)
		p := Policy{Id: f[0]}
		for _, rs := range f[1:] {
			r, err := decRule(rs)
			if err != nil {
				return nil, err
			}
			p.Rules = append(p.Rules, r)
		}
		c.Policies = append(c.Policies, p)
	}
	for _, gs := range splitL(parts[1], sGS) {
		f := strings.Split(gs, sUS)
		if len(f) != 4 {
			return nil, fmt.Errorf("group with %d fields", len(f))
		}
		c.Groups = append(c.Groups, Group{f[0], f[1], f[2], splitL(f[3], ",")})
	}
	for _, ss := range splitL(parts[2], sGS) {
		f := strings.Split(ss, sUS)
		if len(f) != 2 {
			return nil, fmt.Errorf("service with %d fields", len(f))
		}
		c.Services = append(c.Services, Service{f[0], f[1]})
	}
	return c, nil
}

func encCall(c Call) string {
	switch c.Kind {
	case "PS", "AS":
		return strings.Join([]string{c.Kind, c.Id, c.Defn}, sRS)
	case "DS", "DG", "DP":
		return strings.Join([]string{c.Kind, c.Id}, sRS)
	case "PG", "AE":
		return strings.Join([]string{c.Kind, c.Id, c.Expr, c.RType, strings.Join(c.Addrs, ",")}, sRS)
	case "XA", "XR":
		return strings.Join([]string{c.Kind, c.Id, c.Expr, strings.Join(c.Addrs, ",")}, sRS)
	case "PP":
		l := []string{c.Kind, c.Id}
		for _, r := range c.Rules {
			l = append(l, encRule(r))
		}
		return strings.Join(l, sRS)
	case "PR", "AR":
		return strings.Join([]string{c.Kind, c.Id, c.Rid, encRule(*c.Rule)}, sRS)
	case "DR":
		return strings.Join([]string{c.Kind, c.Id, c.Rid}, sRS)
	}
	return "??" + c.Kind
}

func encCalls(cs []Call) string {
	l := make([]string, len(cs))
	for i, c := range cs {
		l[i] = encCall(c)
	}
	return strings.Join(l, sGS)
}

// showCall renders a call for humans (disagreement reports, samples).
func showCall(c Call) string {
	s := encCall(c)
	s = strings.NewReplacer(sRS, " ", sUS, "|", sGS, " ; ").Replace(s)
	return s
}

func showCalls(cs []Call) string {
	l := make([]string, len(cs))
	for i, c := range cs {
		l[i] = showCall(c)
	}
	return strings.Join(l, "\n")
}

func cloneConfig(c *Config) *Config {
	n := &Config{}
	for _, p := range c.Policies {
		q := Policy{Id: p.Id}
		for _, r := range p.Rules {
			r.Profiles = append([]string(nil), r.Profiles...)
			r.Scope = append([]string(nil), r.Scope...)
			q.Rules = append(q.Rules, r)
		}
		n.Policies = append(n.Policies, q)
	}
	for _, g := range c.Groups {
		g.Addrs = append([]string(nil), g.Addrs...)
		n.Groups = append(n.Groups, g)
	}
	n.Services = append(n.Services, c.Services...)
	return n
}
