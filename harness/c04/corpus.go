package main

import "fmt"

// Corpus: cases taken from /repo/go/testdata/nsx.t and the minimal witnesses of the findings; run first.

func grp(id string, addrs ...string) Group {
	return Group{Id: id, ExprId: "id", RType: "IPAddressExpression", Addrs: addrs}
}

func rul(id, src, dst, svc string) Rule {
	if svc == "" {
		svc = "ANY"
	} else {
		svc = spath("Netspoc-" + svc)
	}
	return Rule{Id: id, Direction: "OUT", Action: "ALLOW", Seq: 20, Scope: []string{"/infra/tier-0s/v1"}, IPProto: "IPV4",
		Service: svc, Src: src, Dst: dst}
}

func svc(id string) Service { return Service{"Netspoc-" + id, svcPool["Netspoc-"+id][0]} }

func corpus() []*Case {
	g := func(id string) string { return gpath("Netspoc-" + id) }
	ext := []Group{grp("raw-g1", "10.7.7.7")}
	var l []*Case
	add := func(name string, store, v4, raw *Config) {
		store.Groups = append(store.Groups, ext...)
		expect := "accept"
		if name == "raw-policy-without-prefix" {
			expect = "reject:Must only define policy where name has prefix 'Netspoc': my-policy"
		}
		l = append(l, &Case{Stream: "corpus:" + name, Store: store, V4: v4, Raw: raw, Mode: "http", Expect: expect})
	}
	// nsx.t "Replace one group by two different groups"
	add("replace-one-group-by-two",
		&Config{Groups: []Group{grp("Netspoc-g0", "10.1.1.10", "10.1.1.20")}, Services: []Service{svc("tcp_80")},
			Policies: []Policy{{"Netspoc-v1", []Rule{rul("r1", g("g0"), "10.2.1.10", "tcp_80"), rul("r2", g("g0"), "10.2.1.20", "tcp_80")}}}},
		&Config{Groups: []Group{grp("Netspoc-g0", "10.1.1.10", "10.1.1.20", "10.1.1.30"), grp("Netspoc-g1", "10.1.1.10", "10.1.1.20", "10.1.1.40")},
			Services: []Service{svc("tcp_80")},
			Policies: []Policy{{"Netspoc-v1", []Rule{rul("r1", g("g0"), "10.2.1.10", "tcp_80"), rul("r2", g("g1"), "10.2.1.20", "tcp_80")}}}}, nil)
	// nsx.t "Find right group on device"
	add("find-right-group",
		&Config{Groups: []Group{grp("Netspoc-g0", "10.1.1.10"), grp("Netspoc-g1", "10.1.1.20")}, Services: []Service{svc("tcp_80"), svc("udp_123")},
			Policies: []Policy{{"Netspoc-v1", []Rule{rul("r1", g("g0"), "10.1.2.0/24", ""), rul("r2", g("g1"), "10.1.3.0/24", "udp_123")}}}},
		&Config{Groups: []Group{grp("Netspoc-g0", "10.1.1.20"), grp("Netspoc-g1", "10.1.1.10")}, Services: []Service{svc("tcp_80")},
			Policies: []Policy{{"Netspoc-v1", []Rule{rul("r1", g("g1"), "10.1.2.0/24", "tcp_80"), rul("r2", g("g0"), "10.1.3.0/24", "")}}}}, nil)
	// nsx.t "Must prevent name clash with group on device"
	add("name-clash-group",
		&Config{Groups: []Group{grp("Netspoc-g2", "10.1.1.10", "10.1.1.20")}, Services: []Service{svc("tcp_80")},
			Policies: []Policy{{"Netspoc-v1", []Rule{rul("r1", g("g2"), "10.1.2.10", "tcp_80")}}}},
		&Config{Groups: []Group{grp("Netspoc-g1", "10.1.1.10", "10.1.1.20"), grp("Netspoc-g2", "10.1.1.10", "10.1.1.20", "10.1.1.30")},
			Services: []Service{svc("tcp_80"), svc("tcp_443")},
			Policies: []Policy{{"Netspoc-v1", []Rule{rul("r1", g("g1"), "10.1.2.10", "tcp_80"), rul("r2", g("g2"), "10.1.2.10", "tcp_443")}}}}, nil)
	// nsx.t "Patch elements of group instead of deleting many elements"
	add("patch-expression",
		&Config{Groups: []Group{grp("Netspoc-g1", "10.1.1.1", "10.1.1.2", "10.1.1.3", "10.1.1.4", "10.1.1.5")}, Services: []Service{svc("tcp_80")},
			Policies: []Policy{{"Netspoc-v1", []Rule{rul("r1", "10.1.2.0/24", g("g1"), "tcp_80")}}}},
		&Config{Groups: []Group{grp("Netspoc-g1", "10.1.1.1", "10.1.1.2")}, Services: []Service{svc("tcp_80")},
			Policies: []Policy{{"Netspoc-v1", []Rule{rul("r1", "10.1.2.0/24", g("g1"), "tcp_80")}}}}, nil)
	// device group whose expression id is not Netspoc's "id", many addresses to drop: PATCH must address the device's expression
	add("patch-expression-foreign-expr-id",
		&Config{Groups: []Group{{Id: "Netspoc-g1", ExprId: "0815", RType: "IPAddressExpression",
			Addrs: []string{"10.1.1.1", "10.1.1.2", "10.1.1.3", "10.1.1.4", "10.1.1.5"}}}, Services: []Service{svc("tcp_80")},
			Policies: []Policy{{"Netspoc-v1", []Rule{rul("r1", "10.1.2.0/24", g("g1"), "tcp_80")}}}},
		&Config{Groups: []Group{grp("Netspoc-g1", "10.1.1.1", "10.1.1.2")}, Services: []Service{svc("tcp_80")},
			Policies: []Policy{{"Netspoc-v1", []Rule{rul("r1", "10.1.2.0/24", g("g1"), "tcp_80")}}}}, nil)
	// same with incremental edits (POST remove / add address the device's expression as well)
	add("post-foreign-expr-id",
		&Config{Groups: []Group{{Id: "Netspoc-g1", ExprId: "e1", RType: "IPAddressExpression",
			Addrs: []string{"10.1.1.1", "10.1.1.2", "10.1.1.3"}}},
			Policies: []Policy{{"Netspoc-v1", []Rule{rul("r1", "10.1.2.0/24", g("g1"), "")}}}},
		&Config{Groups: []Group{grp("Netspoc-g1", "10.1.1.1", "10.1.1.2", "10.1.1.4")},
			Policies: []Policy{{"Netspoc-v1", []Rule{rul("r1", "10.1.2.0/24", g("g1"), "")}}}}, nil)
	// a device group without addresses (the state between POST remove of all and POST add) next to another group rule
	add("empty-device-group",
		&Config{Groups: []Group{{Id: "Netspoc-g0", ExprId: "id", RType: "IPAddressExpression", Addrs: nil}, grp("Netspoc-g1", "10.1.1.20")},
			Policies: []Policy{{"Netspoc-v1", []Rule{rul("r1", g("g0"), "ANY", ""), rul("r2", g("g1"), "ANY", "")}}}},
		&Config{Groups: []Group{grp("Netspoc-g0", "10.1.1.30"), grp("Netspoc-g1", "10.1.1.20")},
			Policies: []Policy{{"Netspoc-v1", []Rule{rul("r1", g("g0"), "ANY", ""), rul("r2", g("g1"), "ANY", "")}}}}, nil)
	// witness: one address replaced by another (all old addresses removed before the new ones are added)
	add("replace-single-address",
		&Config{Groups: []Group{grp("Netspoc-g0", "10.1.1.10")}, Policies: []Policy{{"Netspoc-v1", []Rule{rul("r1", g("g0"), "ANY", "")}}}},
		&Config{Groups: []Group{grp("Netspoc-g0", "10.1.1.30")}, Policies: []Policy{{"Netspoc-v1", []Rule{rul("r1", g("g0"), "ANY", "")}}}}, nil)
	// witness: ids clash after renaming (raw rules deny / deny-1, device rule deny)
	add("rule-ids-clash",
		&Config{Policies: []Policy{{"Netspoc-v1", []Rule{{Id: "deny", Direction: "IN", Action: "DROP", Seq: 77, Scope: []string{"/infra/tier-0s/v1"},
			IPProto: "IPV4", Service: "ANY", Src: "10.9.9.9", Dst: "ANY"}}}}},
		&Config{Policies: []Policy{{"Netspoc-v1", nil}}},
		&Config{Policies: []Policy{{"Netspoc-v1", []Rule{
			{Id: "deny", Direction: "OUT", Action: "DROP", Seq: 30, Scope: []string{"/infra/tier-0s/v1"}, IPProto: "IPV4", Service: "ANY", Src: "ANY", Dst: "10.1.1.10"},
			{Id: "deny-1", Direction: "OUT", Action: "DROP", Seq: 30, Scope: []string{"/infra/tier-0s/v1"}, IPProto: "IPV4", Service: "ANY", Src: "ANY", Dst: "10.1.1.20"}}}}})
	// target groups X and X-1 (both list orders), rules Y and Y-1, device objects X and Y with other content:
	// the renamed ids must avoid the other names of the target whatever the list order is
	for _, order := range [][]string{{"Netspoc-dmz", "Netspoc-dmz-1"}, {"Netspoc-dmz-1", "Netspoc-dmz"}} {
		for _, rorder := range [][]string{{"deny", "deny-1"}, {"deny-1", "deny"}} {
			dr := Rule{Id: "deny", Direction: "OUT", Action: "REJECT", Seq: 90, Scope: []string{"/infra/tier-0s/v1"}, IPProto: "IPV4",
				Service: "ANY", Src: g("dmz"), Dst: "10.9.9.9"}
			mk := func(id, grp string, seq int) Rule {
				return Rule{Id: id, Direction: "IN", Action: "DROP", Seq: seq, Scope: []string{"/infra/tier-0s/v1"}, IPProto: "IPV4",
					Service: "ANY", Src: gpath(grp), Dst: "ANY"}
			}
			addrs := map[string][]string{"Netspoc-dmz": {"10.1.1.20", "10.1.1.30"}, "Netspoc-dmz-1": {"10.1.1.40"}}
			add("suffix-ids-"+order[0]+"-"+rorder[0],
				&Config{Groups: []Group{grp("Netspoc-dmz", "10.1.1.10")}, Policies: []Policy{{"Netspoc-v1", []Rule{dr}}}},
				&Config{Policies: []Policy{{"Netspoc-v1", nil}}},
				&Config{Groups: []Group{grp(order[0], addrs[order[0]]...), grp(order[1], addrs[order[1]]...)},
					Policies: []Policy{{"Netspoc-v1", []Rule{mk(rorder[0], order[0], 50), mk(rorder[1], order[1], 51)}}}})
		}
	}
	// service definitions over the field grid: every ordered pair (manager, target) of the corner
	// definitions of svcGridPairs, eight services per case, each used by one rule that does not change
	pairs := svcGridPairs()
	for lo := 0; lo < len(pairs); lo += 8 {
		hi := min(lo+8, len(pairs))
		store, tgt := &Config{Policies: []Policy{{Id: "Netspoc-v1"}}}, &Config{Policies: []Policy{{Id: "Netspoc-v1"}}}
		for i, pr := range pairs[lo:hi] {
			id := fmt.Sprintf("sg%d", i)
			ru := rul(fmt.Sprintf("r%d", i+1), "10.1.1.10", fmt.Sprintf("10.2.1.%d", 10+i), id)
			ru.Seq = 10 + i
			store.Services = append(store.Services, Service{"Netspoc-" + id, pr[0]})
			tgt.Services = append(tgt.Services, Service{"Netspoc-" + id, pr[1]})
			store.Policies[0].Rules = append(store.Policies[0].Rules, ru)
			tgt.Policies[0].Rules = append(tgt.Policies[0].Rules, ru)
		}
		add(fmt.Sprintf("service-grid-%02d", lo/8), store, tgt, nil)
	}
	// objects named with the bare prefix (legal in a raw file): "Netspoc" not followed by "-"
	{
		x1 := func(dst string) Rule { return rul("x1", gpath("Netspoc_dmz"), dst, "") }
		// left over on the manager, no target rule uses it any more
		add("bare-prefix-leftover-group",
			&Config{Groups: []Group{grp("Netspoc_dmz", "10.9.9.1", "10.9.9.2"), grp("NetspocOld", "10.9.9.9")},
				Policies: []Policy{{"Netspoc-v1", []Rule{rul("r1", "10.1.1.10", "10.2.1.10", "")}}, {"Netspoc_old", []Rule{rul("r1", "ANY", "ANY", "")}}}},
			&Config{Policies: []Policy{{"Netspoc-v1", []Rule{rul("r1", "10.1.1.10", "10.2.1.10", "")}}}}, nil)
		// raw policy and raw group with such names, transferred by the first run; the second compare must be empty
		add("bare-prefix-raw-policy",
			&Config{},
			&Config{Policies: []Policy{{"Netspoc-v1", []Rule{rul("r1", "10.1.1.10", "10.2.1.10", "")}}}},
			&Config{Groups: []Group{grp("Netspoc_dmz", "10.9.9.1", "10.9.9.2")},
				Policies: []Policy{{"Netspoc_extra", []Rule{x1("10.2.1.20")}}, {"Netspoc", []Rule{rul("x2", "ANY", gpath("Netspoc_dmz"), "")}}}})
		// the address list of such a raw group changes; a rule of Netspoc-v1 uses it
		add("bare-prefix-raw-group-changed",
			&Config{Groups: []Group{grp("Netspoc_dmz", "10.9.9.1", "10.9.9.2")},
				Policies: []Policy{{"Netspoc-v1", []Rule{x1("10.2.1.20")}}}},
			&Config{Policies: []Policy{{"Netspoc-v1", nil}}},
			&Config{Groups: []Group{grp("Netspoc_dmz", "10.9.9.1", "10.9.9.2", "10.9.9.3")},
				Policies: []Policy{{"Netspoc-v1", []Rule{x1("10.2.1.20")}}}})
	}
	// witness: raw policy whose id lacks the prefix
	add("raw-policy-without-prefix",
		&Config{},
		&Config{},
		&Config{Policies: []Policy{{"my-policy", []Rule{{Id: "raw9", Direction: "OUT", Action: "DROP", Seq: 5, Scope: []string{"/infra/tier-0s/v1"},
			IPProto: "IPV4", Service: "ANY", Src: "ANY", Dst: "10.9.9.9"}}}}})
	// raw policy whose id contains the prefix, but not at the start; the manager has its own policy of that name
	l = append(l, &Case{Stream: "corpus:raw-policy-prefix-inside", Mode: "http",
		Expect: "reject:Must only define policy where name has prefix 'Netspoc': Customer-Netspoc-dmz",
		Store: &Config{Groups: []Group{grp("raw-g1", "10.7.7.7")}, Policies: []Policy{{"Customer-Netspoc-dmz", []Rule{{Id: "own1",
			Direction: "IN_OUT", Action: "ALLOW", Seq: 1, Scope: []string{"/infra/tier-0s/v1"}, Service: "ANY", Src: gpath("raw-g1"), Dst: "10.2.1.10"}}}}},
		V4: &Config{},
		Raw: &Config{Policies: []Policy{{"Customer-Netspoc-dmz", []Rule{{Id: "raw9", Direction: "OUT", Action: "DROP", Seq: 5,
			Scope: []string{"/infra/tier-0s/v1"}, IPProto: "IPV4", Service: "ANY", Src: "ANY", Dst: "10.9.9.9"}}}}}})
	return l
}
