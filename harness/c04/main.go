package main

// C04 — NSX approve converges to the Netspoc-equivalent gateway policies; and the NSX share of
// C07 (scope / frame), C08 (every call executable when sent), C10 (resume from every cut).
//
// Tie:    the real planner of /repo (nsx.State.LoadDevice against a local manager, ParseConfig,
//         MergeSpoc, GetChanges, ShowChanges, ApplyCommands; or drc.Main on files) versus the Lean
//         model `NA.Nsx.plan` (nadrv-c04 `plan`): the call lists must be identical.
// Oracle: the REAL calls are executed on the strict Lean object store (`run`), then: equivalence
//         with the target, no left-over service / group, frame and scope, every call accepted,
//         second plan empty, and the same again from the state after every prefix of the script.

import (
	"fmt"
	"os"
	"sort"
	"strings"
	"time"

	. "verifharness/vhlib"

	"github.com/pkg/diff/myers"
)

func main() {
	Main(map[string]PropFunc{
		"C04": func(ctx *Ctx) *Result { return runProp(ctx, "C04") },
		"C07": func(ctx *Ctx) *Result { return runProp(ctx, "C07") },
		"C08": func(ctx *Ctx) *Result { return runProp(ctx, "C08") },
		"C10": func(ctx *Ctx) *Result { return runProp(ctx, "C10") },
	})
}

type engine struct {
	ctx       *Ctx
	prop      string
	res       *Result
	drv       *Nadrv
	rr        *realRunner
	rng       *RNG
	caseFlags map[string]any
}

func parseFlags(s string) map[string]string {
	m := map[string]string{}
	for _, f := range strings.Fields(s) {
		k, v, _ := strings.Cut(f, "=")
		m[k] = v
	}
	return m
}

func (c *Case) files() files {
	f := files{V4: fileJSON(c.V4, false)}
	if c.V6 != nil {
		f.V6 = fileJSON(c.V6, false)
	}
	if c.Raw != nil {
		f.Raw = fileJSON(c.Raw, false)
	}
	return f
}

func encOpt(c *Config) string {
	if c == nil {
		return ""
	}
	return encConfig(c)
}

func loaded(store *Config) *Config {
	l := &Config{}
	for _, p := range store.Policies {
		if strings.HasPrefix(p.Id, "Netspoc") {
			l.Policies = append(l.Policies, p)
		}
	}
	for _, g := range store.Groups {
		if strings.HasPrefix(g.Id, "Netspoc") {
			l.Groups = append(l.Groups, g)
		}
	}
	for _, s := range store.Services {
		if strings.HasPrefix(s.Id, "Netspoc") {
			l.Services = append(l.Services, s)
		}
	}
	return l
}

// dupContentTie: two managed device groups with the same address set (the choice of
// findGroupOnDevice among them depends on map iteration order in the unrepaired code).
func dupContentTie(store *Config) bool {
	seen := map[string]bool{}
	for _, g := range loaded(store).Groups {
		a := append([]string(nil), g.Addrs...)
		sortStrings(a)
		k := strings.Join(a, ",")
		if seen[k] {
			return true
		}
		seen[k] = true
	}
	return false
}

// moreThan12: some managed policy on the manager lists more than 12 rules (also reached in the
// middle of a script, when new rules are already there and old ones not yet deleted).
func moreThan12(store *Config) bool {
	for _, p := range loaded(store).Policies {
		if len(p.Rules) > 12 {
			return true
		}
	}
	return false
}

func sortStrings(a []string) {
	for i := 1; i < len(a); i++ {
		for j := i; j > 0 && a[j] < a[j-1]; j-- {
			a[j], a[j-1] = a[j-1], a[j]
		}
	}
}

type planOutcome struct {
	real       realResult
	model      string // raw answer of the driver
	agree      bool
	exact      bool   // the model's script is literally the real one (no tie exemption)
	crash      string // known crash class of the unrepaired code, "" if none
	oracleOnly bool   // model and code disagree on the call list; the oracle still runs on the real script
}

// planBoth runs the real planner and the model on (store, files) and compares.
func (e *engine) planBoth(c *Case, store *Config, stream string) planOutcome {
	f := c.files()
	var real realResult
	if c.Mode == "files" {
		real = e.rr.planFiles(loaded(store), f)
	} else {
		real, _, _ = e.rr.planHTTP(store, c.PageSize, f, -2)
	}
	line := strings.Join([]string{"plan", encConfig(store), encOpt(c.V4), encOpt(c.V6), encOpt(c.Raw)}, "\t")
	model := e.drv.Ask(line)
	out := planOutcome{real: real, model: model}
	e.res.TracesVsImpl++
	e.res.Count("real:" + real.Kind)
	mf := strings.Split(model, "\t")
	input := map[string]any{"case": c, "store": store}
	switch real.Kind {
	case "panic":
		// crash classes that belong to C20 (repairs pending): the model says ABORT / tolerates
		switch {
		case strings.Contains(real.Msg, "index out of range [0] with length 0"):
			out.crash = "crash_group_with_empty_ip_addresses"
		case strings.Contains(real.Msg, "nil pointer") && mf[0] == "ABORT":
			out.crash = "crash_rule_names_undefined_managed_group"
		default:
			out.crash = "crash_other"
		}
		return out
	case "abort":
		out.agree = mf[0] == "ABORT"
		if !out.agree {
			e.res.Disagree(stream+": abort", input, "abort", model)
		}
		return out
	case "err":
		if strings.Contains(real.Msg, "not defined in Netspoc config") {
			// errlog.Abort caught by drc.Main (files mode)
			out.agree = mf[0] == "ABORT"
			if !out.agree {
				e.res.Disagree(stream+": abort", input, real.Msg, model)
			}
			return out
		}
		// only the diagnostics of checkRaw are modelled
		if i := strings.Index(real.Msg, "Must "); i >= 0 && mf[0] == "ERR" {
			want := real.Msg[i:]
			out.agree = mf[1] == want
			if !out.agree {
				e.res.Disagree(stream+": diagnostic", input, want, mf[1])
			}
			return out
		}
		e.res.Disagree(stream+": real code reports an error", input, real.Msg, model)
		return out
	}
	if mf[0] != "OK" {
		e.res.Disagree(stream+": model does not plan", input, showCalls(real.Calls), model)
		out.oracleOnly = true
		return out
	}
	want := encCalls(real.Calls)
	if dupContentTie(store) {
		// several managed groups with the same content: the choice of findGroupOnDevice must not depend on
		// map iteration order (repair f403263).  No re-run ever replaces the first verdict; a second run
		// may only show that the planner is not deterministic, which is reported as a failure of its own.
		var again realResult
		if c.Mode == "files" {
			again = e.rr.planFiles(loaded(store), f)
		} else {
			again, _, _ = e.rr.planHTTP(store, c.PageSize, f, -2)
		}
		e.res.Count("determinism-checked")
		if again.Kind == "ok" && encCalls(again.Calls) != want && strings.Contains(owner["determinism"], e.prop) {
			e.res.Fail(map[string]any{"pred": "plan_depends_on_map_order", "check": "determinism", "backend": "NSX"},
				"two runs of the real planner on the same input give different scripts (several managed groups with equal content)", c)
		}
	}
	if mf[1] != want && (c.Stream == "bigties" || moreThan12(store)) {
		// more than 12 rules with ties: slices.SortFunc (pdqsort) is not stable, the model's sort is;
		// the oracle below does not depend on the model, so the case is still checked
		e.res.Count("tie-exempt:unstable-sort-of-more-than-12-rules")
		out.agree = true
		return out
	}
	if mf[1] != want {
		mc := strings.NewReplacer(sRS, " ", sUS, "|", sGS, "\n").Replace(mf[1])
		e.res.Disagree(stream+": call list", input, showCalls(real.Calls), mc)
		out.oracleOnly = true // the oracle does not depend on the model: still check the real script
		return out
	}
	out.agree, out.exact = true, true
	return out
}

// loadTie: what the real LoadDevice keeps of the manager (prefix filter, paged listings, order)
// versus the model `loadPaged`.
func (e *engine) loadTie(c *Case) {
	impl, err := e.rr.loadOnly(c.Store, c.PageSize)
	model := e.drv.Ask(fmt.Sprintf("load\t%d\t%s", c.PageSize, encConfig(c.Store)))
	e.res.Count("load-tie")
	e.res.TracesVsImpl++
	if err != nil {
		e.res.Disagree("load", c, "error: "+err.Error(), model)
	} else if impl != model {
		e.res.Disagree("load", c, impl, model)
	}
	// oracle that does not go through the Lean model: LoadDevice keeps exactly the objects whose id starts
	// with "Netspoc", each once, in the order of the manager's listing, whatever the page size
	// (written down here from the store the test manager serves)
	want := renderLoaded(loaded(c.Store))
	e.res.Count("load-oracle")
	if err != nil || impl != want {
		got := impl
		if err != nil {
			got = "error: " + err.Error()
		}
		e.fail("load", "other", nil, fmt.Sprintf("LoadDevice with pages of %d keeps %q, the manager holds %q", c.PageSize, got, want), c)
	}
}

func renderLoaded(l *Config) string {
	var ps, gs, ss []string
	for _, p := range l.Policies {
		var rs []string
		for _, r := range p.Rules {
			rs = append(rs, r.Id)
		}
		ps = append(ps, p.Id+":"+strings.Join(rs, ";"))
	}
	for _, g := range l.Groups {
		gs = append(gs, g.Id)
	}
	for _, x := range l.Services {
		ss = append(ss, x.Id)
	}
	return strings.Join(ps, ",") + "\t" + strings.Join(gs, ",") + "\t" + strings.Join(ss, ",")
}

// acceptOracle: whether the three files are accepted is known to the GENERATOR (it builds the raw
// file valid, or plants exactly one named offence), independently of the Lean model of checkRaw.
func (e *engine) acceptOracle(c *Case, po planOutcome) {
	switch {
	case c.Expect == "":
		e.res.Count("accept-oracle:no-expectation")
	case c.Expect == "accept":
		e.res.Count("accept-oracle:expect-accept")
		if po.real.Kind == "err" && strings.Contains(po.real.Msg, "Must ") {
			e.fail("accept", "valid_files_refused", nil, "files built valid are refused: "+po.real.Msg, c)
		}
	case strings.HasPrefix(c.Expect, "reject:"):
		e.res.Count("accept-oracle:expect-reject")
		want := strings.TrimPrefix(c.Expect, "reject:")
		if po.real.Kind != "err" || !strings.Contains(po.real.Msg, want) {
			e.fail("accept", "invalid_raw_file_accepted", nil, fmt.Sprintf("raw file with a planted offence; expected the diagnostic %q, got %s %q", want, po.real.Kind, po.real.Msg), c)
		}
	}
}

type runOutcome struct {
	status  string
	final   *Config
	flags   map[string]string
	states  []*Config
	failIdx int
}

func (e *engine) run(store, T *Config, calls []Call, prefixes bool) (runOutcome, error) {
	p := "0"
	if prefixes {
		p = "1"
	}
	ans := e.drv.Ask(strings.Join([]string{"run", encConfig(store), encConfig(T), encCalls(calls), p}, "\t"))
	f := strings.Split(ans, "\t")
	if len(f) < 3 {
		return runOutcome{}, fmt.Errorf("driver: %s", ans)
	}
	final, err := decConfig(f[1])
	if err != nil {
		return runOutcome{}, err
	}
	out := runOutcome{status: f[0], final: final, flags: parseFlags(f[2]), failIdx: -1}
	if strings.HasPrefix(f[0], "fail:") {
		fmt.Sscanf(f[0], "fail:%d:", &out.failIdx)
	}
	for _, s := range f[3:] {
		st, err := decConfig(s)
		if err != nil {
			return out, err
		}
		out.states = append(out.states, st)
	}
	return out, nil
}

// ---------------------------------------------------------------- attribution of a failure to a finding
//
// A failure is attributed to a known finding only if EVERY one of the following holds; otherwise its
// predicate is "other" and it is a violation:
//   - the Lean model of the unchanged planner produces the same script on this input (`agree`),
//   - the side condition of the finding fails on the input (flag computed by the Lean model: `unmanagedIndep`,
//     `compactT`, `distinctT`),
//   - the failing OBJECT is one the Lean model names for that input (`unmRefs`, `spacedRules`, `twinGroups`),
//   - the reason / shape of the failure is the one of the finding (pinned in the signature).

func listFlag(cl map[string]string, k string) map[string]bool {
	m := map[string]bool{}
	for _, x := range strings.Split(cl[k], ",") {
		if x != "" {
			m[x] = true
		}
	}
	return m
}

// reasonClass strips the object id from the reason the strict store gives.
func reasonClass(status string) string {
	f := strings.SplitN(status, ":", 3)
	if len(f) < 3 {
		return status
	}
	r := f[2]
	for _, p := range []string{"DELETE of referenced group", "DELETE of referenced service", "DELETE of missing", "PUT of existing",
		"PUT of group", "PUT of policy", "PUT of rule", "PATCH of missing", "PATCH of rule", "PATCH of", "POST to missing", "POST add of present",
		"POST remove of absent", "POST remove would leave the expression"} {
		if strings.HasPrefix(r, p) {
			if strings.HasSuffix(r, "with an empty expression") || strings.HasSuffix(r, "empty") {
				return "empty expression"
			}
			if strings.HasSuffix(r, "referring to a missing object") || strings.HasSuffix(r, "refers to a missing object") {
				return p + " referring to a missing object"
			}
			return p
		}
	}
	return r
}

func managedRuleRefers(S *Config, path string) bool {
	for _, p := range S.Policies {
		if !strings.HasPrefix(p.Id, "Netspoc") {
			continue
		}
		for _, r := range p.Rules {
			if r.Src == path || r.Dst == path || r.Service == path {
				return true
			}
		}
	}
	return false
}

// execAttr: a call rejected by the manager.  cl: flags of the store the script was planned from;
// at: the store at the moment of the rejection.
func execAttr(cl map[string]string, at *Config, calls []Call, failIdx int, status string, agree bool) (string, map[string]any) {
	rc := reasonClass(status)
	attrs := map[string]any{"reason": rc, "model_agrees": agree}
	if failIdx < 0 || failIdx >= len(calls) || !agree || cl["unmanagedIndep"] != "0" {
		return "other", attrs
	}
	k := calls[failIdx]
	key, path := "", ""
	switch {
	case k.Kind == "DG" && rc == "DELETE of referenced group":
		key, path = "g:"+k.Id, gpath(k.Id)
	case k.Kind == "DS" && rc == "DELETE of referenced service":
		key, path = "s:"+k.Id, spath(k.Id)
	default:
		return "other", attrs
	}
	// the object is one that a rule outside Netspoc's scope names, and no managed rule names it any more
	if !listFlag(cl, "unmRefs")[key] || managedRuleRefers(at, path) {
		return "other", attrs
	}
	// the removals come last: nothing but removals of unused objects is left undone
	for _, r := range calls[failIdx:] {
		if r.Kind != "DG" && r.Kind != "DS" {
			return "other", attrs
		}
	}
	attrs["phase"] = "removal-of-unused-objects"
	attrs["object"] = "named-by-unmanaged-rule"
	return "unmanaged_rule_refers_to_managed_object", attrs
}

func findRule(S *Config, pid, rid string) *Rule {
	for i := range S.Policies {
		if S.Policies[i].Id == pid {
			for j := range S.Policies[i].Rules {
				if S.Policies[i].Rules[j].Id == rid {
					return &S.Policies[i].Rules[j]
				}
			}
		}
	}
	return nil
}

func groupContent(S *Config, path string) (string, bool) {
	for _, g := range S.Groups {
		if gpath(g.Id) == path {
			a := append([]string(nil), g.Addrs...)
			sort.Strings(a)
			return strings.Join(a, ","), true
		}
	}
	return "", false
}

// idemAttr: a compare from a converged state `from` that reports changes again.  cl: flags of (from, T).
func idemAttr(cl map[string]string, from, T *Config, calls []Call, agree, relisted bool) (string, map[string]any) {
	attrs := map[string]any{"model_agrees": agree, "compactT": cl["compactT"] == "1", "distinctT": cl["distinctT"] == "1"}
	if !agree || len(calls) == 0 {
		return "other", attrs
	}
	// (a) inline service entries written with white space: such a rule is deleted and re-created.
	// A call is of class (a) if it is the DELETE of a manager rule carrying the compact form of the entries
	// of a target rule the model names in spacedRules, or the PUT of a rule with such entries.
	spaced := listFlag(cl, "spacedRules")
	want := map[string]bool{}
	if cl["compactT"] == "0" {
		for _, p := range T.Policies {
			for _, r := range p.Rules {
				if spaced[p.Id+"/"+r.Id] {
					want[p.Id+"\x00"+compactStr(r.SvcEntries)] = true
				}
			}
		}
	}
	// (b) target groups with equal content: a call is of class (b) if it creates / removes a group whose
	// address set two target groups share (twinGroups), or writes / deletes a rule that uses such a group.
	twins := map[string]bool{}
	if cl["distinctT"] == "0" {
		ids := listFlag(cl, "twinGroups")
		for _, g := range T.Groups {
			if ids[g.Id] {
				c, _ := groupContent(T, gpath(g.Id))
				twins[c] = true
			}
		}
	}
	created := map[string]string{} // groups this very plan creates
	for _, k := range calls {
		if k.Kind == "PG" {
			a := append([]string(nil), k.Addrs...)
			sort.Strings(a)
			created[gpath(k.Id)] = strings.Join(a, ",")
		}
	}
	isTwin := func(path string) bool {
		if c, ok := created[path]; ok {
			return twins[c]
		}
		c, ok := groupContent(from, path)
		return ok && twins[c]
	}
	usesTwin := func(r *Rule) bool {
		return r != nil && (isTwin(r.Src) || isTwin(r.Dst))
	}
	nd, na, nb, rest := 0, 0, 0, 0
	for _, k := range calls {
		switch k.Kind {
		case "DR":
			r := findRule(from, k.Id, k.Rid)
			switch {
			case r != nil && want[k.Id+"\x00"+r.SvcEntries]:
				nd++
			case usesTwin(r):
				nb++
			default:
				rest++
			}
		case "PR": // PUT of a rule; the body is marshalled, which compacts the inline entries
			switch {
			case k.Rule != nil && k.Rule.SvcEntries != "" && want[k.Id+"\x00"+compactStr(k.Rule.SvcEntries)]:
				na++
			case usesTwin(k.Rule):
				nb++
			default:
				rest++
			}
		case "AR": // PATCH of a rule
			if usesTwin(k.Rule) {
				nb++
			} else {
				rest++
			}
		case "PG", "DG": // the twin is created under another id / removed
			if isTwin(gpath(k.Id)) {
				nb++
			} else {
				rest++
			}
		default:
			rest++
		}
	}
	switch {
	case rest > 0 || nd != na:
		return "other", attrs
	case nd > 0 && nb == 0:
		attrs["only"] = "delete-and-recreate-of-rules-with-spaced-service-entries"
		return "inline_service_entries_not_compact", attrs
	case nd == 0 && nb > 0 && relisted:
		// alone, the twins show only when the manager lists its objects in another order
		attrs["only"] = "rules-and-groups-with-a-twin"
		return "target_groups_with_equal_content", attrs
	case nd > 0 && nb > 0:
		// both at once: the re-created rules claim manager groups anew (adaptGroup / findGroupOnDevice), and with
		// two target groups of equal content the claim may take the group another rule uses, which is then
		// given a new group; every call belongs to one of the two classes
		attrs["only"] = "delete-and-recreate-of-rules-with-spaced-service-entries+rules-and-groups-with-a-twin"
		return "inline_service_entries_not_compact+target_groups_with_equal_content", attrs
	}
	return "other", attrs
}

// owner: which property a check belongs to.
var owner = map[string]string{
	"exec": "C08 C04", "conv": "C04", "svc": "C04", "grp": "C04", "idem": "C04", "frame": "C07", "scope": "C07",
	"resume-exec": "C10", "resume-conv": "C10", "resume-idem": "C10", "resume-plan": "C10", "apply": "C08",
	"idem-relisted": "C04", "wf": "C08 C04", "determinism": "C04", "accept": "C04 C07", "load": "C04 C07",
	"conv-before-removal": "C04",
}

func (e *engine) fail(check, pr string, attrs map[string]any, what string, c *Case) {
	key := "check-failed:" + check + ":" + pr
	e.res.Count(key)
	// a call the manager rejects breaks C08 and, because the script is then not executed, C04 as well
	if !strings.Contains(owner[check], e.prop) {
		return
	}
	sig := map[string]any{"pred": pr, "check": check, "backend": "NSX"}
	for k, v := range e.caseFlags { // side conditions of the INITIAL pair of the case (information; no known entry pins them)
		sig[k] = v
	}
	for k, v := range attrs {
		sig[k] = v
	}
	e.res.Fail(sig, what, c)
}

func hasUnexplained(res *Result) bool {
	for _, f := range res.Failures {
		if p, _ := f.Sig["pred"].(string); p == "other" || strings.HasPrefix(p, "crash") || strings.HasSuffix(p, "_refused") || strings.HasSuffix(p, "_accepted") || p == "plan_depends_on_map_order" {
			return true
		}
	}
	return false
}

func nontrivial(calls []Call) bool {
	kinds := map[string]bool{}
	for _, c := range calls {
		kinds[c.Kind] = true
	}
	return len(calls) >= 2 && len(kinds) >= 2
}

func (e *engine) oneCase(c *Case) {
	res := e.res
	T := mergeTarget(c.V4, c.V6, c.Raw)
	canon := encConfig(c.Store) + "\t" + encOpt(c.V4) + "\t" + encOpt(c.V6) + "\t" + encOpt(c.Raw)
	res.Count("stream:" + c.Stream)
	res.Count("mode:" + c.Mode)
	cl := parseFlags(e.drv.Ask("class\t" + encConfig(c.Store) + "\t" + encConfig(T)))
	for _, k := range []string{"accepted", "idsOK", "policyIds", "unmanagedIndep", "targetWF", "storeWF", "sortTies", "extRefs", "idemOK", "distinctT"} {
		res.Count("class:" + k + "=" + cl[k])
	}
	e.caseFlags = map[string]any{"in_unmanagedIndep": cl["unmanagedIndep"] == "1", "in_compactT": cl["compactT"] == "1", "in_distinctT": cl["distinctT"] == "1"}
	if c.Mode == "http" && e.rng.Chance(25) {
		e.loadTie(c)
	}
	po := e.planBoth(c, c.Store, "plan")
	e.acceptOracle(c, po)
	if po.crash != "" {
		res.Eval(canon, false)
		res.Count("crash:" + po.crash)
		if e.prop == "C04" {
			res.Fail(map[string]any{"pred": po.crash, "check": "crash", "backend": "NSX"},
				"the real planner panics: "+po.real.Msg, c)
		}
		return
	}
	if (!po.agree && !po.oracleOnly) || po.real.Kind != "ok" {
		res.Eval(canon, false)
		return
	}
	calls := po.real.Calls
	res.Eval(canon, nontrivial(calls))
	res.Count(fmt.Sprintf("calls:%02d", min(len(calls), 30)))
	for _, k := range calls {
		res.Count("call:" + k.Kind)
	}
	if len(res.Samples) < 3 && nontrivial(calls) && len(calls) < 12 {
		res.Sample(map[string]any{"stream": c.Stream, "store": c.Store, "v4": c.V4, "v6": c.V6, "raw": c.Raw,
			"calls": strings.Split(showCalls(calls), "\n")})
	}
	// the body of every PUT / PATCH of a service is, byte for byte, what the Lean model of MarshalJSON
	// (`render`, proved injective on these entries) writes for the TARGET's definition given as a structure
	for _, k := range calls {
		if k.Kind != "PS" && k.Kind != "AS" {
			continue
		}
		for _, s := range T.Services {
			if s.Id != k.Id {
				continue
			}
			ans := strings.SplitN(e.drv.Ask("svc\t"+encEntries(entriesOf(s.Defn))), "\t", 2)
			res.Count("service-marshalling-tie")
			res.TracesVsImpl++
			if len(ans) != 2 || ans[0] != "WF" || ans[1] != k.RawDefn {
				res.Disagree("service marshalling", map[string]any{"case": c, "service": s.Id, "definition": s.Defn}, k.RawDefn, strings.Join(ans, " "))
			}
			break
		}
	}
	// inputs outside the property's quantifier (the generator's malformed stream): tie only
	if cl["targetWF"] == "0" || cl["storeWF"] == "0" || cl["extRefs"] == "0" || cl["addrsNodup"] == "0" {
		res.Count("oracle-skipped:input-not-well-formed")
		return
	}
	hint := map[string]any{}
	for _, k := range []string{"policyIds", "idsOK", "unmanagedIndep", "compactT", "distinctT"} {
		if cl[k] == "0" {
			hint["hint"] = k + "=0"
			break
		}
	}
	wantPrefixes := len(calls) <= e.ctx.N(25, 120)
	ro, err := e.run(c.Store, T, calls, wantPrefixes)
	if err != nil {
		res.Disagree("driver", c, err.Error(), "")
		return
	}
	c2 := *c
	c2.Mode = "http"
	onlyRemovals := func(l []Call) bool {
		for _, k := range l {
			if k.Kind != "DG" && k.Kind != "DS" {
				return false
			}
		}
		return true
	}
	// C08: every call accepted by the strict store
	if ro.status != "ok" {
		pr, at := execAttr(cl, ro.final, calls, ro.failIdx, ro.status, po.exact)
		e.fail("exec", pr, at, fmt.Sprintf("call %d of %d is rejected by the manager: %s", ro.failIdx, len(calls), ro.status), c)
		// the script stops there.  If only removals of unused objects are left undone, the policies must
		// already be equivalent and nothing outside the scope may have changed; a further compare may
		// only ask for removals.
		if ro.failIdx >= 0 && onlyRemovals(calls[ro.failIdx:]) {
			res.Count("exec-rejected:judged-before-removal")
			if ro.flags["conv"] != "1" || ro.flags["frame"] != "1" {
				e.fail("conv-before-removal", "other", hint, fmt.Sprintf("script rejected at call %d (removals only are left), but policies are not equivalent / frame broken: %v", ro.failIdx, ro.flags), c)
			}
			if pa := e.planBoth(&c2, ro.final, "plan after rejection"); pa.real.Kind == "ok" && !onlyRemovals(pa.real.Calls) {
				e.fail("idem", "other", hint, "after a script rejected in its removal phase a further compare asks for more than removals: "+showCall(pa.real.Calls[0]), c)
			}
		} else {
			res.Count("exec-rejected:not-in-removal-phase")
		}
	} else {
		res.Count("exec:all-accepted")
		for _, chk := range []string{"conv", "svc", "grp", "frame"} {
			if ro.flags[chk] != "1" {
				e.fail(chk, "other", hint, "after executing the script: "+chk+" does not hold", c)
			}
		}
		if ro.flags["wf"] != "1" {
			e.fail("wf", "other", hint, "final store not well-formed", c)
		}
	}
	if ro.flags["scope"] != "1" {
		e.fail("scope", "other", hint, "a call addresses an object whose id lacks the Netspoc prefix", c)
	}
	// ApplyCommands sends exactly the planned calls, and stops at the first failure
	if c.Mode == "http" && e.rng.Chance(8) && len(calls) > 0 {
		k := -1
		if e.rng.Bool() {
			k = e.rng.Intn(len(calls))
		}
		_, mods, applyErr := e.rr.planHTTP(c.Store, c.PageSize, c.files(), k)
		sent, perr := recordedCalls(mods)
		want := calls
		if k >= 0 {
			want = calls[:k+1]
		}
		res.Count("apply-checked")
		if perr != nil || encCalls(sent) != encCalls(want) || (k >= 0) != (applyErr != "") {
			e.fail("apply", "other", nil, fmt.Sprintf("ApplyCommands with failure at %d sent %d calls (planned %d), err=%q", k, len(sent), len(calls), applyErr), c)
		}
	}
	if ro.status == "ok" {
		// idempotence: the second plan from the reached state is empty (and the model agrees)
		po2 := e.planBoth(&c2, ro.final, "second plan")
		switch {
		case po2.crash != "":
			e.fail("idem", po2.crash, nil, "second plan panics: "+po2.real.Msg, c)
		case po2.real.Kind == "ok" && len(po2.real.Calls) > 0:
			cl2 := e.class(ro.final, T)
			pr, at := idemAttr(cl2, loaded(ro.final), T, po2.real.Calls, po2.exact, false)
			e.fail("idem", pr, at, fmt.Sprintf("second compare reports %d changes: %s", len(po2.real.Calls), cut(strings.ReplaceAll(showCalls(po2.real.Calls), "\n", " | "), 4000)), c)
		case po2.real.Kind == "ok":
			res.Count("idem:empty")
			// the manager may list rules, groups and services in any order: the plan must stay empty
			// (plan_unchanged is about multisets of rules, not about the order of listing)
			sh := cloneConfig(ro.final)
			for i := range sh.Policies {
				Shuffle(e.rng, sh.Policies[i].Rules)
			}
			Shuffle(e.rng, sh.Groups)
			Shuffle(e.rng, sh.Services)
			Shuffle(e.rng, sh.Policies)
			po3 := e.planBoth(&c2, sh, "second plan, other listing order")
			if po3.real.Kind == "ok" && len(po3.real.Calls) > 0 {
				pr, at := idemAttr(e.class(sh, T), loaded(sh), T, po3.real.Calls, po3.exact, true)
				e.fail("idem-relisted", pr, at, fmt.Sprintf("compare after approve reports %d changes when the manager lists its objects in another order: %s",
					len(po3.real.Calls), cut(strings.ReplaceAll(showCalls(po3.real.Calls), "\n", " | "), 1200)), c)
			} else if po3.real.Kind == "ok" {
				res.Count("idem:empty-after-relisting")
			}
		}
	}
	// C10: resume from the state after every proper prefix that was executed
	if !wantPrefixes || len(ro.states) == 0 {
		return
	}
	cuts := []int{}
	for k := 1; k < len(calls) && k < len(ro.states); k++ {
		cuts = append(cuts, k)
	}
	if !e.ctx.Thorough() && len(cuts) > 6 {
		Shuffle(e.rng, cuts)
		cuts = cuts[:6]
	}
	for _, k := range cuts {
		res.Count("resume:cuts")
		sk := ro.states[k]
		if !ro.flagsNonEmptyOK(sk) {
			if ro.flagsNonEmptyOK(c.Store) {
				// cannot happen: the strict store refuses the call that would empty an expression
				res.Count("resume:state-with-empty-group")
			} else {
				res.Count("resume:empty-group-already-on-the-manager")
			}
		}
		pk := e.planBoth(&c2, sk, "resume plan")
		if pk.crash != "" {
			e.fail("resume-plan", pk.crash, nil, fmt.Sprintf("planner panics on the state after %d of %d calls: %s", k, len(calls), pk.real.Msg), c)
			continue
		}
		if (!pk.agree && !pk.oracleOnly) || pk.real.Kind != "ok" {
			continue
		}
		rk, err := e.run(sk, T, pk.real.Calls, false)
		if err != nil {
			res.Disagree("driver", c, err.Error(), "")
			continue
		}
		if rk.status != "ok" {
			pr, at := execAttr(e.class(sk, T), rk.final, pk.real.Calls, rk.failIdx, rk.status, pk.exact)
			e.fail("resume-exec", pr, at, fmt.Sprintf("resumed after %d of %d calls: %s", k, len(calls), rk.status), c)
			if rk.failIdx >= 0 && onlyRemovals(pk.real.Calls[rk.failIdx:]) && (rk.flags["conv"] != "1" || rk.flags["frame"] != "1") {
				e.fail("resume-conv", "other", hint, fmt.Sprintf("resumed after %d of %d calls, rejected in the removal phase: not equivalent (%v)", k, len(calls), rk.flags), c)
			}
			continue
		}
		if rk.flags["conv"] != "1" || rk.flags["svc"] != "1" || rk.flags["grp"] != "1" || rk.flags["frame"] != "1" {
			e.fail("resume-conv", "other", hint, fmt.Sprintf("resumed after %d of %d calls: not equivalent (%v)", k, len(calls), rk.flags), c)
			continue
		}
		res.Count("resume:converged")
		if e.ctx.Thorough() || e.rng.Chance(30) {
			p3 := e.planBoth(&c2, rk.final, "resume second plan")
			if p3.real.Kind == "ok" && len(p3.real.Calls) > 0 {
				pr, at := idemAttr(e.class(rk.final, T), loaded(rk.final), T, p3.real.Calls, p3.exact, false)
				e.fail("resume-idem", pr, at, fmt.Sprintf("resumed after %d calls: further compare reports %d changes", k, len(p3.real.Calls)), c)
			}
		}
	}
}

func cut(s string, n int) string {
	if len(s) > n {
		return s[:n] + "…"
	}
	return s
}

func (e *engine) class(S, T *Config) map[string]string {
	return parseFlags(e.drv.Ask("class\t" + encConfig(S) + "\t" + encConfig(T)))
}

func (ro runOutcome) flagsNonEmptyOK(s *Config) bool {
	for _, g := range s.Groups {
		if strings.HasPrefix(g.Id, "Netspoc") && len(g.Addrs) == 0 {
			return false
		}
	}
	return true
}

// ---------------------------------------------------------------- Myers port versus the library

type bitPair struct {
	a, b int
	m    []byte
}

func (p bitPair) LenA() int           { return p.a }
func (p bitPair) LenB() int           { return p.b }
func (p bitPair) Equal(i, j int) bool { return p.m[i*p.b+j] == '1' }

func (e *engine) myersStream(n int) {
	for i := 0; i < n; i++ {
		a, b := e.rng.Intn(7), e.rng.Intn(7)
		dens := []int{10, 30, 50, 80}[e.rng.Intn(4)]
		diag := i%3 == 0
		if diag {
			b = a // same length, pairwise equal: the library must answer with the single pairing range
		}
		m := make([]byte, a*b)
		for k := range m {
			m[k] = '0'
			if e.rng.Chance(dens) || (diag && k/b == k%b) {
				m[k] = '1'
			}
		}
		var l []string
		func() {
			defer func() {
				if r := recover(); r != nil {
					l = []string{"panic: " + fmt.Sprint(r)}
				}
			}()
			for _, r := range myers.Diff(nil, bitPair{a, b, m}).Ranges {
				l = append(l, fmt.Sprintf("%d,%d,%d,%d", r.LowA, r.HighA, r.LowB, r.HighB))
			}
		}()
		ans := e.drv.Ask(fmt.Sprintf("myers\t%d\t%d\t%s", a, b, string(m)))
		want := strings.Join(l, ";")
		e.res.Count("myers:cases")
		if strings.HasPrefix(want, "panic") {
			// the library's own sanity check fires on relations that are not equivalences: not reachable
			// from the planner (rule Equal and string equality), skipped
			e.res.Count("myers:library-sanity-panic")
			continue
		}
		af := strings.Split(ans, "\t")
		for len(af) < 3 {
			af = append(af, "")
		}
		got, valid, idok := af[0], af[1], af[2]
		if diag {
			e.res.Count("myers:identity-cases")
			if exp := fmt.Sprintf("0,%d,0,%d", a, a); want != exp {
				// hypothesis IdOnEqual of nsx_idempotent_partial, checked on the library itself
				e.res.Disagree("myers identity on equal lists (library)", map[string]any{"a": a, "m": string(m)}, want, exp)
			}
		}
		if got != want {
			e.res.Disagree("myers port", map[string]any{"a": a, "b": b, "m": string(m)}, want, got)
		} else if valid != "1" {
			e.res.Disagree("myers script validity", map[string]any{"a": a, "b": b, "m": string(m)}, want, "invalid")
		} else if idok != "1" {
			e.res.Disagree("myers identity on equal lists (port)", map[string]any{"a": a, "b": b, "m": string(m)}, want, got)
		}
	}
}

func runProp(ctx *Ctx, prop string) *Result {
	res := NewResult()
	res.Rule = "pairs (NSX manager state incl. objects outside Netspoc's scope, Netspoc target as IPv4/IPv6/raw files): several policies, " +
		"rules sharing sequence numbers, groups renamed/shared/duplicated/edited incrementally or wholesale, services changed in place, " +
		"id clashes, left-overs; streams base, big (>12 rules), ties, idclash, idsuffix (target ids <id>, <id>-<n> in both list orders with a clashing device id), rawpolicy, unmref, spaced, dupcontent and the malformed " +
		"streams emptygroup, undefgroup, rawbad; real planner via LoadDevice against a local manager (88%) or drc.Main on files (12%). " +
		"non-trivial = the real script has at least two calls of at least two kinds; distinct by canonical input text"
	res.Assumptions = []string{
		"the manager lists rules, groups and services in the order of its store; an update needs PATCH, PUT is create-only",
		"address lists on the manager and in the target have no duplicates",
	}
	tmp, err := os.MkdirTemp("", "vh-c04-")
	if err != nil {
		panic(err)
	}
	defer os.RemoveAll(tmp)
	e := &engine{ctx: ctx, prop: prop, res: res, drv: ctx.StartNadrv("c04"), rr: newRealRunner(tmp), rng: ctx.Rng.Fork()}
	defer e.drv.Close()
	defer e.rr.close()

	if ctx.Replay != "" {
		var c Case
		if err := ReadReplay(ctx.Replay, &c); err != nil {
			fmt.Fprintln(os.Stderr, err)
			os.Exit(2)
		}
		e.oneCase(&c)
		return res
	}
	// experiment knob (mutation studies): VH_C04_ONLY=stream,stream restricts the run to these generator
	// streams; never set by ./check
	only := os.Getenv("VH_C04_ONLY")
	if only == "" {
		for _, c := range corpus() {
			e.oneCase(c)
		}
		e.myersStream(ctx.N(300, 20000))
	}
	type sw struct {
		name   string
		weight int
	}
	streams := []sw{{"base", 60}, {"big", 5}, {"bigties", 3}, {"ties", 6}, {"idclash", 5}, {"idsuffix", 6}, {"rawpolicy", 3}, {"unmref", 3}, {"spaced", 3},
		{"dupcontent", 5}, {"emptygroup", 2}, {"undefgroup", 2}, {"rawbad", 6}}
	if only != "" {
		var l []sw
		for _, s := range streams {
			if strings.Contains(","+only+",", ","+s.name+",") {
				l = append(l, s)
			}
		}
		streams = l
		res.Notes = append(res.Notes, "restricted to streams "+only)
	}
	total := 0
	for _, s := range streams {
		total += s.weight
	}
	n := ctx.N(600, 14000)
	deadline := time.Now().Add(time.Duration(ctx.N(55, 780)) * time.Second)
	for i := 0; i < n; i++ {
		// the code does not behave like the model: go on (within the time budget) until the oracle has a
		// failing input that no finding explains, so that the verdict comes with a replay; give up after 250 cases
		if len(res.Disagreements) >= 20 && (i >= 250 || hasUnexplained(res)) {
			res.Notes = append(res.Notes, fmt.Sprintf("stopped after %d generated cases: 20 disagreements recorded", i))
			break
		}
		if time.Now().After(deadline) {
			res.Notes = append(res.Notes, fmt.Sprintf("time budget reached after %d of %d generated cases", i, n))
			break
		}
		rng := ctx.Rng.Fork()
		k := rng.Intn(total)
		name := ""
		for _, s := range streams {
			if k < s.weight {
				name = s.name
				break
			}
			k -= s.weight
		}
		e.oneCase(genCase(rng, name, ctx.Thorough()))
	}
	return res
}
