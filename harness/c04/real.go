package main

// Running the REAL planner of /repo in-process: nsx.State.LoadDevice against a local HTTP
// server that serves an object store the way an NSX manager does (so the prefix filter of
// LoadDevice/getRawJSON and the cursor loop are exercised), ParseConfig + MergeSpoc on the three
// Netspoc files, GetChanges, ShowChanges, ApplyCommands; and `drc FILE1 FILE2` via drc.Main.

import (
	"encoding/json"
	"fmt"
	"io"
	"net/http"
	"net/http/httptest"
	"os"
	"path/filepath"
	"strconv"
	"strings"
	"sync"

	. "verifharness/vhlib"

	"github.com/hknutzen/Netspoc-Approve/go/pkg/deviceconf"
	"github.com/hknutzen/Netspoc-Approve/go/pkg/drc"
	"github.com/hknutzen/Netspoc-Approve/go/pkg/errlog"
	"github.com/hknutzen/Netspoc-Approve/go/pkg/nsx"
	"github.com/hknutzen/Netspoc-Approve/go/pkg/program"
)

type recorded struct{ Method, URL, Body string }

// manager is the HTTP face of one object store.
type manager struct {
	mu       sync.Mutex
	store    *Config
	pageSize int // results per page for services/groups (0 = all)
	failAt   int // index of the modifying request answered with 500 (-1 = none)
	mods     []recorded
	gets     int
	srv      *httptest.Server
}

func newManager() *manager {
	m := &manager{failAt: -1}
	m.srv = httptest.NewUnstartedServer(http.HandlerFunc(m.handle))
	m.srv.Config.SetKeepAlivesEnabled(false)
	m.srv.Start()
	return m
}

func (m *manager) set(store *Config, pageSize int) {
	m.mu.Lock()
	defer m.mu.Unlock()
	m.store, m.pageSize, m.failAt, m.mods, m.gets = store, pageSize, -1, nil, 0
}

func page(items []string, cursor string, size int) string {
	start, _ := strconv.Atoi(cursor)
	end := len(items)
	next := ""
	if size > 0 && start+size < end {
		end = start + size
		next = `,"cursor":"` + strconv.Itoa(end) + `"`
	}
	if start > end {
		start = end
	}
	return `{"results":[` + strings.Join(items[start:end], ",") + `],"result_count":` + strconv.Itoa(len(items)) + next + `}`
}

func (m *manager) handle(w http.ResponseWriter, r *http.Request) {
	m.mu.Lock()
	defer m.mu.Unlock()
	path := r.URL.Path
	if r.Method == "POST" && path == "/api/session/create" {
		w.Header().Set("x-xsrf-token", "tok")
		w.WriteHeader(200)
		return
	}
	if r.Method == "GET" {
		m.gets++
		switch {
		case path == strings.TrimSuffix(uPolicies, "/"):
			var l []string
			for _, p := range m.store.Policies {
				l = append(l, `{"id":`+jstr(p.Id)+`,"display_name":"x","rules":[]}`)
			}
			io.WriteString(w, page(l, "", 0))
		case strings.HasPrefix(path, uPolicies):
			id := path[len(uPolicies):]
			for _, p := range m.store.Policies {
				if p.Id == id {
					io.WriteString(w, policyJSON(p, true))
					return
				}
			}
			http.NotFound(w, r)
		case path == strings.TrimSuffix(uServices, "/"):
			var l []string
			for _, s := range m.store.Services {
				l = append(l, serviceJSON(s, true))
			}
			io.WriteString(w, page(l, r.URL.Query().Get("cursor"), m.pageSize))
		case path == strings.TrimSuffix(uGroups, "/"):
			var l []string
			for _, g := range m.store.Groups {
				l = append(l, groupJSON(g, true))
			}
			io.WriteString(w, page(l, r.URL.Query().Get("cursor"), m.pageSize))
		default:
			http.NotFound(w, r)
		}
		return
	}
	body, _ := io.ReadAll(r.Body)
	u := path
	if r.URL.RawQuery != "" {
		u += "?" + r.URL.RawQuery
	}
	idx := len(m.mods)
	m.mods = append(m.mods, recorded{r.Method, u, string(body)})
	if idx == m.failAt {
		http.Error(w, "injected failure", 500)
		return
	}
	io.WriteString(w, "{}")
}

// realResult is what one run of the real planner yields.
type realResult struct {
	Kind  string // "ok", "err" (diagnostic), "abort" (errlog.Abort), "panic" (runtime panic)
	Msg   string
	Calls []Call
	Text  string // ShowChanges text
}

type files struct {
	V4, V6, Raw string // JSON text; "" = file absent
}

type realRunner struct {
	mgr  *manager
	dir  string
	cfg  *program.Config
	spoc string
}

func newRealRunner(tmp string) *realRunner {
	rr := &realRunner{mgr: newManager(), dir: tmp}
	os.Setenv("SIMULATE_ROUTER", rr.mgr.srv.URL)
	rr.cfg = &program.Config{BaseDir: tmp, User: "admin", Password: "secret", Timeout: 20, LoginTimeout: 5}
	rr.spoc = filepath.Join(tmp, "code", "router")
	os.MkdirAll(filepath.Join(tmp, "code", "ipv6"), 0755)
	os.WriteFile(rr.spoc+".info", []byte(`{"model":"NSX","name_list":["router"],"ip_list":["10.1.13.33"]}`), 0644)
	errlog.Quiet = true
	errlog.SetStderrLog("")
	return rr
}

func (rr *realRunner) close() { rr.mgr.srv.Close() }

func guarded(f func() realResult) (res realResult) {
	defer func() {
		if e := recover(); e != nil {
			if fmt.Sprintf("%T", e) == "errlog.bailout" {
				res = realResult{Kind: "abort", Msg: "errlog.Abort"}
			} else {
				res = realResult{Kind: "panic", Msg: fmt.Sprint(e)}
			}
		}
	}()
	return f()
}

// parseFiles mirrors device.loadSpoc on in-memory data: IPv4, IPv6, raw.
func parseFiles(s *nsx.State, f files) (deviceconf.Config, error) {
	c4, err := s.ParseConfig([]byte(f.V4), "code/router")
	if err != nil {
		return nil, fmt.Errorf("While reading file router: %v", err)
	}
	c6, err := s.ParseConfig([]byte(f.V6), "code/ipv6/router")
	if err != nil {
		return nil, fmt.Errorf("While reading file router: %v", err)
	}
	conf := c4.MergeSpoc(c6)
	raw, err := s.ParseConfig([]byte(f.Raw), "code/router.raw")
	if err != nil {
		return nil, fmt.Errorf("While reading file router.raw: %v", err)
	}
	return conf.MergeSpoc(raw), nil
}

// planHTTP: LoadDevice from the manager, plan, optionally ApplyCommands with a failure injected
// at modifying request failAt (-1: apply all, -2: do not apply).
func (rr *realRunner) planHTTP(store *Config, pageSize int, f files, failAt int) (realResult, []recorded, string) {
	rr.mgr.set(store, pageSize)
	applyErr := ""
	res := guarded(func() realResult {
		s := &nsx.State{}
		dev, err := s.LoadDevice(rr.spoc, rr.cfg, nil, nil)
		if err != nil {
			return realResult{Kind: "err", Msg: "load: " + err.Error()}
		}
		conf, err := parseFiles(s, f)
		if err != nil {
			return realResult{Kind: "err", Msg: err.Error()}
		}
		if err := s.GetChanges(dev, conf); err != nil {
			return realResult{Kind: "err", Msg: err.Error()}
		}
		text := s.ShowChanges()
		calls, err := parseShowChanges(text)
		if err != nil {
			return realResult{Kind: "err", Msg: "unparsable call: " + err.Error(), Text: text}
		}
		if s.HasChanges() != (len(calls) > 0) {
			return realResult{Kind: "err", Msg: "HasChanges disagrees with ShowChanges", Text: text}
		}
		if failAt != -2 {
			rr.mgr.mu.Lock()
			rr.mgr.failAt = failAt
			rr.mgr.mu.Unlock()
			if err := s.ApplyCommands(nil); err != nil {
				applyErr = err.Error()
			}
		}
		return realResult{Kind: "ok", Calls: calls, Text: text}
	})
	rr.mgr.mu.Lock()
	mods := append([]recorded(nil), rr.mgr.mods...)
	rr.mgr.mu.Unlock()
	return res, mods, applyErr
}

// loadOnly: LoadDevice alone; the ids it kept, in its order (policies with their rule ids).
func (rr *realRunner) loadOnly(store *Config, pageSize int) (out string, err error) {
	rr.mgr.set(store, pageSize)
	defer func() {
		if e := recover(); e != nil {
			err = fmt.Errorf("panic: %v", e)
		}
	}()
	s := &nsx.State{}
	dev, err := s.LoadDevice(rr.spoc, rr.cfg, nil, nil)
	if err != nil {
		return "", err
	}
	raw, _ := json.Marshal(dev)
	var v struct {
		Policies []struct {
			Id    string `json:"id"`
			Rules []struct {
				Id string `json:"id"`
			} `json:"rules"`
		}
		Groups, Services []struct {
			Id string `json:"id"`
		}
	}
	if err := json.Unmarshal(raw, &v); err != nil {
		return "", err
	}
	var ps, gs, ss []string
	for _, p := range v.Policies {
		var rs []string
		for _, r := range p.Rules {
			rs = append(rs, r.Id)
		}
		ps = append(ps, p.Id+":"+strings.Join(rs, ";"))
	}
	for _, g := range v.Groups {
		gs = append(gs, g.Id)
	}
	for _, x := range v.Services {
		ss = append(ss, x.Id)
	}
	return strings.Join(ps, ",") + "\t" + strings.Join(gs, ",") + "\t" + strings.Join(ss, ","), nil
}

// planFiles: `drc -q FILE1 FILE2` through drc.Main (device given as a file, as the repo's own
// tests do); FILE1 holds what LoadDevice would have kept.
func (rr *realRunner) planFiles(loaded *Config, f files) realResult {
	dev := filepath.Join(rr.dir, "dev", "router")
	os.MkdirAll(filepath.Dir(dev), 0755)
	os.WriteFile(dev, []byte(fileJSON(loaded, true)), 0644)
	write := func(p, data string) {
		if data == "" {
			os.Remove(p)
		} else {
			os.WriteFile(p, []byte(data), 0644)
		}
	}
	write(rr.spoc, f.V4)
	write(filepath.Join(rr.dir, "code", "ipv6", "router"), f.V6)
	write(rr.spoc+".raw", f.Raw)
	oldArgs := os.Args
	os.Args = []string{"drc", "-q", dev, rr.spoc}
	stdout, stderr, status, pmsg := Captured(func() int { return drc.Main() })
	os.Args = oldArgs
	errlog.SetStderrLog("")
	errlog.Quiet = true
	switch {
	case pmsg != "":
		return realResult{Kind: "panic", Msg: pmsg}
	case status != 0:
		return realResult{Kind: "err", Msg: strings.TrimSpace(stderr)}
	}
	calls, err := parseShowChanges(stdout)
	if err != nil {
		return realResult{Kind: "err", Msg: "unparsable call: " + err.Error(), Text: stdout}
	}
	return realResult{Kind: "ok", Calls: calls, Text: stdout}
}

func recordedCalls(mods []recorded) ([]Call, error) {
	var out []Call
	for _, m := range mods {
		c, err := parseCall(m.Method, m.URL, m.Body)
		if err != nil {
			return nil, err
		}
		out = append(out, c)
	}
	return out, nil
}

func jsonOf(v any) string {
	b, _ := json.Marshal(v)
	return string(b)
}
