package main

// JSON side: rendering configurations the way Netspoc files and an NSX manager spell them, and
// parsing the REST calls the real code emits back into structured form.

import (
	"encoding/json"
	"fmt"
	"sort"
	"strings"
)

func jstr(s string) string {
	b, _ := json.Marshal(s)
	return string(b)
}

func jlist(l []string) string {
	if l == nil {
		l = []string{}
	}
	b, _ := json.Marshal(l)
	return string(b)
}

// ruleJSON spells one rule.  junk adds attributes the parser must ignore.
func ruleJSON(r Rule, junk bool) string {
	var kv []string
	add := func(k, v string) { kv = append(kv, jstr(k)+":"+v) }
	add("resource_type", `"Rule"`)
	add("id", jstr(r.Id))
	if junk {
		add("display_name", jstr(r.Id))
		add("path", jstr("/infra/domains/default/gateway-policies/x/rules/"+r.Id))
		add("unknownattribute", `{"a":[1,2,{"b":null}]}`)
	}
	add("action", jstr(r.Action))
	add("sequence_number", fmt.Sprint(r.Seq))
	if r.SrcExcl {
		add("sources_excluded", "true")
	}
	if r.DstExcl {
		add("destinations_excluded", "true")
	} else if junk {
		add("destinations_excluded", "false")
	}
	add("source_groups", jlist([]string{r.Src}))
	add("destination_groups", jlist([]string{r.Dst}))
	add("services", jlist([]string{r.Service}))
	if r.SvcEntries != "" {
		add("service_entries", r.SvcEntries)
	}
	if len(r.Profiles) > 0 {
		add("profiles", jlist(r.Profiles))
	}
	add("scope", jlist(r.Scope))
	if r.Disabled {
		add("disabled", "true")
	}
	if r.Logged {
		add("logged", "true")
	}
	if r.Tag != "" {
		add("tag", jstr(r.Tag))
	}
	add("direction", jstr(r.Direction))
	if r.IPProto != "" {
		add("ip_protocol", jstr(r.IPProto))
	}
	if r.Rev != 0 {
		add("_revision", fmt.Sprint(r.Rev))
	}
	return "{" + strings.Join(kv, ",") + "}"
}

func policyJSON(p Policy, junk bool) string {
	rs := make([]string, len(p.Rules))
	for i, r := range p.Rules {
		rs[i] = ruleJSON(r, junk)
	}
	extra := ""
	if junk {
		extra = `,"display_name":"x","category":"LocalGatewayRules","_revision":3`
	}
	return `{"id":` + jstr(p.Id) + `,"resource_type":"GatewayPolicy","rules":[` + strings.Join(rs, ",") + `]` + extra + `}`
}

func groupJSON(g Group, junk bool) string {
	extra := ""
	if junk {
		extra = `,"display_name":` + jstr(g.Id) + `,"path":` + jstr("/infra/domains/default/groups/"+g.Id) + `,"_revision":1`
	}
	return `{"id":` + jstr(g.Id) + `,"expression":[{"id":` + jstr(g.ExprId) + `,"resource_type":` + jstr(g.RType) +
		`,"ip_addresses":` + jlist(g.Addrs) + `}]` + extra + `}`
}

// serviceJSON spells a service from its canonical definition; junk adds attributes that
// nsxServiceEntry.MarshalJSON drops for the entry's resource type.
func serviceJSON(s Service, junk bool) string {
	entries := s.Defn
	if junk {
		var l []map[string]any
		if json.Unmarshal([]byte(s.Defn), &l) == nil {
			for _, e := range l {
				e["display_name"] = "x"
				e["_revision"] = 0
				switch e["resource_type"] {
				case "L4PortSetServiceEntry":
					e["protocol_number"] = 0
				case "IPProtocolServiceEntry":
					e["l4_protocol"] = ""
					e["source_ports"] = []string{}
				}
			}
			b, _ := json.Marshal(l)
			entries = string(b)
		}
	}
	extra := ""
	if junk {
		extra = `,"display_name":"x","is_default":false`
	}
	return `{"id":` + jstr(s.Id) + `,"service_entries":` + entries + extra + `}`
}

// fileJSON spells a configuration as a Netspoc code file.
func fileJSON(c *Config, junk bool) string {
	if c == nil {
		return ""
	}
	var ps, gs, ss []string
	for _, p := range c.Policies {
		ps = append(ps, policyJSON(p, junk))
	}
	for _, g := range c.Groups {
		gs = append(gs, groupJSON(g, junk))
	}
	for _, s := range c.Services {
		ss = append(ss, serviceJSON(s, junk))
	}
	return `{"groups":[` + strings.Join(gs, ",") + `],"policies":[` + strings.Join(ps, ",") + `],"services":[` +
		strings.Join(ss, ",") + `]}`
}

// ---------------------------------------------------------------- parsing the real calls

type jRule struct {
	Id                   *string         `json:"id"`
	Action               string          `json:"action"`
	SequenceNumber       int             `json:"sequence_number"`
	SourcesExcluded      bool            `json:"sources_excluded"`
	DestinationsExcluded bool            `json:"destinations_excluded"`
	SourceGroups         []string        `json:"source_groups"`
	DestinationGroups    []string        `json:"destination_groups"`
	Services             []string        `json:"services"`
	ServiceEntries       json.RawMessage `json:"service_entries"`
	Profiles             []string        `json:"profiles"`
	Scope                []string        `json:"scope"`
	Disabled             bool            `json:"disabled"`
	Logged               bool            `json:"logged"`
	Tag                  string          `json:"tag"`
	Direction            string          `json:"direction"`
	IPProtocol           string          `json:"ip_protocol"`
	Revision             int             `json:"_revision"`
}

func one(l []string) string {
	if len(l) == 1 {
		return l[0]
	}
	return fmt.Sprintf("BAD%v", l)
}

func (j *jRule) rule(wantId bool) (Rule, error) {
	r := Rule{Direction: j.Direction, Seq: j.SequenceNumber, Action: j.Action, Logged: j.Logged, Tag: j.Tag,
		Disabled: j.Disabled, DstExcl: j.DestinationsExcluded, SrcExcl: j.SourcesExcluded, SvcEntries: string(j.ServiceEntries),
		IPProto: j.IPProtocol, Profiles: j.Profiles, Scope: j.Scope, Service: one(j.Services), Src: one(j.SourceGroups),
		Dst: one(j.DestinationGroups), Rev: j.Revision}
	if len(r.Profiles) == 0 {
		r.Profiles = nil
	}
	if len(r.Scope) == 0 {
		r.Scope = nil
	}
	if wantId {
		if j.Id == nil {
			return r, fmt.Errorf("rule without id inside a policy body")
		}
		r.Id = *j.Id
	} else if j.Id != nil {
		return r, fmt.Errorf("rule body repeats the id %q", *j.Id)
	}
	return r, nil
}

func strictDecode(body string, v any) error {
	dec := json.NewDecoder(strings.NewReader(body))
	dec.DisallowUnknownFields()
	if err := dec.Decode(v); err != nil {
		return fmt.Errorf("body %s: %v", body, err)
	}
	return nil
}

const (
	uServices = "/policy/api/v1/infra/services/"
	uGroups   = "/policy/api/v1/infra/domains/default/groups/"
	uPolicies = "/policy/api/v1/infra/domains/default/gateway-policies/"
)

// parseCall turns one (method, url, body) into a structured call.
func parseCall(method, url, body string) (Call, error) {
	bad := func(f string, a ...any) (Call, error) {
		return Call{}, fmt.Errorf("%s %s: %s", method, url, fmt.Sprintf(f, a...))
	}
	switch {
	case strings.HasPrefix(url, uServices):
		id := url[len(uServices):]
		switch method {
		case "DELETE":
			if body != "" {
				return bad("DELETE with body")
			}
			return Call{Kind: "DS", Id: id}, nil
		case "PUT", "PATCH":
			var v struct {
				ServiceEntries json.RawMessage `json:"service_entries"`
			}
			if err := strictDecode(body, &v); err != nil {
				return bad("%v", err)
			}
			d, err := canonEntries(v.ServiceEntries)
			if err != nil {
				return bad("%v", err)
			}
			k := "PS"
			if method == "PATCH" {
				k = "AS"
			}
			return Call{Kind: k, Id: id, Defn: d, RawDefn: string(v.ServiceEntries)}, nil
		}
	case strings.HasPrefix(url, uGroups):
		rest := url[len(uGroups):]
		if i := strings.Index(rest, "/ip-address-expressions/"); i >= 0 {
			gid := rest[:i]
			e := rest[i+len("/ip-address-expressions/"):]
			switch method {
			case "POST":
				eid, q, ok := strings.Cut(e, "?action=")
				if !ok || (q != "add" && q != "remove") {
					return bad("unknown action")
				}
				var v struct {
					IPAddresses []string `json:"ip_addresses"`
				}
				if err := strictDecode(body, &v); err != nil {
					return bad("%v", err)
				}
				k := "XA"
				if q == "remove" {
					k = "XR"
				}
				return Call{Kind: k, Id: gid, Expr: eid, Addrs: v.IPAddresses}, nil
			case "PATCH":
				var v struct {
					ResourceType string   `json:"resource_type"`
					IPAddresses  []string `json:"ip_addresses"`
				}
				if err := strictDecode(body, &v); err != nil {
					return bad("%v", err)
				}
				return Call{Kind: "AE", Id: gid, Expr: e, RType: v.ResourceType, Addrs: v.IPAddresses}, nil
			}
			return bad("unexpected method")
		}
		switch method {
		case "DELETE":
			if body != "" {
				return bad("DELETE with body")
			}
			return Call{Kind: "DG", Id: rest}, nil
		case "PUT":
			var v struct {
				Expression []struct {
					Id           string   `json:"id"`
					ResourceType string   `json:"resource_type"`
					IPAddresses  []string `json:"ip_addresses"`
				} `json:"expression"`
			}
			if err := strictDecode(body, &v); err != nil {
				return bad("%v", err)
			}
			if len(v.Expression) != 1 {
				return bad("%d expressions", len(v.Expression))
			}
			x := v.Expression[0]
			return Call{Kind: "PG", Id: rest, Expr: x.Id, RType: x.ResourceType, Addrs: x.IPAddresses}, nil
		}
	case strings.HasPrefix(url, uPolicies):
		rest := url[len(uPolicies):]
		if pid, rid, ok := strings.Cut(rest, "/rules/"); ok {
			switch method {
			case "DELETE":
				if body != "" {
					return bad("DELETE with body")
				}
				return Call{Kind: "DR", Id: pid, Rid: rid}, nil
			case "PUT", "PATCH":
				var j jRule
				if err := strictDecode(body, &j); err != nil {
					return bad("%v", err)
				}
				r, err := j.rule(false)
				if err != nil {
					return bad("%v", err)
				}
				k := "PR"
				if method == "PATCH" {
					k = "AR"
				}
				return Call{Kind: k, Id: pid, Rid: rid, Rule: &r}, nil
			}
			return bad("unexpected method")
		}
		switch method {
		case "DELETE":
			if body != "" {
				return bad("DELETE with body")
			}
			return Call{Kind: "DP", Id: rest}, nil
		case "PUT":
			var v struct {
				Id    string  `json:"id"`
				Rules []jRule `json:"rules"`
			}
			if err := strictDecode(body, &v); err != nil {
				return bad("%v", err)
			}
			if v.Id != rest {
				return bad("body id %q differs from url", v.Id)
			}
			c := Call{Kind: "PP", Id: rest}
			for i := range v.Rules {
				r, err := v.Rules[i].rule(true)
				if err != nil {
					return bad("%v", err)
				}
				c.Rules = append(c.Rules, r)
			}
			return c, nil
		}
	}
	return bad("unexpected call")
}

// parseShowChanges parses the text of State.ShowChanges(): "METHOD URL\nBODY\n" per call.
func parseShowChanges(text string) ([]Call, error) {
	if text == "" {
		return nil, nil
	}
	lines := strings.Split(strings.TrimSuffix(text, "\n"), "\n")
	if len(lines)%2 != 0 {
		return nil, fmt.Errorf("odd number of lines in ShowChanges output")
	}
	var out []Call
	for i := 0; i < len(lines); i += 2 {
		m, u, ok := strings.Cut(lines[i], " ")
		if !ok {
			return nil, fmt.Errorf("bad line %q", lines[i])
		}
		c, err := parseCall(m, u, lines[i+1])
		if err != nil {
			return nil, err
		}
		out = append(out, c)
	}
	return out, nil
}

// mergeTarget is the harness's own reading of how the three Netspoc files combine
// (IPv4, then IPv6, then raw; policies with the same id are concatenated).
func mergeTarget(files ...*Config) *Config {
	t := &Config{}
	for _, f := range files {
		if f == nil {
			continue
		}
		f = cloneConfig(f)
		t.Groups = append(t.Groups, f.Groups...)
		t.Services = append(t.Services, f.Services...)
	NEXT:
		for _, p := range f.Policies {
			for i := range t.Policies {
				if t.Policies[i].Id == p.Id {
					t.Policies[i].Rules = append(t.Policies[i].Rules, p.Rules...)
					continue NEXT
				}
			}
			t.Policies = append(t.Policies, p)
		}
	}
	return t
}

func sortedKeys[V any](m map[string]V) []string {
	l := make([]string, 0, len(m))
	for k := range m {
		l = append(l, k)
	}
	sort.Strings(l)
	return l
}
