package main

// Generators: a Netspoc target (IPv4 file, optional IPv6 and raw files) over a small universe of
// addresses, groups, services and policies, and a manager state derived from it by the edits the
// property quantifies over (groups renamed / shared / duplicated / edited a little or a lot,
// services changed in place, rules added / dropped / altered / renamed, policies added / dropped,
// left-over objects, id clashes, objects outside Netspoc's scope).

import (
	"bytes"
	"encoding/json"
	"fmt"
	"sort"
	"strings"

	. "verifharness/vhlib"
)

type Case struct {
	Stream   string  `json:"stream"`
	Store    *Config `json:"store"`
	V4       *Config `json:"v4"`
	V6       *Config `json:"v6,omitempty"`
	Raw      *Config `json:"raw,omitempty"`
	PageSize int     `json:"page_size"`
	Mode     string  `json:"mode"` // "http" or "files"
	// what the generator knows about the acceptance of the files: "accept", "reject:<diagnostic>",
	// "" = no expectation (replay files written before this field existed)
	Expect string `json:"expect,omitempty"`
}

var (
	addrsV4 = []string{"10.1.1.10", "10.1.1.20", "10.1.1.30", "10.1.1.40", "10.1.2.0/24", "10.1.3.0/24", "10.2.1.10",
		"10.2.1.20", "10.9.9.9", "192.168.0.0/16", "172.16.1.1", "10.1.1.0/24", "10.1.2.30", "10.1.2.40"}
	addrsV6     = []string{"::a01:10a", "::a01:114", "::a01:200/120", "2001:db8::1", "2001:db8::2"}
	policyIds   = []string{"Netspoc-v1", "Netspoc-v2", "Netspoc-t0"}
	extGroups   = []string{"raw-g1", "ext-group", "admins"}
	extServices = []string{"HTTP", "my-svc"}
	extPolicies = []string{"default-layer3-section", "admin-policy"}
	// raw files may name policies and groups with the bare prefix (checkRaw asks for "Netspoc", not "Netspoc-")
	rawGroupIds  = []string{"Netspoc-web", "Netspoc-web-1", "Netspoc-db", "Netspoc-x", "Netspoc_dmz", "NetspocDMZ", "Netspoc"}
	rawRuleIds   = []string{"raw1", "raw2", "deny", "deny-1", "deny-2", "x", "x-1"}
	scopes       = []string{"/infra/tier-0s/v1", "/infra/tier-1s/t1"}
	svcEntriesEx = []string{`[{"resource_type":"L4PortSetServiceEntry","l4_protocol":"TCP","destination_ports":["8080"]}]`,
		`[ { "resource_type": "L4PortSetServiceEntry", "l4_protocol": "TCP", "destination_ports": [ "8080" ] } ]`}
)

func gpath(id string) string { return "/infra/domains/default/groups/" + id }
func spath(id string) string { return "/infra/services/" + id }

func l4(proto, dst string, src ...string) string {
	if src == nil {
		src = []string{}
	}
	d, _ := canonEntries([]byte(fmt.Sprintf(
		`[{"id":"id","resource_type":"L4PortSetServiceEntry","l4_protocol":%q,"destination_ports":[%q],"source_ports":%s}]`,
		proto, dst, jlist(src))))
	return d
}

// service pool: id -> alternative definitions (the first is the usual one)
var svcPool = map[string][]string{
	"Netspoc-tcp_80":  {l4("TCP", "80"), l4("TCP", "80", "1024-65535")},
	"Netspoc-tcp_443": {l4("TCP", "443"), l4("TCP", "443-444")},
	"Netspoc-udp_123": {l4("UDP", "123"), l4("UDP", "123", "123")},
	"Netspoc-icmp_8": {`[{"icmp_code":0,"icmp_type":8,"id":"id","protocol":"ICMPv4","resource_type":"ICMPTypeServiceEntry"}]`,
		`[{"icmp_type":8,"id":"id","protocol":"ICMPv4","resource_type":"ICMPTypeServiceEntry"}]`,
		`[{"id":"id","protocol":"ICMPv6","resource_type":"ICMPTypeServiceEntry"}]`},
	"Netspoc-proto_50": {`[{"id":"id","protocol_number":50,"resource_type":"IPProtocolServiceEntry"}]`,
		`[{"id":"id","protocol_number":51,"resource_type":"IPProtocolServiceEntry"}]`},
	"Netspoc-raw-dns": {l4("UDP", "53"), l4("TCP", "53") + ""},
	"Netspoc-raw-two": {`[{"destination_ports":["22"],"id":"a","l4_protocol":"TCP","resource_type":"L4PortSetServiceEntry","source_ports":[]},` +
		`{"id":"b","protocol_number":47,"resource_type":"IPProtocolServiceEntry"}]`},
}
var netspocSvcIds = []string{"Netspoc-tcp_80", "Netspoc-tcp_443", "Netspoc-udp_123", "Netspoc-icmp_8", "Netspoc-proto_50"}
var rawSvcIds = []string{"Netspoc-raw-dns", "Netspoc-raw-two"}

type genOpt struct {
	maxRules   int
	noTies     bool // distinct sequence numbers: no two rules tie under sortRules
	ties       bool // provoke ties
	idClash    bool
	rawPolicy  bool // raw policy whose id lacks the prefix
	unmRef     bool // rule outside Netspoc's scope refers to a managed group
	spacedSE   bool // inline service_entries with white space
	emptyGroup bool // device group without addresses
	undefGroup bool // target rule naming a managed group the target does not define
	rawBad     bool // raw file that checkRaw rejects
	dupContent bool // several device groups with identical content
}

func pickAddrs(rng *RNG, pool []string, n int) []string {
	idx := make([]int, len(pool))
	for i := range idx {
		idx[i] = i
	}
	Shuffle(rng, idx)
	if n > len(pool) {
		n = len(pool)
	}
	l := make([]string, n)
	for i := 0; i < n; i++ {
		l[i] = pool[idx[i]]
	}
	return l
}

type tgtBuilder struct {
	rng    *RNG
	opt    genOpt
	cfg    *Config
	pool   []string
	gpfx   string // "Netspoc-g" / "Netspoc-v6g"
	rpfx   string // "r" / "v6r"
	groups []string
	nrule  int
	raw    bool
}

func (b *tgtBuilder) newGroup() string {
	var id string
	if b.raw {
		id = rawGroupIds[b.rng.Intn(len(rawGroupIds))]
		for _, g := range b.cfg.Groups {
			if g.Id == id {
				return id
			}
		}
	} else {
		id = fmt.Sprintf("%s%d", b.gpfx, len(b.cfg.Groups))
	}
	n := 1 + b.rng.Intn(5)
	if b.rng.Chance(15) {
		n = 1
	}
	addrs := pickAddrs(b.rng, b.pool, n)
	if b.opt.ties && len(b.cfg.Groups) > 0 && b.rng.Chance(60) {
		// share the (sorted) first address with an existing group
		first := append([]string(nil), b.cfg.Groups[0].Addrs...)
		sort.Strings(first)
		addrs = append([]string{first[0]}, pickAddrs(b.rng, b.pool[4:], 1+b.rng.Intn(2))...)
		addrs = dedup(addrs)
	}
	b.cfg.Groups = append(b.cfg.Groups, Group{Id: id, ExprId: "id", RType: "IPAddressExpression", Addrs: addrs})
	b.groups = append(b.groups, id)
	return id
}

func dedup(l []string) []string {
	seen := map[string]bool{}
	var out []string
	for _, s := range l {
		if !seen[s] {
			seen[s] = true
			out = append(out, s)
		}
	}
	return out
}

func (b *tgtBuilder) endpoint() string {
	switch k := b.rng.Intn(100); {
	case k < 45:
		if len(b.groups) > 0 && b.rng.Chance(65) {
			return gpath(Pick(b.rng, b.groups))
		}
		if len(b.cfg.Groups) < 7 {
			return gpath(b.newGroup())
		}
		return gpath(Pick(b.rng, b.groups))
	case k < 52:
		return gpath(Pick(b.rng, extGroups))
	case k < 60:
		return "ANY"
	default:
		return Pick(b.rng, b.pool)
	}
}

func (b *tgtBuilder) service() string {
	switch k := b.rng.Intn(100); {
	case k < 60:
		ids := netspocSvcIds
		if b.raw {
			ids = rawSvcIds
		}
		id := Pick(b.rng, ids)
		found := false
		for _, s := range b.cfg.Services {
			if s.Id == id {
				found = true
			}
		}
		if !found {
			d := svcPool[id][0]
			if b.rng.Chance(45) {
				d = genDef(b.rng) // anywhere on the field grid
			}
			b.cfg.Services = append(b.cfg.Services, Service{id, d})
		}
		return spath(id)
	case k < 68:
		return spath(Pick(b.rng, extServices))
	default:
		return "ANY"
	}
}

func (b *tgtBuilder) rule(seqBase int) Rule {
	b.nrule++
	r := Rule{Direction: "OUT", Action: "ALLOW", Seq: 20, Scope: []string{scopes[0]}, IPProto: "IPV4"}
	if b.raw {
		r.Id = rawRuleIds[b.rng.Intn(len(rawRuleIds))]
	} else {
		r.Id = fmt.Sprintf("%s%d", b.rpfx, b.nrule)
	}
	if b.rpfx == "v6r" {
		r.IPProto = "IPV6"
	}
	if b.opt.noTies {
		r.Seq = seqBase + b.nrule
	} else {
		r.Seq = []int{10, 20, 20, 20, 30}[b.rng.Intn(5)]
	}
	if b.rng.Chance(25) {
		r.Direction = "IN"
	}
	if b.rng.Chance(25) {
		r.Action = Pick(b.rng, []string{"DROP", "REJECT"})
	}
	if b.rng.Chance(10) {
		r.Logged = true
	}
	if b.rng.Chance(8) {
		r.Tag = Pick(b.rng, []string{"testtag", "t2"})
	}
	if b.rng.Chance(5) {
		r.Disabled = true
	}
	if b.rng.Chance(5) {
		r.SrcExcl = true
	}
	if b.rng.Chance(5) {
		r.DstExcl = true
	}
	if b.rng.Chance(5) {
		r.Profiles = []string{"/infra/context-profiles/p1"}
	}
	if b.rng.Chance(6) {
		r.Scope = []string{scopes[1]}
	}
	if b.rng.Chance(4) {
		r.IPProto = "IPV4_IPV6"
	}
	if b.opt.spacedSE && b.rng.Chance(50) {
		r.SvcEntries = svcEntriesEx[1]
	} else if b.rng.Chance(3) {
		r.SvcEntries = svcEntriesEx[0]
	}
	r.Service = b.service()
	r.Src = b.endpoint()
	r.Dst = b.endpoint()
	return r
}

func uniqueRuleIds(rs []Rule) []Rule {
	seen := map[string]bool{}
	var out []Rule
	for _, r := range rs {
		if !seen[r.Id] {
			seen[r.Id] = true
			out = append(out, r)
		}
	}
	return out
}

// genFile builds one Netspoc file.
func genFile(rng *RNG, opt genOpt, kind string, pols []string) *Config {
	b := &tgtBuilder{rng: rng, opt: opt, cfg: &Config{}, pool: addrsV4, gpfx: "Netspoc-g", rpfx: "r"}
	switch kind {
	case "v6":
		b.pool, b.gpfx, b.rpfx = addrsV6, "Netspoc-v6g", "v6r"
	case "raw":
		b.raw = true
	}
	for pi, pid := range pols {
		n := rng.Intn(opt.maxRules + 1)
		if kind != "v4" {
			n = rng.Intn(4)
		}
		p := Policy{Id: pid}
		for i := 0; i < n; i++ {
			p.Rules = append(p.Rules, b.rule(100*pi))
		}
		if opt.ties && kind == "v4" && len(p.Rules) >= 2 && len(b.groups) >= 2 {
			// two rules equal up to groups that share the first address
			x := p.Rules[0]
			y := x
			b.nrule++
			y.Id = fmt.Sprintf("%s%d", b.rpfx, b.nrule)
			x.Src, y.Src = gpath(b.groups[0]), gpath(b.groups[len(b.groups)-1])
			p.Rules[0] = x
			p.Rules = append(p.Rules, y)
		}
		p.Rules = uniqueRuleIds(p.Rules)
		b.cfg.Policies = append(b.cfg.Policies, p)
	}
	// an unused group / service now and then (never referenced by a rule)
	if kind == "v4" && rng.Chance(10) && len(b.cfg.Groups) < 7 {
		b.newGroup()
	}
	return b.cfg
}

func genTarget(rng *RNG, opt genOpt) (v4, v6, raw *Config, expect string) {
	expect = "accept"
	np := 1 + rng.Intn(2)
	if rng.Chance(15) {
		np = 3
	}
	pols := append([]string(nil), policyIds[:np]...)
	v4 = genFile(rng, opt, "v4", pols)
	if rng.Chance(25) {
		v6 = genFile(rng, opt, "v6", pols[:1+rng.Intn(np)])
		if rng.Chance(50) {
			// the same service defined in both files (the planner skips the duplicate)
			for _, s := range v4.Services {
				if rng.Chance(50) {
					v6.Services = append(v6.Services, s)
					break
				}
			}
		}
	}
	if rng.Chance(35) || opt.idClash || opt.rawPolicy || opt.rawBad {
		rp := []string{pols[rng.Intn(np)]}
		if rng.Chance(20) {
			rp = append(rp, Pick(rng, []string{"Netspoc-rawpol", "Netspoc_extra", "NetspocX", "Netspoc"}))
		}
		if opt.rawPolicy {
			// no prefix at all, or the prefix somewhere else than at the start / in another case
			bad := Pick(rng, []string{"my-policy", extPolicies[0], "Customer-Netspoc-dmz", "xNetspoc-v1", "netspoc-v1"})
			rp = append(rp, bad)
			expect = "reject:Must only define policy where name has prefix 'Netspoc': " + bad
		}
		raw = genFile(rng, opt, "raw", rp)
		if opt.rawPolicy {
			// make sure the policy without prefix carries a rule
			last := &raw.Policies[len(raw.Policies)-1]
			if len(last.Rules) == 0 {
				last.Rules = []Rule{{Id: "raw9", Direction: "OUT", Action: "DROP", Seq: 5, Scope: []string{scopes[0]},
					IPProto: "IPV4", Service: "ANY", Src: "ANY", Dst: "10.9.9.9"}}
			}
		}
		if opt.rawBad {
			switch rng.Intn(4) {
			case 0:
				if len(raw.Policies[0].Rules) == 0 {
					raw.Policies[0].Rules = []Rule{{Direction: "OUT", Action: "DROP", Seq: 5, Scope: []string{scopes[0]},
						Service: "ANY", Src: "ANY", Dst: "ANY"}}
				}
				raw.Policies[0].Rules[0].Id = Pick(rng, []string{"r1", "r3-2-1", "r0x"})
				expect = "reject:Must not use rule name starting with 'r<NUM>': " + raw.Policies[0].Rules[0].Id
			case 1:
				raw.Groups = append(raw.Groups, Group{Id: Pick(rng, []string{"mygroup", "netspoc-x", "Netspo", "my-Netspoc-grp", "xNetspoc-web"}), ExprId: "id",
					RType: "IPAddressExpression", Addrs: []string{"10.1.1.10"}})
				expect = "reject:Must only define group where name has prefix 'Netspoc': " + raw.Groups[len(raw.Groups)-1].Id
			case 2:
				raw.Groups = append(raw.Groups, Group{Id: Pick(rng, []string{"Netspoc-g1", "Netspoc-g0-1"}), ExprId: "id",
					RType: "IPAddressExpression", Addrs: []string{"10.1.1.10"}})
				expect = "reject:Must not use group name starting with 'Netspoc-g<NUM>': " + raw.Groups[len(raw.Groups)-1].Id
			case 3:
				raw.Services = append(raw.Services, Service{Pick(rng, []string{"Netspoc-tcp_81", "Netspoc-ra", "raw", "x-Netspoc-raw-y", "aNetspoc-raw"}), l4("TCP", "81")})
				expect = "reject:Must only define service where name has prefix 'Netspoc-raw': " + raw.Services[len(raw.Services)-1].Id
			}
		}
	}
	if opt.undefGroup {
		// a rule naming a managed group the target does not define
		if len(v4.Policies[0].Rules) == 0 {
			v4.Policies[0].Rules = []Rule{{Id: "r99", Direction: "OUT", Action: "ALLOW", Seq: 20, Scope: []string{scopes[0]},
				IPProto: "IPV4", Service: "ANY", Src: "ANY", Dst: "ANY"}}
		}
		v4.Policies[0].Rules[0].Src = gpath("Netspoc-gone")
	}
	return
}

// ---------------------------------------------------------------- the manager state

type storeBuilder struct {
	rng *RNG
	D   *Config
}

func (sb *storeBuilder) hasGroup(id string) bool {
	for _, g := range sb.D.Groups {
		if g.Id == id {
			return true
		}
	}
	return false
}

func (sb *storeBuilder) hasService(id string) bool {
	for _, s := range sb.D.Services {
		if s.Id == id {
			return true
		}
	}
	return false
}

func (sb *storeBuilder) freeGroupId(base string) string {
	cands := []string{base + "-1", base + "-2", "Netspoc-g7", "Netspoc-g8", "Netspoc-g9", "Netspoc-g12", "Netspoc_old", "NetspocOld"}
	Shuffle(sb.rng, cands)
	for _, c := range cands {
		if !sb.hasGroup(c) {
			return c
		}
	}
	for i := 20; ; i++ {
		c := fmt.Sprintf("Netspoc-g%d", i)
		if !sb.hasGroup(c) {
			return c
		}
	}
}

func (sb *storeBuilder) repoint(from, to string, prob int) {
	for pi := range sb.D.Policies {
		for ri := range sb.D.Policies[pi].Rules {
			r := &sb.D.Policies[pi].Rules[ri]
			if r.Src == gpath(from) && sb.rng.Chance(prob) {
				r.Src = gpath(to)
			}
			if r.Dst == gpath(from) && sb.rng.Chance(prob) {
				r.Dst = gpath(to)
			}
		}
	}
}

func mutateAddrs(rng *RNG, addrs []string) []string {
	pool := addrsV4
	if len(addrs) > 0 && strings.Contains(addrs[0], ":") {
		pool = addrsV6
	}
	fresh := func(n int) []string {
		var out []string
		for _, a := range pickAddrs(rng, pool, len(pool)) {
			dup := false
			for _, b := range addrs {
				if a == b {
					dup = true
				}
			}
			if !dup && len(out) < n {
				out = append(out, a)
			}
		}
		return out
	}
	a := append([]string(nil), addrs...)
	Shuffle(rng, a)
	switch rng.Intn(7) {
	case 0: // device has fewer: addresses will be added
		if len(a) > 1 {
			a = a[:1+rng.Intn(len(a)-1)]
		}
	case 1: // device has a few more: removed one by one
		a = append(a, fresh(1+rng.Intn(2))...)
	case 2: // device has many more: PATCH of the whole list
		a = append(a, fresh(4+rng.Intn(4))...)
	case 3: // disjoint, same size or smaller: remove all, add all
		a = fresh(len(a))
	case 4: // disjoint and larger
		a = fresh(len(a) + 2 + rng.Intn(3))
	case 5: // overlapping replacement
		if len(a) > 1 {
			a = append(a[:len(a)/2], fresh(1+rng.Intn(2))...)
		} else {
			a = fresh(1)
		}
	case 6: // one address replaced
		a = append(a[:len(a)-1], fresh(1)...)
	}
	if len(a) == 0 {
		a = fresh(1)
	}
	Shuffle(rng, a)
	return a
}

// deriveStore turns a copy of the merged target into a manager state.
func deriveStore(rng *RNG, T *Config, opt genOpt) *Config {
	sb := &storeBuilder{rng: rng, D: cloneConfig(T)}
	D := sb.D
	// how far the device is from the target
	level := []int{0, 0, 10, 25, 25, 50, 80, 100}[rng.Intn(8)]
	if rng.Chance(4) {
		D.Policies, D.Groups, D.Services = nil, nil, nil // empty manager
	}
	// de-duplicate what the merged files repeat: a manager holds one object per id
	D.Groups = uniqGroups(D.Groups)
	D.Services = uniqServices(D.Services)
	var keepP []Policy
	for _, p := range D.Policies {
		if strings.HasPrefix(p.Id, "Netspoc") {
			p.Rules = uniqueRuleIds(p.Rules)
			keepP = append(keepP, p)
		}
	}
	D.Policies = keepP

	// groups
	n0 := len(D.Groups)
	for gi := 0; gi < n0; gi++ {
		if !rng.Chance(level) {
			continue
		}
		g := &D.Groups[gi]
		switch k := rng.Intn(100); {
		case k < 40:
			g.Addrs = mutateAddrs(rng, g.Addrs)
		case k < 60: // renamed
			nid := sb.freeGroupId(g.Id)
			sb.repoint(g.Id, nid, 100)
			g.Id = nid
		case k < 70: // renamed and edited
			nid := sb.freeGroupId(g.Id)
			sb.repoint(g.Id, nid, 100)
			g.Id = nid
			g.Addrs = mutateAddrs(rng, g.Addrs)
		case k < 82: // duplicated: some rules use the copy
			nid := sb.freeGroupId(g.Id)
			sb.repoint(g.Id, nid, 50)
			D.Groups = append(D.Groups, Group{nid, g.ExprId, g.RType, append([]string(nil), g.Addrs...)})
		case k < 92: // shared: the device uses another group in its place
			if n0 > 1 {
				other := D.Groups[(gi+1+rng.Intn(n0-1))%n0].Id
				sb.repoint(g.Id, other, 100)
			}
		default: // expression id chosen by somebody else
			g.ExprId = Pick(rng, []string{"e1", "expr"})
		}
	}
	// a device group may carry an expression id other than Netspoc's constant "id" (created or repaired by hand),
	// whatever else happened to it
	for gi := range D.Groups {
		if strings.HasPrefix(D.Groups[gi].Id, "Netspoc") && rng.Chance(20) {
			D.Groups[gi].ExprId = Pick(rng, []string{"e1", "expr", "0815"})
			if rng.Chance(40) { // … and many more addresses than the target: PATCH of the whole expression
				for _, a := range pickAddrs(rng, addrsV4, 6) {
					D.Groups[gi].Addrs = append(D.Groups[gi].Addrs, a)
				}
				D.Groups[gi].Addrs = dedup(D.Groups[gi].Addrs)
			}
		}
	}
	// rules
	for pi := range D.Policies {
		p := &D.Policies[pi]
		var rs []Rule
		for _, r := range p.Rules {
			r.Rev = rng.Intn(4)
			r.SvcEntries = compactStr(r.SvcEntries) // a manager stores (and LoadDevice re-marshals) compact JSON
			if opt.noTies {
				// more than 12 rules: slices.SortFunc is no longer a stable insertion sort; keep sort keys distinct
				if rng.Chance(level / 2) {
					r.Action = Pick(rng, []string{"ALLOW", "DROP", "REJECT"})
				}
				if !rng.Chance(level / 4) {
					rs = append(rs, r)
				}
				continue
			}
			if !rng.Chance(level) {
				rs = append(rs, r)
				continue
			}
			switch k := rng.Intn(100); {
			case k < 20: // dropped
			case k < 28:
				r.Action = Pick(rng, []string{"ALLOW", "DROP", "REJECT"})
				rs = append(rs, r)
			case k < 34:
				r.Seq = Pick(rng, []int{10, 20, 30, 40})
				rs = append(rs, r)
			case k < 44:
				r.Service = Pick(rng, []string{"ANY", spath("HTTP"), spath("Netspoc-tcp_80"), spath("Netspoc-udp_123")})
				rs = append(rs, r)
			case k < 56:
				if rng.Bool() {
					r.Src = Pick(rng, addrsV4)
				} else {
					r.Dst = Pick(rng, addrsV4)
				}
				rs = append(rs, r)
			case k < 80:
				// exactly one of the attributes rulesPair.Equal compares differs
				switch rng.Intn(12) {
				case 0:
					r.Direction = Pick(rng, []string{"IN", "OUT", "IN_OUT"})
				case 1:
					r.Logged = !r.Logged
				case 2:
					r.Tag = Pick(rng, []string{"", "testtag", "t2", "t3"})
				case 3:
					r.Disabled = !r.Disabled
				case 4:
					r.DstExcl = !r.DstExcl
				case 5:
					r.SrcExcl = !r.SrcExcl
				case 6:
					if r.SvcEntries == "" {
						r.SvcEntries = svcEntriesEx[0]
					} else {
						r.SvcEntries = Pick(rng, []string{"", `[{"resource_type":"L4PortSetServiceEntry","l4_protocol":"UDP","destination_ports":["53"]}]`})
					}
				case 7:
					r.IPProto = Pick(rng, []string{"IPV4", "IPV6", "IPV4_IPV6"})
				case 8:
					r.Profiles = Pick(rng, [][]string{nil, {"/infra/context-profiles/p1"}, {"/infra/context-profiles/p2"}})
				case 9:
					r.Scope = Pick(rng, [][]string{{scopes[0]}, {scopes[1]}, {scopes[0], scopes[1]}})
				case 10:
					r.Seq += 1
				case 11:
					r.Action = Pick(rng, []string{"ALLOW", "DROP", "REJECT"})
				}
				rs = append(rs, r)
			case k < 92: // renamed
				r.Id = Pick(rng, []string{r.Id + "-1", r.Id + "-2", "r7", "r8", "r9"})
				rs = append(rs, r)
			default: // duplicated under another id
				c := r
				c.Id = r.Id + "-1"
				rs = append(rs, r, c)
			}
		}
		if opt.idClash && rng.Chance(70) {
			// a device rule / group whose id makes the renamed target id collide
			for _, id := range []string{"deny", "x", "r1"} {
				rs = append(rs, Rule{Id: id, Direction: "IN", Action: "DROP", Seq: 77, Scope: []string{scopes[0]},
					IPProto: "IPV4", Service: "ANY", Src: "10.9.9.9", Dst: "ANY"})
			}
		}
		p.Rules = uniqueRuleIds(rs)
		if opt.maxRules <= 6 && len(p.Rules) > 12 {
			p.Rules = p.Rules[:12]
		}
		if rng.Chance(60) {
			Shuffle(rng, p.Rules)
		}
	}
	if opt.idClash {
		for _, id := range []string{"Netspoc-web", "Netspoc-x"} {
			if !sb.hasGroup(id) {
				D.Groups = append(D.Groups, Group{id, "id", "IPAddressExpression", pickAddrs(rng, addrsV4, 2)})
			}
		}
	}
	// policies dropped / left over
	if rng.Chance(level/2) && len(D.Policies) > 0 {
		i := rng.Intn(len(D.Policies))
		D.Policies = append(D.Policies[:i:i], D.Policies[i+1:]...)
	}
	if rng.Chance(level / 3) {
		D.Policies = append(D.Policies, Policy{Id: Pick(rng, []string{"Netspoc-old", "Netspoc-old", "Netspoc_old", "NetspocOld"}), Rules: []Rule{{Id: "r1", Direction: "OUT", Action: "DROP",
			Seq: 30, Scope: []string{scopes[0]}, IPProto: "IPV4", Service: "ANY", Src: "ANY", Dst: "ANY"}}})
	}
	// services
	for si := range D.Services {
		s := &D.Services[si]
		if rng.Chance(level/2) && len(svcPool[s.Id]) > 1 {
			s.Defn = svcPool[s.Id][1+rng.Intn(len(svcPool[s.Id])-1)]
		}
		if rng.Chance(level/2 + 10) {
			s.Defn = nearMiss(rng, s.Defn) // differs from the target's definition in exactly one field
		}
	}
	if rng.Chance(level/2) && len(D.Services) > 0 {
		i := rng.Intn(len(D.Services))
		id := D.Services[i].Id
		used := false
		for _, p := range D.Policies {
			for _, r := range p.Rules {
				if r.Service == spath(id) {
					used = true
				}
			}
		}
		if !used {
			D.Services = append(D.Services[:i:i], D.Services[i+1:]...)
		}
	}
	if rng.Chance(level / 2) {
		id := Pick(rng, netspocSvcIds)
		if !sb.hasService(id) {
			d := svcPool[id][rng.Intn(len(svcPool[id]))]
			if rng.Chance(50) {
				d = genDef(rng)
			}
			D.Services = append(D.Services, Service{id, d})
		}
	}
	// left-over groups: random content, or the content of a target group (reusable)
	for i := 0; i < 2; i++ {
		if rng.Chance(level/2 + 5) {
			addrs := pickAddrs(rng, addrsV4, 1+rng.Intn(3))
			if len(T.Groups) > 0 && rng.Chance(60) {
				addrs = append([]string(nil), T.Groups[rng.Intn(len(T.Groups))].Addrs...)
			}
			D.Groups = append(D.Groups, Group{sb.freeGroupId("Netspoc-g5"), "id", "IPAddressExpression", addrs})
		}
	}
	if opt.dupContent && len(T.Groups) > 0 {
		addrs := T.Groups[rng.Intn(len(T.Groups))].Addrs
		for i := 0; i < 2+rng.Intn(2); i++ {
			D.Groups = append(D.Groups, Group{sb.freeGroupId("Netspoc-g3"), "id", "IPAddressExpression", append([]string(nil), addrs...)})
		}
	}
	if opt.emptyGroup && len(D.Groups) > 0 {
		// prefer a group some device rule refers to (only those are looked at by sortRules)
		var used []int
		for gi, g := range D.Groups {
			for _, p := range D.Policies {
				for _, r := range p.Rules {
					if r.Src == gpath(g.Id) || r.Dst == gpath(g.Id) {
						used = append(used, gi)
					}
				}
			}
		}
		if len(used) > 0 {
			D.Groups[used[rng.Intn(len(used))]].Addrs = nil
		} else {
			D.Groups[rng.Intn(len(D.Groups))].Addrs = nil
		}
	}
	// objects outside Netspoc's scope
	for _, id := range extGroups {
		D.Groups = append(D.Groups, Group{id, "x", "IPAddressExpression", pickAddrs(rng, addrsV4, 2)})
	}
	for _, id := range extServices {
		D.Services = append(D.Services, Service{id, l4("TCP", "8080")})
	}
	for _, id := range extPolicies {
		if rng.Chance(70) {
			p := Policy{Id: id}
			for i := 0; i < 1+rng.Intn(2); i++ {
				r := Rule{Id: fmt.Sprintf("m%d", i), Direction: "IN_OUT", Action: "ALLOW", Seq: 1 + i, Scope: []string{scopes[0]},
					Service: spath(Pick(rng, extServices)), Src: gpath(Pick(rng, extGroups)), Dst: Pick(rng, addrsV4)}
				if opt.unmRef && i == 0 {
					for _, g := range D.Groups {
						if strings.HasPrefix(g.Id, "Netspoc") {
							r.Src = gpath(g.Id)
							break
						}
					}
				}
				p.Rules = append(p.Rules, r)
			}
			D.Policies = append(D.Policies, p)
		}
	}
	// a policy outside Netspoc's scope that carries the id a raw file uses for a policy without the prefix
	for _, tp := range T.Policies {
		if !strings.HasPrefix(tp.Id, "Netspoc") && rng.Chance(70) {
			exists := false
			for _, p := range D.Policies {
				if p.Id == tp.Id {
					exists = true
				}
			}
			if !exists {
				D.Policies = append(D.Policies, Policy{Id: tp.Id, Rules: []Rule{{Id: "own1", Direction: "IN_OUT", Action: "ALLOW", Seq: 1,
					Scope: []string{scopes[0]}, Service: "ANY", Src: gpath(extGroups[0]), Dst: "10.2.1.10"}}})
			}
		}
	}
	// repair: one object per id, every reference of a device rule exists
	D.Groups = uniqGroups(D.Groups)
	D.Services = uniqServices(D.Services)
	for _, p := range D.Policies {
		for _, r := range p.Rules {
			for _, e := range []string{r.Src, r.Dst} {
				if id, ok := strings.CutPrefix(e, gpath("")); ok && !sb.hasGroup(id) {
					D.Groups = append(D.Groups, Group{id, "id", "IPAddressExpression", pickAddrs(rng, addrsV4, 1+rng.Intn(3))})
				}
			}
			if id, ok := strings.CutPrefix(r.Service, spath("")); ok && !sb.hasService(id) {
				d := l4("TCP", "81")
				if alts := svcPool[id]; alts != nil {
					d = alts[rng.Intn(len(alts))]
				}
				D.Services = append(D.Services, Service{id, d})
			}
		}
	}
	if rng.Chance(50) {
		Shuffle(rng, D.Groups)
	}
	if rng.Chance(30) {
		Shuffle(rng, D.Services)
	}
	if rng.Chance(30) {
		Shuffle(rng, D.Policies)
	}
	return D
}

func compactStr(s string) string {
	if s == "" {
		return s
	}
	var b bytes.Buffer
	if json.Compact(&b, []byte(s)) != nil {
		return s
	}
	return b.String()
}

func uniqGroups(gs []Group) []Group {
	seen := map[string]bool{}
	var out []Group
	for _, g := range gs {
		if !seen[g.Id] {
			seen[g.Id] = true
			out = append(out, g)
		}
	}
	return out
}

func uniqServices(ss []Service) []Service {
	seen := map[string]bool{}
	var out []Service
	for _, s := range ss {
		if !seen[s.Id] {
			seen[s.Id] = true
			out = append(out, s)
		}
	}
	return out
}

// genCase draws one case of the named stream.
func genCase(rng *RNG, stream string, thorough bool) *Case {
	// at most 12 rules per policy after merging the three files (6 + 3 + 3): up to 12 elements Go's
	// slices.SortFunc is a stable insertion sort, which is what the model implements; the streams
	// big (no ties) and bigties (oracle only) go beyond
	opt := genOpt{maxRules: 6}
	_ = thorough
	switch stream {
	case "big":
		opt.maxRules, opt.noTies = 20, true
	case "bigties":
		opt.maxRules = 20
	case "ties":
		opt.ties = true
	case "idclash":
		opt.idClash = true
	case "rawpolicy":
		opt.rawPolicy = true
	case "unmref":
		opt.unmRef = true
	case "spaced":
		opt.spacedSE = true
	case "dupcontent":
		opt.dupContent = true
	case "emptygroup":
		opt.emptyGroup = true
	case "undefgroup":
		opt.undefGroup = true
	case "rawbad":
		opt.rawBad = true
	}
	c := &Case{Stream: stream, Mode: "http"}
	c.V4, c.V6, c.Raw, c.Expect = genTarget(rng, opt)
	if stream == "dupcontent" && len(c.V4.Groups) >= 2 && rng.Chance(50) {
		// two TARGET groups with the same content (outside the hypothesis distinctContent of the idempotence theorem)
		i, j := rng.Intn(len(c.V4.Groups)), rng.Intn(len(c.V4.Groups))
		if i != j {
			c.V4.Groups[j].Addrs = append([]string(nil), c.V4.Groups[i].Addrs...)
		}
	}
	c.Store = deriveStore(rng, mergeTarget(c.V4, c.V6, c.Raw), opt)
	if stream == "idsuffix" {
		addIdSuffix(rng, c)
	}
	c.PageSize = []int{0, 0, 1, 2, 3, 50}[rng.Intn(6)]
	if rng.Chance(12) {
		c.Mode = "files"
	}
	return c
}

// addIdSuffix: the target (raw file) defines groups X, X-1, X-2 … and rules Y, Y-1, … in a random
// list order while the device holds objects named X and Y (sometimes X-1, Y-1 as well) with other
// content, so that the renamed ids X-i / Y-i chosen by genUniq*Names must avoid the other names of
// the target in BOTH list orders.  Every such group is used by exactly one new rule, so each one has
// to be created under its (possibly renamed) id.
func addIdSuffix(rng *RNG, c *Case) {
	pid := c.V4.Policies[0].Id
	if c.Raw == nil {
		c.Raw = &Config{}
	}
	var rp *Policy
	for i := range c.Raw.Policies {
		if c.Raw.Policies[i].Id == pid {
			rp = &c.Raw.Policies[i]
		}
	}
	if rp == nil {
		c.Raw.Policies = append(c.Raw.Policies, Policy{Id: pid})
		rp = &c.Raw.Policies[len(c.Raw.Policies)-1]
	}
	X := Pick(rng, []string{"Netspoc-dmz", "Netspoc-lan", "Netspoc-srv"})
	Y := Pick(rng, []string{"deny", "mgmt", "permit"})
	n := 2 + rng.Intn(2)
	gids := []string{X}
	rids := []string{Y}
	for i := 1; i < n; i++ {
		gids = append(gids, fmt.Sprintf("%s-%d", X, i))
		rids = append(rids, fmt.Sprintf("%s-%d", Y, i))
	}
	if rng.Chance(30) { // a gap: X, X-2
		gids[len(gids)-1] = fmt.Sprintf("%s-%d", X, n)
	}
	// list order: ascending, descending or shuffled
	switch rng.Intn(3) {
	case 1:
		for i, j := 0, len(gids)-1; i < j; i, j = i+1, j-1 {
			gids[i], gids[j] = gids[j], gids[i]
		}
	case 2:
		Shuffle(rng, gids)
	}
	switch rng.Intn(3) {
	case 1:
		for i, j := 0, len(rids)-1; i < j; i, j = i+1, j-1 {
			rids[i], rids[j] = rids[j], rids[i]
		}
	case 2:
		Shuffle(rng, rids)
	}
	pool := pickAddrs(rng, addrsV4, len(addrsV4))
	for i, gid := range gids {
		c.Raw.Groups = append(c.Raw.Groups, Group{Id: gid, ExprId: "id", RType: "IPAddressExpression",
			Addrs: []string{pool[2*i], pool[2*i+1]}})
	}
	for i, rid := range rids {
		rp.Rules = append(rp.Rules, Rule{Id: rid, Direction: "IN", Action: "DROP", Seq: 50 + i, Scope: []string{scopes[0]},
			IPProto: "IPV4", Service: "ANY", Src: gpath(gids[i%len(gids)]), Dst: "ANY"})
	}
	rp.Rules = uniqueRuleIds(rp.Rules)
	// the device: objects with the base names (and sometimes the first suffixed ones), other content
	devG := []string{X}
	devR := []string{Y}
	if rng.Chance(35) {
		devG = append(devG, X+"-1")
	}
	if rng.Chance(35) {
		devR = append(devR, Y+"-1")
	}
	var dp *Policy
	for i := range c.Store.Policies {
		if c.Store.Policies[i].Id == pid {
			dp = &c.Store.Policies[i]
		}
	}
	has := func(id string) bool {
		for _, g := range c.Store.Groups {
			if g.Id == id {
				return true
			}
		}
		return false
	}
	for i, gid := range devG {
		if !has(gid) {
			c.Store.Groups = append(c.Store.Groups, Group{gid, "id", "IPAddressExpression", []string{pool[10+i]}})
		}
	}
	if dp != nil {
		for i, rid := range devR {
			dup := false
			for _, r := range dp.Rules {
				if r.Id == rid {
					dup = true
				}
			}
			if !dup && len(dp.Rules) < 12 {
				dp.Rules = append(dp.Rules, Rule{Id: rid, Direction: "OUT", Action: "REJECT", Seq: 90 + i, Scope: []string{scopes[0]},
					IPProto: "IPV4", Service: "ANY", Src: gpath(devG[i%len(devG)]), Dst: "10.9.9.9", Rev: 1})
			}
		}
	}
}
