package main

// Service entries as a STRUCTURE (what the NSX-T policy API defines), the harness' own canonical
// form of it, and a generator over the full field grid the parser of nsx/parse.go accepts.
//
// Two services are the same BY DEFINITION iff their canonical forms are equal.  The canonical form
// is computed here from the structure (generator) or from a JSON document by generic decoding
// (call bodies, manager answers): per entry the fields that the entry's resource type has, a field
// that is absent or null left out, keys sorted.  It never goes through nsxServiceEntry.MarshalJSON.
//   L4PortSetServiceEntry : id, l4_protocol, source_ports (absent | list), destination_ports (absent | list)
//   ICMPTypeServiceEntry  : id, protocol (ICMPv4 | ICMPv6), icmp_type (absent | n), icmp_code (absent | n)
//   IPProtocolServiceEntry: id, protocol_number
// An absent list and an empty list are different canonical forms (the tool tells them apart as well:
// null versus []); ASSUMPTION as for all objects: the manager returns a definition as it was sent.

import (
	"bytes"
	"encoding/json"
	"fmt"
	"sort"
	"strconv"
	"strings"

	. "verifharness/vhlib"
)

type svcEntry struct {
	Id       string
	RType    string // L4PortSetServiceEntry | ICMPTypeServiceEntry | IPProtocolServiceEntry
	L4Proto  string
	Src, Dst *[]string // nil: field absent
	ICMP     string
	Type     *int // nil: field absent
	Code     *int
	ProtoNum int
}

var relevantKeys = map[string][]string{
	"L4PortSetServiceEntry":  {"id", "resource_type", "l4_protocol", "source_ports", "destination_ports"},
	"ICMPTypeServiceEntry":   {"id", "resource_type", "protocol", "icmp_type", "icmp_code"},
	"IPProtocolServiceEntry": {"id", "resource_type", "protocol_number"},
}

func (e svcEntry) fields() map[string]any {
	m := map[string]any{"id": e.Id, "resource_type": e.RType}
	switch e.RType {
	case "L4PortSetServiceEntry":
		m["l4_protocol"] = e.L4Proto
		if e.Src != nil {
			m["source_ports"] = append([]string{}, (*e.Src)...)
		}
		if e.Dst != nil {
			m["destination_ports"] = append([]string{}, (*e.Dst)...)
		}
	case "ICMPTypeServiceEntry":
		m["protocol"] = e.ICMP
		if e.Type != nil {
			m["icmp_type"] = *e.Type
		}
		if e.Code != nil {
			m["icmp_code"] = *e.Code
		}
	case "IPProtocolServiceEntry":
		m["protocol_number"] = e.ProtoNum
	}
	return m
}

// canonOf: canonical form of a list of entries given as a structure.
func canonOf(l []svcEntry) string {
	ms := make([]map[string]any, len(l))
	for i, e := range l {
		ms[i] = e.fields()
	}
	b, _ := json.Marshal(ms) // maps: keys sorted
	return string(b)
}

// canonEntries: canonical form of a service_entries array given as JSON (generic decoding).
func canonEntries(raw []byte) (string, error) {
	var l []map[string]any
	dec := json.NewDecoder(bytes.NewReader(raw))
	dec.UseNumber()
	if err := dec.Decode(&l); err != nil {
		return "", err
	}
	for i, e := range l {
		rt, _ := e["resource_type"].(string)
		keep, known := relevantKeys[rt]
		if !known {
			return "", fmt.Errorf("service entry with resource_type %q", rt)
		}
		m := map[string]any{}
		for _, k := range keep {
			if v, ok := e[k]; ok && v != nil {
				m[k] = v
			}
		}
		l[i] = m
	}
	b, err := json.Marshal(l)
	return string(b), err
}

// entriesOf: the structure of a canonical form (inverse of canonOf).
func entriesOf(canon string) []svcEntry {
	var l []map[string]any
	dec := json.NewDecoder(bytes.NewReader([]byte(canon)))
	dec.UseNumber()
	if dec.Decode(&l) != nil {
		return nil
	}
	num := func(v any) *int {
		if n, ok := v.(json.Number); ok {
			i, _ := n.Int64()
			x := int(i)
			return &x
		}
		return nil
	}
	list := func(v any) *[]string {
		a, ok := v.([]any)
		if !ok {
			return nil
		}
		out := []string{}
		for _, x := range a {
			s, _ := x.(string)
			out = append(out, s)
		}
		return &out
	}
	str := func(v any) string { s, _ := v.(string); return s }
	var out []svcEntry
	for _, m := range l {
		e := svcEntry{Id: str(m["id"]), RType: str(m["resource_type"]), L4Proto: str(m["l4_protocol"]), ICMP: str(m["protocol"]),
			Src: list(m["source_ports"]), Dst: list(m["destination_ports"]), Type: num(m["icmp_type"]), Code: num(m["icmp_code"])}
		if p := num(m["protocol_number"]); p != nil {
			e.ProtoNum = *p
		}
		out = append(out, e)
	}
	return out
}

func optList(rng *RNG, pool []string) *[]string {
	switch rng.Intn(4) {
	case 0:
		return nil // absent
	case 1:
		return &[]string{} // empty
	case 2:
		return &[]string{Pick(rng, pool)}
	}
	l := []string{Pick(rng, pool), Pick(rng, pool)}
	if l[0] == l[1] {
		l = l[:1]
	}
	return &l
}

func optInt(rng *RNG, vals []int) *int {
	if rng.Chance(40) {
		return nil
	}
	v := vals[rng.Intn(len(vals))]
	return &v
}

var (
	portPool  = []string{"22", "80", "443", "1024-65535", "53", "8080-8090"}
	icmpTypes = []int{0, 3, 8, 11, 128}
	icmpCodes = []int{0, 1, 3, 13}
	protoNums = []int{47, 50, 51, 89, 0}
)

func genEntry(rng *RNG, id string) svcEntry {
	switch rng.Intn(3) {
	case 0:
		return svcEntry{Id: id, RType: "L4PortSetServiceEntry", L4Proto: Pick(rng, []string{"TCP", "UDP"}),
			Src: optList(rng, portPool), Dst: optList(rng, portPool)}
	case 1:
		return svcEntry{Id: id, RType: "ICMPTypeServiceEntry", ICMP: Pick(rng, []string{"ICMPv4", "ICMPv6"}),
			Type: optInt(rng, icmpTypes), Code: optInt(rng, icmpCodes)}
	}
	return svcEntry{Id: id, RType: "IPProtocolServiceEntry", ProtoNum: protoNums[rng.Intn(len(protoNums))]}
}

// genDef: one to three entries anywhere on the grid.
func genDef(rng *RNG) string {
	n := 1
	if rng.Chance(30) {
		n = 2 + rng.Intn(2)
	}
	var l []svcEntry
	for i := 0; i < n; i++ {
		id := "id"
		if n > 1 {
			id = string(rune('a' + i))
		}
		l = append(l, genEntry(rng, id))
	}
	return canonOf(l)
}

func flipList(rng *RNG, p *[]string) *[]string {
	switch {
	case p == nil:
		if rng.Bool() {
			return &[]string{}
		}
		return &[]string{Pick(rng, portPool)}
	case len(*p) == 0:
		if rng.Bool() {
			return nil
		}
		return &[]string{Pick(rng, portPool)}
	}
	switch rng.Intn(4) {
	case 0:
		return nil
	case 1:
		return &[]string{}
	case 2: // one more port
		l := append(append([]string{}, (*p)...), Pick(rng, portPool))
		return &l
	}
	l := append([]string{}, (*p)...)
	for _, c := range portPool {
		if c != l[0] {
			l[0] = c
			break
		}
	}
	return &l
}

func flipInt(rng *RNG, p *int, vals []int) *int {
	if p == nil {
		v := vals[rng.Intn(len(vals))]
		return &v
	}
	if rng.Chance(50) {
		return nil
	}
	for _, c := range vals {
		if c != *p {
			v := c
			return &v
		}
	}
	return nil
}

// nearMiss: a definition that differs from the given one in exactly ONE field of one entry
// (or in the number / order of entries); never equal to the given one.
func nearMiss(rng *RNG, canon string) string {
	l := entriesOf(canon)
	if len(l) == 0 {
		return genDef(rng)
	}
	for try := 0; try < 20; try++ {
		m := append([]svcEntry{}, l...)
		i := rng.Intn(len(m))
		e := m[i]
		switch k := rng.Intn(10); {
		case k == 0 && len(m) > 1: // one entry less
			m = append(m[:i:i], m[i+1:]...)
		case k == 1 && len(m) < 3: // one entry more
			m = append(m, genEntry(rng, "z"))
		case k == 2 && len(m) > 1: // order of entries
			j := (i + 1) % len(m)
			m[i], m[j] = m[j], m[i]
		default:
			switch e.RType {
			case "L4PortSetServiceEntry":
				switch rng.Intn(3) {
				case 0:
					e.L4Proto = map[string]string{"TCP": "UDP", "UDP": "TCP"}[e.L4Proto]
				case 1:
					e.Src = flipList(rng, e.Src)
				default:
					e.Dst = flipList(rng, e.Dst)
				}
			case "ICMPTypeServiceEntry":
				switch rng.Intn(3) {
				case 0:
					e.ICMP = map[string]string{"ICMPv4": "ICMPv6", "ICMPv6": "ICMPv4"}[e.ICMP]
				case 1:
					e.Type = flipInt(rng, e.Type, icmpTypes)
				default:
					e.Code = flipInt(rng, e.Code, icmpCodes)
				}
			case "IPProtocolServiceEntry":
				for _, c := range protoNums {
					if c != e.ProtoNum && rng.Chance(50) {
						e.ProtoNum = c
						break
					}
				}
			}
			m[i] = e
		}
		if c := canonOf(m); c != canon {
			return c
		}
	}
	return genDef(rng)
}

// svcGridCases: the corners that matter most, as fixed pairs (device definition, target definition).
func svcGridPairs() [][2]string {
	i := func(n int) *int { return &n }
	icmp := func(p string, t, c *int) string {
		return canonOf([]svcEntry{{Id: "id", RType: "ICMPTypeServiceEntry", ICMP: p, Type: t, Code: c}})
	}
	l4e := func(p string, s, d *[]string) string {
		return canonOf([]svcEntry{{Id: "id", RType: "L4PortSetServiceEntry", L4Proto: p, Src: s, Dst: d}})
	}
	ls := func(x ...string) *[]string { l := append([]string{}, x...); return &l }
	var out [][2]string
	ic := []string{icmp("ICMPv4", nil, nil), icmp("ICMPv4", i(8), nil), icmp("ICMPv4", nil, i(3)), icmp("ICMPv4", i(8), i(3)),
		icmp("ICMPv4", i(8), i(0)), icmp("ICMPv4", i(0), nil), icmp("ICMPv6", nil, i(3)), icmp("ICMPv6", nil, nil)}
	for _, a := range ic {
		for _, b := range ic {
			out = append(out, [2]string{a, b})
		}
	}
	l4s := []string{l4e("TCP", nil, nil), l4e("TCP", ls(), ls()), l4e("TCP", nil, ls("80")), l4e("TCP", ls(), ls("80")),
		l4e("TCP", ls("1024-65535"), ls("80")), l4e("UDP", nil, ls("80")), l4e("TCP", ls("80"), nil)}
	for _, a := range l4s {
		for _, b := range l4s {
			out = append(out, [2]string{a, b})
		}
	}
	sort.SliceStable(out, func(a, b int) bool { return false })
	return out
}

// encEntries: wire form of a list of entries for the driver op `svc`.
func encEntries(l []svcEntry) string {
	optL := func(p *[]string) string {
		if p == nil {
			return "-"
		}
		return "=" + strings.Join(*p, ",")
	}
	optI := func(p *int) string {
		if p == nil {
			return "-"
		}
		return "=" + strconv.Itoa(*p)
	}
	kind := map[string]string{"L4PortSetServiceEntry": "l4", "ICMPTypeServiceEntry": "icmp", "IPProtocolServiceEntry": "ipproto"}
	var out []string
	for _, e := range l {
		out = append(out, strings.Join([]string{e.Id, kind[e.RType], e.L4Proto, optL(e.Src), optL(e.Dst), e.ICMP, optI(e.Type), optI(e.Code),
			strconv.Itoa(e.ProtoNum)}, sUS))
	}
	return strings.Join(out, sGS)
}
