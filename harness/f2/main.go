package main

// Harness for the IOS diff ENGINE on fragment F2 (interfaces with ip access-group in/out, address, shutdown,
// VRF, ip inspect; ip access-list extended with entry lines incl. remarks; ip route [vrf V]; unknown lines).
//   correspondence: the Lean model NA/Model/IosEngine.lean (driver nadrv-c02) must print exactly the change
//                   lines that the real drc.Main prints (compare-files mode, in-process) and the same messages
//                   on stderr (warnings, errors, infos), on every generated pair; the Myers scripts of every
//                   ACL pair are computed here with the real library on the same keys, passed in and validated
//                   by the driver; the Lean port of the strict device (NA/Spec/IosCfgDev.lean) must agree with
//                   dev.go on verdict and final state.
//   oracle:         the REAL script is executed command by command on the strict specification-side device
//                   (dev.go): C02 convergence / left-overs / second compare empty, C07 frame, C08 every command
//                   executable, C10 resume from every cut, C14 route destinations stay covered.
// Serves -prop C02, C07, C08, C10, C14.  dev.go is a copy of harness/ioscfg/dev.go (not edited there).

import (
	"fmt"
	"net"
	"net/netip"
	"os"
	"path/filepath"
	"regexp"
	"sort"
	"strings"

	"github.com/hknutzen/Netspoc-Approve/go/pkg/drc"
	"github.com/pkg/diff/myers"

	. "verifharness/vhlib"
)

func main() {
	Main(map[string]PropFunc{"C02": run, "C07": run, "C08": run, "C10": run, "C14": run})
}

type cfgCase struct {
	Dev  string   `json:"device"`
	Spoc string   `json:"netspoc"`
	Note []string `json:"mutations"`
	dev  *iosDev
	spoc *iosDev
}

var workDir string
var caseNo int

// runDrc runs `drc DEVICE SPOC` in-process (without -q: info messages are part of the comparison).
func runDrc(dev, spoc string) (stdout, stderr string, status int, pan string) {
	caseNo++
	d := filepath.Join(workDir, fmt.Sprintf("c%d", caseNo%64))
	os.RemoveAll(d)
	WriteFiles(d, map[string]string{"dev": dev, "spoc": spoc, "spoc.info": `{"model":"IOS"}`})
	old := os.Args
	os.Args = []string{"drc", filepath.Join(d, "dev"), filepath.Join(d, "spoc")}
	stdout, stderr, status, pan = Captured(drc.Main)
	os.Args = old
	return
}

// ---------------------------------------------------------------- structured form for the Lean driver

// the regular expression of diffIOSACLs (cisco/diff.go), copied verbatim
var stripLogRX = regexp.MustCompile(` log(?:-input)?`)

type keyPair struct{ a, b []string }

func (p *keyPair) LenA() int           { return len(p.a) }
func (p *keyPair) LenB() int           { return len(p.b) }
func (p *keyPair) Equal(i, j int) bool { return p.a[i] == p.b[j] }

func ranges(a, b []string) string {
	var out []string
	for _, r := range myers.Diff(nil, &keyPair{a, b}).Ranges {
		out = append(out, fmt.Sprintf("%d,%d,%d,%d", r.LowA, r.HighA, r.LowB, r.HighB))
	}
	return strings.Join(out, "/")
}

func b01(b bool) string {
	if b {
		return "1"
	}
	return "0"
}

func encIntfs(d *iosDev) string {
	var out []string
	for _, i := range d.Intfs {
		var bs []string
		in, o := "", ""
		if i.In != "" {
			in = i.In + " in"
		}
		if i.Out != "" {
			o = i.Out + " out"
		}
		for _, x := range map[bool][]string{false: {in, o}, true: {o, in}}[i.OutFirst] {
			if x != "" {
				bs = append(bs, x)
			}
		}
		// extractIntfInfo: "ip address X [secondary]" -> X; sorted, joined by ","
		addr := strings.TrimSuffix(i.Addr, " secondary")
		out = append(out, strings.Join([]string{i.Name, i.VRF, addr, b01(i.Shut), b01(i.Inspect), strings.Join(bs, "^")}, "~"))
	}
	return strings.Join(out, ";")
}

func actOf(body string) string {
	w, _, _ := strings.Cut(body, " ")
	switch w {
	case "permit":
		return "p"
	case "deny":
		return "d"
	}
	return "r"
}

func encAcls(d *iosDev) string {
	var out []string
	for _, a := range d.AOrder {
		parts := []string{a}
		for _, l := range d.bodies(a) {
			parts = append(parts, l+"~"+stripLogRX.ReplaceAllLiteralString(l, "")+"~"+l+"~"+actOf(l))
		}
		out = append(out, strings.Join(parts, "#"))
	}
	return strings.Join(out, ";")
}

// what dstOfRoute / byMoreSpecificRoute (cisco/diff.go) compute for `ip route [vrf V] IP MASK GW`
func encRoutes(d *iosDev) string {
	var out []string
	for _, r := range d.Routes {
		f := strings.Fields(r)
		vrf := ""
		if f[0] == "vrf" {
			vrf = f[1]
			f = f[2:]
		}
		var ipp netip.Prefix
		ip, err1 := netip.ParseAddr(f[0])
		mask, err2 := netip.ParseAddr(f[1])
		if err1 == nil && err2 == nil {
			size, _ := net.IPMask(mask.AsSlice()).Size()
			ipp = netip.PrefixFrom(ip, size)
		}
		b := 128 - byte(ipp.Bits())
		out = append(out, fmt.Sprintf("%s~%s~%s~%d", r, vrf, ipp.String(), b))
	}
	return strings.Join(out, ";")
}

func encode(a, b *iosDev) string {
	var sa []string
	for _, an := range a.AOrder {
		for _, bn := range b.AOrder {
			if len(a.ACLs[an]) > 0 {
				sa = append(sa, an+">"+bn+":"+ranges(a.bodies(an), b.bodies(bn)))
			}
		}
	}
	return strings.Join([]string{
		"ai=" + encIntfs(a), "aa=" + encAcls(a), "ar=" + encRoutes(a),
		"bi=" + encIntfs(b), "ba=" + encAcls(b), "br=" + encRoutes(b),
		"sa=" + strings.Join(sa, ";"),
	}, "\t")
}

func fields(ans string) map[string]string {
	m := map[string]string{}
	for _, f := range strings.Split(ans, "\t") {
		k, v, _ := strings.Cut(f, "=")
		m[k] = v
	}
	return m
}

// ---------------------------------------------------------------- generator

var srcs = []string{"any", "10.1.0.0 0.0.255.255", "10.1.2.0 0.0.0.255", "host 10.1.2.3", "10.2.0.0 0.0.255.255", "host 10.9.9.9"}
var remarks = []string{"remark n1", "remark web servers", "remark temporary", "remark end"}

func genBody(r *RNG) string {
	act := "permit"
	if r.Chance(35) {
		act = "deny"
	}
	proto := Pick(r, []string{"tcp", "tcp", "udp", "ip"})
	s := fmt.Sprintf("%s %s %s any", act, proto, Pick(r, srcs))
	if proto != "ip" && r.Chance(70) {
		s += fmt.Sprintf(" eq %d", Pick(r, []int{22, 53, 80, 443}))
	}
	if r.Chance(8) {
		s += Pick(r, []string{" log", " log", " log-input"})
	}
	return s
}

func stripLogAny(b string) string { return stripLogRX.ReplaceAllLiteralString(b, "") }

// dedup: no two lines with the same text modulo log (remarks included: the line planner model
// NA.Acl.planIOS is stated for pairwise different lines).
func dedup(ls []string) []string {
	seen := map[string]bool{}
	var out []string
	for _, l := range ls {
		if k := stripLogAny(l); !seen[k] {
			seen[k] = true
			out = append(out, l)
		}
	}
	return out
}

func genACL(r *RNG) []string {
	var ls []string
	for i, n := 0, 1+r.Intn(6); i < n; i++ {
		ls = append(ls, genBody(r))
	}
	if r.Chance(70) {
		ls = append(ls, "deny ip any any")
	}
	if r.Chance(15) {
		j := r.Intn(len(ls) + 1)
		ls = append(ls[:j:j], append([]string{Pick(r, remarks)}, ls[j:]...)...)
	}
	return dedup(ls)
}

var dsts = []string{"0.0.0.0 0.0.0.0", "10.8.0.0 255.255.0.0", "10.9.0.0 255.255.0.0", "10.9.1.0 255.255.255.0"}
var gws = []string{"10.1.1.254", "10.1.1.253", "10.2.2.254"}

func genTarget(r *RNG) *iosDev {
	b := newDev()
	kind := r.Intn(100)
	if kind < 2 {
		return b // empty Netspoc configuration
	}
	useVRF := r.Chance(25)
	if kind >= 7 { // kind 2..6: managed=routing_only, no interface definitions
		n := 1 + r.Intn(3)
		for i := 0; i < n; i++ {
			in := &iosIntf{Name: fmt.Sprintf("Ethernet%d", i), Addr: fmt.Sprintf("10.%d.%d.1 255.255.255.0", i+1, i+1)}
			if useVRF && i == n-1 && n > 1 {
				in.VRF = "V1"
			}
			if r.Chance(3) {
				in.Addr = "negotiated"
			}
			if r.Chance(3) {
				in.Inspect = true
			}
			if !r.Chance(8) {
				name := fmt.Sprintf("e%d_in", i)
				b.setBodies(name, genACL(r))
				in.In = name
			}
			if r.Chance(25) {
				if r.Chance(30) && len(b.AOrder) > 0 {
					in.Out = Pick(r, b.AOrder) // target shares an ACL
				} else {
					on := fmt.Sprintf("e%d_out", i)
					b.setBodies(on, genACL(r))
					in.Out = on
				}
			}
			in.OutFirst = r.Chance(10)
			b.Intfs = append(b.Intfs, in)
		}
	}
	if r.Chance(60) || len(b.Intfs) == 0 {
		for i, k := 0, 1+r.Intn(3); i < k; i++ {
			rt := Pick(r, dsts) + " " + Pick(r, gws)
			if useVRF && r.Chance(30) {
				rt = "vrf V1 " + rt
			}
			if !contains(b.Routes, rt) {
				b.Routes = append(b.Routes, rt)
			}
		}
	}
	return b
}

func (d *iosDev) renameACL(from, to string) {
	if _, ok := d.ACLs[to]; ok || from == to {
		return
	}
	d.ACLs[to] = d.ACLs[from]
	delete(d.ACLs, from)
	for i, a := range d.AOrder {
		if a == from {
			d.AOrder[i] = to
		}
	}
	for _, i := range d.Intfs {
		if i.In == from {
			i.In = to
		}
		if i.Out == from {
			i.Out = to
		}
	}
}

func (d *iosDev) dropIfUnbound(name string) {
	if name != "" && !d.aclBound(name) {
		delete(d.ACLs, name)
		d.AOrder = remove(d.AOrder, name)
	}
}

func baseName(n string) string { return strings.SplitN(n, "-DRC-", 2)[0] }

func genDevice(r *RNG, b *iosDev) (*iosDev, []string) {
	a := b.clone()
	var note []string
	say := func(s string) { note = append(note, s) }
	a.Unknown = []string{"hostname r1"}
	if r.Chance(30) {
		a.Unknown = append(a.Unknown, "snmp-server community x RO")
	}
	if len(a.Intfs) == 0 && r.Chance(80) {
		// the device of a routing_only / empty target has interfaces with ACLs nevertheless
		for i, n := 0, 1+r.Intn(2); i < n; i++ {
			in := &iosIntf{Name: fmt.Sprintf("Ethernet%d", i), Addr: fmt.Sprintf("10.%d.%d.1 255.255.255.0", i+1, i+1)}
			name := fmt.Sprintf("e%d_in%s", i, Pick(r, []string{"", "-DRC-0"}))
			a.setBodies(name, genACL(r))
			in.In = name
			a.Intfs = append(a.Intfs, in)
		}
		say("device-interfaces-without-netspoc-definitions")
	}
	if r.Chance(50) {
		for _, n := range append([]string{}, a.AOrder...) {
			a.renameACL(n, fmt.Sprintf("%s-DRC-%d", n, r.Intn(2)))
		}
		say("approved-before")
	}
	for i, nm := 0, r.Intn(6); i < nm; i++ {
		switch k := r.Intn(100); {
		case k < 45 && len(a.AOrder) > 0:
			name := Pick(r, a.AOrder)
			ls := a.bodies(name)
			switch r.Intn(10) {
			case 8, 9:
				// order inside runs of equal action changed: equivalent to the unchanged list (stresses
				// "unchanged only if equivalent", ios_F2_quiet and the second compare)
				ls = permuteBlocks(r, ls)
				say("acl-permute-inside-blocks")
			case 0:
				if len(ls) > 1 {
					i := r.Intn(len(ls))
					ls = append(ls[:i:i], ls[i+1:]...)
					say("acl-delete-line")
				}
			case 1:
				j := r.Intn(len(ls) + 1)
				ls = append(ls[:j:j], append([]string{genBody(r)}, ls[j:]...)...)
				say("acl-insert-line")
			case 2:
				if len(ls) > 1 {
					i := r.Intn(len(ls))
					l := ls[i]
					ls = append(ls[:i:i], ls[i+1:]...)
					j := r.Intn(len(ls) + 1)
					ls = append(ls[:j:j], append([]string{l}, ls[j:]...)...)
					say("acl-move-line")
				}
			case 3:
				if len(ls) > 0 {
					i := r.Intn(len(ls))
					if !strings.HasPrefix(ls[i], "remark ") {
						if stripLogAny(ls[i]) != ls[i] {
							ls[i] = stripLogAny(ls[i])
						} else {
							ls[i] += " log"
						}
						say("acl-toggle-log")
					}
				}
			case 4:
				if len(ls) > 1 {
					i := r.Intn(len(ls) - 1)
					ls[i], ls[i+1] = ls[i+1], ls[i]
					say("acl-swap")
				}
			case 5:
				j := r.Intn(len(ls) + 1)
				ls = append(ls[:j:j], append([]string{Pick(r, remarks)}, ls[j:]...)...)
				say("acl-insert-remark")
			case 6:
				for i, l := range ls {
					if strings.HasPrefix(l, "remark ") {
						ls = append(ls[:i:i], ls[i+1:]...)
						say("acl-delete-remark")
						break
					}
				}
			case 7:
				if r.Chance(40) {
					ls = []string{"permit icmp any any", genBody(r)}
					say("acl-replaced")
				} else if r.Chance(15) {
					ls = nil
					say("acl-emptied")
				}
			}
			a.setBodies(name, dedup(ls))
		case k < 53 && len(a.AOrder) > 0:
			name := Pick(r, a.AOrder)
			to := fmt.Sprintf("%s-DRC-%d", baseName(name), r.Intn(2))
			if r.Chance(25) {
				to = "old_" + baseName(name)
			}
			a.renameACL(name, to)
			say("rename-acl")
		case k < 59 && len(a.Intfs) > 0:
			in := Pick(r, a.Intfs)
			if in.In != "" {
				name := in.In
				in.In = ""
				a.dropIfUnbound(name)
				say("missing-in-binding")
			} else if in.Out != "" {
				name := in.Out
				in.Out = ""
				a.dropIfUnbound(name)
				say("missing-out-binding")
			}
		case k < 65 && len(a.Intfs) > 0:
			in := Pick(r, a.Intfs)
			if in.Out == "" {
				n := in.Name + "_xout"
				if _, ok := a.ACLs[n]; !ok {
					a.setBodies(n, []string{"permit ip any any"})
					in.Out = n
					say("extra-out-binding")
				}
			} else if in.In == "" {
				n := in.Name + "_xin-DRC-0"
				if _, ok := a.ACLs[n]; !ok {
					a.setBodies(n, []string{"permit ip any any"})
					in.In = n
					say("extra-in-binding")
				}
			}
		case k < 71 && len(a.Intfs) > 1:
			i0, i1 := a.Intfs[0], a.Intfs[1]
			if i0.In != "" && i1.In != "" && i0.In != i1.In {
				old := i1.In
				i1.In = i0.In
				a.dropIfUnbound(old)
				say("shared-acl-on-device")
			}
		case k < 74 && len(a.Intfs) > 0:
			in := Pick(r, a.Intfs)
			if in.In != "" && in.Out == "" {
				in.In, in.Out = "", in.In
				say("binding-direction-flipped")
			}
		case k < 76 && len(a.Intfs) > 0:
			in := Pick(r, a.Intfs)
			if in.Out == "" {
				in.Out = "ghost"
				say("binding-of-undefined-acl")
			}
		case k < 82:
			n := fmt.Sprintf("left-DRC-%d", r.Intn(3))
			if _, ok := a.ACLs[n]; !ok {
				a.setBodies(n, []string{"permit ip any any"})
				say("leftover-acl")
			}
		case k < 85 && len(a.Intfs) > 0:
			in := Pick(r, a.Intfs)
			switch r.Intn(3) {
			case 0:
				in.Addr = "10.250.0.1 255.255.255.0"
				say("address-differs")
			case 1:
				in.Shut = true
				say("shutdown-on-device")
			case 2:
				in.OutFirst = !in.OutFirst
			}
		default:
			if len(a.Routes) > 0 && r.Chance(60) {
				i := r.Intn(len(a.Routes))
				f := strings.Fields(a.Routes[i])
				f[len(f)-1] = Pick(r, []string{"10.1.1.254", "10.1.1.253", "10.2.2.254", "10.2.2.253"})
				nr := strings.Join(f, " ")
				if !contains(a.Routes, nr) {
					a.Routes[i] = nr
					say("route-change-gw")
				}
			} else if len(a.Routes) > 0 && r.Chance(60) {
				i := r.Intn(len(a.Routes))
				a.Routes = append(a.Routes[:i:i], a.Routes[i+1:]...)
				say("route-missing")
			} else {
				rt := Pick(r, []string{"10.7.0.0 255.255.0.0 10.1.1.254", "vrf V1 10.7.0.0 255.255.0.0 10.1.1.254", "10.7.7.0 255.255.255.0 10.1.1.254"})
				if !contains(a.Routes, rt) {
					a.Routes = append(a.Routes, rt)
					say("route-extra")
				}
			}
		}
	}
	// hand-made routes in a table that the target knows by an interface but specifies no routes for, to the very
	// destinations that the target routes in another table: they must stay (seeded change C07-W1 paired them across tables)
	if len(b.Routes) > 0 && r.Chance(40) {
		has, tables := map[string]bool{}, map[string]bool{}
		for _, rt := range b.Routes {
			has[routeVRF(rt)] = true
		}
		for _, i := range b.Intfs {
			tables[i.VRF] = true
		}
		for _, v := range []string{"", "V1"} {
			if !tables[v] || has[v] {
				continue
			}
			pre := ""
			if v != "" {
				pre = "vrf " + v + " "
			}
			for _, rt := range b.Routes {
				f := strings.Fields(rt)
				if len(f) > 1 && f[0] == "vrf" {
					f = f[2:]
				}
				if nr := pre + strings.Join(f[:len(f)-1], " ") + " 10.1.1.249"; !contains(a.Routes, nr) {
					a.Routes = append(a.Routes, nr)
				}
			}
			say("manual-routes-same-destination-in-known-table-without-target-routes")
		}
	}
	if r.Chance(25) {
		a.setBodies("MANUAL", []string{"permit ip host 9.9.9.9 any"})
		say("unmanaged-acl")
	}
	if r.Chance(30) {
		in := &iosIntf{Name: "Ethernet9", Addr: "10.99.0.1 255.255.255.0", VRF: "OTHER"}
		a.setBodies("other_in", []string{"permit ip any any"})
		in.In = "other_in"
		switch k := r.Intn(100); {
		case k < 35:
			// unmanaged interface uses an ACL that Netspoc generated earlier
			a.setBodies("older-DRC-0", []string{"permit tcp any any eq 22"})
			in.Out = "older-DRC-0"
		case k < 55 && len(a.AOrder) > 1:
			// ... or an ACL that a managed interface uses too
			in.Out = a.AOrder[0]
			say("unmanaged-vrf-shares-acl")
		}
		a.Intfs = append(a.Intfs, in)
		a.Routes = append(a.Routes, "vrf OTHER 10.66.0.0 255.255.0.0 10.99.0.254")
		say("unmanaged-vrf")
		if r.Chance(50) {
			// the unmanaged VRF routes the very destinations that the target routes elsewhere (seeded change C07-W1)
			for _, rt := range b.Routes {
				f := strings.Fields(rt)
				if len(f) > 1 && f[0] == "vrf" {
					f = f[2:]
				}
				if nr := "vrf OTHER " + strings.Join(f[:len(f)-1], " ") + " 10.99.0.253"; !contains(a.Routes, nr) {
					a.Routes = append(a.Routes, nr)
				}
			}
			say("unmanaged-vrf-same-destinations-as-target")
		}
	}
	if r.Chance(18) {
		in := &iosIntf{Name: "Loopback7", Addr: "10.77.0.1 255.255.255.255"}
		switch k := r.Intn(100); {
		case k < 35:
			a.setBodies("lo_in", []string{"permit ip any any"})
			in.In = "lo_in"
		case k < 55:
			a.setBodies("lo-DRC-0", []string{"permit ip any any"})
			in.In = "lo-DRC-0"
			say("unknown-interface-with-tagged-acl")
		case k < 70 && len(a.AOrder) > 0:
			in.In = a.AOrder[0]
			say("unknown-interface-shares-acl")
		}
		if r.Chance(20) {
			in.Shut = true
		}
		if r.Chance(15) {
			in.Addr = ""
		}
		if r.Chance(30) {
			a.Intfs = append([]*iosIntf{in}, a.Intfs...)
		} else {
			a.Intfs = append(a.Intfs, in)
		}
		say("unknown-interface-in-managed-vrf")
	}
	if len(b.Intfs) > 0 && r.Chance(6) {
		// drc must refuse
		in := a.Intfs[r.Intn(len(a.Intfs))]
		switch r.Intn(3) {
		case 0:
			in.Inspect = !in.Inspect
			say("inspect-differs")
		case 1:
			if in.VRF == "" {
				in.VRF = "V1"
			} else {
				in.VRF = ""
			}
			say("vrf-differs")
		case 2:
			name := in.Name
			var keep []*iosIntf
			for _, x := range a.Intfs {
				if x.Name != name {
					keep = append(keep, x)
				}
			}
			a.Intfs = keep
			a.dropIfUnbound(in.In)
			a.dropIfUnbound(in.Out)
			say("netspoc-interface-missing")
		}
	}
	if r.Chance(20) {
		Shuffle(r, a.AOrder)
	}
	if r.Chance(20) {
		Shuffle(r, a.Routes)
	}
	return a, note
}

// permuteBlocks shuffles every maximal run of lines of equal action (remark lines end a run).
func permuteBlocks(r *RNG, ls []string) []string {
	out := append([]string{}, ls...)
	for i := 0; i < len(out); {
		j := i + 1
		for j < len(out) && actOf(out[j]) == actOf(out[i]) && actOf(out[i]) != "r" {
			j++
		}
		if j-i > 1 {
			Shuffle(r, out[i:j])
		}
		i = j
	}
	return out
}

// splitJoined: the printed lines; a joined line stays one element.
func splitJoined(out string) []string {
	var l []string
	for _, line := range strings.Split(strings.TrimSuffix(out, "\n"), "\n") {
		if line != "" {
			l = append(l, line)
		}
	}
	return l
}

func routeDest(r string) string {
	f := strings.Fields(r)
	if len(f) >= 5 && f[0] == "vrf" {
		return f[1] + " " + f[2] + " " + f[3]
	}
	if len(f) >= 3 {
		return " " + f[0] + " " + f[1]
	}
	return r
}

// routeShapeGo checks the shape of NA.Route.routes_covered on the real route command lines: first additions and
// joined replacements to the same (VRF, destination), then removals of lines that are not target routes.
func routeShapeGo(lines []string, target []string) string {
	inB := false
	for _, l := range lines {
		switch {
		case strings.HasPrefix(l, "no ip route ") && strings.Contains(l, "\\N ip route "):
			h := strings.SplitN(l, "\\N ", 2)
			o, n := strings.TrimPrefix(h[0], "no ip route "), strings.TrimPrefix(h[1], "ip route ")
			if inB {
				return "replacement after a removal: " + l
			}
			if routeDest(o) != routeDest(n) {
				return "replacement changes the destination: " + l
			}
		case strings.HasPrefix(l, "ip route "):
			if inB {
				return "addition after a removal: " + l
			}
		case strings.HasPrefix(l, "no ip route "):
			inB = true
			if contains(target, strings.TrimPrefix(l, "no ip route ")) {
				return "removal of a target route: " + l
			}
		}
	}
	return ""
}

// managedDiff: where the managed part of `got` differs from the target's.
type mdiff struct {
	acls   []string // "intf:dir": bound on both sides, block-canonical contents differ
	names  []string // the access lists of `got` bound there
	other  []string // "intf:dir": bound on one side only
	routes bool     // the route lines of the VRFs with target routes differ
}

func (d mdiff) kind() string {
	switch {
	case len(d.acls) > 0 && len(d.other) == 0 && !d.routes:
		return "acl_only"
	case len(d.acls) == 0 && len(d.other) == 0 && d.routes:
		return "routes_only"
	case len(d.acls) == 0 && len(d.other) == 0:
		return "none"
	}
	return "mixed"
}

func managedDiff(got, want *iosDev, intfs []string, vrfs map[string]bool, withRoutes bool) mdiff {
	var d mdiff
	for _, n := range intfs {
		g, w := got.intf(n), want.intf(n)
		if g == nil || w == nil {
			d.other = append(d.other, n+":missing")
			continue
		}
		for _, dir := range []string{"in", "out"} {
			gn, wn := g.In, w.In
			if dir == "out" {
				gn, wn = g.Out, w.Out
			}
			switch {
			case (gn != "") != (wn != ""):
				d.other = append(d.other, n+":"+dir)
			case gn != "" && blockCanon(got.bodies(gn)) != blockCanon(want.bodies(wn)):
				d.acls = append(d.acls, n+":"+dir)
				d.names = append(d.names, gn)
			}
		}
	}
	if withRoutes {
		managedRoutes := func(x *iosDev) string {
			var rs []string
			for _, r := range x.Routes {
				if vrfs[routeVRF(r)] {
					rs = append(rs, r)
				}
			}
			sort.Strings(rs)
			return strings.Join(rs, "|")
		}
		d.routes = managedRoutes(got) != managedRoutes(want)
	}
	return d
}

// aclsTouched: the access lists a script edits, and whether it does nothing else.
func aclsTouched(out string) (names []string, onlyACL bool) {
	onlyACL = true
	seen := map[string]bool{}
	inACL := false
	for _, l := range splitJoined(out) {
		f := strings.Fields(l)
		switch {
		case strings.HasPrefix(l, "ip access-list resequence ") && len(f) > 3:
			inACL = false
			if !seen[f[3]] {
				seen[f[3]] = true
				names = append(names, f[3])
			}
		case strings.HasPrefix(l, "ip access-list extended ") && len(f) > 3:
			inACL = true
			if !seen[f[3]] {
				seen[f[3]] = true
				names = append(names, f[3])
			}
		case inACL && !strings.HasPrefix(l, "interface ") && !strings.HasPrefix(l, "ip route ") && !strings.HasPrefix(l, "no ip route ") &&
			!strings.HasPrefix(l, "no ip access-list ") && l != "exit":
			// an entry line of the access list
		default:
			onlyACL = false
			inACL = false
		}
	}
	return
}

func genCase(r *RNG) cfgCase {
	b := genTarget(r)
	a, note := genDevice(r, b)
	return cfgCase{Dev: a.print(), Spoc: b.print(), Note: note, dev: a, spoc: b}
}

// parseDev re-reads a printed configuration (replay files and second runs carry text only).
func parseDev(text string) *iosDev {
	d := newDev()
	var cur *iosIntf
	acl := ""
	for _, line := range strings.Split(text, "\n") {
		if line == "" {
			continue
		}
		if strings.HasPrefix(line, " ") {
			t := strings.TrimSpace(line)
			switch {
			case acl != "":
				d.ACLs[acl] = append(d.ACLs[acl], iosEntry{10 * (len(d.ACLs[acl]) + 1), t})
			case cur != nil && strings.HasPrefix(t, "ip address "):
				cur.Addr = strings.TrimPrefix(t, "ip address ")
			case cur != nil && strings.HasPrefix(t, "vrf forwarding "):
				cur.VRF = strings.TrimPrefix(t, "vrf forwarding ")
			case cur != nil && t == "shutdown":
				cur.Shut = true
			case cur != nil && strings.HasPrefix(t, "ip inspect"):
				cur.Inspect = true
			case cur != nil && agRE.MatchString(t):
				m := agRE.FindStringSubmatch(t)
				if m[3] == "in" {
					cur.In = m[2]
				} else {
					cur.Out = m[2]
					if cur.In == "" {
						cur.OutFirst = true
					}
				}
			}
			continue
		}
		cur, acl = nil, ""
		switch {
		case strings.HasPrefix(line, "interface "):
			cur = &iosIntf{Name: strings.TrimPrefix(line, "interface ")}
			d.Intfs = append(d.Intfs, cur)
		case strings.HasPrefix(line, "ip access-list extended "):
			acl = strings.TrimPrefix(line, "ip access-list extended ")
			d.ACLs[acl] = nil
			d.AOrder = append(d.AOrder, acl)
		case strings.HasPrefix(line, "ip route "):
			d.Routes = append(d.Routes, strings.TrimPrefix(line, "ip route "))
		default:
			d.Unknown = append(d.Unknown, line)
		}
	}
	return d
}

// unmanagedView: definitions that must stay exactly as they are.
func unmanagedView(d *iosDev, managedIntf map[string]bool, vrfs map[string]bool, acls map[string]bool) string {
	var sb strings.Builder
	sb.WriteString(strings.Join(d.Unknown, "\n") + "\n")
	for _, i := range d.Intfs {
		if !managedIntf[i.Name] {
			fmt.Fprintf(&sb, "interface %s vrf=%s addr=%s in=%s out=%s\n", i.Name, i.VRF, i.Addr, i.In, i.Out)
		} else {
			fmt.Fprintf(&sb, "interface %s vrf=%s addr=%s\n", i.Name, i.VRF, i.Addr)
		}
	}
	names := []string{}
	for n := range acls {
		names = append(names, n)
	}
	sort.Strings(names)
	for _, n := range names {
		_, ok := d.ACLs[n]
		fmt.Fprintf(&sb, "acl %s exists=%v\n %s\n", n, ok, strings.Join(d.bodies(n), "\n "))
	}
	var rs []string
	for _, r := range d.Routes {
		if !vrfs[routeVRF(r)] {
			rs = append(rs, r)
		}
	}
	sort.Strings(rs)
	sb.WriteString("routes " + strings.Join(rs, " | ") + "\n")
	return sb.String()
}

// rejectClass maps the strict device's refusal to a class (root cause), independent of names.
func rejectClass(msg string) string {
	for _, p := range [][2]string{
		{"still bound", "acl_still_bound"},
		{"does not exist", "object_missing"},
		{"already contains this entry", "duplicate_entry"},
		{"already used", "sequence_number_in_use"},
		{"no entry", "sequence_number_misses_entry"},
		{"entry to delete not in", "entry_missing"},
		{"outside its mode", "sub_command_outside_mode"},
		{"exit outside", "exit_outside_mode"},
		{"route exists", "route_exists"},
		{"not bound", "access_group_not_bound"},
	} {
		if strings.Contains(msg, p[0]) {
			return p[1]
		}
	}
	return "other"
}

// stderrLines: what drc wrote, without the final "comp: …" line.
func stderrLines(errOut string) []string {
	var out []string
	for _, l := range strings.Split(strings.TrimSuffix(errOut, "\n"), "\n") {
		if l == "" || strings.HasPrefix(l, "comp: ") {
			continue
		}
		out = append(out, l)
	}
	return out
}

func run(ctx *Ctx) *Result {
	res := NewResult()
	prop := ctx.Prop
	res.Rule = "pairs (IOS device config, Netspoc target) of fragment F2: 0-3 managed interfaces with in/out ACLs (shared sometimes, remark lines, log/log-input), " +
		"routes in the global table and VRF V1, routing_only and empty targets; device derived by generated names of an earlier approve and up to 5 mutations " +
		"(ACL line insert/delete/move/swap/log toggle/remarks, replaced or emptied ACL, renamed ACL, missing/extra/flipped binding, binding of an undefined ACL, " +
		"ACL shared by two interfaces, left-over -DRC- ACL, address/shutdown changes, route changes) plus unmanaged content (unknown lines, MANUAL ACL, interface and " +
		"routes in VRF OTHER possibly using a -DRC- ACL or a managed one, interface unknown to Netspoc in a managed VRF with own/tagged/shared ACL) and refused pairs " +
		"(ip inspect / VRF mismatch, missing interface); real drc.Main in-process; model script and messages compared line by line; real script executed on the " +
		"strict specification-side device. non-trivial = non-empty script; distinct by text of both configurations"
	res.Assumptions = []string{"IOS command semantics of the fragment is a written specification (harness/f2/dev.go = harness/ioscfg/dev.go + dump; Lean port NA/Spec/IosCfgDev.lean compared on every case)",
		"equivalence: per managed interface and direction the bound ACL up to order inside runs of equal action and modulo log; routes of the VRFs for which the target specifies routes as sets",
		"Myers scripts are computed by the harness with github.com/pkg/diff/myers on the keys the engine uses and validated by the driver",
		"parsing is not modelled: the generator emits normalised spellings (host, any, wildcard masks, numeric ports) and the structured form passed to the model is derived from the same data as the text",
		"no two lines of one ACL have the same text modulo log (remarks included)"}
	var err error
	workDir, err = os.MkdirTemp("", "vh-f2-")
	if err != nil {
		panic(err)
	}
	defer os.RemoveAll(workDir)
	drv := ctx.StartNadrv("c02")
	defer drv.Close()

	// correspond compares the model with drc on one pair.
	// verdict: "ok" (model and drc agree on a script), "disagree", "refused" (drc exits non-zero), "panic"
	correspond := func(stream string, c cfgCase, a, b *iosDev, devText, spocText string) (cmds []string, out string, verdict string, f map[string]string) {
		out, errOut, status, pan := runDrc(devText, spocText)
		if pan != "" {
			res.Fail(map[string]any{"pred": "drc_panic"}, "panic: "+pan, c)
			return nil, "", "panic", nil
		}
		f = fields(drv.Ask(encode(a, b)))
		res.TracesVsImpl++
		msgs := strings.Join(stderrLines(errOut), "|")
		if status != 0 {
			res.Count(stream + ":rejected-by-drc")
			if f["rej"] != "1" {
				res.Disagree(stream+": drc refuses, model does not", c, errOut, f["script"])
			} else if msgs != f["msgs"] {
				res.Disagree(stream+": messages of a refused pair (drc vs model)", c, msgs, f["msgs"])
			}
			countHits(res, f["hits"])
			return nil, "", "refused", f
		}
		if f["rej"] != "0" {
			res.Disagree(stream+": model refuses, drc does not", c, out, JSONStr(f))
			return splitScript(out), out, "disagree", f
		}
		if f["valid"] != "1" {
			res.Disagree(stream+": Myers script passed to the model is not a valid script", c, "", "valid="+f["valid"])
			return splitScript(out), out, "disagree", f
		}
		real := strings.Join(strings.Split(strings.TrimSuffix(out, "\n"), "\n"), "|")
		if real != f["script"] {
			res.Disagree(stream+": change script (drc vs model)", c, real, f["script"])
			return splitScript(out), out, "disagree", f
		}
		if msgs != f["msgs"] {
			res.Disagree(stream+": warnings and infos (drc vs model)", c, msgs, f["msgs"])
			return splitScript(out), out, "disagree", f
		}
		for _, m := range stderrLines(errOut) {
			k, _, _ := strings.Cut(m, " ")
			res.Count("msg:" + strings.TrimSuffix(k, ">>>"))
		}
		countHits(res, f["hits"])
		res.Count("end-to-end-theorem-applies(wfB):" + f["wf"])
		res.Count("wfB-first-failing-conjunct:" + f["wfwhy"])
		// ios_F2_quiet: a statically settled pair gives the empty script
		empty := strings.TrimSpace(out) == ""
		res.Count(fmt.Sprintf("%s:settledB=%s,script-empty=%v", stream, f["settled"], empty))
		if f["settled"] != "1" {
			res.Count(stream + ":settledB-first-failing-conjunct:" + f["settledwhy"])
		}
		if f["settled"] == "1" && !empty {
			res.Disagree(stream+": settledB holds but drc prints changes (contradicts ios_F2_quiet)", c, out, "settled=1")
		}
		// IdentityDiffer (hypothesis of ios_F2_idempotent_exact), on the real library: equal lists get the identity script
		if f["iddiffer"] == "0" {
			res.Disagree(stream+": the differ's script for two access lists that are equal line by line is not the identity (IdentityDiffer violated)", c, out, "iddiffer=0")
		}
		// ios_route_plan_phases: the route commands of the (identical) script have the shape of NA.Route.routes_covered
		if f["routecmds"] != "0" && f["routecmds"] != "" {
			res.Count(fmt.Sprintf("%s:route-commands:phaseA/phaseB(driver)=%s,keys=%s", stream, f["routeshape"], f["routekeys"]))
			if f["wf"] == "1" && f["routekeys"] == "1" && f["routeshape"] != "1" {
				res.Disagree(stream+": wfB holds but the route commands are not `adds/replacements, then removals of non-target routes` (contradicts ios_route_plan_phases)", c, out, "routeshape=0")
			}
			if why := routeShapeGo(splitJoined(out), b.Routes); why != "" {
				if f["wf"] == "1" {
					res.Disagree(stream+": wfB holds but the REAL route commands violate the shape: "+why+" (contradicts ios_route_plan_phases)", c, out, why)
				} else {
					res.Count(stream + ":route-shape-violated-outside-wfB")
				}
			}
		}
		if f["wf"] == "1" && !strings.HasPrefix(f["exec"], "ok") {
			// the theorem says: accepted; cross-check its conclusion on this very case
			res.Disagree(stream+": wfB holds but the Lean device rejects the model script (contradicts ios_F2_converges_partial)", c, "", f["exec"])
		}
		// Lean port of the strict device vs dev.go on the (identical) script
		cmds = splitScript(out)
		// both executors start from the configuration as drc read it (entries numbered 10, 20, …)
		start := a.clone()
		for _, n := range start.AOrder {
			start.setBodies(n, start.bodies(n))
		}
		ex := &executor{d: start}
		execGo := "ok"
		for i, cmd := range cmds {
			if err := ex.exec1(cmd); err != nil {
				execGo = fmt.Sprintf("rejected@%d", i)
				break
			}
		}
		// the Lean executor counts a joined line as one command
		idx := 0
		goAt := map[int]int{}
		for li, line := range strings.Split(strings.TrimSuffix(out, "\n"), "\n") {
			for range strings.Split(line, "\\N ") {
				goAt[idx] = li
				idx++
			}
		}
		execLean := f["exec"]
		if i := strings.Index(execLean, ":"); i >= 0 {
			execLean = execLean[:i]
		}
		if execGo != "ok" {
			var k int
			fmt.Sscanf(execGo, "rejected@%d", &k)
			execGo = fmt.Sprintf("rejected@%d", goAt[k])
		}
		if execGo != execLean {
			res.Disagree(stream+": strict executor verdict (dev.go vs Lean port)", c, execGo, f["exec"])
		} else if execGo == "ok" {
			if v := ex.d.dump(); v != f["final"] {
				res.Disagree(stream+": final state (dev.go vs Lean port)", c, v, f["final"])
			}
		}
		return cmds, out, "ok", f
	}

	runCase := func(c cfgCase) {
		if c.dev == nil {
			c.dev, c.spoc = parseDev(c.Dev), parseDev(c.Spoc)
		}
		canon := c.Dev + "--\n" + c.Spoc
		cmds, out, verdict, f := correspond("F2", c, c.dev, c.spoc, c.Dev, c.Spoc)
		for _, n := range c.Note {
			res.Count("mut:" + n)
		}
		if verdict == "refused" || verdict == "panic" {
			res.Eval(canon, false)
			return
		}
		res.Eval(canon, len(cmds) > 0)
		res.Count(fmt.Sprintf("cmds:%02d", min(len(cmds)/3*3, 30)))
		// a target that binds an access list it does not define is not a Netspoc output: correspondence only
		for _, i := range c.spoc.Intfs {
			for _, n := range []string{i.In, i.Out} {
				if _, ok := c.spoc.ACLs[n]; n != "" && !ok {
					res.Count("target-binds-undefined-acl(correspondence only)")
					return
				}
			}
		}
		managed := map[string]bool{}
		var intfs []string
		for _, i := range c.spoc.Intfs {
			managed[i.Name] = true
			intfs = append(intfs, i.Name)
		}
		// routes are managed only in VRFs for which the target specifies routes
		rvrfs := map[string]bool{}
		for _, r := range c.spoc.Routes {
			rvrfs[routeVRF(r)] = true
		}
		withRoutes := len(c.spoc.Routes) > 0
		wantView := c.spoc.managedView(intfs, rvrfs, withRoutes)
		// unmanaged ACLs: bound to interfaces the target does not define, or untagged and unbound
		uACL := map[string]bool{}
		sharedWithUnknown := false
		for _, i := range c.dev.Intfs {
			if !managed[i.Name] {
				for _, n := range []string{i.In, i.Out} {
					if n != "" {
						uACL[n] = true
					}
				}
			}
		}
		for _, i := range c.dev.Intfs {
			if managed[i.Name] && (uACL[i.In] || uACL[i.Out]) {
				sharedWithUnknown = true
			}
		}
		for _, n := range c.dev.AOrder {
			if !strings.Contains(n, "-DRC-") && !c.dev.aclBound(n) {
				uACL[n] = true
			}
		}
		frame0 := unmanagedView(c.dev, managed, rvrfs, uACL)
		// F-C02r, per object (docs/ORACLE_AUDIT.md item 18): `suppracls` = the device ACLs in which the line planner of THIS run
		// suppressed a move next to (or of) a remark line (ghost flag of the model per edited ACL); `notconv`/`routesconv` = what the
		// model of the unchanged engine predicts for THIS input (its own script on the Lean device). A failure carries
		//   suppressed_move_at_remark: the reported difference is confined to ACLs of `suppracls` (no binding, no route differs)
		//   model_predicts:            the difference is exactly the one the model predicts
		// and only then matches the known entry; everything else is a violation.
		sig := func(pred string) map[string]any {
			return map[string]any{"pred": pred, "backend": "ios", "level": "config"}
		}
		target := c.spoc
		fc02r := func(s map[string]any, got *iosDev, fs ...map[string]string) {
			d := managedDiff(got, target, intfs, rvrfs, withRoutes)
			suppr := map[string]bool{}
			for _, f := range fs {
				for _, n := range strings.Split(f["suppracls"], ",") {
					if n != "" {
						suppr[n] = true
					}
				}
			}
			confined := d.kind() == "acl_only"
			for _, n := range d.names {
				if !suppr[n] {
					confined = false
				}
			}
			last := fs[len(fs)-1]
			slots := append(append([]string{}, d.acls...), d.other...)
			sort.Strings(slots)
			pred := strings.Split(last["notconv"], ",")
			if last["notconv"] == "" {
				pred = nil
			}
			sort.Strings(pred)
			s["diff"] = d.kind()
			s["suppressed_move_at_remark"] = confined
			s["model_predicts"] = last["notconv"] != "?" && strings.Join(slots, ",") == strings.Join(pred, ",") && (last["routesconv"] == "1") == !d.routes
			res.Count(fmt.Sprintf("F-C02r-classifier:%v:diff=%s,confined=%v,model_predicts=%v", s["pred"], d.kind(), confined, s["model_predicts"]))
		}
		ex := &executor{d: c.dev.clone()}
		var states []*iosDev
		for i, cmd := range cmds {
			if err := ex.exec1(cmd); err != nil {
				if f["wf"] == "1" {
					res.Disagree("F2: wfB holds but dev.go rejects a command of the real script (contradicts ios_F2_converges_partial)", c, cmd, err.Error())
				}
				// under EVERY property: a refused command ends the judgement of this case, so it is a failure of its own
				// (docs/ORACLE_AUDIT.md item 25: no silent return)
				res.Count("real-script-command-refused-by-strict-device:" + rejectClass(err.Error()))
				s := sig("command_rejected_by_strict_device")
				s["reason"] = rejectClass(err.Error())
				// the model of the unchanged engine, executed on the Lean device, is refused as well (and its script is the real one)
				s["model_predicts"] = verdict == "ok" && strings.HasPrefix(f["exec"], "rejected")
				res.Fail(s, fmt.Sprintf("command %d %q: %v", i, cmd, err), c)
				return
			}
			states = append(states, ex.d.clone())
		}
		final := ex.d
		if len(res.Samples) < 3 && len(cmds) > 6 {
			res.Sample(map[string]any{"device": c.Dev, "netspoc": c.Spoc, "script": out, "mutations": c.Note})
		}
		if prop == "C02" {
			if len(cmds) == 0 {
				res.Count("unchanged-reported:wfB=" + f["wf"])
			} else if c.dev.managedView(intfs, rvrfs, withRoutes) == wantView {
				res.Count("changes-reported-for-equivalent-device(cosmetic)")
			}
			if len(cmds) == 0 && f["wf"] == "1" && c.dev.managedView(intfs, rvrfs, withRoutes) != wantView {
				res.Disagree("F2: wfB holds, empty script, but the device is not equivalent to the target (contradicts ios_F2_unchanged_only_if_equivalent)", c, c.dev.managedView(intfs, rvrfs, withRoutes), wantView)
			}
			if len(cmds) == 0 && c.dev.managedView(intfs, rvrfs, withRoutes) != wantView {
				s := sig("unchanged_reported_for_different_acl")
				fc02r(s, c.dev, f)
				res.Fail(s, "empty script although the device is not equivalent", c)
				return
			}
			if got := final.managedView(intfs, rvrfs, withRoutes); got != wantView {
				if f["wf"] == "1" {
					res.Disagree("F2: wfB holds but the executed result is not equivalent to the target (contradicts ios_F2_converges_partial)", c, got, wantView)
				}
				s := sig("acl_not_converged")
				fc02r(s, final, f)
				res.Fail(s, "after executing the script the managed part differs from the target:\n"+got+"-- want\n"+wantView, c)
				return
			}
			for _, n := range final.AOrder {
				if strings.Contains(n, "-DRC-") && !final.aclBound(n) {
					if f["wf"] == "1" {
						res.Disagree("F2: wfB holds but an unbound generated access-list remains (contradicts ios_no_generated_leftover)", c, n, "")
					}
					res.Fail(sig("leftover_generated_object"), "unbound generated access-list remains: "+n, c)
				}
			}
			_, out2, v2, f2 := correspond("F2 second compare", c, final, c.spoc, final.print(), c.Spoc)
			if v2 == "refused" || v2 == "panic" {
				res.Fail(sig("second_compare_failed"), "drc refuses the executed result", c)
			} else if strings.TrimSpace(out2) != "" {
				// the executed result is equivalent (remark lines aside), yet drc wants to change it again: known only if the second
				// script touches nothing but ACLs in which a move was suppressed at a remark line (first or second run) and is the
				// script the model predicts (v2 == "ok": model script == drc script)
				s := sig("second_compare_not_empty")
				touched, onlyACL := aclsTouched(out2)
				confined := onlyACL && len(touched) > 0
				for _, n := range touched {
					if !strings.Contains(","+f["suppracls"]+","+f2["suppracls"]+",", ","+n+",") {
						confined = false
					}
				}
				s["diff"] = map[bool]string{true: "acl_only", false: "other"}[onlyACL]
				s["suppressed_move_at_remark"] = confined
				s["model_predicts"] = v2 == "ok"
				res.Count(fmt.Sprintf("F-C02r-classifier:second_compare_not_empty:acl_only=%v,confined=%v,model_predicts=%v", onlyACL, confined, v2 == "ok"))
				res.Fail(s, "second compare reports changes:\n"+out2, c)
			}
			if f["wf"] == "1" {
				// ios_F2_idempotent_partial: first pair in the class of the end-to-end theorem; the second
				// compare is statically settled (then ios_F2_quiet says: empty) or not
				res.Count("second-compare-after-wfB-run:settledB=" + f2["settled"] + ":" + f2["settledwhy"])
				// ios_F2_idempotent_exact: the identity script on every compared pair ⇒ empty second script (no hypothesis on the planner)
				allEq := f2["eqpairs"] == f2["cmppairs"]
				allId := f2["idpairs"] == f2["cmppairs"]
				res.Count(fmt.Sprintf("second-compare-after-wfB-run:first-run-without-suppressed-move=%s,all-pairs-equal=%v,identity-scripts=%v", f["nosuppr"], allEq, allId))
				res.Count("ios_F2_idempotent_exact-class(wfB,noSupprB)=" + f["nosupprB"])
				if f["nosupprB"] == "1" && v2 == "ok" {
					// the theorem: every pair of the second compare is equal line by line, and with IdentityDiffer the second script is empty
					if !allEq {
						res.Disagree("F2: wfB run without suppressed move, but a pair of the second compare is not equal line by line (contradicts ios_F2_idempotent_exact)", c, final.print(), f2["eqpairs"]+"/"+f2["cmppairs"])
					} else if f2["iddiffer"] == "1" && strings.TrimSpace(out2) != "" {
						res.Disagree("F2: wfB run without suppressed move, identity differ, yet the second compare prints changes (contradicts ios_F2_idempotent_exact)", c, out2, "")
					}
				}
				if v2 == "ok" && allId && strings.TrimSpace(out2) != "" {
					res.Disagree("F2: wfB run, identity scripts on every pair of the second compare, yet drc prints changes (contradicts ios_F2_idempotent_exact)", c, out2, "")
				}
				// ios_F2_idempotent_partial: after a wfB run every conjunct of settledB except the one about the
				// line planner (which depends on the Myers scripts of the second compare) is a theorem
				if v2 == "ok" && f2["settled"] != "1" && f2["settledwhy"] != "line-planner-not-quiet" {
					res.Disagree("F2: wfB run, but the second compare is not statically settled: "+f2["settledwhy"]+" (contradicts ios_F2_idempotent_partial)", c, final.print(), f2["settledwhy"])
				}
			}
		}
		if prop == "C14" {
			dsts := func(d *iosDev) map[string]bool {
				m := map[string]bool{}
				for _, r := range d.Routes {
					f := strings.Fields(r)
					if len(f) >= 5 && f[0] == "vrf" {
						m[f[1]+" "+f[2]+" "+f[3]] = true
					} else if len(f) >= 3 {
						m[" "+f[0]+" "+f[1]] = true
					}
				}
				return m
			}
			before, after := dsts(c.dev), dsts(final)
			joinedFirst := map[int]bool{}
			idx := 0
			for _, line := range strings.Split(strings.TrimSuffix(out, "\n"), "\n") {
				if line == "" {
					continue
				}
				h := strings.Split(line, "\\N ")
				if len(h) == 2 {
					joinedFirst[idx] = true
				}
				idx += len(h)
			}
			for k, st := range states {
				if joinedFirst[k] {
					continue
				}
				now := dsts(st)
				for d := range before {
					if after[d] && !now[d] {
						if f["wf"] == "1" {
							res.Disagree("F2: wfB holds but a destination is uncovered after a command (contradicts ios_routes_covered_every_step)", c, d, fmt.Sprint(k))
						}
						res.Fail(sig("route_destination_uncovered_during_change"), fmt.Sprintf("after command %d destination %s has no route although it has one before and after", k, d), c)
					}
				}
			}
		}
		if prop == "C07" {
			if got := unmanagedView(final, managed, rvrfs, uACL); got != frame0 {
				s := sig("unmanaged_content_changed")
				s["acl_shared_by_managed_and_unknown_interface"] = sharedWithUnknown
				res.Fail(s, "unmanaged content differs after the script:\n"+got+"-- before\n"+frame0, c)
			}
		}
		if prop == "C10" {
			for k, st := range states[:max(len(states)-1, 0)] {
				res.Count("resume-cuts")
				cmds2, _, v2, f2 := correspond("F2 resume", c, st, c.spoc, st.print(), c.Spoc)
				if v2 == "panic" {
					continue
				}
				// ios_F2_resume_partial: hypothesis = the cut state is in the class wfB again (evaluated by the driver)
				wfCut := f2 != nil && f2["wf"] == "1"
				if f["wf"] == "1" {
					if f2 != nil && f2["rej"] == "0" {
						res.Count("resume-cut-after-wfB-start:wfB(cut)=" + f2["wf"] + ":" + f2["wfwhy"])
					} else {
						res.Count("resume-cut-after-wfB-start:refused")
					}
				}
				resumeTheorem := f["wf"] == "1" && wfCut
				if v2 == "refused" {
					if f["wf"] == "1" {
						res.Disagree("F2: wfB start, but drc refuses the cut state (contradicts ios_F2_resume_partial: checkIOSInterfaces succeeds again)", c, fmt.Sprint(k+1), "")
					}
					res.Fail(sig("resume_state_not_accepted"), fmt.Sprintf("cut after %d commands: drc rejects the intermediate device", k+1), c)
					continue
				}
				ex2 := &executor{d: st.clone()}
				bad := false
				for i, cmd := range cmds2 {
					if err := ex2.exec1(cmd); err != nil {
						if resumeTheorem {
							res.Disagree("F2: wfB at start and at the cut, but a command of the second script is rejected (contradicts ios_F2_resume_partial)", c, cmd, err.Error())
						}
						s := sig("resume_command_rejected")
						s["reason"] = rejectClass(err.Error())
						s["model_predicts"] = v2 == "ok" && strings.HasPrefix(f2["exec"], "rejected")
						res.Fail(s, fmt.Sprintf("cut after %d commands: second script command %d %q: %v", k+1, i, cmd, err), c)
						bad = true
						break
					}
				}
				if bad {
					continue
				}
				if got := ex2.d.managedView(intfs, rvrfs, withRoutes); got != wantView {
					if resumeTheorem {
						res.Disagree("F2: wfB at start and at the cut, but the second run does not reach the target (contradicts ios_F2_resume_partial)", c, got, wantView)
					}
					// per cut: the flags of THIS resumed run (f2), nothing carried over from other cuts
					s := sig("resume_not_converged")
					fc02r(s, ex2.d, f2)
					res.Fail(s, fmt.Sprintf("cut after %d commands: second run ends in\n%s-- want\n%s", k+1, got, wantView), c)
				}
			}
		}
	}

	if ctx.Replay != "" {
		var c cfgCase
		if err := ReadReplay(ctx.Replay, &c); err != nil {
			fmt.Fprintln(os.Stderr, err)
			os.Exit(2)
		}
		runCase(c)
		return res
	}
	for _, c := range corpus() {
		runCase(c)
	}
	n := ctx.N(1500, 30000)
	if prop == "C10" {
		n = ctx.N(250, 4000)
	}
	for i := 0; i < n; i++ {
		runCase(genCase(ctx.Rng.Fork()))
	}
	return res
}

func countHits(res *Result, hits string) {
	if hits == "" {
		return
	}
	for _, h := range strings.Split(hits, ",") {
		i := strings.LastIndex(h, ":")
		k, n := h[:i], h[i+1:]
		cnt := 0
		fmt.Sscan(n, &cnt)
		res.CountN("branch:"+k, cnt)
	}
}

// corpus: hand-written pairs for branches that random generation reaches rarely.
func corpus() []cfgCase {
	mk := func(dev, spoc string) cfgCase { return cfgCase{Dev: dev, Spoc: spoc, Note: []string{"corpus"}} }
	e0 := "interface Ethernet0\n ip address 10.1.1.1 255.255.255.0\n"
	return []cfgCase{
		// F-C02r at configuration level
		mk("ip access-list extended e0_in\n deny ip 10.1.0.0 0.0.255.255 any\n remark n1\n permit ip 10.1.0.0 0.0.255.255 any\n permit tcp 10.1.0.0 0.0.255.255 any\n deny ip any any\n"+e0+" ip access-group e0_in in\n",
			"ip access-list extended e0_in\n permit tcp 10.1.0.0 0.0.255.255 any\n remark n1\n deny ip 10.1.0.0 0.0.255.255 any\n permit ip 10.1.0.0 0.0.255.255 any\n"+e0+" ip access-group e0_in in\n"),
		// F-C02r together with route changes in the managed VRF: only the ACL may differ afterwards (docs/ORACLE_AUDIT.md item 18)
		mk("ip access-list extended e0_in\n deny ip 10.1.0.0 0.0.255.255 any\n remark n1\n permit ip 10.1.0.0 0.0.255.255 any\n permit tcp 10.1.0.0 0.0.255.255 any\n deny ip any any\n"+e0+" ip access-group e0_in in\nip route 10.8.0.0 255.255.0.0 10.1.1.253\nip route 10.7.0.0 255.255.0.0 10.1.1.254\n",
			"ip access-list extended e0_in\n permit tcp 10.1.0.0 0.0.255.255 any\n remark n1\n deny ip 10.1.0.0 0.0.255.255 any\n permit ip 10.1.0.0 0.0.255.255 any\n"+e0+" ip access-group e0_in in\nip route 10.8.0.0 255.255.0.0 10.1.1.254\n"),
		// F-C02 (repaired): move into an insert range with mixed actions must not be suppressed
		mk("ip access-list extended e0_in\n permit tcp 10.1.0.0 0.0.255.255 any eq 80\n permit udp any any eq 53\n permit tcp 10.2.0.0 0.0.255.255 any eq 80\n permit tcp host 10.1.2.3 any eq 22\n"+e0+" ip access-group e0_in in\n",
			"ip access-list extended e0_in\n permit tcp 10.1.0.0 0.0.255.255 any eq 80\n permit tcp host 10.1.2.3 any eq 22\n deny tcp 10.1.2.0 0.0.0.255 any\n permit udp any any eq 53\n permit tcp 10.2.0.0 0.0.255.255 any eq 80\n"+e0+" ip access-group e0_in in\n"),
		// nothing on the device
		mk(e0, "ip access-list extended e0_in\n permit ip any any\n"+e0+" ip access-group e0_in in\nip route 0.0.0.0 0.0.0.0 10.1.1.254\n"),
		// identical
		mk("ip access-list extended x\n permit ip any any\n"+e0+" ip access-group x in\n", "ip access-list extended x\n permit ip any any\n"+e0+" ip access-group x in\n"),
		// unchanged ACL inside an interface block, then the out binding changes: `interface` line repeated without exit
		mk("ip access-list extended a\n permit ip any any\nip access-list extended b\n permit tcp any any\n"+e0+" ip access-group a in\n ip access-group b out\n",
			"ip access-list extended a\n permit ip any any\nip access-list extended c\n permit udp any any\n"+e0+" ip access-group a in\n ip access-group c out\n"),
		// a route replaced twice to the same destination (F-C02rt, repaired)
		mk(e0+"ip route 10.8.0.0 255.255.0.0 10.1.1.253\n", e0+"ip route 10.8.0.0 255.255.0.0 10.1.1.254\nip route 10.8.0.0 255.255.0.0 10.2.2.254\n"),
		// target binds an access list it does not define (checkReferences drops the reference): kept / added
		mk(e0+" ip access-group ghost out\n", e0+" ip access-group ghost out\n"),
		mk(e0, e0+" ip access-group ghost in\n"),
		mk("ip access-list extended ghost\n permit ip any any\n"+e0+" ip access-group ghost in\n", e0+" ip access-group ghost in\n"),
		// both ACLs without entries
		mk("ip access-list extended a\n"+e0+" ip access-group a in\n", "ip access-list extended b\n"+e0+" ip access-group b in\n"),
		// F-C07c (repaired): an interface unknown to Netspoc shares its ACL with a managed one
		mk("ip access-list extended e0_in\n permit tcp any any eq 22\n permit ip any any\n"+e0+" ip access-group e0_in in\ninterface Loopback7\n ip address 10.77.0.1 255.255.255.255\n ip access-group e0_in in\n",
			"ip access-list extended e0_in\n permit ip any any\n"+e0+" ip access-group e0_in in\n"),
		// device = target up to the order inside runs of equal action: drc moves lines nevertheless (cosmetic; the
		// converse of ios_F2_unchanged_only_if_equivalent does not hold: plan_second_script_counterexample)
		mk("ip access-list extended e0_in\n permit tcp any any eq 80\n permit tcp any any eq 81\n deny tcp any any eq 90\n deny tcp any any eq 91\n"+e0+" ip access-group e0_in in\n",
			"ip access-list extended e0_in\n permit tcp any any eq 81\n permit tcp any any eq 80\n deny tcp any any eq 91\n deny tcp any any eq 90\n"+e0+" ip access-group e0_in in\n"),
		// routes of a VRF that has an interface but no routes in the target
		mk(e0+"interface Ethernet1\n vrf forwarding V1\n ip address 10.2.2.1 255.255.255.0\nip route vrf V1 10.8.0.0 255.255.0.0 10.2.2.254\nip route 10.8.0.0 255.255.0.0 10.1.1.253\n",
			e0+"interface Ethernet1\n vrf forwarding V1\n ip address 10.2.2.1 255.255.255.0\nip route 10.9.0.0 255.255.0.0 10.1.1.253\n"),
	}
}
