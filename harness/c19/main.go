package main

// C19 — the policy database always points to a complete, compiled policy.
//
// Tie (T-corr): the REAL bin/newpolicy.sh of the repository runs in a sandbox directory (created
// below a temp dir and removed afterwards) with a stub `netspoc` compiler (succeeds iff the tree
// has no file BAD), stub `mail`/`sudo`, the real get-netspoc-approve-conf built from the
// repository, real git on a local bare repository (branch master).  A BASH_ENV file installs a
// DEBUG trap (no edit of the script) that logs every main-shell simple command and, before the
// k-th one, runs a hook: kill -9 of the script, a user commit, or a second invocation.  After
// every event the resulting tree, the exit status and the line trace are compared with the Lean
// model (nadrv-c19 running the program regenerated from the same script by shgen).
//
// Oracle (specification side, evaluated on the real tree only): after every event `current` is
// absent or names a directory with a compile stamp and a good source; a change of `current`
// goes to a strictly larger number; a nested invocation while the lock is held exits 1 and
// changes nothing; parallel invocations never work at the same time; after an undisturbed run
// the newest compiling revision is current.

import (
	"bytes"
	"context"
	"encoding/json"
	"fmt"
	"math"
	"os"
	"os/exec"
	"path/filepath"
	"regexp"
	"sort"
	"strconv"
	"strings"
	"sync"
	"sync/atomic"
	"syscall"
	"time"
	. "verifharness/vhlib"
)

func main() {
	if len(os.Args) > 1 && os.Args[1] == "hook" {
		os.Exit(hookMain(os.Args[2:]))
	}
	Main(map[string]PropFunc{"C19": runC19})
}

// ---------------------------------------------------------------------------- scenario

type scenario struct {
	Kind     string   `json:"kind"` // "seq" (compared with the model) | "par" (parallel invocations, oracle + final state)
	SysEmail bool     `json:"sys_email"`
	Events   []string `json:"events"`
	Par      int      `json:"par,omitempty"`     // number of simultaneous invocations at the end (kind par)
	Wrapper  bool     `json:"wrapper,omitempty"` // undisturbed runs go through bin/newpolicy -> bin/sudo-newpolicy
	Src      string   `json:"src,omitempty"`     // which stream made it (corpus, kill, random, …): counted, not part of the input
}

func (sc scenario) line() string {
	se := "0"
	if sc.SysEmail {
		se = "1"
	}
	return se + "|" + strings.Join(sc.Events, ";")
}

func (sc scenario) canon() string {
	return fmt.Sprintf("%s/%s/par%d/w%v", sc.Kind, sc.line(), sc.Par, sc.Wrapper)
}

type planItem struct {
	K   int
	Act string
}

func parsePlan(s string) []planItem {
	var r []planItem
	if s == "" {
		return r
	}
	for _, it := range strings.Split(s, ",") {
		k, a, _ := strings.Cut(it, "=")
		n, _ := strconv.Atoi(k)
		r = append(r, planItem{n, a})
	}
	return r
}

// ---------------------------------------------------------------------------- sandbox

type tools struct {
	root, bin, trap, repo, self string
	gitFn                       bool // the script wraps git in a shell function
}

// gitBin: the real git (the sandbox PATH starts with shims)
var gitBin = func() string {
	if g := os.Getenv("VH_GIT"); g != "" {
		return g
	}
	g, err := exec.LookPath("git")
	if err != nil {
		return "git"
	}
	return g
}()

const trapText = `case "$0" in */newpolicy.sh) ;; *) return 0 ;; esac
set -T
__vh_n=0
trap 'if [ "$BASH_SUBSHELL" = 0 ]; then __vh_n=$((__vh_n+1)); echo "$__vh_n:$LINENO:$EPOCHREALTIME:$BASH_COMMAND" >>"$VH_TRACE"; if [ -x "$VH_HOOKS/$__vh_n" ]; then "$VH_HOOKS/$__vh_n" $$ "$BASH_COMMAND" 9>&- >>"$VH_TRACE.hook" 2>&1; fi; fi' DEBUG
`

const stubNetspoc = `#!/bin/sh
# stub compiler: netspoc SRC CODE -- succeeds iff SRC has no file BAD; writes one code file per
# "router:NAME = …;" line of SRC/topology (like the real compiler: one file per device) and a stamp
# that records what was compiled
if [ -n "$VH_ORPHAN" ] && [ -e "$VH_ORPHAN" ]; then . "$VH_TOOLS/orphan.sh"; fi
mkdir -p "$2"
rm -f "$2/COMPILED"
if [ -n "$VH_GROUP" ] && [ -e "$VH_GROUP" ]; then
  # the whole process group is killed while the compiler is half way: the file of ONE device (the last
  # of the topology: the one that differs from revision to revision) is written, no stamp; then the script and this child die (nobody keeps fd 9)
  read VHP < "$VH_GROUP"; rm -f "$VH_GROUP"
  r=$(sed -n 's/^router:\([A-Za-z0-9_]*\) .*/\1/p' "$1/topology" | tail -n 1)
  [ -n "$r" ] && grep "^router:$r " "$1/topology" > "$2/$r"
  kill -9 "$VHP" $$
fi
if [ -e "$1/BAD" ]; then echo "Error: BAD"; echo Aborted; exit 1; fi
sed -n 's/^router:\([A-Za-z0-9_]*\) .*/\1/p' "$1/topology" | while read r; do
  grep "^router:$r " "$1/topology" > "$2/$r"
done
cat "$1/topology" > "$2/COMPILED"
exit 0
`

// orphanSh is sourced by the shims of the commands that run as a child of the script when the
// marker file exists: kill the script (NOT this child), optionally let a second invocation run
// while this child is still alive, then go on with the real command.
const orphanSh = `read VHP VHT VHK VHN VHS < "$VH_ORPHAN"
REAL_RM -f "$VH_ORPHAN"
kill -${VHS:-9} "$VHP"
if [ "$VHN" = 1 ]; then "$VH_BIN" hook "$VH_SB" "$VHT" "$VHK" 0 "-" n >>"$VH_SB/orphan.log" 2>&1; fi
`

// commands of the script that run as child processes of the main shell
var shimmed = []string{"git", "mv", "rm", "ln", "mkdir", "touch", "flock"}

const stubMail = `#!/bin/sh
{ echo mail "$@"; cat; echo --END--; } >> "$HOME/../mail"
`

const stubSudo = `#!/bin/sh
# stub sudo: sudo -u USER CMD...
shift 2
exec "$@"
`

func setupTools(ctx *Ctx) (*tools, error) {
	root, err := os.MkdirTemp("", "vh-c19-")
	if err != nil {
		return nil, err
	}
	t := &tools{root: root, bin: filepath.Join(root, "tools"), trap: filepath.Join(root, "trap.sh"), repo: ctx.Repo}
	t.self, _ = os.Executable()
	os.MkdirAll(t.bin, 0755)
	os.WriteFile(t.trap, []byte(trapText), 0644)
	os.WriteFile(filepath.Join(t.bin, "netspoc"), []byte(stubNetspoc), 0755)
	os.WriteFile(filepath.Join(t.bin, "mail"), []byte(stubMail), 0755)
	os.WriteFile(filepath.Join(t.bin, "sudo"), []byte(stubSudo), 0755)
	realRm, _ := exec.LookPath("rm")
	os.WriteFile(filepath.Join(t.root, "orphan.sh"), []byte(strings.ReplaceAll(orphanSh, "REAL_RM", realRm)), 0644)
	for _, c := range shimmed {
		real, err := exec.LookPath(c)
		if err != nil {
			return t, fmt.Errorf("no %s in PATH", c)
		}
		shim := fmt.Sprintf("#!/bin/sh\nif [ -n \"$VH_ORPHAN\" ] && [ -e \"$VH_ORPHAN\" ]; then . \"$VH_TOOLS/orphan.sh\"; fi\nexec %s \"$@\"\n", real)
		os.MkdirAll(filepath.Join(t.root, "shims"), 0755)
		os.WriteFile(filepath.Join(t.root, "shims", c), []byte(shim), 0755)
	}
	if src, err := os.ReadFile(filepath.Join(ctx.Repo, "bin", "newpolicy.sh")); err == nil &&
		regexp.MustCompile(`(?m)^\s*git\s*\(\)`).Match(src) {
		t.gitFn = true
	}
	cmd := exec.Command("go", "build", "-o", filepath.Join(t.bin, "get-netspoc-approve-conf"), "./cmd/get-netspoc-approve-conf")
	cmd.Dir = filepath.Join(ctx.Repo, "go")
	if out, err := cmd.CombinedOutput(); err != nil {
		return t, fmt.Errorf("go build get-netspoc-approve-conf: %v\n%s", err, out)
	}
	return t, nil
}

type sandbox struct {
	t        *tools
	dir      string
	seq      int
	cache    map[string]commitInfo
	logCache map[string]string
}

func (sb *sandbox) env(extra ...string) []string {
	e := []string{
		"HOME=" + filepath.Join(sb.dir, "home"),
		"PATH=" + sb.t.bin + ":" + filepath.Join(sb.t.repo, "bin") + ":/usr/local/bin:/usr/bin:/bin",
		"GIT_CONFIG_NOSYSTEM=1", "LC_ALL=C", "LANG=C", "TZ=UTC",
		"VH_BIN=" + sb.t.self, "VH_SB=" + sb.dir, "VH_TOOLS=" + sb.t.root, "VH_REPO=" + sb.t.repo, "VH_GIT=" + gitBin,
		"VH_GITFN=" + b2s(sb.t.gitFn), "VH_ORPHAN=" + filepath.Join(sb.dir, "orphan.marker"), "VH_GROUP=" + filepath.Join(sb.dir, "group.marker"),
	}
	return append(e, extra...)
}

func gitIn(dir string, env []string, args ...string) (string, error) {
	cmd := exec.Command(gitBin, args...)
	cmd.Dir = dir
	cmd.Env = env
	out, err := cmd.CombinedOutput()
	return strings.TrimSpace(string(out)), err
}

var (
	tmplMu   sync.Mutex
	tmplDone = map[bool]string{}
)

// template: a sandbox built once per harness run (and per kind of system user); scenarios start
// from a copy of it with the embedded paths rewritten.
func template(t *tools, sysEmail bool) (string, error) {
	tmplMu.Lock()
	defer tmplMu.Unlock()
	if d, ok := tmplDone[sysEmail]; ok {
		return d, nil
	}
	name := "template0"
	if sysEmail {
		name = "template1"
	}
	sb, err := buildSandbox(t, name, sysEmail)
	if err != nil {
		return "", err
	}
	tmplDone[sysEmail] = sb.dir
	return sb.dir, nil
}

func copyTree(src, dst string) error {
	return filepath.Walk(src, func(path string, info os.FileInfo, err error) error {
		if err != nil {
			return err
		}
		rel, _ := filepath.Rel(src, path)
		target := filepath.Join(dst, rel)
		switch {
		case info.IsDir():
			return os.MkdirAll(target, 0755)
		case info.Mode()&os.ModeSymlink != 0:
			l, _ := os.Readlink(path)
			return os.Symlink(l, target)
		default:
			data, err := os.ReadFile(path)
			if err != nil {
				return err
			}
			return os.WriteFile(target, data, info.Mode().Perm())
		}
	})
}

func newSandbox(t *tools, name string, sysEmail bool) (*sandbox, error) {
	tdir, err := template(t, sysEmail)
	if err != nil {
		return &sandbox{t: t, dir: filepath.Join(t.root, name)}, err
	}
	sb := &sandbox{t: t, dir: filepath.Join(t.root, name)}
	if err := copyTree(tdir, sb.dir); err != nil {
		return sb, err
	}
	for _, f := range []string{filepath.Join("home", ".netspoc-approve"), filepath.Join("work", ".git", "config")} {
		data, err := os.ReadFile(filepath.Join(sb.dir, f))
		if err != nil {
			return sb, err
		}
		os.WriteFile(filepath.Join(sb.dir, f), bytes.ReplaceAll(data, []byte(tdir), []byte(sb.dir)), 0644)
	}
	return sb, nil
}

func buildSandbox(t *tools, name string, sysEmail bool) (*sandbox, error) {
	sb := &sandbox{t: t, dir: filepath.Join(t.root, name)}
	for _, d := range []string{"home", "policies"} {
		os.MkdirAll(filepath.Join(sb.dir, d), 0755)
	}
	bare := filepath.Join(sb.dir, "netspoc.git")
	os.WriteFile(filepath.Join(sb.dir, "home", ".netspoc-approve"),
		[]byte(fmt.Sprintf("basedir = %s\nnetspoc_git = file://%s\nadmin_emails = admin1@example.com\n", sb.dir, bare)), 0644)
	email := ""
	if sysEmail {
		email = "system@example.com"
	}
	os.WriteFile(filepath.Join(sb.dir, "home", ".gitconfig"),
		[]byte(fmt.Sprintf("[user]\n\tname = System User\n\temail = %s\n[init]\n\tdefaultBranch = master\n[advice]\n\tdetachedHead = false\n", email)), 0644)
	env := sb.env()
	if out, err := gitIn(sb.dir, env, "init", "--quiet", "--bare", bare); err != nil {
		return sb, fmt.Errorf("git init: %v %s", err, out)
	}
	work := filepath.Join(sb.dir, "work")
	if out, err := gitIn(sb.dir, env, "clone", "--quiet", bare, work); err != nil {
		return sb, fmt.Errorf("git clone: %v %s", err, out)
	}
	gitIn(work, env, "config", "user.name", "Test User")
	gitIn(work, env, "config", "user.email", "user@example.com")
	os.WriteFile(filepath.Join(work, "topology"), []byte("network:n1 = { ip = 10.1.1.0/24; }\nrouter:base = { managed; }\nrouter:u0 = { v0; }\n"), 0644)
	gitIn(work, env, "add", "-A")
	if out, err := gitIn(work, env, "commit", "--quiet", "-m", "initial"); err != nil {
		return sb, fmt.Errorf("git commit: %v %s", err, out)
	}
	if out, err := gitIn(work, env, "push", "--quiet", "origin", "master"); err != nil {
		return sb, fmt.Errorf("git push: %v %s", err, out)
	}
	return sb, nil
}

// userCommit: a user pulls, edits and pushes one commit.
func userCommit(sbDir string, env []string, good bool, pol string, email bool) error {
	work := filepath.Join(sbDir, "work")
	if out, err := gitIn(work, env, "pull", "--quiet", "--ff-only"); err != nil {
		return fmt.Errorf("user pull: %v %s", err, out)
	}
	// every revision has a device of its own: the previous one disappears, a new one appears
	n, _ := gitIn(work, env, "rev-list", "--count", "HEAD")
	os.WriteFile(filepath.Join(work, "topology"),
		[]byte(fmt.Sprintf("network:n1 = { ip = 10.1.1.0/24; }\nrouter:base = { managed; }\nrouter:u%s = { v%s; }\n", n, n)), 0644)
	bad := filepath.Join(work, "BAD")
	if good {
		os.Remove(bad)
	} else {
		os.WriteFile(bad, []byte("bad\n"), 0644)
	}
	if pol != "" && pol != "-" {
		os.WriteFile(filepath.Join(work, "POLICY"), []byte("# p"+pol+" # Current policy, don't edit manually!\n"), 0644)
	}
	gitIn(work, env, "add", "-A")
	args := []string{"commit", "--quiet", "-m", "user commit"}
	if !email {
		args = append([]string{"-c", "user.email="}, args...)
	}
	if out, err := gitIn(work, env, args...); err != nil {
		return fmt.Errorf("user commit: %v %s", err, out)
	}
	if out, err := gitIn(work, env, "push", "--quiet"); err != nil {
		return fmt.Errorf("user push: %v %s", err, out)
	}
	return nil
}

type runInfo struct {
	Exit      string    // "0", "1", "killed", "timeout", …
	Lines     []string  // LINENO of every main-shell command, in order
	Cmds      []string  // BASH_COMMAND
	Times     []float64 // EPOCHREALTIME
	Nested    []*runInfo
	Wrapper   string // stderr of bin/newpolicy if the run went through the wrapper
	OrphanRan bool   // killed while the child of its last logged command ran; that command was completed by the orphan
	LockHeld  string // nested invocations: "1" = somebody held the flock on policies/LOCK when it was started (probed by the hook), "0" = free, "" = not probed
}

// writerSpan: the time span in which this invocation ran commands that write below policies/ or to
// the repository (children: netspoc, git, mv, rm, ln, mkdir, touch) -- taken from the trace, no
// matter how the script spells its locking.  ok=false: it never did.
// writerLines: source lines of the commands that have an effect on the database in the model of the
// script under test -- asked from the driver, i.e. derived from the regenerated program
// (Cmd.mutating; exec_nonmut/nonmut_writes prove that all other commands leave it alone).  nil when
// the script is not understood: then the first word of the command decides (children of a fixed list).
var writerLines map[string]bool

func (r *runInfo) isWriter(i int, gitFn bool) bool {
	if writerLines != nil {
		return writerLines[r.Lines[i]]
	}
	f := strings.Fields(r.Cmds[i])
	return len(f) > 0 && f[0] != "flock" && isExternal(r.Cmds[i], gitFn)
}

func (r *runInfo) writerSpan(gitFn bool) (from, to float64, ok bool) {
	for i := range r.Cmds {
		if r.isWriter(i, gitFn) {
			if !ok {
				from, ok = r.Times[i], true
			}
			to = r.Times[i]
		}
	}
	if ok && len(r.Times) > 0 {
		to = r.Times[len(r.Times)-1]
		if r.OrphanRan {
			to = math.Inf(1) // the orphan finishes its command after everything else of this event
		}
	}
	return
}

// lockProbe: is the flock on policies/LOCK taken right now?  A new open file description, LOCK_EX|LOCK_NB,
// released at once.  Only called while the script under test stands still in its DEBUG trap.
func lockProbe(sbDir string) string {
	f, err := os.OpenFile(filepath.Join(sbDir, "policies", "LOCK"), os.O_RDWR, 0)
	if err != nil {
		return "0" // no lock file yet: nobody can hold it
	}
	defer f.Close()
	if err := syscall.Flock(int(f.Fd()), syscall.LOCK_EX|syscall.LOCK_NB); err != nil {
		return "1"
	}
	syscall.Flock(int(f.Fd()), syscall.LOCK_UN)
	return "0"
}

func (r *runInfo) show() string {
	var ns []string
	for _, n := range r.Nested {
		ns = append(ns, n.show())
	}
	return fmt.Sprintf("exit=%s trace=%s nested=[%s]", r.Exit, strings.Join(r.Lines, "."), strings.Join(ns, "|"))
}

var traceRe = regexp.MustCompile(`^(\d+):(\d+):([0-9.]+):(.*)$`)

func readTrace(path string, r *runInfo) {
	data, _ := os.ReadFile(path)
	for _, l := range strings.Split(string(data), "\n") {
		m := traceRe.FindStringSubmatch(l)
		if m == nil {
			continue // continuation line of a multi-line command text
		}
		r.Lines = append(r.Lines, m[2])
		t, _ := strconv.ParseFloat(m[3], 64)
		r.Times = append(r.Times, t)
		r.Cmds = append(r.Cmds, normCmd(m[4]))
	}
}

// startScript starts newpolicy.sh (or the wrapper) with the trap installed.
func startScript(t *tools, sbDir string, env []string, tag string, plan []planItem, wrapper bool) (*exec.Cmd, *bytes.Buffer, error) {
	hooks := filepath.Join(sbDir, "hooks."+tag)
	os.RemoveAll(hooks)
	os.MkdirAll(hooks, 0755)
	byK := map[int][]string{}
	for _, it := range plan {
		byK[it.K] = append(byK[it.K], it.Act)
	}
	for k, acts := range byK {
		body := fmt.Sprintf("#!/bin/sh\nexec \"$VH_BIN\" hook \"$VH_SB\" %s %d \"$1\" \"$2\" %s\n", tag, k, strings.Join(acts, " "))
		os.WriteFile(filepath.Join(hooks, strconv.Itoa(k)), []byte(body), 0755)
	}
	trace := filepath.Join(sbDir, "trace."+tag)
	os.Remove(trace)
	os.Remove(trace + ".hook")
	var cmd *exec.Cmd
	if wrapper {
		cmd = exec.Command("bash", filepath.Join(t.repo, "bin", "newpolicy"))
	} else {
		cmd = exec.Command("bash", filepath.Join(t.repo, "bin", "newpolicy.sh"))
	}
	cmd.Dir = sbDir
	cmd.Env = append(env, "BASH_ENV="+t.trap, "VH_TRACE="+trace, "VH_HOOKS="+hooks)
	for _, it := range plan {
		if it.Act == "O" || it.Act == "On" || it.Act == "Ot" {
			// only runs that may be killed inside a child need the shims (one more process per command)
			for i, e := range cmd.Env {
				if strings.HasPrefix(e, "PATH=") {
					cmd.Env[i] = "PATH=" + filepath.Join(t.root, "shims") + ":" + e[5:]
				}
			}
			break
		}
	}
	var errb bytes.Buffer
	cmd.Stderr = &errb
	cmd.Stdout = &errb
	cmd.SysProcAttr = &syscall.SysProcAttr{Setpgid: true}
	return cmd, &errb, cmd.Start()
}

// settle waits until no process of the script's process group is left: a script killed inside a
// pipeline leaves the already forked elements behind; they inherit fd 9 and with it the flock.
func settle(pgid int) {
	for i := 0; i < 400; i++ {
		if err := syscall.Kill(-pgid, 0); err != nil {
			return
		}
		time.Sleep(5 * time.Millisecond)
	}
	syscall.Kill(-pgid, syscall.SIGKILL)
}

func waitScript(cmd *exec.Cmd) string {
	done := make(chan error, 1)
	go func() { done <- cmd.Wait() }()
	select {
	case err := <-done:
		settle(cmd.Process.Pid)
		if err == nil {
			return "0"
		}
		if ee, ok := err.(*exec.ExitError); ok {
			if ws, ok := ee.Sys().(syscall.WaitStatus); ok && ws.Signaled() {
				return "killed"
			}
			return strconv.Itoa(ee.ExitCode())
		}
		return "error:" + err.Error()
	case <-time.After(60 * time.Second):
		syscall.Kill(-cmd.Process.Pid, syscall.SIGKILL)
		<-done
		return "timeout"
	}
}

func collect(sbDir, tag string, exit string, plan []planItem) *runInfo {
	r := &runInfo{Exit: exit}
	readTrace(filepath.Join(sbDir, "trace."+tag), r)
	// nested invocations, in plan order
	sort.SliceStable(plan, func(i, j int) bool { return plan[i].K < plan[j].K })
	idxOf := map[int]int{} // numbering restarts in every hook call (one per k)
	for _, it := range plan {
		if strings.HasPrefix(it.Act, "n") || it.Act == "On" {
			ntag := fmt.Sprintf("%s.n%d.%d", tag, it.K, idxOf[it.K])
			idxOf[it.K]++
			data, err := os.ReadFile(filepath.Join(sbDir, "result."+ntag))
			if err != nil {
				continue // hook never fired (k beyond the end of the run, or killed earlier)
			}
			var np []planItem
			if strings.HasPrefix(it.Act, "nK") {
				j, _ := strconv.Atoi(it.Act[2:])
				np = []planItem{{j, "K"}}
			}
			fl := strings.Fields(string(data))
			if len(fl) == 0 {
				continue
			}
			nr := collect(sbDir, ntag, fl[0], np)
			if len(fl) > 1 {
				nr.LockHeld = strings.TrimPrefix(fl[1], "held=")
			}
			r.Nested = append(r.Nested, nr)
		}
	}
	return r
}

func (sb *sandbox) run(plan []planItem, wrapper bool) *runInfo {
	sb.seq++
	tag := fmt.Sprintf("r%d", sb.seq)
	cmd, errb, err := startScript(sb.t, sb.dir, sb.env(), tag, plan, wrapper)
	if err != nil {
		return &runInfo{Exit: "start-error:" + err.Error()}
	}
	exit := waitScript(cmd)
	r := collect(sb.dir, tag, exit, plan)
	r.Wrapper = errb.String()
	return r
}

// hookMain runs inside the sandboxed script's DEBUG trap: vh-c19 hook <sandbox> <tag> <k> <pid> act…
func hookMain(args []string) int {
	if len(args) < 5 {
		return 2
	}
	sbDir, tag, k, pidS, cmdText := args[0], args[1], args[2], args[3], args[4]
	args = append(args[:4:4], args[5:]...)
	pid, _ := strconv.Atoi(pidS)
	t := &tools{root: os.Getenv("VH_TOOLS"), repo: os.Getenv("VH_REPO"), self: os.Getenv("VH_BIN"), gitFn: os.Getenv("VH_GITFN") == "1"}
	t.bin = filepath.Join(t.root, "tools")
	t.trap = filepath.Join(t.root, "trap.sh")
	sb := &sandbox{t: t, dir: sbDir}
	env := sb.env()
	idx := 0
	for _, act := range args[4:] {
		switch {
		case act == "K":
			syscall.Kill(pid, syscall.SIGKILL)
			return 0
		case act == "G":
			// kill the whole process group while the compiler is half way (the stub compiler does it
			// itself, see stubNetspoc); for every other command the group kill is a kill of the script
			// before the command
			if f := strings.Fields(normCmd(cmdText)); len(f) == 0 || f[0] != "netspoc" {
				syscall.Kill(pid, syscall.SIGKILL)
				return 0
			}
			os.WriteFile(os.Getenv("VH_GROUP"), []byte(fmt.Sprintf("%d\n", pid)), 0644)
			return 0
		case act == "T" || act == "H":
			// a catchable signal to the script process ALONE (not its group): SIGTERM / SIGHUP.  A script
			// without handler dies at once, exactly as with K; a script with a handler that returns goes on.
			// (SIGINT is not used: bash itself catches it and, while a foreground child runs, only exits
			// if that child died of SIGINT too.)
			sig := syscall.SIGTERM
			if act == "H" {
				sig = syscall.SIGHUP
			}
			syscall.Kill(pid, sig)
			return 0
		case act == "O" || act == "On" || act == "Ot":
			// kill the script while the child process of its next command runs: possible only for
			// commands that have a child; the shim of that command does it (marker file)
			if !isExternal(cmdText, t.gitFn) {
				syscall.Kill(pid, syscall.SIGKILL)
				return 0
			}
			os.WriteFile(os.Getenv("VH_ORPHAN"), []byte(fmt.Sprintf("%d %s %s %s %s\n", pid, tag, k, b2s(act == "On"), map[bool]string{true: "TERM", false: "9"}[act == "Ot"])), 0644)
			return 0
		case act == "cg" || act == "cb":
			if err := userCommit(sbDir, env, act == "cg", "", true); err != nil {
				fmt.Println("hook:", err)
			}
		case strings.HasPrefix(act, "n"):
			ntag := fmt.Sprintf("%s.n%s.%d", tag, k, idx)
			idx++
			var np []planItem
			if strings.HasPrefix(act, "nK") {
				j, _ := strconv.Atoi(act[2:])
				np = []planItem{{j, "K"}}
			}
			held := lockProbe(sbDir)
			cmd, _, err := startScript(t, sbDir, env, ntag, np, false)
			exit := "start-error"
			if err == nil {
				exit = waitScript(cmd)
			}
			os.WriteFile(filepath.Join(sbDir, "result."+ntag), []byte(exit+" held="+held+"\n"), 0644)
		}
	}
	return 0
}

// normCmd: the command text as bash reports it, without quote characters and with single blanks, so
// that the few places that look at the text (which window was a run killed in, did it get past
// flock) do not depend on how the script quotes its words.
func normCmd(c string) string {
	c = strings.NewReplacer("\"", "", "'", "", "${POLICY}", "$POLICY").Replace(c)
	return strings.Join(strings.Fields(c), " ")
}

// isExternal: does this main-shell command run as a child process (text as bash reports it)?
func isExternal(cmd string, gitFn bool) bool {
	f := strings.Fields(normCmd(cmd))
	if len(f) == 0 {
		return false
	}
	switch f[0] {
	case "netspoc", "mv", "rm", "ln", "mkdir", "touch", "flock":
		return true
	case "git":
		return !gitFn && len(f) > 1 && f[1] != "log"
	case "command":
		return len(f) > 2 && f[1] == "git" && f[2] != "log"
	}
	return false
}

// ---------------------------------------------------------------------------- observation

type dirObs struct {
	N        int
	Built    bool
	HeadPol  string
	HeadIsR  bool
	Nested   bool
	SrcGood  bool // no file BAD in the tree of HEAD
	HasStamp bool
	StampOK  bool // the compile stamp was made from the `topology` file of HEAD's tree
	CodeOK   bool // … and the code files are exactly the devices of that tree
}

type obs struct {
	Cur     string // "-" or number, or "?<text>" for anything else
	CurOK   bool   // link target exists
	Next    *dirObs
	NextSrc bool
	NextDirty bool // next/code holds output of a compiler run (complete or not)
	Failed  bool
	Lock    bool
	Dirs    []dirObs
	Remote  struct {
		Good  bool
		Pol   string
		Kind  string
		Email bool
		Hash  string
	}
}

var digits = regexp.MustCompile(`\d+`)

func (sb *sandbox) headOf(dir string) string {
	out, err := gitIn(dir, sb.env(), "rev-parse", "--verify", "--quiet", "HEAD")
	if err != nil {
		return ""
	}
	return out
}

func (sb *sandbox) polOf(dir, rev string) string {
	out, err := gitIn(dir, sb.env(), "show", rev+":POLICY")
	if err != nil {
		return "-"
	}
	if m := digits.FindString(out); m != "" {
		n, _ := strconv.Atoi(m)
		return strconv.Itoa(n)
	}
	return "-"
}

func (sb *sandbox) hasBAD(dir, rev string) bool {
	_, err := gitIn(dir, sb.env(), "cat-file", "-e", rev+":BAD")
	return err == nil
}

type commitInfo struct {
	pol string
	bad bool
}

// infoOf: POLICY number and presence of BAD in the tree of a commit (immutable, cached per sandbox).
func (sb *sandbox) infoOf(dir, hash string) commitInfo {
	if sb.cache == nil {
		sb.cache = map[string]commitInfo{}
	}
	if ci, ok := sb.cache[hash]; ok {
		return ci
	}
	ci := commitInfo{pol: sb.polOf(dir, hash), bad: sb.hasBAD(dir, hash)}
	sb.cache[hash] = ci
	return ci
}

// headFile reads HEAD of a non-bare clone without starting git.
func headFile(src string) string {
	data, err := os.ReadFile(filepath.Join(src, ".git", "HEAD"))
	if err != nil {
		return ""
	}
	h := strings.TrimSpace(string(data))
	if ref, ok := strings.CutPrefix(h, "ref: "); ok {
		if data, err := os.ReadFile(filepath.Join(src, ".git", ref)); err == nil {
			return strings.TrimSpace(string(data))
		}
		if data, err := os.ReadFile(filepath.Join(src, ".git", "packed-refs")); err == nil {
			for _, l := range strings.Split(string(data), "\n") {
				if f := strings.Fields(l); len(f) == 2 && f[1] == ref {
					return f[0]
				}
			}
		}
		return ""
	}
	return h
}

func (sb *sandbox) observeDir(path string, remote string) (d dirObs, hasSrc bool) {
	src := filepath.Join(path, "src")
	if _, err := os.Stat(filepath.Join(src, ".git")); err == nil {
		h := headFile(src)
		if len(h) != 40 {
			h = sb.headOf(src)
		}
		if h != "" {
			hasSrc = true
			ci := sb.infoOf(src, h)
			d.HeadPol = ci.pol
			d.HeadIsR = h == remote
			d.SrcGood = !ci.bad
		}
	}
	if !hasSrc {
		d.HeadPol = "-"
	}
	stamp, err := os.ReadFile(filepath.Join(path, "code", "COMPILED"))
	d.HasStamp = err == nil
	d.Built = d.HasStamp
	if d.HasStamp && hasSrc {
		if top, err := gitIn(src, sb.env(), "show", "HEAD:topology"); err == nil {
			d.StampOK = strings.TrimSpace(string(stamp)) == top
			d.CodeOK = d.StampOK && codeFilesMatch(filepath.Join(path, "code"), top)
		}
	}
	_, err = os.Stat(filepath.Join(path, "next"))
	d.Nested = err == nil
	return
}

// codeFilesMatch: the files below code/ (but the stamp and the .prev link) are exactly one per
// router of the topology, each with that router's line.
func codeFilesMatch(code, topology string) bool {
	want := map[string]string{}
	for _, l := range strings.Split(topology, "\n") {
		if m := regexp.MustCompile(`^router:([A-Za-z0-9_]+) `).FindStringSubmatch(l); m != nil {
			want[m[1]] = l
		}
	}
	ents, err := os.ReadDir(code)
	if err != nil {
		return false
	}
	n := 0
	for _, e := range ents {
		if e.Name() == "COMPILED" || e.Name() == ".prev" {
			continue
		}
		data, _ := os.ReadFile(filepath.Join(code, e.Name()))
		if w, ok := want[e.Name()]; !ok || strings.TrimSpace(string(data)) != w {
			return false
		}
		n++
	}
	return n == len(want)
}

func (sb *sandbox) observe() *obs {
	o := &obs{}
	bare := filepath.Join(sb.dir, "netspoc.git")
	env := sb.env()
	if data, err := os.ReadFile(filepath.Join(bare, "refs", "heads", "master")); err == nil && len(strings.TrimSpace(string(data))) == 40 {
		o.Remote.Hash = strings.TrimSpace(string(data))
	} else {
		o.Remote.Hash, _ = gitIn(bare, env, "rev-parse", "master")
	}
	rci := sb.infoOf(bare, o.Remote.Hash)
	o.Remote.Good = !rci.bad
	o.Remote.Pol = rci.pol
	if sb.logCache == nil {
		sb.logCache = map[string]string{}
	}
	info, ok := sb.logCache[o.Remote.Hash]
	if !ok {
		info, _ = gitIn(bare, env, "log", "-n", "1", "--format=E=%ae%nP=%P%nS=%s", o.Remote.Hash)
		sb.logCache[o.Remote.Hash] = info
	}
	parts := strings.SplitN(info, "\n", 3)
	for len(parts) < 3 {
		parts = append(parts, "")
	}
	for i, pre := range []string{"E=", "P=", "S="} {
		parts[i] = strings.TrimPrefix(parts[i], pre)
	}
	o.Remote.Email = parts[0] != ""
	switch {
	case len(strings.Fields(parts[1])) > 1:
		o.Remote.Kind = "merge"
	case strings.HasPrefix(parts[2], "Revert "):
		o.Remote.Kind = "revert"
	case regexp.MustCompile(`^p\d+$`).MatchString(parts[2]):
		o.Remote.Kind = "policy"
	default:
		o.Remote.Kind = "user"
	}
	pdb := filepath.Join(sb.dir, "policies")
	if target, err := os.Readlink(filepath.Join(pdb, "current")); err != nil {
		o.Cur = "-"
		if _, err := os.Lstat(filepath.Join(pdb, "current")); err == nil {
			o.Cur = "?not-a-link"
		}
	} else if regexp.MustCompile(`^p\d+$`).MatchString(target) {
		n, _ := strconv.Atoi(target[1:])
		o.Cur = strconv.Itoa(n)
		_, err := os.Stat(filepath.Join(pdb, target))
		o.CurOK = err == nil
	} else {
		o.Cur = "?" + target
	}
	if _, err := os.Stat(filepath.Join(pdb, "next")); err == nil {
		d, hasSrc := sb.observeDir(filepath.Join(pdb, "next"), o.Remote.Hash)
		o.Next, o.NextSrc = &d, hasSrc
		if ents, err := os.ReadDir(filepath.Join(pdb, "next", "code")); err == nil {
			for _, e := range ents {
				if e.Type().IsRegular() && e.Name() != "COMPILED" {
					o.NextDirty = true
				}
			}
		}
	}
	_, err := os.Stat(filepath.Join(pdb, "failed"))
	o.Failed = err == nil
	_, err = os.Stat(filepath.Join(pdb, "LOCK"))
	o.Lock = err == nil
	ents, _ := os.ReadDir(pdb)
	for _, e := range ents {
		if regexp.MustCompile(`^p\d+$`).MatchString(e.Name()) && e.IsDir() {
			d, _ := sb.observeDir(filepath.Join(pdb, e.Name()), o.Remote.Hash)
			d.N, _ = strconv.Atoi(e.Name()[1:])
			o.Dirs = append(o.Dirs, d)
		}
	}
	sort.Slice(o.Dirs, func(i, j int) bool { return o.Dirs[i].N < o.Dirs[j].N })
	return o
}

func b2s(b bool) string {
	if b {
		return "1"
	}
	return "0"
}

func (o *obs) show() string {
	nx := "-"
	if o.Next != nil {
		nx = fmt.Sprintf("%s/%s/%s/%s/%s", b2s(o.NextSrc), b2s(o.Next.Built && o.Next.SrcGoodOrUnknown()), o.Next.HeadPol, b2s(o.Next.HeadIsR), b2s(o.NextDirty))
	}
	var ds []string
	for _, d := range o.Dirs {
		ds = append(ds, fmt.Sprintf("%d:%s:%s:%s:%s:%s", d.N, b2s(d.Built), d.HeadPol, b2s(d.HeadIsR), b2s(d.Built && d.CodeOK), b2s(d.Nested)))
	}
	return fmt.Sprintf("cur=%s next=%s failed=%s dirs=%s remote=%s/%s/%s/%s lock=%s", o.Cur, nx, b2s(o.Failed),
		strings.Join(ds, ","), b2s(o.Remote.Good), o.Remote.Pol, o.Remote.Kind, b2s(o.Remote.Email), b2s(o.Lock))
}

// the compile stamp alone decides "built" (the stub writes it only on success)
func (d *dirObs) SrcGoodOrUnknown() bool { return true }

// ---------------------------------------------------------------------------- oracle

type oracleState struct {
	promoted []int // every value `current` took, in order
	lastCur  string
	dirs     map[int]bool // policy directories seen so far
	nested   map[int]bool // … with a later `mv next pN` inside
	maxDir   int
}

type finding struct {
	pred  string
	what  string
	attrs map[string]any // further signature attributes: window, via, symptom, exit, …
	ev    int            // index of the event after which it was seen
}

func fnd(pred, what string, kv ...any) finding {
	f := finding{pred: pred, what: what, attrs: map[string]any{}}
	for i := 0; i+1 < len(kv); i += 2 {
		f.attrs[kv[i].(string)] = kv[i+1]
	}
	return f
}

// cut: what the oracle knows about the history right before this event -- per event, nothing sticky
type cut struct {
	staleBy  string // window of the kill that left a `next` whose HEAD equals the remote head ("" = none)
	raceLost bool   // a run had a user commit right before its `git push` and was killed between `mv next pN` and `ln -s`; no run has ended normally since
}

// classifyKill: which window of the script did a killed run stop in (from the REAL trace)?
func classifyKill(r *runInfo) string {
	if r == nil || r.Exit != "killed" || len(r.Cmds) == 0 {
		return ""
	}
	// the last logged command is the one that did NOT run -- unless the script was killed while
	// the child of that command was running (the child finished it)
	done := r.Cmds[:len(r.Cmds)-1]
	if r.OrphanRan {
		done = r.Cmds
	}
	// a script that wraps git in a shell function reports `git X` (call, function entry) and then
	// `command git X …`: only the last one is the command
	wrapped := false
	for _, c := range r.Cmds {
		if strings.HasPrefix(c, "command git ") {
			wrapped = true
		}
	}
	if wrapped {
		var d2 []string
		for _, c := range done {
			if strings.HasPrefix(c, "git ") {
				continue
			}
			d2 = append(d2, strings.TrimPrefix(c, "command "))
		}
		done = d2
	}
	last := func(prefix string) int {
		for i := len(done) - 1; i >= 0; i-- {
			if strings.HasPrefix(done[i], prefix) {
				return i
			}
		}
		return -1
	}
	clone, commit, push, mv := last("git clone "), last("git commit -m"), last("git push --quiet"), last("mv next ")
	ln := last("ln -s $POLICY")
	switch {
	case mv > clone && ln < mv:
		return "mv_ln"
	case push > commit && commit > clone && mv < push:
		return "push_promote"
	case clone >= 0 && commit < clone:
		return "clone_commit"
	}
	return "other"
}

func (os_ *oracleState) check(o *obs, before *obs, ev string, r *runInfo, c cut) []finding {
	var fs []finding
	isRun := strings.HasPrefix(ev, "r:") || ev == "par"
	undisturbed := ev == "r:"
	exit := ""
	if r != nil {
		exit = r.Exit
	}
	// 1. current absent or compiled
	if o.Cur != "-" {
		ok := false
		for _, d := range o.Dirs {
			if strconv.Itoa(d.N) == o.Cur && d.HasStamp && d.SrcGood {
				ok = true
			}
		}
		if !ok {
			fs = append(fs, fnd("current_not_compiled", "current -> p"+o.Cur+" which is not a directory with a compile stamp and a good source"))
		}
	}
	// 1b. the code of the current policy was produced by ITS OWN successful compile from ITS OWN src:
	// exactly one code file per device of HEAD's topology, nothing left over from another compile
	if o.Cur != "-" {
		for _, d := range o.Dirs {
			if strconv.Itoa(d.N) == o.Cur && d.HasStamp && !d.CodeOK {
				fs = append(fs, fnd("current_code_not_from_own_compile",
					"the code below current -> p"+o.Cur+" is not what a compile of its own src produces (stamp or device files of another revision)"))
			}
		}
	}
	// did an invocation of THIS event finish a successful compile of its own?  Seen on the real tree: a
	// policy directory with a compile stamp that was not there before, or a `next` moved into an
	// existing directory.
	if os_.dirs == nil {
		os_.dirs, os_.nested = map[int]bool{}, map[int]bool{}
	}
	ownCompile := false
	for _, d := range o.Dirs {
		if d.HasStamp && d.SrcGood && !os_.dirs[d.N] || d.Nested && !os_.nested[d.N] {
			ownCompile = true
		}
	}
	// 2./3. `current` changes (re-pointed OR removed) only through a run that compiled successfully
	// itself, and then to a strictly larger number -- judged after EVERY event
	if o.Cur != os_.lastCur {
		if !isRun {
			fs = append(fs, fnd("commit_changed_current", "a commit event changed current from "+os_.lastCur+" to "+o.Cur))
		} else if !ownCompile {
			what := "current changed from " + os_.lastCur + " to " + o.Cur
			if o.Cur == "-" {
				what = "current (p" + os_.lastCur + ") vanished"
			}
			fs = append(fs, fnd("current_changed_without_own_successful_compile",
				what+" in an event in which no invocation produced a compiled policy directory of its own",
				"vanished", o.Cur == "-", "exit", exit, "head_good", before.Remote.Good))
		}
		if o.Cur != "-" {
			n, _ := strconv.Atoi(o.Cur)
			for _, m := range os_.promoted {
				if m >= n {
					pred, kv := "policy_number_not_increasing", []any{"symptom", "link_number"}
					if c.raceLost {
						pred, kv = "policy_number_reused_after_failed_push_and_kill_before_ln",
							[]any{"symptom", "link_number", "window", "mv_ln", "via", "race_commit_before_push"}
					}
					fs = append(fs, fnd(pred, fmt.Sprintf("current switched to p%d after p%d had been current", n, m), kv...))
					break
				}
			}
			os_.promoted = append(os_.promoted, n)
		}
		os_.lastCur = o.Cur
	}
	// 3b. every new policy directory gets a number larger than every number used before;
	// a `next` that appears INSIDE an existing pN means `mv next pN` reused the number N
	for _, d := range o.Dirs {
		if !os_.dirs[d.N] {
			if d.N <= os_.maxDir {
				fs = append(fs, fnd("policy_number_not_increasing", fmt.Sprintf("new directory p%d after p%d existed", d.N, os_.maxDir), "symptom", "directory_number"))
			}
			os_.dirs[d.N] = true
			if d.N > os_.maxDir {
				os_.maxDir = d.N
			}
		}
		if d.Nested && !os_.nested[d.N] {
			os_.nested[d.N] = true
			pred, kv := "policy_number_reused_other", []any{"symptom", "nested_directory"}
			if c.raceLost {
				pred, kv = "policy_number_reused_after_failed_push_and_kill_before_ln",
					[]any{"symptom", "nested_directory", "window", "mv_ln", "via", "race_commit_before_push"}
			}
			fs = append(fs, fnd(pred, fmt.Sprintf("mv next p%d landed inside the existing directory p%d: the number was used twice", d.N, d.N), kv...))
		}
	}
	// 5. an undisturbed run started in a quiescent state (the harness starts a run only after every
	// process of the event before has ended) makes the newest compiling revision current -- whatever
	// its exit status.  "compiling revision": the remote head before the run (the run then adds its
	// POLICY commit) or, after a revert, the remote head after it.
	if r != nil && undisturbed && (before.Remote.Good || o.Remote.Good) {
		newest := false
		for _, d := range o.Dirs {
			if strconv.Itoa(d.N) == o.Cur && d.HasStamp && d.SrcGood && d.HeadIsR && d.StampOK {
				newest = true
			}
		}
		if !newest {
			pred, kv := "not_promoted_other", []any{"exit", exit, "window", c.staleBy}
			switch {
			case exit != "0":
				pred = "undisturbed_run_failed_and_did_not_promote"
			case c.staleBy == "clone_commit":
				pred, kv = "killed_between_clone_and_commit", []any{"exit", exit, "window", c.staleBy, "via", "stale_next_head_is_remote"}
			case c.staleBy == "push_promote":
				pred, kv = "killed_between_push_and_promote", []any{"exit", exit, "window", c.staleBy, "via", "stale_next_head_is_remote"}
			case c.raceLost:
				pred, kv = "policy_number_reused_after_failed_push_and_kill_before_ln",
					[]any{"symptom", "not_promoted", "window", "mv_ln", "via", "race_commit_before_push"}
			}
			fs = append(fs, fnd(pred, "undisturbed run in a quiescent state ended with "+exit+", the newest revision compiles, but current ("+o.Cur+") is not that revision", kv...))
		}
	}
	return fs
}

// ---------------------------------------------------------------------------- one scenario

type caseResult struct {
	sc       scenario
	impl     []string
	model    string
	findings []finding
	err      string
	counts   map[string]int
	fired    int // plan actions that fired
	lastRun  *runInfo // trace of the last invocation of the scenario
}

func sameTree(a, b *obs) bool { return a.show() == b.show() && a.Remote.Hash == b.Remote.Hash }

func runScenario(t *tools, name string, sc scenario, drv *Nadrv) *caseResult {
	cr := &caseResult{sc: sc, counts: map[string]int{}}
	sb, err := newSandbox(t, name, sc.SysEmail)
	defer os.RemoveAll(filepath.Join(t.root, name))
	if err != nil {
		cr.err = err.Error()
		return cr
	}
	orc := &oracleState{lastCur: "-"}
	prev := sb.observe()
	staleBy := ""     // window of the kill that left a `next` whose HEAD equals the remote
	racePush := false // this run had a user commit injected right before `git push` (push rejected)
	raceLost := false // … and was killed after `mv next pN` and before `ln -s`; cleared by the first run that is not killed
	add := func(evNo int, fs ...finding) {
		for _, f := range fs {
			f.ev = evNo
			if f.attrs == nil {
				f.attrs = map[string]any{}
			}
			cr.findings = append(cr.findings, f)
		}
	}
	for evNo, ev := range sc.Events {
		parts := strings.Split(ev, ":")
		var r *runInfo
		switch parts[0] {
		case "c":
			if err := userCommit(sb.dir, sb.env(), parts[1] == "g", parts[2], parts[3] == "1"); err != nil {
				cr.err = err.Error()
				return cr
			}
			cr.counts["event:commit-"+map[bool]string{true: "good", false: "bad"}[parts[1] == "g"]]++
		case "r":
			plan := parsePlan(parts[1])
			r = sb.run(plan, sc.Wrapper && len(plan) == 0)
			cr.lastRun = r
			cr.counts["event:run"]++
			cr.counts["run-exit:"+r.Exit]++
			racePush = false
			for _, it := range plan {
				if (it.Act == "O" || it.Act == "On" || it.Act == "Ot") && it.K == len(r.Lines) && isExternal(r.Cmds[it.K-1], t.gitFn) {
					r.OrphanRan = true
					cr.counts["orphan-finished-command"]++
				}
				if it.Act == "G" && it.K == len(r.Lines) && strings.HasPrefix(r.Cmds[it.K-1], "netspoc ") {
					cr.counts["group-kill-inside-the-compiler"]++
				}
				if it.K <= len(r.Lines) {
					cr.fired++
					cr.counts["action-fired:"+strings.TrimRight(it.Act, "0123456789")]++
					if (it.Act == "cg" || it.Act == "cb") && strings.HasPrefix(r.Cmds[it.K-1], "git push --quiet") {
						racePush = true // a user commit lands between `git pull` and `git push` of THIS run
					}
				}
			}
			if w := classifyKill(r); w != "" {
				cr.counts["kill-window:"+w]++
				if w == "mv_ln" && racePush {
					raceLost = true // pN exists, its number is neither in the repository nor in the link
				}
			}
			for _, n := range r.Nested {
				cr.counts["nested-exit:"+n.Exit]++
			}
		}
		o := sb.observe()
		line := o.show()
		if r != nil {
			line = r.show() + " " + line
		}
		cr.impl = append(cr.impl, line)
		// oracle
		add(evNo, orc.check(o, prev, ev, r, cut{staleBy, raceLost})...)
		if r != nil && r.Exit != "killed" {
			raceLost = false // judged once: what a LATER run does wrong is not this finding any more
		}
		if r != nil {
			// 4. at most one invocation works at a time.  Judged without looking at how the script
			// spells its locking: (a) the hook that starts a second invocation first probes the flock
			// on policies/LOCK itself -- if somebody holds it, the second invocation must end with exit 1
			// without having run a single writing command; (b) the writing spans of the outer and of a
			// invocation (first writing command .. last command / end of its orphaned child, from the
			// trace) must not contain a second invocation that writes or ends with anything but exit 1.
			of, ot, ook := r.writerSpan(t.gitFn)
			for _, n := range r.Nested {
				_, _, nok := n.writerSpan(t.gitFn)
				if len(n.Times) == 0 {
					continue
				}
				nf, nt := n.Times[0], n.Times[len(n.Times)-1] // whole life of the second invocation
				switch {
				case n.LockHeld == "1" && (nok || n.Exit != "1" && n.Exit != "killed"):
					add(evNo, fnd("second_invocation_worked_while_locked",
						"a second invocation started while the flock on policies/LOCK was held did not stop with exit 1 before its first writing command (exit "+n.Exit+")",
						"via", "lock_probe", "nested_exit", n.Exit, "nested_wrote", nok))
				case ook && of < nf && nt < ot && (nok || n.Exit != "1" && n.Exit != "killed"):
					add(evNo, fnd("second_invocation_worked_while_locked",
						"a second invocation that lived between two writing commands of the first one (or before its orphaned child had finished) did not stop with exit 1 before its first writing command (exit "+n.Exit+")",
						"via", "trace_overlap", "nested_exit", n.Exit, "nested_wrote", nok))
				}
				if n.LockHeld != "" {
					cr.counts["nested-lock-probe:held="+n.LockHeld]++
				}
			}
			// remember in which window a killed run (this one or a nested one) left a `next`
			// whose HEAD equals the remote head
			if o.Next != nil && o.Next.HeadIsR {
				for _, kr := range append([]*runInfo{r}, r.Nested...) {
					if w := classifyKill(kr); w == "clone_commit" || w == "push_promote" {
						staleBy = w
					}
				}
			} else {
				staleBy = ""
			}
			if r.Wrapper != "" && sc.Wrapper && strings.Contains(r.Wrapper, "Current policy is") {
				want := "Current policy is p" + o.Cur
				if o.Cur == "-" {
					want = "Current policy is"
				}
				if !strings.Contains(r.Wrapper, want) {
					add(evNo, fnd("wrapper_reports_other_policy", "bin/newpolicy printed "+strings.TrimSpace(r.Wrapper)+" but current is "+o.Cur))
				}
				cr.counts["wrapper-output-checked"]++
			}
		} else if o.Next != nil && !o.Next.HeadIsR {
			staleBy = ""
		}
		prev = o
	}
	if sc.Kind == "par" {
		cr.parallel(sb, orc, prev)
		cr.model = drv.Ask(sc.line() + ";r:")
		cr.predicted()
		return cr
	}
	cr.model = drv.Ask(sc.line())
	cr.predicted()
	return cr
}

// predicted: does the model of the script show, for the event of each finding, exactly what the
// real run showed (exit status, trace, tree)?  "yes": the failure is what the model of this script
// predicts on this input; "no": the real script did something else; "n/a": model not comparable.
func (cr *caseResult) predicted() {
	ms := strings.Split(cr.model, ";")
	for i := range cr.findings {
		f := &cr.findings[i]
		v := "n/a"
		if !modelStale && cr.sc.Kind == "seq" && f.ev < len(cr.impl) {
			v = "no"
			if f.ev < len(ms) && ms[f.ev] == cr.impl[f.ev] {
				v = "yes"
			}
		}
		f.attrs["model_predicts"] = v
	}
}

// parallel: start sc.Par invocations at the same moment; afterwards the tree must be what ONE
// undisturbed run produces (model: the events followed by `r:`), every exit status is 0 or 1,
// and the working phases (after a successful flock) never overlap.
func (cr *caseResult) parallel(sb *sandbox, orc *oracleState, prev *obs) {
	type job struct {
		cmd *exec.Cmd
		tag string
	}
	var jobs []job
	for i := 0; i < cr.sc.Par; i++ {
		sb.seq++
		tag := fmt.Sprintf("p%d", sb.seq)
		cmd, _, err := startScript(sb.t, sb.dir, sb.env(), tag, nil, false)
		if err != nil {
			cr.err = err.Error()
			return
		}
		jobs = append(jobs, job{cmd, tag})
	}
	type span struct{ from, to float64 }
	var spans []span
	exits := []string{}
	for _, j := range jobs {
		exit := waitScript(j.cmd)
		exits = append(exits, exit)
		r := collect(sb.dir, j.tag, exit, nil)
		cr.counts["par-exit:"+exit]++
		// working phase from the trace: first writing command .. last command (no matter how the
		// script spells flock / its exit)
		if f, to, ok := r.writerSpan(sb.t.gitFn); ok {
			spans = append(spans, span{f, to})
		}
	}
	evNo := len(cr.sc.Events)
	sort.Slice(spans, func(i, j int) bool { return spans[i].from < spans[j].from })
	for i := 1; i < len(spans); i++ {
		if spans[i].from < spans[i-1].to {
			cr.findings = append(cr.findings, finding{pred: "two_workers_at_the_same_time", what: "the writing phases of two invocations started at the same time overlap", attrs: map[string]any{"via": "trace_overlap"}, ev: evNo})
		}
	}
	sort.Strings(exits)
	for _, e := range exits {
		if e != "0" && e != "1" {
			cr.findings = append(cr.findings, finding{pred: "parallel_exit_status", what: "parallel invocation ended with " + e, attrs: map[string]any{"exit": e}, ev: evNo})
		}
	}
	if len(exits) > 0 && exits[0] != "0" {
		cr.findings = append(cr.findings, finding{pred: "parallel_exit_status", what: "no parallel invocation ended with 0", attrs: map[string]any{"exit": "none-0"}, ev: evNo})
	}
	o := sb.observe()
	for _, f := range orc.check(o, prev, "par", nil, cut{}) {
		f.ev = evNo
		cr.findings = append(cr.findings, f)
	}
	// after the parallel start the database must be what one run makes of it
	if prev.Remote.Good {
		newest := false
		for _, d := range o.Dirs {
			if strconv.Itoa(d.N) == o.Cur && d.HasStamp && d.SrcGood && d.HeadIsR && d.StampOK {
				newest = true
			}
		}
		if !newest {
			cr.findings = append(cr.findings, finding{pred: "not_promoted_other", what: "after invocations started at the same time in a quiescent state the newest compiling revision is not current (" + o.Cur + ")",
				attrs: map[string]any{"exit": strings.Join(exits, ","), "window": "parallel"}, ev: evNo})
		}
	}
	cr.impl = append(cr.impl, o.show())
}

// ---------------------------------------------------------------------------- generators

func genCommit(rng *RNG) string {
	gb := "g"
	if rng.Chance(38) {
		gb = "b"
	}
	pol := "-"
	if rng.Chance(6) {
		pol = strconv.Itoa(1 + rng.Intn(40))
	}
	em := "1"
	if rng.Chance(12) {
		em = "0"
	}
	return fmt.Sprintf("c:%s:%s:%s", gb, pol, em)
}

// interesting positions (main-shell command numbers of a first run / of a later run differ by a few)
func genK(rng *RNG) int {
	switch rng.Intn(10) {
	case 0, 1:
		return 1 + rng.Intn(14) // before the loop
	case 2, 3, 4:
		return 14 + rng.Intn(30) // prepare_next .. compile
	case 5, 6, 7:
		return 38 + rng.Intn(24) // handle_success
	default:
		return 1 + rng.Intn(125)
	}
}

func genRun(rng *RNG) string {
	switch x := rng.Intn(100); {
	case x < 30:
		return "r:"
	case x < 62:
		return fmt.Sprintf("r:%d=K", genK(rng))
	case x < 72:
		return fmt.Sprintf("r:%d=%s", genK(rng), Pick(rng, []string{"cg", "cb"}))
	case x < 80:
		k := genK(rng)
		return fmt.Sprintf("r:%d=%s,%d=K", k, Pick(rng, []string{"cg", "cb"}), k+1+rng.Intn(12))
	case x < 88:
		return fmt.Sprintf("r:%d=n", genK(rng))
	case x < 92:
		return fmt.Sprintf("r:%d=nK%d", genK(rng), genK(rng))
	case x < 93:
		return fmt.Sprintf("r:%d=%s", genK(rng), Pick(rng, []string{"T", "H", "Ot"}))
	case x < 94:
		return fmt.Sprintf("r:%d=G", 30+rng.Intn(12))
	case x < 96:
		return fmt.Sprintf("r:%d=O", genK(rng))
	default:
		return fmt.Sprintf("r:%d=On", genK(rng))
	}
}

func genScenario(rng *RNG, maxLen int) scenario {
	sc := scenario{Kind: "seq", SysEmail: rng.Chance(45), Wrapper: rng.Chance(30)}
	n := 2 + rng.Intn(maxLen-1)
	if rng.Chance(70) {
		sc.Events = append(sc.Events, "r:")
	}
	for len(sc.Events) < n {
		if rng.Chance(45) {
			sc.Events = append(sc.Events, genCommit(rng))
		}
		sc.Events = append(sc.Events, genRun(rng))
		if rng.Chance(35) {
			sc.Events = append(sc.Events, "r:")
		}
	}
	return sc
}

var corpus = []scenario{
	// leftover code of a killed run must not end up in the next policy: killed after the compile (40 = netspoc is
	// the 38th command of a second run), next commit has other devices
	{Kind: "seq", Events: []string{"r:", "c:g:-:1", "r:42=K", "c:g:-:1", "r:", "r:"}},
	// the script is killed while the compiler / git push runs; a second invocation before the child has ended
	{Kind: "seq", Events: []string{"r:", "c:g:-:1", "r:38=On", "r:", "c:g:-:1", "r:"}},
	{Kind: "seq", Events: []string{"r:", "c:g:-:1", "r:47=On", "r:", "r:"}},
	{Kind: "seq", Events: []string{"r:", "c:g:-:1", "r:38=O", "r:", "c:g:-:1", "r:"}},
	// the whole process group is killed while the compiler is half way (partial output in next/code, lock free at once)
	{Kind: "seq", Events: []string{"r:", "c:g:-:1", "r:38=G", "r:", "c:g:-:1", "r:"}},
	{Kind: "seq", Events: []string{"r:", "c:b:-:1", "r:38=G", "r:38=G", "r:"}},
	{Kind: "seq", SysEmail: true, Events: []string{"r:16=G", "c:g:-:1", "r:", "r:"}},
	// SIGTERM / SIGHUP to the script process alone: between two commands, and while the compiler runs (the
	// child finishes); a script without signal handler dies exactly as with SIGKILL
	{Kind: "seq", Events: []string{"r:", "c:g:-:1", "r:38=Ot", "r:", "c:g:-:1", "r:"}},
	{Kind: "seq", Events: []string{"r:", "c:g:-:1", "r:40=T", "r:", "c:g:-:1", "r:"}},
	{Kind: "seq", Events: []string{"r:", "c:g:-:1", "r:45=H", "r:", "r:"}},
	{Kind: "seq", Events: []string{"r:", "c:g:-:1", "r:49=T", "r:", "r:"}},
	// F-C19: killed between push and promotion (second run: 47 = git push, 48 = git reset, 50 = mv, 51 = rm, 52 = ln)
	{Kind: "seq", Events: []string{"r:", "c:g:-:1", "r:49=K", "r:", "r:"}},
	// killed during the compile
	{Kind: "seq", Events: []string{"r:", "c:g:-:1", "r:38=K", "r:", "r:", "c:g:-:1", "r:"}},
	// race commit right before git push, then link lost, then number reused
	{Kind: "seq", Events: []string{"r:", "c:g:-:1", "r:47=cg,52=K", "r:", "r:"}},
	// … and long after that episode a hand-edited (smaller) POLICY number: whatever goes wrong now is NOT that finding
	{Kind: "seq", Events: []string{"r:", "c:g:-:1", "r:47=cg,52=K", "r:", "r:", "c:g:2:1", "r:", "r:"}},
	// bad commit is reverted (system user without e-mail) / not reverted (with e-mail)
	{Kind: "seq", Events: []string{"r:", "c:b:-:1", "r:", "c:b:-:1", "c:b:-:1", "r:", "r:", "c:g:-:1", "r:"}},
	{Kind: "seq", SysEmail: true, Events: []string{"r:", "c:b:-:1", "r:", "r:", "c:g:-:1", "r:"}},
	// POLICY file larger / smaller than the link (as in the repository's own test)
	{Kind: "seq", Events: []string{"r:", "c:g:123:1", "r:", "c:g:9:1", "r:"}},
	// a hand-written POLICY number with a leading zero and a digit 9: decimal for grep/expr/[ -gt ]
	{Kind: "seq", Events: []string{"r:", "c:g:0190:1", "r:", "r:", "c:g:-:1", "r:"}},
	// second invocation at every phase
	{Kind: "seq", Events: []string{"r:5=n", "c:g:-:1", "r:12=n,30=n,50=n", "r:"}, Wrapper: true},
	// commit while compiling: merge on pull
	{Kind: "seq", Events: []string{"r:", "c:g:-:1", "r:40=cg", "r:", "r:"}},
	{Kind: "seq", Events: []string{"r:", "c:g:-:1", "r:40=cb", "r:", "r:"}},
}

// ---------------------------------------------------------------------------- main

func runC19(ctx *Ctx) *Result {
	res := NewResult()
	res.Rule = "scenario = sequence of user commits (good/bad, optional POLICY edit, author with/without e-mail) and invocations of the " +
		"real bin/newpolicy.sh in a sandbox, each invocation with a plan (kill -9 before the k-th main-shell command, user commit " +
		"before the k-th command, nested second invocation before the k-th command, optionally itself killed); corpus, then every kill " +
		"position of base histories (quick: 2 histories, thorough: all histories and commit/kill pairs around pull/push), then seeded " +
		"random scenarios, then parallel invocations. Compared with the Lean model after every event: exit status, line trace, tree. " +
		"non-trivial = at least one commit and one plan action that fired (or a parallel start); distinct by scenario text"
	res.Assumptions = []string{
		"kills happen between main-shell simple commands (SIGKILL from the DEBUG trap) or at the start of the child of one command (O/On: the child finishes its command as an orphan)",
		"after a kill the harness waits until the already forked elements of a pipeline have ended (they inherit fd 9 and keep the flock for a moment; a second invocation started in that moment would exit 1, which the model does not show)",
		"git 2.39 defaults: pull without strategy refuses divergent branches; no pull.rebase configured for the system user",
		"stub compiler: succeeds iff the source tree has no file BAD; mail, sudo are stubs",
	}
	t, err := setupTools(ctx)
	if t != nil {
		defer os.RemoveAll(t.root)
	}
	if err != nil {
		res.Disagree("sandbox setup", nil, err.Error(), "")
		return res
	}
	drv := ctx.StartNadrv("c19")
	defer drv.Close()

	if u := drv.Ask("?understood"); u != "1" {
		modelStale = true
		res.Notes = append(res.Notes, "shgen did not understand the script ("+strings.TrimPrefix(u, "0 ")+
			"): the model is the last understood program and is NOT compared; the oracle on the real tree runs alone")
	}
	if !modelStale {
		writerLines = map[string]bool{}
		for _, l := range strings.Fields(drv.Ask("?writers")) {
			writerLines[l] = true
		}
		res.Notes = append(res.Notes, fmt.Sprintf("writing commands: %d source lines taken from the regenerated program (Cmd.mutating)", len(writerLines)))
		if len(writerLines) == 0 {
			res.Disagree("driver", nil, "the regenerated program has no writing command", "")
			writerLines = nil
		}
	}
	if ctx.Replay != "" {
		var sc scenario
		if err := ReadReplay(ctx.Replay, &sc); err != nil {
			fmt.Fprintln(os.Stderr, err)
			os.Exit(2)
		}
		record(res, runScenario(t, "replay", sc, drv))
		return res
	}

	var scs []scenario
	scs = append(scs, corpus...)
	// some seeded random scenarios right after the corpus, so that the quick tier reaches them before
	// its time budget ends (the rest of the random stream comes last)
	for i := 0; i < ctx.N(16, 150); i++ {
		sc := genScenario(ctx.Rng.Fork(), 6)
		sc.Src = "random"
		scs = append(scs, sc)
	}
	// … and a few parallel starts
	for i := 0; i < ctx.N(3, 24); i++ {
		rng := ctx.Rng.Fork()
		sc := scenario{Kind: "par", SysEmail: rng.Bool(), Par: 2 + rng.Intn(3), Events: []string{"r:", "c:g:-:1"}}
		if i%3 == 2 {
			sc.Events = []string{genCommit(rng)}
		}
		scs = append(scs, sc)
	}

	// every kill position of base histories: the length of the undisturbed run is measured on the real script
	bases := [][]string{
		{"r:", "c:g:-:1"},
		{"r:", "c:b:-:1"},
	}
	if ctx.Thorough() {
		bases = append(bases, []string{}, []string{"c:b:-:1"}, []string{"r:", "c:g:-:0"}, []string{"r:", "c:b:-:1", "c:b:-:1"},
			[]string{"r:", "c:g:-:1", "r:38=K", "c:g:-:1"}, []string{"r:", "c:g:77:1"})
	}
	sysEmails := []bool{false}
	if ctx.Thorough() {
		sysEmails = []bool{false, true}
	}
	probeNo := 0
	nHead := len(scs)
	var family []scenario
	for _, se := range sysEmails {
		for _, b := range bases {
			probeNo++
			probe := runScenario(t, fmt.Sprintf("probe%d", probeNo), scenario{Kind: "seq", SysEmail: se, Events: append(append([]string{}, b...), "r:")}, drv)
			record(res, probe)
			if probe.err != "" || len(probe.impl) == 0 {
				continue
			}
			if probeNo <= 2 && probe.lastRun != nil {
				// a commit that arrives while the compiler runs AND a kill of that same run in the promote
				// window (after `mv next pN`: before `rm -f current`, before `ln -s`, after it), then
				// undisturbed runs: always run, right after the corpus.  Positions from the real trace
				// of the undisturbed run (commands of the model's writer lines near the end as fallback).
				r := probe.lastRun
				kc, ks := 0, []int{}
				for i, c := range r.Cmds {
					switch {
					case strings.HasPrefix(c, "netspoc "):
						kc = i + 1
					case strings.HasPrefix(c, "rm -f $CURRENT"), strings.HasPrefix(c, "ln -s $POLICY"):
						ks = append(ks, i+1)
						if strings.HasPrefix(c, "ln -s $POLICY") {
							ks = append(ks, i+2)
						}
					}
				}
				if kc == 0 || len(ks) == 0 {
					res.Count("promote-window family: positions not found in the trace, using the last commands")
					kc, ks = 0, nil
					for i := range r.Cmds {
						if r.isWriter(i, t.gitFn) && kc == 0 && i > len(r.Cmds)/2 {
							kc = i + 1
						}
					}
					for k := len(r.Cmds) - 9; k <= len(r.Cmds)-4; k++ {
						ks = append(ks, k)
					}
				}
				// a further commit arrives and a second invocation is started before EVERY command of the first
				// one from the end of the compile to its last command (promotion, clean-up of the old code
				// directory, touch LOCK, exit): as long as the first has not exited, the second must refuse
				if probeNo == 1 || ctx.Thorough() {
					for k := kc + 1; k <= len(r.Cmds); k++ {
						evs := append(append([]string{}, b...), fmt.Sprintf("r:%d=cg,%d=n", k, k), "r:")
						family = append(family, scenario{Kind: "seq", SysEmail: se, Events: evs, Src: "second-invocation-after-compile"})
					}
				}
				for _, cpos := range []int{kc, kc + 1} {
					for _, k := range ks {
						if cpos < 1 || k <= cpos {
							continue
						}
						for _, gb := range []string{"cg"} {
							evs := append(append([]string{}, b...), fmt.Sprintf("r:%d=%s,%d=K", cpos, gb, k), "r:", "r:")
							family = append(family, scenario{Kind: "seq", SysEmail: se, Events: evs, Src: "promote-window"})
						}
					}
				}
			}
			last := probe.impl[len(probe.impl)-1]
			tr := last[strings.Index(last, "trace=")+6:]
			tr = tr[:strings.Index(tr, " ")]
			L := len(strings.Split(tr, "."))
			for k := 1; k <= L; k++ {
				evs := append(append([]string{}, b...), fmt.Sprintf("r:%d=K", k), "r:")
				if ctx.Thorough() || k%3 == 0 {
					evs = append(evs, "c:g:-:1", "r:") // … and the database recovers with the next commit
				}
				scs = append(scs, scenario{Kind: "seq", SysEmail: se, Events: evs})
				if ctx.Thorough() {
					evs2 := append(append([]string{}, b...), fmt.Sprintf("r:%d=n", k), "r:")
					scs = append(scs, scenario{Kind: "seq", SysEmail: se, Events: evs2})
				}
				// the script is killed while the child of its k-th command runs (the child lives on and
				// keeps the lock), without / with a second invocation before the child has finished
				if ctx.Thorough() || k%4 == 1 {
					evs3 := append(append([]string{}, b...), fmt.Sprintf("r:%d=O", k), "r:")
					scs = append(scs, scenario{Kind: "seq", SysEmail: se, Events: evs3})
				}
				if ctx.Thorough() || k%4 == 2 {
					sg := []string{"T", "H", "Ot"}[(k/4)%3]
					if ctx.Thorough() {
						sg = []string{"T", "H", "Ot"}[k%3]
					}
					evsT := append(append([]string{}, b...), fmt.Sprintf("r:%d=%s", k, sg), "r:", "c:g:-:1", "r:")
					scs = append(scs, scenario{Kind: "seq", SysEmail: se, Events: evsT})
				}
				if ctx.Thorough() || k%8 == 6 {
					evsG := append(append([]string{}, b...), fmt.Sprintf("r:%d=G", k), "r:", "c:g:-:1", "r:")
					scs = append(scs, scenario{Kind: "seq", SysEmail: se, Events: evsG})
				}
				if ctx.Thorough() || k%4 == 3 {
					evs4 := append(append([]string{}, b...), fmt.Sprintf("r:%d=On", k), "r:", "c:g:-:1", "r:")
					scs = append(scs, scenario{Kind: "seq", SysEmail: se, Events: evs4})
				}
			}
			if ctx.Thorough() && !se && probeNo <= 2 {
				// commit before k1, kill before k2, for k1 around commit..push and every later k2
				for k1 := L - 22; k1 <= L-8; k1++ {
					for k2 := k1 + 1; k2 <= L; k2++ {
						for _, c := range []string{"cg", "cb"} {
							evs := append(append([]string{}, b...), fmt.Sprintf("r:%d=%s,%d=K", k1, c, k2), "r:", "r:")
							scs = append(scs, scenario{Kind: "seq", SysEmail: se, Events: evs})
						}
					}
				}
			}
		}
	}
	// the promote-window family runs right after the corpus / early random / early parallel scenarios
	scs = append(scs[:nHead:nHead], append(family, scs[nHead:]...)...)
	nPar := ctx.N(12, 150)
	for i := 0; i < nPar; i++ {
		rng := ctx.Rng.Fork()
		sc := scenario{Kind: "par", SysEmail: rng.Bool(), Par: 2 + rng.Intn(3)}
		if rng.Chance(60) {
			sc.Events = append(sc.Events, "r:")
		}
		sc.Events = append(sc.Events, genCommit(rng))
		scs = append(scs, sc)
	}
	nRandom := ctx.N(120, 1500)
	for i := 0; i < nRandom; i++ {
		sc := genScenario(ctx.Rng.Fork(), ctx.N(6, 9))
		sc.Src = "random"
		scs = append(scs, sc)
	}

	// run in parallel workers, record in order
	results := make([]*caseResult, len(scs))
	known := loadKnown(ctx.Verif)
	var newFailure atomic.Bool
	var wg sync.WaitGroup
	work := make(chan int)
	workers := 14
	for w := 0; w < workers; w++ {
		wg.Add(1)
		go func() {
			defer wg.Done()
			for i := range work {
				results[i] = runScenario(t, fmt.Sprintf("c%d", i), scs[i], drv)
				for _, f := range results[i].findings {
					if known != nil && !isKnown(known, f) {
						newFailure.Store(true)
					}
				}
			}
		}()
	}
	deadline := time.Now().Add(time.Duration(ctx.N(45, 720)) * time.Second)
	skipped := 0
	for i := range scs {
		if !ctx.Thorough() && newFailure.Load() && i >= nHead+len(family) {
			// quick: a failure outside the known findings already has a replayable scenario -- the run is
			// red anyway; the corpus and the promote-window family are always completed
			skipped = len(scs) - i
			res.Notes = append(res.Notes, "quick search ended early: a new failure with a replayable scenario was found")
			break
		}
		if time.Now().After(deadline) {
			skipped = len(scs) - i
			break
		}
		work <- i
	}
	close(work)
	wg.Wait()
	// A disagreement or sandbox error seen while 14 sandboxes (and other jobs of the machine) ran at
	// once may be an environment failure (a hook that could not start, a time-out).  Such a case is
	// inconclusive: it is run again alone, and only what shows again is reported.
	reruns := 0
	for i, cr := range results {
		if cr == nil {
			continue
		}
		if st, _ := mismatch(cr); st != "" {
			if reruns++; reruns > 6 {
				continue // many cases disagree: not an environment fluke, the first verdicts stand
			}
			again := runScenario(t, fmt.Sprintf("again%d", i), scs[i], drv)
			if st2, _ := mismatch(again); st2 == "" {
				again.counts["inconclusive: first run disagreed, the serial re-run did not"]++
				res.Notes = append(res.Notes, "not reproduced when run alone (taken as environment failure): "+scs[i].line()+" — "+st)
			}
			// the re-run may only CONFIRM: what the oracle saw on the real tree in the first run is a
			// hard verdict (the tree was judged as it was, whatever the hooks did) and stays reported
			for _, f := range cr.findings {
				dup := false
				for _, g := range again.findings {
					if g.pred == f.pred && g.ev == f.ev {
						dup = true
					}
				}
				if !dup {
					f.attrs["seen_in"] = "first_run_only"
					again.findings = append(again.findings, f)
					again.counts["finding kept from the first run of a re-run case"]++
				}
			}
			results[i] = again
		}
	}
	for _, cr := range results {
		if cr != nil {
			record(res, cr)
		}
	}
	if skipped > 0 {
		res.Notes = append(res.Notes, fmt.Sprintf("time budget reached or search ended early: %d generated scenarios not run", skipped))
	}
	res.Exhaustive = false
	_ = context.Background
	return res
}

// knownSigs: signatures of known/C19.jsonl (status known).  Only used to END the quick search early once
// a failure outside them has a replayable scenario; the verdict known / new is ./check's.
func loadKnown(verif string) []map[string]any {
	var out []map[string]any
	data, err := os.ReadFile(filepath.Join(verif, "known", "C19.jsonl"))
	if err != nil {
		return nil
	}
	for _, l := range strings.Split(string(data), "\n") {
		var k struct {
			Status    string         `json:"status"`
			Signature map[string]any `json:"signature"`
		}
		if json.Unmarshal([]byte(l), &k) == nil && k.Status == "known" && k.Signature != nil {
			out = append(out, k.Signature)
		}
	}
	return out
}

func isKnown(known []map[string]any, f finding) bool {
	sig := map[string]any{"pred": f.pred}
	for k, v := range f.attrs {
		sig[k] = v
	}
	for _, ks := range known {
		ok := true
		for k, v := range ks {
			have, in := sig[k]
			if !in {
				ok = false
				break
			}
			if list, isList := v.([]any); isList {
				hit := false
				for _, x := range list {
					if fmt.Sprint(x) == fmt.Sprint(have) {
						hit = true
					}
				}
				ok = ok && hit
			} else if fmt.Sprint(v) != fmt.Sprint(have) {
				ok = false
			}
		}
		if ok {
			return true
		}
	}
	return false
}

// modelStale: the driver runs a program that is not the translation of the script under test
var modelStale bool

// mismatch: does the run of the real script differ from the model (stream name, first difference)?
func mismatch(cr *caseResult) (string, string) {
	if cr.err != "" {
		return "sandbox", cr.err
	}
	if modelStale {
		return "", ""
	}
	implS := strings.Join(cr.impl, ";")
	if cr.sc.Kind == "seq" && implS != cr.model {
		return "c19 exit status, line trace and tree per event", firstDiff(cr.impl, strings.Split(cr.model, ";"))
	}
	if cr.sc.Kind == "par" && len(cr.impl) > 0 {
		// model = the events followed by ONE undisturbed run: the tree after the parallel start
		// must be the tree after that run
		ms := strings.Split(cr.model, ";")
		if i := strings.Index(ms[len(ms)-1], "cur="); i >= 0 {
			ms[len(ms)-1] = ms[len(ms)-1][i:]
		}
		if implS != strings.Join(ms, ";") {
			return "c19 tree after parallel invocations", firstDiff(cr.impl, ms)
		}
	}
	return "", ""
}

func record(res *Result, cr *caseResult) {
	sc := cr.sc
	if cr.err != "" {
		res.Disagree("sandbox", sc, cr.err, "")
		return
	}
	nCommits := 0
	for _, e := range sc.Events {
		if strings.HasPrefix(e, "c:") {
			nCommits++
		}
	}
	nontrivial := nCommits > 0 && (cr.fired > 0 || sc.Kind == "par")
	res.Eval(sc.canon(), nontrivial)
	res.TracesVsImpl++
	for k, v := range cr.counts {
		res.CountN(k, v)
	}
	res.Count("kind:" + sc.Kind)
	if sc.Src != "" {
		res.Count("stream:" + sc.Src)
	}
	res.Count(fmt.Sprintf("events:%02d", len(sc.Events)))
	implS := strings.Join(cr.impl, ";")
	model := cr.model
	if modelStale {
		res.Count("model-not-compared")
	} else if st, diff := mismatch(cr); st != "" {
		res.Disagree(st, sc, diff, model)
	}
	for _, f := range cr.findings {
		res.Count("oracle:" + f.pred)
		sig := map[string]any{"pred": f.pred}
		for k, v := range f.attrs {
			sig[k] = v
		}
		res.Fail(sig, fmt.Sprintf("%s — after event %d of scenario %s", f.what, f.ev, sc.line()), sc)
	}
	if len(res.Samples) < 3 && nontrivial {
		res.Sample(map[string]any{"scenario": sc.line(), "impl": implS})
	}
}

func firstDiff(impl, model []string) string {
	for i := range impl {
		m := "<missing>"
		if i < len(model) {
			m = model[i]
		}
		if impl[i] != m {
			return fmt.Sprintf("event %d: impl=%s || model=%s", i, impl[i], m)
		}
	}
	if len(model) != len(impl) {
		return fmt.Sprintf("impl has %d events, model %d: %v", len(impl), len(model), model)
	}
	return "?"
}

var _ = json.Marshal
