package main

// Harness for the ACL line planners of cisco/diff.go (diffASAACLs, diffIOSACLs).
// Serves C14 (step safety) and the ACL streams of C01, C02, C08, C10.
// Real code: drc.Main in-process on generated ASA / IOS configurations (compare-files mode).
// Model + specification side: nadrv-c14.

import (
	"fmt"
	"os"
	"path/filepath"
	"regexp"
	"strconv"
	"strings"

	"github.com/hknutzen/Netspoc-Approve/go/pkg/drc"
	"github.com/pkg/diff/myers"

	. "verifharness/vhlib"
)

func main() {
	Main(map[string]PropFunc{"C14": run, "C01": run, "C02": run, "C08": run, "C10": run})
}

type aclCase struct {
	Backend string    `json:"backend"`
	A       []absLine `json:"a"`
	B       []absLine `json:"b"`
	// Fill > 0: both ACLs are padded with that many filler lines (behind position FillA / FillB), the
	// target with one filler dropped and one new one (large ACLs; kept out of the replay file)
	Fill  int `json:"fill,omitempty"`
	FillA int `json:"fill_a,omitempty"`
	FillB int `json:"fill_b,omitempty"`
	// OnlyB: only the target is padded (one insert run of Fill lines)
	OnlyB bool `json:"only_b,omitempty"`
	// SeqDev: the IOS device prints sequence numbers in front of its ACL entries (IOS-XE)
	SeqDev bool `json:"seq_dev,omitempty"`
}

func asaConfig(name string, ls []absLine) string {
	var sb strings.Builder
	sb.WriteString("interface Ethernet0/0\n nameif inside\n")
	for _, l := range ls {
		if l.Act == "remark" {
			continue
		}
		fmt.Fprintf(&sb, "access-list %s extended %s\n", name, l.body(false))
	}
	if len(ls) > 0 {
		fmt.Fprintf(&sb, "access-group %s in interface inside\n", name)
	}
	return sb.String()
}

// iosConfig: seq = the device is an IOS-XE (16.12 and later) that shows the sequence number of every ACL entry
func iosConfig(name string, ls []absLine, seq bool) string {
	var sb strings.Builder
	if len(ls) > 0 {
		fmt.Fprintf(&sb, "ip access-list extended %s\n", name)
		for i, l := range ls {
			if seq {
				fmt.Fprintf(&sb, " %d %s\n", 10*(i+1), l.body(true))
			} else {
				fmt.Fprintf(&sb, " %s\n", l.body(true))
			}
		}
	}
	sb.WriteString("interface Ethernet0\n")
	if len(ls) > 0 {
		fmt.Fprintf(&sb, " ip access-group %s in\n", name)
	}
	return sb.String()
}

type keyPair struct{ a, b []string }

func (p *keyPair) LenA() int           { return len(p.a) }
func (p *keyPair) LenB() int           { return len(p.b) }
func (p *keyPair) Equal(i, j int) bool { return p.a[i] == p.b[j] }

func ranges(a, b []absLine, ios bool) string {
	p := &keyPair{}
	for _, l := range a {
		p.a = append(p.a, l.body(ios))
	}
	for _, l := range b {
		p.b = append(p.b, l.body(ios))
	}
	var out []string
	for _, r := range myers.Diff(nil, p).Ranges {
		out = append(out, fmt.Sprintf("%d,%d,%d,%d", r.LowA, r.HighA, r.LowB, r.HighB))
	}
	return strings.Join(out, "|")
}

var workDir string
var caseNo int

// runDrc runs `drc -q DEVICE SPOC` in-process.
func runDrc(model, dev, spoc string) (stdout, stderr string, status int, pan string) {
	caseNo++
	d := filepath.Join(workDir, fmt.Sprintf("c%d", caseNo%64))
	os.RemoveAll(d)
	WriteFiles(d, map[string]string{"dev": dev, "spoc": spoc, "spoc.info": `{"model":"` + model + `"}`})
	old := os.Args
	os.Args = []string{"drc", "-q", filepath.Join(d, "dev"), filepath.Join(d, "spoc")}
	stdout, stderr, status, pan = Captured(drc.Main)
	os.Args = old
	return
}

var asaLineRE = regexp.MustCompile(`^(no )?access-list (\S+) line (\d+) extended (.*)$`)
var iosNumRE = regexp.MustCompile(`^(\d+) (.*)$`)
var iosNoNumRE = regexp.MustCompile(`^no (\d+)$`)

// parseScript maps the real change script to the op syntax of nadrv-c14; ok=false if some line
// is not an ACL line operation (then only the config-level checks apply).
func parseScript(t *keyTable, backend, out string) (ops []string, ok bool) {
	ok = true
	for _, line := range strings.Split(strings.TrimSuffix(out, "\n"), "\n") {
		if line == "" {
			continue
		}
		halves := strings.Split(line, "\\N ")
		if backend == "asa" {
			var m [][]string
			for _, h := range halves {
				m = append(m, asaLineRE.FindStringSubmatch(h))
			}
			switch {
			case len(m) == 1 && m[0] != nil:
				n, _ := strconv.Atoi(m[0][3])
				k := t.id(m[0][4])
				if m[0][1] == "" {
					ops = append(ops, fmt.Sprintf("A %d %d", n-1, k))
				} else {
					ops = append(ops, fmt.Sprintf("D %d %d", n-1, k))
				}
			case len(m) == 2 && m[0] != nil && m[1] != nil && m[0][1] != "" && m[1][1] == "":
				dn, _ := strconv.Atoi(m[0][3])
				an, _ := strconv.Atoi(m[1][3])
				ops = append(ops, fmt.Sprintf("M %d %d %d %d", dn-1, t.id(m[0][4]), an-1, t.id(m[1][4])))
			default:
				ok = false
			}
		} else {
			if strings.HasPrefix(line, "ip access-list resequence ") || strings.HasPrefix(line, "ip access-list extended ") {
				continue
			}
			if len(halves) == 2 {
				d := iosNoNumRE.FindStringSubmatch(halves[0])
				a := iosNumRE.FindStringSubmatch(halves[1])
				if d != nil && a != nil {
					ops = append(ops, fmt.Sprintf("M %s %s %d", d[1], a[1], t.id(a[2])))
				} else {
					ok = false
				}
				continue
			}
			if d := iosNoNumRE.FindStringSubmatch(line); d != nil {
				ops = append(ops, "D "+d[1])
			} else if a := iosNumRE.FindStringSubmatch(line); a != nil {
				ops = append(ops, fmt.Sprintf("A %s %d", a[1], t.id(a[2])))
			} else if b, found := strings.CutPrefix(line, "no "); found {
				ops = append(ops, fmt.Sprintf("T %d", t.id(b)))
			} else if strings.HasPrefix(line, "permit ") || strings.HasPrefix(line, "deny ") || strings.HasPrefix(line, "remark ") {
				ops = append(ops, fmt.Sprintf("P %d", t.id(line)))
			} else {
				ok = false
			}
		}
	}
	return
}

func fields(ans string) map[string]string {
	m := map[string]string{}
	for _, f := range strings.Split(ans, "\t") {
		k, v, _ := strings.Cut(f, "=")
		m[k] = v
	}
	return m
}

func linesByKeys(t *keyTable, all []absLine, ios bool, keys string) []absLine {
	byKey := map[int]absLine{}
	for _, l := range all {
		byKey[t.id(l.body(false))] = l
	}
	var out []absLine
	if keys == "" {
		return out
	}
	for _, k := range strings.Split(keys, ",") {
		n, _ := strconv.Atoi(k)
		out = append(out, byKey[n])
	}
	return out
}

func config(backend string, ls []absLine) string { return devConfig(backend, ls, false) }

func devConfig(backend string, ls []absLine, seq bool) string {
	if backend == "asa" {
		return asaConfig("inside_in", ls)
	}
	return iosConfig("e0_in", ls, seq)
}

func model(backend string) string {
	if backend == "asa" {
		return "ASA"
	}
	return "IOS"
}

func run(ctx *Ctx) *Result {
	res := NewResult()
	prop := ctx.Prop
	res.Rule = "pairs (device ACL, target ACL) over 6 source networks x {tcp,udp,ip} x 3 ports x log, related by moves, inserts, deletes, " +
		"log toggles, swaps, action flips (IOS: remarks too); real drc.Main in-process in compare-files mode; script mapped to line " +
		"operations and executed on the strict Lean device (42-packet universe). non-trivial = script with at least one line operation" +
		" (C14: at least one move or a mix of adds and deletes); distinct by canonical text of both ACLs"
	res.Assumptions = []string{"the Myers edit script is computed by the harness with github.com/pkg/diff/myers on the same keys and validated by the driver (valid, normalised)",
		"ACL lines without object-group references"}
	var err error
	workDir, err = os.MkdirTemp("", "vh-acl-")
	if err != nil {
		panic(err)
	}
	defer os.RemoveAll(workDir)
	drv := ctx.StartNadrv("c14")
	defer drv.Close()

	backends := []string{"asa", "ios"}
	switch prop {
	case "C01":
		backends = []string{"asa"}
	case "C02":
		backends = []string{"ios"}
	}

	runCase := func(c0 aclCase) {
		c := c0
		ios := c.Backend == "ios"
		t := newKeyTable()
		if c.Fill > 0 && c.OnlyB {
			c.B = padded(c.B, c.Fill, c.FillB, false)
			res.Count(fmt.Sprintf("%s:insert-run:%d-lines", c.Backend, c.Fill))
		} else if c.Fill > 0 {
			c.A, c.B = padded(c.A, c.Fill, c.FillA, false), padded(c.B, c.Fill, c.FillB, true)
			res.Count(fmt.Sprintf("%s:large-acl:%d-lines", c.Backend, c.Fill/1000*1000))
		}
		if !ios {
			// remarks are IOS only in this generator
			strip := func(ls []absLine) (out []absLine) {
				for _, l := range ls {
					if l.Act != "remark" {
						out = append(out, l)
					}
				}
				return
			}
			c.A, c.B = strip(c.A), strip(c.B)
		}
		if len(c.A) == 0 || len(c.B) == 0 {
			res.Count(c.Backend + ":empty-side-skipped")
			return
		}
		common := false
		inA := map[string]bool{}
		for _, x := range c.A {
			inA[x.body(false)] = true
		}
		for _, y := range c.B {
			if inA[y.body(false)] {
				common = true
			}
		}
		devText, spocText := devConfig(c.Backend, c.A, c.SeqDev), config(c.Backend, c.B)
		out, errOut, status, pan := runDrc(model(c.Backend), devText, spocText)
		canon := c.Backend + "\n" + devText + "--\n" + spocText
		if ios && c.OnlyB && c.Fill >= 10000 && pan == "" && status != 0 && strings.Contains(errOut, "Can't insert more than 9999 ACL lines at once") {
			// documented limit of the IOS planner (numbering leaves room for 9999 lines between two entries): refused
			// with a diagnostic, nothing sent
			res.Eval(canon, false)
			res.Count("ios:insert-run-limit-refused")
			return
		}
		if pan != "" || status != 0 {
			res.Eval(canon, false)
			res.Count("drc-error")
			res.Fail(map[string]any{"pred": "drc_failed_on_generated_acl", "backend": c.Backend},
				fmt.Sprintf("drc exit %d panic %q stderr %q", status, pan, errOut), c0)
			return
		}
		// encode with a-lines first so that key numbers are stable
		al, bl := encLines(t, c.A), encLines(t, c.B)
		// keys of texts as drc prints them: IOS bodies differ from ASA bodies only in address spelling;
		// register the printed spelling under the same number
		if ios {
			for _, l := range append(append([]absLine{}, c.A...), c.B...) {
				t.m[l.body(true)] = t.id(l.body(false))
			}
		}
		ops, parsed := parseScript(t, c.Backend, out)
		if c.OnlyB && c.Fill > 0 {
			// one long insert run: judged here (the Lean planner takes minutes on 10^4 inserts): exactly the new lines are
			// added, in target order, at strictly increasing positions (IOS: numbers that fit between the two
			// resequenced neighbours), nothing is deleted or moved, and the result compares equal to the target
			res.Eval(canon, parsed && len(ops) > 0)
			res.TracesVsImpl++
			bad := ""
			want := 0
			prev := -1
			for _, l := range c.B {
				if l.Src >= len(srcNets) {
					want++
				}
			}
			if !parsed || len(ops) != want {
				bad = fmt.Sprintf("%d line operations for %d new lines (parsed=%v)", len(ops), want, parsed)
			}
			for _, op := range ops {
				var n, k int
				if _, err := fmt.Sscanf(op, "A %d %d", &n, &k); err != nil {
					bad = "operation other than an insert: " + op
					break
				}
				if n <= prev {
					bad = fmt.Sprintf("insert positions not increasing: %d after %d", n, prev)
					break
				}
				if ios && (n/10000 != c.FillB || n%10000 == 0) && c.FillB < len(c.A) {
					bad = fmt.Sprintf("number %d does not fit between entries %d and %d of the resequenced ACL", n, c.FillB, c.FillB+1)
					break
				}
				prev = n
			}
			if bad == "" {
				out2, _, st2, pan2 := runDrc(model(c.Backend), devConfig(c.Backend, c.B, c.SeqDev), spocText)
				if pan2 != "" || st2 != 0 || strings.TrimSpace(out2) != "" {
					bad = "the target as device does not compare equal to the target: " + pan2 + out2[:min(len(out2), 200)]
				}
			}
			if bad != "" {
				res.Fail(map[string]any{"pred": "long_insert_run_wrong", "backend": c.Backend}, bad, c0)
			}
			return
		}
		il := "-"
		if parsed {
			il = strings.Join(ops, "|")
			if len(ops) == 0 {
				il = ""
			}
		}
		q := strings.Join([]string{c.Backend, strconv.Itoa(len(packets)), al, bl, ranges(c.A, c.B, ios), il}, "\t")
		f := fields(drv.Ask(q))
		nMoves := strings.Count(il, "M ")
		nontrivial := parsed && len(ops) > 0
		if prop == "C14" {
			nontrivial = parsed && (nMoves > 0 || (strings.Contains(il, "A ") && strings.Contains(il, "D ")))
		}
		res.Eval(canon, nontrivial)
		res.Count(fmt.Sprintf("%s:ops:%02d", c.Backend, min(len(ops), 12)))
		res.Count(fmt.Sprintf("%s:moves:%d", c.Backend, min(nMoves, 4)))
		if f["valid"] != "1" || f["norm"] != "1" {
			res.Disagree("myers script valid+normalised", c0, "ranges "+ranges(c.A, c.B, ios), "valid="+f["valid"]+" norm="+f["norm"])
			return
		}
		if !parsed {
			res.Count(c.Backend + ":script-not-line-ops")
			// expected exactly when the script keeps no line (new ACL is transferred as a whole)
			if common {
				res.Disagree("script shape", c0, out, "expected line operations")
			}
			return
		}
		res.TracesVsImpl++
		if f["agree"] != "1" {
			res.Disagree(c.Backend+" ACL plan (model vs drc)", c0, il, f["model"])
		}
		if len(res.Samples) < 4 && nMoves > 0 {
			res.Sample(map[string]any{"backend": c.Backend, "device": devText, "target": spocText, "script": out, "ops": il, "verdict": f})
		}
		// ---- direct oracle on the real script
		if f["impl.exec"] != "ok" {
			if prop == "C08" || prop == "C01" || prop == "C02" || prop == "C10" {
				res.Fail(map[string]any{"pred": "acl_command_rejected_by_strict_device", "backend": c.Backend},
					"strict device rejects the script ("+f["impl.exec"]+"): "+il, c0)
			}
			return
		}
		wantFinal := f["impl.final"] == "equal" || (ios && f["impl.final"] == "blockequiv")
		remarkSuppr := f["remarkSuppr"] == "1" && f["agree"] == "1"
		if !wantFinal && (prop == "C01" || prop == "C02" || prop == "C10") {
			res.Fail(map[string]any{"pred": "acl_not_converged", "backend": c.Backend, "final": f["impl.final"], "suppressed_move_at_remark": remarkSuppr},
				"executing the script does not yield the target ACL: "+il, c0)
		}
		if prop == "C14" {
			// how often the decidable hypotheses of asa_/ios_steps_safe_partial hold on real scripts
			for _, k := range []string{"safe.hyp", "safe.nocross", "safe.movesem", "safe.nomoves", "safe.noremark", "safe.wf"} {
				if v, ok := f[k]; ok {
					res.Count(c.Backend + ":" + k + "=" + v)
				}
			}
			if f["safe.hyp"] == "1" && f["agree"] == "1" && (f["impl.risk"] != "none" || f["impl.exec"] != "ok") {
				res.Disagree(c.Backend+" step safety: hypotheses of *_steps_safe_partial hold, the script is the model's, yet a step is unsafe (contradicts the theorem: model of the device or of the packets is wrong)",
					c0, "risk="+f["impl.risk"]+" exec="+f["impl.exec"], "risk=none exec=ok")
			}
		}
		if prop == "C14" && f["impl.risk"] != "none" {
			parts := strings.SplitN(f["impl.risk"], ":", 3)
			pk, _ := strconv.Atoi(parts[1])
			if !wantFinal && remarkSuppr {
				// the final state itself is not the target: convergence defect F-C02r, not a step-order defect
				parts[2] = "not_converged_suppressed_move_at_remark"
			}
			// model_predicts: the real script is exactly the script of the Lean model of the unchanged planner, so the
			// unsafe step is the one that model makes on this input (known findings are matched only then)
			res.Fail(map[string]any{"pred": parts[2], "backend": c.Backend, "model_predicts": f["agree"] == "1"},
				fmt.Sprintf("after command %s of %q packet %v gets a verdict that neither the old nor the new ACL gives", parts[0], il, packets[pk]), c0)
		}
		if prop == "C01" || prop == "C02" {
			// second compare on the executed result
			fin := linesByKeys(t, append(append([]absLine{}, c.A...), c.B...), ios, f["impl.finalkeys"])
			out2, _, st2, pan2 := runDrc(model(c.Backend), devConfig(c.Backend, fin, c.SeqDev), spocText)
			if pan2 != "" || st2 != 0 || strings.TrimSpace(out2) != "" {
				res.Fail(map[string]any{"pred": "second_compare_not_empty", "backend": c.Backend, "suppressed_move_at_remark": remarkSuppr},
					"second compare of the executed result reports changes: "+out2, c0)
			}
			if len(ops) == 0 && !wantFinal {
				res.Fail(map[string]any{"pred": "unchanged_reported_for_different_acl", "backend": c.Backend, "suppressed_move_at_remark": remarkSuppr}, "empty script for non-equivalent ACLs", c0)
			}
		}
		if prop == "C10" && len(ops) > 0 {
			// resume from every cut (a joined move may also be cut between its halves)
			states := strings.Split(f["impl.states"], ";")
			for k, st := range states[:len(states)-1] {
				mid := linesByKeys(t, append(append([]absLine{}, c.A...), c.B...), ios, st)
				out2, _, st2, pan2 := runDrc(model(c.Backend), devConfig(c.Backend, mid, c.SeqDev), spocText)
				res.Count("resume-cuts")
				if pan2 != "" || st2 != 0 {
					res.Fail(map[string]any{"pred": "resume_drc_failed", "backend": c.Backend}, fmt.Sprintf("cut %d: drc failed: %s", k, pan2), c0)
					continue
				}
				t2 := newKeyTable()
				al2, bl2 := encLines(t2, mid), encLines(t2, c.B)
				if ios {
					for _, l := range append(append([]absLine{}, mid...), c.B...) {
						t2.m[l.body(true)] = t2.id(l.body(false))
					}
				}
				ops2, parsed2 := parseScript(t2, c.Backend, out2)
				if !parsed2 {
					res.Count("resume-script-not-line-ops")
					continue
				}
				il2 := strings.Join(ops2, "|")
				f2 := fields(drv.Ask(strings.Join([]string{c.Backend, strconv.Itoa(len(packets)), al2, bl2, ranges(mid, c.B, ios), il2}, "\t")))
				okFinal := f2["impl.final"] == "equal" || (ios && f2["impl.final"] == "blockequiv")
				if f2["impl.exec"] != "ok" || !okFinal {
					res.Fail(map[string]any{"pred": "resume_not_converged", "backend": c.Backend},
						fmt.Sprintf("cut after %d commands: second script %q gives exec=%s final=%s", k+1, il2, f2["impl.exec"], f2["impl.final"]), c0)
				}
			}
		}
	}

	if ctx.Replay != "" {
		var c aclCase
		if err := ReadReplay(ctx.Replay, &c); err != nil {
			fmt.Fprintln(os.Stderr, err)
			os.Exit(2)
		}
		runCase(c)
		return res
	}
	for _, c := range corpus() {
		for _, be := range backends {
			c.Backend = be
			runCase(c)
		}
	}
	n := ctx.N(1500, 40000)
	if prop == "C10" {
		n = ctx.N(300, 6000)
	}
	// large ACLs: the same small pairs, padded to sizes where a size guard in the planner could bite
	// (the product of both lengths passes 10^8 at 10001 lines)
	if prop == "C14" || prop == "C01" || prop == "C02" {
		sizes := []int{1200, 10001}
		if ctx.Thorough() {
			sizes = []int{1200, 5000, 10001, 10050, 14000}
		}
		for i, sz := range sizes {
			for _, be := range backends {
				r := ctx.Rng.Fork()
				a, b := genPair(r, be == "ios", 6)
				if i%2 == 1 {
					a, b = genMoveDownIntoMixedRun(r)
				}
				runCase(aclCase{Backend: be, A: a, B: b, Fill: sz, FillA: r.Intn(len(a) + 1), FillB: r.Intn(len(b) + 1)})
			}
		}
	}
	// one insert run at the limit of the IOS numbering scheme: 9999 new lines between two entries must work,
	// 10000 must be refused (ASA has no such limit)
	if prop == "C02" || prop == "C01" || prop == "C08" {
		for _, sz := range []int{9999, 10000} {
			for _, be := range backends {
				r := ctx.Rng.Fork()
				a, _ := genPair(r, be == "ios", 4)
				if len(a) == 0 {
					a = []absLine{{Act: "permit", Proto: "tcp", Src: 1, Port: 22}}
				}
				runCase(aclCase{Backend: be, A: a, B: append([]absLine{}, a...), Fill: sz, OnlyB: true, FillB: r.Intn(len(a) + 1)})
			}
		}
	}
	for i := 0; i < n; i++ {
		r := ctx.Rng.Fork()
		be := backends[i%len(backends)]
		a, b := genPair(r, be == "ios", ctx.N(8, 12))
		if be == "ios" && r.Chance(12) {
			a, b = genRemarkBlockPair(r)
			res.Count("ios:template:insert-at-remark-inside-block")
		} else if r.Chance(8) {
			a, b = genMoveDownIntoMixedRun(r)
			res.Count(be + ":template:move-down-into-mixed-insert-run")
		} else if r.Chance(8) {
			a, b = genTwoSplitsMove(r)
			res.Count(be + ":template:two-splits-move-between-lower-parts")
		}
		c := aclCase{Backend: be, A: a, B: b}
		if be == "ios" && r.Chance(30) {
			c.SeqDev = true
			res.Count("ios:device-shows-sequence-numbers")
		}
		runCase(c)
	}
	return res
}

func corpus() []aclCase {
	p := func(act, proto string, src, port int) absLine {
		return absLine{Act: act, Proto: proto, Src: src, Port: port}
	}
	return []aclCase{
		// F-C14: move down across an overlapping deny that is deleted later
		{A: []absLine{p("permit", "tcp", 1, 22), p("deny", "tcp", 2, 0), p("permit", "udp", 0, 53)},
			B: []absLine{p("permit", "udp", 0, 53), p("permit", "tcp", 1, 22)}},
		// F-C02: suppressed move before a splitting deny
		{A: []absLine{p("permit", "tcp", 1, 80), p("permit", "udp", 0, 53), p("permit", "tcp", 4, 80), p("permit", "tcp", 3, 22)},
			B: []absLine{p("permit", "tcp", 1, 80), p("permit", "tcp", 3, 22), p("deny", "tcp", 2, 0), p("permit", "udp", 0, 53), p("permit", "tcp", 4, 80)}},
		// F-C14b: no common line
		{A: []absLine{p("permit", "tcp", 3, 22), {Act: "deny", Proto: "ip", Src: 0, Log: true}},
			B: []absLine{p("permit", "tcp", 1, 22), p("deny", "ip", 0, 0)}},
		{A: nil, B: []absLine{p("permit", "tcp", 1, 22)}},
		{A: []absLine{p("permit", "tcp", 1, 22)}, B: nil},
	}
}
