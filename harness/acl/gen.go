package main

// Generators for the ACL line streams (ASA `access-list` lines, IOS `ip access-list extended` entries).

import (
	"fmt"
	"strings"

	. "verifharness/vhlib"
)

type absLine struct {
	Act   string `json:"act"`   // permit | deny | remark
	Proto string `json:"proto"` // tcp | udp | ip
	Src   int    `json:"src"`   // index into srcNets
	Port  int    `json:"port"`  // 0 = none
	Log   bool   `json:"log"`
	Text  string `json:"text,omitempty"` // remark text
}

type netSpec struct {
	asa, ios string
	lo, hi   uint32
}

func ip4(a, b, c, d uint32) uint32 { return a<<24 | b<<16 | c<<8 | d }

var srcNets = []netSpec{
	{"any4", "any", 0, 0xffffffff},
	{"10.1.0.0 255.255.0.0", "10.1.0.0 0.0.255.255", ip4(10, 1, 0, 0), ip4(10, 1, 255, 255)},
	{"10.1.2.0 255.255.255.0", "10.1.2.0 0.0.0.255", ip4(10, 1, 2, 0), ip4(10, 1, 2, 255)},
	{"host 10.1.2.3", "host 10.1.2.3", ip4(10, 1, 2, 3), ip4(10, 1, 2, 3)},
	{"10.2.0.0 255.255.0.0", "10.2.0.0 0.0.255.255", ip4(10, 2, 0, 0), ip4(10, 2, 255, 255)},
	{"host 10.9.9.9", "host 10.9.9.9", ip4(10, 9, 9, 9), ip4(10, 9, 9, 9)},
}

// netOf: the source networks of the small universe; an index behind them is a filler host address that no
// packet of the universe has (lines that pad an ACL to the sizes at which size guards could bite).
func netOf(i int) netSpec {
	if i < len(srcNets) {
		return srcNets[i]
	}
	k := uint32(i - len(srcNets))
	a := ip4(10, 200+(k>>16)&31, (k>>8)&255, k&255)
	h := fmt.Sprintf("host 10.%d.%d.%d", 200+(k>>16)&31, (k>>8)&255, k&255)
	return netSpec{h, h, a, a}
}

// padded: ls with n filler lines put in after position at; variant b drops one filler and adds another one.
func padded(ls []absLine, n, at int, variantB bool) []absLine {
	if n == 0 {
		return ls
	}
	at = min(at, len(ls))
	out := append([]absLine{}, ls[:at]...)
	for i := 0; i < n; i++ {
		k := i
		if variantB && i == n/2 {
			k = n
		}
		out = append(out, absLine{Act: "permit", Proto: "tcp", Src: len(srcNets) + k, Port: 80})
	}
	return append(out, ls[at:]...)
}

var pktSrcs = []uint32{ip4(10, 1, 2, 3), ip4(10, 1, 2, 9), ip4(10, 1, 5, 5), ip4(10, 2, 1, 1), ip4(10, 9, 9, 9), ip4(192, 168, 1, 1)}
var pktPorts = []int{22, 53, 80}

type packet struct {
	proto string
	src   uint32
	port  int
}

var packets = func() []packet {
	var l []packet
	for _, pr := range []string{"tcp", "udp"} {
		for _, s := range pktSrcs {
			for _, p := range pktPorts {
				l = append(l, packet{pr, s, p})
			}
		}
	}
	for _, s := range pktSrcs {
		l = append(l, packet{"icmp", s, 0})
	}
	return l
}()

func (l absLine) matches(p packet) bool {
	if l.Act == "remark" {
		return false
	}
	if l.Proto != "ip" && l.Proto != p.proto {
		return false
	}
	n := netOf(l.Src)
	if p.src < n.lo || p.src > n.hi {
		return false
	}
	if l.Port != 0 && l.Port != p.port {
		return false
	}
	return true
}

func (l absLine) mask() uint64 {
	var m uint64
	for i, p := range packets {
		if l.matches(p) {
			m |= 1 << uint(i)
		}
	}
	return m
}

// body is the line text after the ACL name (ASA) / inside the ACL (IOS), without line number.
func (l absLine) body(ios bool) string {
	if l.Act == "remark" {
		return "remark " + l.Text
	}
	n := netOf(l.Src)
	src, dst := n.asa, "any4"
	if ios {
		src, dst = n.ios, "any"
	}
	s := fmt.Sprintf("%s %s %s %s", l.Act, l.Proto, src, dst)
	if l.Port != 0 {
		s += fmt.Sprintf(" eq %d", l.Port)
	}
	if l.Log {
		s += " log"
	}
	return s
}

func (l absLine) mkeyText() string {
	c := l
	c.Log = false
	return c.body(false)
}

// keyTable assigns stable numbers to texts.
type keyTable struct {
	m map[string]int
	l []string
}

func newKeyTable() *keyTable { return &keyTable{m: map[string]int{}} }
func (t *keyTable) id(s string) int {
	if v, ok := t.m[s]; ok {
		return v
	}
	t.l = append(t.l, s)
	t.m[s] = len(t.l)
	return len(t.l)
}

func encLine(t *keyTable, l absLine) string {
	a := "d"
	switch l.Act {
	case "permit":
		a = "p"
	case "remark":
		a = "r"
	}
	return fmt.Sprintf("%d:%d:%s:%d", t.id(l.body(false)), t.id("M:"+l.mkeyText()), a, l.mask())
}

func encLines(t *keyTable, ls []absLine) string {
	s := make([]string, len(ls))
	for i, l := range ls {
		s[i] = encLine(t, l)
	}
	return strings.Join(s, "|")
}

func randLine(r *RNG, ios bool, remarkOK bool) absLine {
	if remarkOK && ios && r.Chance(6) {
		if r.Chance(40) {
			// remark texts that look like the start of an entry (protocol names and numbers, masks, port names)
			return absLine{Act: "remark", Text: Pick(r, []string{"ospf neighbors", "gre tunnel 47", "tcp host 10.1.2.3 eq www",
				"17 is udp", "esp ah", "icmp 10.1.2.3 255.255.255.255 echo", "permit 6 any any eq ssh log"})}
		}
		return absLine{Act: "remark", Text: fmt.Sprintf("note%d", r.Intn(4))}
	}
	l := absLine{Act: "permit", Proto: Pick(r, []string{"tcp", "tcp", "udp", "ip"}), Src: r.Intn(len(srcNets))}
	if r.Chance(40) {
		l.Act = "deny"
	}
	if l.Proto != "ip" && r.Chance(75) {
		l.Port = Pick(r, pktPorts)
	}
	l.Log = r.Chance(12)
	return l
}

// distinctByMkey drops lines whose mkey already occurs (a device cannot hold two such lines).
func distinctByMkey(ls []absLine) []absLine {
	seen := map[string]bool{}
	var out []absLine
	for _, l := range ls {
		k := l.mkeyText()
		if l.Act == "remark" {
			k = "R:" + l.Text
		}
		if !seen[k] {
			seen[k] = true
			out = append(out, l)
		}
	}
	return out
}

// genPair produces a device ACL and a target ACL related by moves, inserts, deletes, log changes.
func genPair(r *RNG, ios bool, maxLen int) (a, b []absLine) {
	n := r.Intn(maxLen + 1)
	for i := 0; i < n; i++ {
		a = append(a, randLine(r, ios, true))
	}
	if r.Chance(70) {
		a = append(a, absLine{Act: "deny", Proto: "ip", Src: 0})
	}
	a = distinctByMkey(a)
	b = append([]absLine{}, a...)
	nmut := r.Intn(5)
	if r.Chance(10) {
		nmut = 0
	}
	for i := 0; i < nmut; i++ {
		switch k := r.Intn(100); {
		case k < 30 && len(b) > 0: // move
			i := r.Intn(len(b))
			l := b[i]
			b = append(b[:i:i], b[i+1:]...)
			j := r.Intn(len(b) + 1)
			b = append(b[:j:j], append([]absLine{l}, b[j:]...)...)
		case k < 55: // insert
			j := r.Intn(len(b) + 1)
			b = append(b[:j:j], append([]absLine{randLine(r, ios, true)}, b[j:]...)...)
		case k < 75 && len(b) > 0: // delete
			i := r.Intn(len(b))
			b = append(b[:i:i], b[i+1:]...)
		case k < 85 && len(b) > 0: // toggle log
			i := r.Intn(len(b))
			if b[i].Act != "remark" {
				b[i].Log = !b[i].Log
			}
		case k < 93 && len(b) > 1: // swap neighbours
			i := r.Intn(len(b) - 1)
			b[i], b[i+1] = b[i+1], b[i]
		default: // flip action of a line
			if len(b) > 0 {
				i := r.Intn(len(b))
				if b[i].Act == "permit" {
					b[i].Act = "deny"
				} else if b[i].Act == "deny" {
					b[i].Act = "permit"
				}
			}
		}
	}
	if r.Chance(4) { // unrelated target
		b = nil
		for i, n := 0, r.Intn(4); i < n; i++ {
			b = append(b, randLine(r, ios, false))
		}
	}
	b = distinctByMkey(b)
	return a, b
}

// genRemarkBlockPair: a block of lines of one action with a remark line inside; the target inserts a line of
// the OTHER action directly in front of the remark (or behind it) and moves an overlapping line of the block
// from below the remark to a place in front of the new line; optional further lines around. The planner has to
// split the block at the insert position although a remark stands there.
func genRemarkBlockPair(r *RNG) (a, b []absLine) {
	blockAct, otherAct := "permit", "deny"
	if r.Chance(35) {
		blockAct, otherAct = otherAct, blockAct
	}
	mk := func(act string, src int, proto string, port int) absLine {
		return absLine{Act: act, Proto: proto, Src: src, Port: port}
	}
	// nested sources: 1 ⊃ 2 ⊃ 3
	narrow, wide := 3, 2
	if r.Chance(30) {
		narrow, wide = 2, 1
	}
	moved := mk(blockAct, narrow, "ip", 0)
	inserted := mk(otherAct, wide, "ip", 0)
	if r.Chance(30) {
		moved.Proto, inserted.Proto = "tcp", "tcp"
		if r.Chance(50) {
			moved.Port, inserted.Port = 22, 22
		}
	}
	remark := absLine{Act: "remark", Text: fmt.Sprintf("section%d", r.Intn(3))}
	filler := func() absLine {
		return mk(blockAct, Pick(r, []int{4, 5}), Pick(r, []string{"tcp", "udp"}), Pick(r, pktPorts))
	}
	var head, mid, tail []absLine
	for i := r.Intn(3); i > 0; i-- {
		head = append(head, filler())
	}
	for i := r.Intn(3); i > 0; i-- {
		mid = append(mid, filler())
	}
	for i := r.Intn(2); i > 0; i-- {
		tail = append(tail, filler())
	}
	last := []absLine{}
	if r.Chance(70) {
		last = append(last, mk(otherAct, 0, "ip", 0))
	}
	a = append(a, head...)
	a = append(a, remark)
	a = append(a, mid...)
	a = append(a, moved)
	a = append(a, tail...)
	a = append(a, last...)
	b = append(b, head...)
	b = append(b, moved)
	if r.Chance(75) {
		b = append(b, inserted, remark)
	} else {
		b = append(b, remark, inserted)
	}
	b = append(b, mid...)
	b = append(b, tail...)
	b = append(b, last...)
	return distinctByMkey(a), distinctByMkey(b)
}

// genMoveDownIntoMixedRun: a line of a block is moved DOWN from the upper part of its block into an insert run
// that starts with new line(s) of the block's action, continues with a new line of the other action and ends
// with the moved line; a line above (of the other action, overlapping) is deleted.  The planner must really
// move the line: the "same block above the insert position" shortcut does not apply behind the other-action line.
func genMoveDownIntoMixedRun(r *RNG) (a, b []absLine) {
	blk, oth := "deny", "permit"
	if r.Chance(35) {
		blk, oth = oth, blk
	}
	mk := func(act string, src int, proto string, port int) absLine {
		return absLine{Act: act, Proto: proto, Src: src, Port: port}
	}
	gone := mk(oth, 3, "ip", 0)   // decides host 10.1.2.3 in the old ACL, deleted
	moved := mk(blk, 2, "ip", 0)  // 10.1.2.0/24, moved down
	newOth := mk(oth, 1, "ip", 0) // 10.1.0.0/16, new, in front of the moved line
	if r.Chance(30) {
		gone.Proto, moved.Proto, newOth.Proto = "tcp", "tcp", "tcp"
	}
	fill := func(n int, ports []int) []absLine {
		var l []absLine
		for i := 0; i < n; i++ {
			l = append(l, mk(blk, Pick(r, []int{4, 5}), Pick(r, []string{"tcp", "udp"}), ports[i%len(ports)]))
		}
		return l
	}
	mid := fill(1+r.Intn(2), []int{22, 53})
	newSame := fill(1+r.Intn(2), []int{80})
	tail := fill(r.Intn(2), []int{53, 22})
	last := []absLine{mk(oth, 0, "ip", 0)}
	a = append(a, gone, moved)
	a = append(a, mid...)
	a = append(a, tail...)
	a = append(a, last...)
	b = append(b, mid...)
	b = append(b, newSame...)
	b = append(b, newOth, moved)
	b = append(b, tail...)
	b = append(b, last...)
	return distinctByMkey(a), distinctByMkey(b)
}

// genTwoSplitsMove: TWO blocks of one action, each split in this run by a new line of the other action, and a
// line moved from the lower part of the second block into the lower part of the first one (or the other way
// round); the new line that splits the moved line's old block overlaps it.  The planner must give the two lower
// parts different block ids, otherwise the move looks like a move inside one block and is dropped.
func genTwoSplitsMove(r *RNG) (a, b []absLine) {
	blk, oth := "permit", "deny"
	if r.Chance(35) {
		blk, oth = oth, blk
	}
	mk := func(act string, src int, proto string, port int) absLine {
		return absLine{Act: act, Proto: proto, Src: src, Port: port}
	}
	port := Pick(r, pktPorts)
	moved := mk(blk, 3, "tcp", port)                                           // host 10.1.2.3
	split2 := mk(oth, Pick(r, []int{2, 1, 0}), "tcp", Pick(r, []int{0, port})) // overlaps the moved line
	split1 := mk(oth, 5, Pick(r, []string{"udp", "ip"}), 0)                    // host 10.9.9.9, elsewhere
	sep := mk(oth, 4, "udp", 53)                                               // between the two blocks
	last := mk(oth, 0, "ip", 0)
	fill := func(n int, srcs []int, proto string, ports []int) []absLine {
		var l []absLine
		for i := 0; i < n; i++ {
			l = append(l, mk(blk, srcs[i%len(srcs)], proto, ports[i%len(ports)]))
		}
		return l
	}
	up1, lo1 := fill(1+r.Intn(2), []int{4, 1}, "udp", []int{22, 80}), fill(1+r.Intn(2), []int{4, 5}, "tcp", []int{53, 80})
	up2, lo2 := fill(1+r.Intn(2), []int{5, 4}, "udp", []int{53, 22}), fill(1+r.Intn(2), []int{4}, "tcp", []int{22, 53})
	cat := func(ls ...[]absLine) (out []absLine) {
		for _, l := range ls {
			out = append(out, l...)
		}
		return
	}
	one := func(l absLine) []absLine { return []absLine{l} }
	// the moved line usually sits one or two lines below the split position (the split is then a pure insert)
	var gap []absLine
	if r.Chance(75) {
		gap = fill(1+r.Intn(2), []int{5, 4}, "tcp", []int{80, 53})
	}
	if r.Chance(70) {
		// moved up: from the lower part of block 2 to the end of the lower part of block 1
		a = cat(up1, lo1, one(sep), up2, gap, one(moved), lo2, one(last))
		b = cat(up1, one(split1), lo1, one(moved), one(sep), up2, one(split2), gap, lo2, one(last))
	} else {
		// moved down: from the lower part of block 1 to the end of the lower part of block 2
		a = cat(up1, gap, one(moved), lo1, one(sep), up2, lo2, one(last))
		b = cat(up1, one(split2), gap, lo1, one(sep), up2, one(split1), lo2, one(moved), one(last))
	}
	return distinctByMkey(a), distinctByMkey(b)
}
