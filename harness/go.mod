module verifharness

go 1.23.1

require github.com/hknutzen/Netspoc-Approve/go v0.0.0

require (
	golang.org/x/sys v0.30.0 // indirect
	golang.org/x/term v0.29.0 // indirect
)

replace github.com/hknutzen/Netspoc-Approve/go => /repo/go
