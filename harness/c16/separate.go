// Dynamic check of the heap separation assumed by the C16 loop models (`SeparateEntries`,
// `Separate`): for every ASA / IOS input of the oracle the files are parsed and merged in-process
// with the REAL code exactly as device.loadSpoc does (IPv4 file, then ipv6/ file, then .raw file),
// and after every step the verif hook cisco.VerifC16Separation checks that every command is reachable
// from exactly one entry (prefix, name) of the lookup table.
package main

import (
	"fmt"
	"strings"

	"github.com/hknutzen/Netspoc-Approve/go/pkg/asa"
	"github.com/hknutzen/Netspoc-Approve/go/pkg/cisco"
	"github.com/hknutzen/Netspoc-Approve/go/pkg/deviceconf"
	"github.com/hknutzen/Netspoc-Approve/go/pkg/errlog"
	"github.com/hknutzen/Netspoc-Approve/go/pkg/ios"

	. "verifharness/vhlib"
)

type confParser interface {
	ParseConfig(data []byte, fName string) (deviceconf.Config, error)
}

// modelOf reads the model out of the .info file of a case.
func modelOf(files map[string]string) string {
	for n, t := range files {
		if strings.HasSuffix(n, ".info") {
			switch {
			case strings.Contains(t, `"ASA"`):
				return "ASA"
			case strings.Contains(t, `"IOS"`):
				return "IOS"
			}
		}
	}
	return ""
}

// checkSeparation returns the number of configurations checked, entries and commands seen, and the
// violations found.
func checkSeparation(c *Case) (configs, entries, cmds int, shared []string) {
	model := modelOf(c.Files)
	if model == "" || len(c.Args) < 2 {
		return
	}
	devFile, spocFile := c.Args[len(c.Args)-2], c.Args[len(c.Args)-1]
	newParser := func() confParser {
		if model == "ASA" {
			return asa.Setup()
		}
		return ios.Setup()
	}
	check := func(cf deviceconf.Config, what string) {
		e, n, sh := cisco.VerifC16Separation(cf)
		configs++
		entries += e
		cmds += n
		for _, s := range sh {
			shared = append(shared, what+": "+s)
		}
	}
	load := func(v4 string) {
		// as device.loadSpoc: parse v4, parse ipv6/v4, merge, parse v4.raw, merge
		defer func() { recover() }() // errlog.Abort and crashes of the parser are not the subject here
		p := newParser()
		parse := func(name string) deviceconf.Config {
			cf, err := p.ParseConfig([]byte(c.Files[name]), name)
			if err != nil {
				panic(err)
			}
			check(cf, "parsed "+name)
			return cf
		}
		v6 := "ipv6/" + v4
		if i := strings.LastIndex(v4, "/"); i >= 0 {
			v6 = v4[:i] + "/ipv6/" + v4[i+1:]
		}
		conf := parse(v4)
		conf = conf.MergeSpoc(parse(v6))
		check(conf, "merged "+v6)
		conf = conf.MergeSpoc(parse(v4 + ".raw"))
		check(conf, "merged "+v4+".raw")
	}
	load(devFile)
	load(spocFile)
	return
}

func separationPass(res *Result, cases []*Case) {
	errlog.Quiet = true
	errlog.SetStderrLog("")
	// the messages of the in-process parser go nowhere
	_, _, _, _ = Captured(func() int {
		for _, c := range cases {
			configs, entries, cmds, shared := checkSeparation(c)
			if configs == 0 {
				continue
			}
			res.Count("separation:cases")
			res.CountN("separation:configs", configs)
			res.CountN("separation:entries", entries)
			res.CountN("separation:commands", cmds)
			res.TracesVsImpl++
			if len(shared) > 0 {
				res.Disagree("heap-separation", c, strings.Join(shared[:min(3, len(shared))], " | "),
					"every command is reachable from exactly one entry of the lookup table")
			}
		}
		return 0
	})
	res.Notes = append(res.Notes, fmt.Sprintf("heap separation (assumption SeparateEntries of the loop models) checked in-process on %d parsed/merged configurations of %d ASA/IOS inputs: %d lookup entries, %d commands",
		res.Distribution["separation:configs"], res.Distribution["separation:cases"], res.Distribution["separation:entries"], res.Distribution["separation:commands"]))
}
