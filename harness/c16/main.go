// Harness for C16 — output is a deterministic function of the inputs.
//
// Oracle (independent of every model): build the real `drc` from the repository, run it N
// times in fresh processes on each tie-rich input and compare the (stdout, stderr, exit)
// triples; two different triples on byte-identical inputs are a failure, the input is the replay.
//
// Correspondence: for the loops repaired by `fix:` commits the Lean models (`…Fixed`: fold over
// the entries sorted by key, run by nadrv-c16) predict WHICH of several equally good candidates
// the real code takes (group with the least name, lowest sequence number, first message in
// ascending key order, …); the prediction is compared with what the real binary printed.
package main

import (
	"bytes"
	"encoding/json"
	"fmt"
	"os"
	"os/exec"
	"path/filepath"
	"regexp"
	"runtime"
	"sort"
	"strconv"
	"strings"
	"sync"
	"sync/atomic"
	"time"

	. "verifharness/vhlib"
)

func main() { Main(map[string]PropFunc{"C16": run}) }

// Case is one input of the oracle; it is self-contained (replay).
type Case struct {
	Family string            `json:"family"`
	Pred   string            `json:"pred"` // root cause class if the runs differ
	Files  map[string]string `json:"files"`
	Args   []string          `json:"args"`
	Runs   int               `json:"runs"`
	Ties   int               `json:"ties"`  // number of candidates tied for an order dependent choice
	Model  []string          `json:"model"` // driver lines ("" = oracle only)
	Check  string            `json:"check"` // how to read the choice off the output
	Aux    map[string]string `json:"aux"`
	Note   string            `json:"note,omitempty"`
	// approve planning path: the device side comes from a simulated device instead of a file
	Session  string `json:"session,omitempty"`  // "", "cisco" (simulate-cisco.pl), "nsx", "panos" (HTTPS simulator of the harness)
	Scenario string `json:"scenario,omitempty"` // cisco: scenario file of simulate-cisco.pl
	Approve  bool   `json:"approve,omitempty"`  // false: drc -C (compare), true: drc (approve)
}

type triple struct {
	Stdout, Stderr string
	Exit           int
}

var panicAddr = regexp.MustCompile(`0x[0-9a-f]+`)

func canon(t triple) triple {
	// a Go crash prints goroutine stacks with addresses: keep the panic line only
	if strings.Contains(t.Stderr, "\ngoroutine ") || strings.HasPrefix(t.Stderr, "panic:") {
		lines := strings.Split(t.Stderr, "\n")
		var keep []string
		for _, l := range lines {
			if strings.HasPrefix(l, "goroutine ") {
				break
			}
			keep = append(keep, panicAddr.ReplaceAllString(l, "0x?"))
		}
		t.Stderr = strings.Join(keep, "\n")
	}
	return t
}

func runOnce(drc, dir string, args []string) triple {
	cmd := exec.Command(drc, args...)
	cmd.Dir = dir
	cmd.Env = []string{"HOME=" + dir, "PATH=/usr/bin:/bin", "LANG=C"}
	var so, se bytes.Buffer
	cmd.Stdout, cmd.Stderr = &so, &se
	err := cmd.Run()
	code := 0
	if err != nil {
		if ee, ok := err.(*exec.ExitError); ok {
			code = ee.ExitCode()
		} else {
			code = -1
			se.WriteString("harness: " + err.Error())
		}
	}
	return canon(triple{so.String(), se.String(), code})
}

// envFailures counts runs dropped because the process could not be run (inconclusive, never a failure).
var envFailures atomic.Int64

// runCase runs the real binary c.Runs times; returns the distinct triples in order of first appearance.
func runCase(drc, base string, idx int, c *Case) (distinct []triple, counts []int) {
	return runCaseN(drc, base, idx, 0, c.Runs, c)
}

// runCaseN: `runs` runs of pass number `pass` (passes of one case may run at the same time).
func runCaseN(drc, base string, idx, pass, runs int, c *Case) (distinct []triple, counts []int) {
	if c.Session != "" {
		save := c.Runs
		c.Runs = runs
		defer func() { c.Runs = save }()
		return runSessionCase(drc, base, idx, c)
	}
	dir := filepath.Join(base, fmt.Sprintf("case%05d-%d", idx, pass))
	os.MkdirAll(dir, 0755)
	WriteFiles(dir, c.Files)
	defer os.RemoveAll(dir)
	for i := 0; i < runs; i++ {
		t := runOnce(drc, dir, c.Args)
		// environment failure (the process could not be started, or was killed by a signal: exit -1):
		// not an observation of drc. Retry serially after a pause; if it persists the run is dropped
		// and counted as inconclusive.
		for try := 0; t.Exit == -1 && try < 3; try++ {
			time.Sleep(time.Duration(300*(try+1)) * time.Millisecond)
			t = runOnce(drc, dir, c.Args)
		}
		if t.Exit == -1 {
			envFailures.Add(1)
			continue
		}
		found := false
		for j := range distinct {
			if distinct[j] == t {
				counts[j]++
				found = true
				break
			}
		}
		if !found {
			distinct = append(distinct, t)
			counts = append(counts, 1)
		}
	}
	return
}

// ---------------------------------------------------------------- generators

type gen struct {
	r    *RNG
	used map[string]bool
}

const letters = "abcdefghijklmnopqrstuvwxyzABCDEFGHIJKLMNOPQRSTUVWXYZ"

// name returns a fresh identifier (random, so that sorted order ≠ creation order).
func (g *gen) name(prefix string) string {
	for {
		n := 2 + g.r.Intn(5)
		b := []byte(prefix)
		for i := 0; i < n; i++ {
			b = append(b, letters[g.r.Intn(len(letters))])
		}
		if g.r.Chance(30) {
			b = append(b, byte('0'+g.r.Intn(10)))
		}
		s := string(b)
		if !g.used[s] {
			g.used[s] = true
			return s
		}
	}
}

// arrange orders the entries of a map that the code under test fills in this order. The Go runtime
// visits a map of at most 8 entries in insertion order starting at a RANDOM SLOT (0..7); with two tied
// entries in adjacent slots the second one comes first in only 1 of 8 processes. With k ≤ 4 tied entries,
// arrange (3 times out of 4) pads the map to exactly 8 entries and puts the tied ones at slots
// 0, 8/k, 2·8/k, …: each of them is then reached first in 8/k of 8 processes (2-way tie: 1/2 : 1/2).
// Otherwise: random order.
func arrange[T any](r *RNG, tied, pads []T, mkPad func() T) []T {
	k := len(tied)
	if k >= 2 && k <= 4 && mkPad != nil && r.Chance(75) {
		for len(pads) < 8-k {
			pads = append(pads, mkPad())
		}
		pads = pads[:8-k]
		out := make([]T, 0, 8)
		step := 8 / k
		ti, pi := 0, 0
		for slot := 0; slot < 8; slot++ {
			if ti < k && slot == ti*step {
				out = append(out, tied[ti])
				ti++
			} else {
				out = append(out, pads[pi])
				pi++
			}
		}
		return out
	}
	all := append(append([]T(nil), tied...), pads...)
	Shuffle(r, all)
	return all
}

func newGen(r *RNG) *gen { return &gen{r: r, used: map[string]bool{}} }

func hostOf(id int) string { return fmt.Sprintf("10.%d.%d.%d", 1+id/60000, (id/250)%250, 1+id%250) }

func idsStr(ids []int) string {
	s := make([]string, len(ids))
	for i, v := range ids {
		s[i] = strconv.Itoa(v)
	}
	return strings.Join(s, ",")
}

func pickIDs(r *RNG, n int) []int {
	m := map[int]bool{}
	for len(m) < n {
		m[1+r.Intn(400)] = true
	}
	var l []int
	for k := range m {
		l = append(l, k)
	}
	sort.Ints(l)
	return l
}

func shuffled(r *RNG, l []int) []int {
	c := append([]int(nil), l...)
	Shuffle(r, c)
	return c
}

const asaInfo = `{"model":"ASA"}`

// ASA: k identical unused object-groups on the device; Netspoc adds ACL lines that use groups with
// the same elements.
func genASAGroups(r *RNG, k, extraLines int) *Case {
	g := newGen(r)
	elems := pickIDs(r, 1+r.Intn(4))
	type grp struct {
		name  string
		typ   int
		elems []int
	}
	var groups []grp
	for i := 0; i < k; i++ {
		groups = append(groups, grp{g.name("g"), 0, elems})
	}
	mkPad := func() grp { // distractor: other elements
		var e []int
		for {
			e = pickIDs(r, 1+r.Intn(4))
			if idsStr(e) != idsStr(elems) {
				break
			}
		}
		return grp{g.name("g"), 0, e}
	}
	var pads []grp
	for i := r.Intn(4); i > 0; i-- {
		pads = append(pads, mkPad())
	}
	if r.Chance(40) { // distractor: other type of group
		pads = append(pads, grp{g.name("p"), 1, nil})
	}
	groups = arrange(r, groups, pads, mkPad)
	var dev, spoc strings.Builder
	dev.WriteString("interface Ethernet0/0\n nameif inside\n")
	for _, gr := range groups {
		if gr.typ == 1 {
			fmt.Fprintf(&dev, "object-group protocol %s\n protocol-object tcp\n protocol-object udp\n", gr.name)
			continue
		}
		fmt.Fprintf(&dev, "object-group network %s\n", gr.name)
		for _, e := range shuffled(r, gr.elems) {
			fmt.Fprintf(&dev, " network-object host %s\n", hostOf(e))
		}
	}
	dev.WriteString("access-list inside extended permit ip host 9.9.9.9 any4\naccess-group inside in interface inside\n")
	nNew := 1 + extraLines
	var newNames []string
	for i := 0; i < nNew; i++ {
		n := fmt.Sprintf("gx%d", i)
		newNames = append(newNames, n)
		fmt.Fprintf(&spoc, "object-group network %s\n", n)
		for _, e := range shuffled(r, elems) {
			fmt.Fprintf(&spoc, " network-object host %s\n", hostOf(e))
		}
	}
	spoc.WriteString("access-list inside extended permit ip host 9.9.9.9 any4\n")
	for _, n := range newNames {
		fmt.Fprintf(&spoc, "access-list inside extended permit ip object-group %s any4\n", n)
	}
	spoc.WriteString("access-group inside in interface inside\n")
	var entries []string
	for _, gr := range groups {
		entries = append(entries, fmt.Sprintf("%s;0;%d;%s", gr.name, gr.typ, idsStr(gr.elems)))
	}
	return &Case{
		Family: "asa_groups", Pred: "asa_identical_unused_object_groups_on_device",
		Files: map[string]string{"dev": dev.String(), "spoc": spoc.String(), "spoc.info": asaInfo},
		Args:  []string{"dev", "spoc"}, Ties: k, Check: "fg",
		Aux: map[string]string{"entries": strings.Join(entries, "|"), "target": idsStr(elems), "n": strconv.Itoa(nNew)},
	}
}

type nsxExpr struct {
	Id           string   `json:"id"`
	ResourceType string   `json:"resource_type"`
	IPAddresses  []string `json:"ip_addresses"`
}
type nsxGrp struct {
	Id         string    `json:"id"`
	Expression []nsxExpr `json:"expression"`
}
type nsxRule struct {
	ResourceType string   `json:"resource_type"`
	Id           string   `json:"id"`
	Scope        []string `json:"scope"`
	Direction    string   `json:"direction"`
	IPProtocol   string   `json:"ip_protocol"`
	Seq          int      `json:"sequence_number"`
	Action       string   `json:"action"`
	Src          []string `json:"source_groups"`
	Dst          []string `json:"destination_groups"`
	Services     []string `json:"services"`
}
type nsxPol struct {
	Id           string    `json:"id"`
	ResourceType string    `json:"resource_type"`
	Rules        []nsxRule `json:"rules"`
}
type nsxCfg struct {
	Groups   []nsxGrp `json:"groups"`
	Policies []nsxPol `json:"policies"`
	Services []any    `json:"services"`
}

const nsxGroupPath = "/infra/domains/default/groups/"

func genNSXGroups(r *RNG, k int) *Case {
	g := newGen(r)
	elems := pickIDs(r, 1+r.Intn(3))
	ips := func(ids []int) []string {
		var l []string
		for _, e := range shuffled(r, ids) {
			l = append(l, hostOf(e))
		}
		return l
	}
	mk := func(id string, ids []int) nsxGrp {
		return nsxGrp{id, []nsxExpr{{"id", "IPAddressExpression", ips(ids)}}}
	}
	rule := func(id, src, dst string) nsxRule {
		return nsxRule{"Rule", id, []string{"/infra/tier-0s/v1"}, "OUT", "IPV4", 20, "ALLOW", []string{src}, []string{dst}, []string{"ANY"}}
	}
	var groups []nsxGrp
	var entries []string
	for i := 0; i < k; i++ {
		id := "Netspoc-" + g.name("g")
		groups = append(groups, mk(id, elems))
		entries = append(entries, fmt.Sprintf("%s;0;0;%s", id, idsStr(elems)))
	}
	mkPad := func() nsxGrp {
		var e []int
		for {
			e = pickIDs(r, 1+r.Intn(3))
			if idsStr(e) != idsStr(elems) {
				break
			}
		}
		id := "Netspoc-" + g.name("g")
		entries = append(entries, fmt.Sprintf("%s;0;0;%s", id, idsStr(e)))
		return mk(id, e)
	}
	var pads []nsxGrp
	for i := r.Intn(3); i > 0; i-- {
		pads = append(pads, mkPad())
	}
	groups = arrange(r, groups, pads, mkPad)
	dev := nsxCfg{groups, []nsxPol{{"Netspoc-v1", "GatewayPolicy", []nsxRule{rule("r1", "10.9.9.9", "10.8.8.8")}}}, []any{}}
	spoc := nsxCfg{[]nsxGrp{mk("Netspoc-g0", elems)}, []nsxPol{{"Netspoc-v1", "GatewayPolicy",
		[]nsxRule{rule("r1", "10.9.9.9", "10.8.8.8"), rule("r2", nsxGroupPath+"Netspoc-g0", "10.8.8.8")}}}, []any{}}
	d, _ := json.MarshalIndent(dev, "", " ")
	s, _ := json.MarshalIndent(spoc, "", " ")
	return &Case{
		Family: "nsx_groups", Pred: "nsx_identical_unused_groups_on_device",
		Files: map[string]string{"dev": string(d), "spoc": string(s), "spoc.info": `{"model":"NSX"}`},
		Args:  []string{"dev", "spoc"}, Ties: k, Check: "nsx",
		Model: []string{fmt.Sprintf("fg\t0\t%s\t%s", idsStr(elems), strings.Join(entries, "|"))},
	}
}

var pfsGroups = []string{"group1", "group2", "group19", "group20", "group21", "group24"}

// ASA crypto map: k target entries with the same peer as the one device entry.
func genCryptoPeers(r *RNG, k int, abort bool) *Case {
	seqs := map[int]bool{}
	nextSeq := func() int {
		for {
			s := 1 + r.Intn(200)
			if !seqs[s] {
				seqs[s] = true
				return s
			}
		}
	}
	devSeq := nextSeq()
	var dev, spoc strings.Builder
	dev.WriteString("interface Ethernet0/1\n nameif outside\ncrypto ipsec ikev1 transform-set Trans1 esp-3des esp-md5-hmac\n")
	fmt.Fprintf(&dev, "crypto map cm %d set peer 10.0.0.1\ncrypto map cm %d set ikev1 transform-set Trans1\ncrypto map cm %d set pfs group5\n", devSeq, devSeq, devSeq)
	dev.WriteString("crypto map cm interface outside\n")
	spoc.WriteString("crypto ipsec ikev1 transform-set Trans1 esp-3des esp-md5-hmac\n")
	var entries []string
	aux := map[string]string{"devseq": strconv.Itoa(devSeq), "peer": "peer 10.0.0.1"}
	perm := r.Intn(1000)
	type ent struct {
		seq  int
		peer string
		pfs  string
	}
	var ents []ent
	for i := 0; i < k; i++ {
		peer := "10.0.0.1"
		if abort {
			peer = ""
		}
		ents = append(ents, ent{nextSeq(), peer, pfsGroups[(i+perm)%len(pfsGroups)]})
	}
	npad := 0
	mkPad := func() ent { // other peers
		npad++
		return ent{nextSeq(), fmt.Sprintf("10.0.1.%d", npad), "group5"}
	}
	var pads []ent
	for i := r.Intn(3); i > 0; i-- {
		pads = append(pads, mkPad())
	}
	ents = arrange(r, ents, pads, mkPad)
	for _, e := range ents {
		if e.peer != "" {
			fmt.Fprintf(&spoc, "crypto map cm %d set peer %s\n", e.seq, e.peer)
			entries = append(entries, fmt.Sprintf("%d;peer %s", e.seq, e.peer))
		} else {
			entries = append(entries, fmt.Sprintf("%d;", e.seq))
		}
		fmt.Fprintf(&spoc, "crypto map cm %d set ikev1 transform-set Trans1\ncrypto map cm %d set pfs %s\n", e.seq, e.seq, e.pfs)
		if e.peer == "10.0.0.1" {
			aux["pfs:"+e.pfs] = strconv.Itoa(e.seq)
		}
	}
	spoc.WriteString("crypto map cm interface outside\n")
	c := &Case{
		Family: "crypto_peers", Pred: "crypto_map_entries_with_equal_peer_in_target",
		Files: map[string]string{"dev": dev.String(), "spoc": spoc.String(), "spoc.info": asaInfo},
		Args:  []string{"dev", "spoc"}, Ties: k, Check: "peer", Aux: aux,
		Model: []string{"peer\t" + strings.Join(entries, "|")},
	}
	if abort {
		c.Family, c.Pred, c.Check = "crypto_nopeer", "crypto_map_entries_without_peer_in_target", "peerabort"
	}
	return c
}

// ASA device file with several dangling references under different (prefix, name) keys.
func genDangling(r *RNG, k int) *Case {
	g := newGen(r)
	var dev strings.Builder
	dev.WriteString("interface Ethernet0/1\n nameif outside\n")
	var entries []string
	type item struct{ text, prefix, name, msg string }
	var items []item
	oneMap := k <= 4 && r.Chance(75) // all tied entries in the map of one prefix, spaced (see arrange)
	for i := 0; i < k; i++ {
		kind := r.Intn(3)
		if oneMap {
			kind = 0
		}
		switch kind {
		case 0:
			a, gr := g.name("acl"), g.name("g")
			line := fmt.Sprintf("access-list %s extended permit ip object-group %s any4", a, gr)
			items = append(items, item{line + "\n", "access-list", a,
				fmt.Sprintf("'%s' references unknown 'object-group %s'", line, gr)})
		case 1:
			m, a := g.name("cm"), g.name("acl")
			seq := 1 + r.Intn(50)
			line := fmt.Sprintf("crypto map %s %d match address %s", m, seq, a)
			items = append(items, item{line + "\n", "crypto map", m,
				fmt.Sprintf("'%s' references unknown 'access-list %s'", line, a)})
		default:
			gp, a := g.name("gp"), g.name("acl")
			items = append(items, item{fmt.Sprintf("group-policy %s internal\ngroup-policy %s attributes\n vpn-filter value %s\n", gp, gp, a),
				"group-policy", gp, fmt.Sprintf("'vpn-filter value %s' references unknown 'access-list %s'", a, a)})
		}
	}
	// entries without error
	npad := 0
	mkPad := func() item {
		npad++
		a := g.name("ok")
		return item{fmt.Sprintf("access-list %s extended permit ip host 1.1.1.%d any4\n", a, npad), "access-list", a, ""}
	}
	var pads []item
	for i := r.Intn(3); i > 0; i-- {
		pads = append(pads, mkPad())
	}
	if oneMap {
		items = arrange(r, items, pads, mkPad)
	} else {
		items = append(items, pads...)
		Shuffle(r, items)
	}
	for _, it := range items {
		dev.WriteString(it.text)
		entries = append(entries, fmt.Sprintf("%s;%s;%s", it.prefix, it.name, it.msg))
	}
	return &Case{
		Family: "dangling_refs", Pred: "several_dangling_references_in_one_config",
		Files: map[string]string{"dev": dev.String(), "spoc": "interface Ethernet0/1\n nameif outside\n", "spoc.info": asaInfo},
		Args:  []string{"dev", "spoc"}, Ties: k, Check: "stderr-prefix",
		Aux:   map[string]string{"prefix": "ERROR>>> While reading file dev: "},
		Model: []string{"first2\t" + strings.Join(entries, "|")},
	}
}

// Linux: one rule differs in k options.
func genIPTOptions(r *RNG, k int) *Case {
	type opt struct{ key, a, b string }
	all := []opt{
		{"-s", "10.1.1.1", "10.1.1.9"}, {"-d", "10.2.2.2", "10.2.2.9"}, {"-p", "tcp", "udp"},
		{"--dport", "80", "81"}, {"-j", "ACCEPT", "DROP"}, {"-i", "eth0", "eth1"}, {"-o", "eth2", "eth3"},
		{"--sport", "1024:", "2048:"},
	}
	Shuffle(r, all)
	n := k + r.Intn(len(all)-k+1)
	opts := all[:n]
	differ := map[int]bool{}
	spaced := k <= 4 && r.Chance(75)
	if spaced {
		// all 8 options, the differing ones at slots 0, 8/k, … of the option map (see arrange)
		n, opts = len(all), all
		for i := 0; i < k; i++ {
			differ[i*(8/k)] = true
		}
	}
	for len(differ) < k {
		differ[r.Intn(n)] = true
	}
	nEqual := r.Intn(3)
	var dev, spoc strings.Builder
	dev.WriteString("*filter\n:INPUT DROP\n")
	spoc.WriteString("*filter\n:INPUT DROP\n")
	for i := 0; i < nEqual; i++ {
		l := fmt.Sprintf("-A INPUT -s 10.7.7.%d -j ACCEPT\n", i+1)
		dev.WriteString(l)
		spoc.WriteString(l)
	}
	var ea, eb []string
	la, lb := "-A INPUT", "-A INPUT"
	order := r.Fork()
	idx := make([]int, n)
	for i := range idx {
		idx[i] = i
	}
	if !spaced {
		Shuffle(order, idx)
	}
	for _, i := range idx {
		o := opts[i]
		vb := o.a
		if differ[i] {
			vb = o.b
		}
		la += " " + o.key + " " + o.a
		lb += " " + o.key + " " + vb
		ea = append(ea, o.key+";"+o.a)
		eb = append(eb, o.key+";"+vb)
	}
	dev.WriteString(la + "\nCOMMIT\n")
	spoc.WriteString(lb + "\nCOMMIT\n")
	return &Case{
		Family: "iptables_options", Pred: "iptables_rule_differs_in_several_options",
		Files: map[string]string{"dev": dev.String(), "spoc": spoc.String(), "spoc.info": `{"model":"Linux"}`},
		Args:  []string{"dev", "spoc"}, Ties: k, Check: "opt",
		Aux:   map[string]string{"rule": strconv.Itoa(nEqual)},
		Model: []string{"opt\t" + strings.Join(ea, "|") + "\t" + strings.Join(eb, "|")},
	}
}

// Linux: raw file adds several new tables and new chains → Info messages on stderr.
func genLinuxRaw(r *RNG, k int) *Case {
	g := newGen(r)
	if k <= 4 && r.Chance(75) {
		// spaced (see arrange): k new tables among 8 tables of the raw file; the other tables exist
		// on the device side as well and cause no message
		var tied []string
		for i := 0; i < k; i++ {
			tied = append(tied, g.name("t"))
		}
		isPad := map[string]bool{}
		order := arrange(r, tied, nil, func() string { n := g.name("p"); isPad[n] = true; return n })
		if len(isPad) > 0 {
			dev := "*filter\n:INPUT DROP\n-A INPUT -s 10.1.1.1 -j ACCEPT\nCOMMIT\n"
			var raw strings.Builder
			var entries []string
			for _, t := range order {
				fmt.Fprintf(&raw, "*%s\n:PREROUTING ACCEPT\nCOMMIT\n", t)
				if isPad[t] {
					dev += fmt.Sprintf("*%s\n:PREROUTING ACCEPT\nCOMMIT\n", t)
				} else {
					entries = append(entries, fmt.Sprintf("%s ;Adding all chains of table \"%s\"", t, t))
				}
			}
			return &Case{
				Family: "linux_raw_new", Pred: "linux_raw_adds_several_tables_or_chains",
				Files: map[string]string{"dev": dev, "dev.raw": raw.String(), "spoc": dev, "spoc.info": `{"model":"Linux"}`},
				Args:  []string{"dev", "spoc"}, Ties: k, Check: "log",
				Model: []string{"log\t" + strings.Join(entries, "|")},
			}
		}
	}
	tables := []string{"nat", "mangle", "raw", "security"}
	Shuffle(r, tables)
	nt := r.Intn(len(tables) + 1)
	if nt > k {
		nt = k
	}
	var raw strings.Builder
	var entries []string
	var blocks []string
	for _, t := range tables[:nt] {
		blocks = append(blocks, fmt.Sprintf("*%s\n:PREROUTING ACCEPT\nCOMMIT\n", t))
		entries = append(entries, fmt.Sprintf("%s ;Adding all chains of table \"%s\"", t, t))
	}
	if k-nt > 0 {
		b := "*filter\n"
		var chains []string
		for i := 0; i < k-nt; i++ {
			chains = append(chains, g.name("c"))
		}
		for _, c := range chains {
			b += ":" + c + " -\n"
			entries = append(entries, fmt.Sprintf("filter %s;Adding chain \"%s\" of table \"filter\"", c, c))
		}
		b += "COMMIT\n"
		blocks = append(blocks, b)
	}
	Shuffle(r, blocks)
	for _, b := range blocks {
		raw.WriteString(b)
	}
	dev := "*filter\n:INPUT DROP\n-A INPUT -s 10.1.1.1 -j ACCEPT\nCOMMIT\n"
	return &Case{
		Family: "linux_raw_new", Pred: "linux_raw_adds_several_tables_or_chains",
		Files: map[string]string{"dev": dev, "dev.raw": raw.String(), "spoc": dev, "spoc.info": `{"model":"Linux"}`},
		Args:  []string{"dev", "spoc"}, Ties: k, Check: "log",
		Model: []string{"log\t" + strings.Join(entries, "|")},
	}
}

// Linux: raw file redefines several user chains → abort names one of them.
func genLinuxRedefine(r *RNG, k int) *Case {
	g := newGen(r)
	var chains []string
	for i := 0; i < k; i++ {
		chains = append(chains, g.name("c"))
	}
	dev := "*filter\n:INPUT DROP\n"
	for _, c := range chains {
		dev += ":" + c + " -\n"
	}
	dev += "-A INPUT -s 10.1.1.1 -j ACCEPT\nCOMMIT\n"
	isPad := map[string]bool{}
	// pads: chains that only the raw file has (added with an Info line, no abort); see arrange
	rc := arrange(r, append([]string(nil), chains...), nil, func() string { n := g.name("n"); isPad[n] = true; return n })
	raw := "*filter\n"
	var entries []string
	for _, c := range rc {
		raw += ":" + c + " -\n"
		if !isPad[c] {
			entries = append(entries, fmt.Sprintf("filter %s;Must not redefine chain \"%s\" of table \"filter\" from rawdata", c, c))
		}
	}
	raw += "COMMIT\n"
	return &Case{
		Family: "linux_raw_redefine", Pred: "linux_raw_redefines_several_chains",
		Files: map[string]string{"dev": dev, "dev.raw": raw, "spoc": dev, "spoc.info": `{"model":"Linux"}`},
		Args:  []string{"dev", "spoc"}, Ties: k, Check: "stderr-prefix", Aux: map[string]string{"prefix": "ERROR>>> "},
		Model: []string{"first\t" + strings.Join(entries, "|")},
	}
}

// ASA raw file with commands of several prefixes that are not supported in raw.
func genRawAbort(r *RNG, variant int) *Case {
	g := newGen(r)
	cm := g.name("cm")
	tg := g.name("tg")
	var raw strings.Builder
	blocks := []string{
		fmt.Sprintf("crypto ca certificate map %s 10\n subject-name attr ea eq %s\n", cm, g.name("x")),
		fmt.Sprintf("tunnel-group %s type ipsec-l2l\n", tg),
	}
	var entries []string
	ties := 0
	if variant&1 == 1 {
		blocks = append(blocks, fmt.Sprintf("tunnel-group-map %s 10 %s\n", cm, tg))
		entries = append(entries, "tunnel-group-map;Command 'tunnel-group-map' not supported in raw file")
		ties++
	}
	if variant&2 == 2 {
		blocks = append(blocks, fmt.Sprintf("webvpn\n certificate-group-map %s 10 %s\n", cm, tg))
		entries = append(entries, "webvpn;Command 'webvpn' not supported in raw file")
		ties++
	}
	Shuffle(r, blocks)
	for _, b := range blocks {
		raw.WriteString(b)
	}
	base := "interface Ethernet0/1\n nameif outside\n"
	return &Case{
		Family: "asa_raw_abort", Pred: "raw_file_with_several_unsupported_commands",
		Files: map[string]string{"dev": base, "dev.raw": raw.String(), "spoc": base, "spoc.info": asaInfo},
		Args:  []string{"dev", "spoc"}, Ties: ties, Check: "stderr-prefix", Aux: map[string]string{"prefix": "ERROR>>> "},
		Model: []string{"first\t" + strings.Join(entries, "|")},
	}
}

// ASA: k aaa-server names whose host lines use different ldap-attribute-maps.
func genAAA(r *RNG, k int) *Case {
	g := newGen(r)
	var dev strings.Builder
	dev.WriteString("interface Ethernet0/1\n nameif outside\nldap attribute-map m1\n map-name memberOf Group-Policy\nldap attribute-map m2\n map-name memberOf Group-Policy\n")
	type srv struct {
		name     string
		conflict bool
	}
	var l []srv
	for i := 0; i < k; i++ {
		l = append(l, srv{g.name("s"), true})
	}
	mkPad := func() srv { return srv{g.name("s"), false} }
	var pads []srv
	for i := r.Intn(3); i > 0; i-- {
		pads = append(pads, mkPad())
	}
	l = arrange(r, l, pads, mkPad)
	var entries []string
	for _, s := range l {
		m2 := "m1"
		msg := ""
		if s.conflict {
			m2 = "m2"
			msg = fmt.Sprintf("aaa-server %s must not use different values in 'ldap-attribute-map'", s.name)
		}
		fmt.Fprintf(&dev, "aaa-server %s protocol ldap\naaa-server %s (inside) host 1.2.3.4\n ldap-attribute-map m1\naaa-server %s (inside) host 1.2.3.5\n ldap-attribute-map %s\n", s.name, s.name, s.name, m2)
		entries = append(entries, s.name+";"+msg)
	}
	return &Case{
		Family: "aaa_conflict", Pred: "several_aaa_servers_with_conflicting_ldap_attribute_map",
		Files: map[string]string{"dev": dev.String(), "spoc": "interface Ethernet0/1\n nameif outside\n", "spoc.info": asaInfo},
		Args:  []string{"dev", "spoc"}, Ties: k, Check: "stderr-prefix", Aux: map[string]string{"prefix": "ERROR>>> "},
		Model: []string{"first\t" + strings.Join(entries, "|")},
	}
}

// ASA: k tunnel-groups named by IP address (anchors found by diffSomeAnchors/onlyAnchorNames)
// whose attributes change: the change blocks appear in ascending name order.
func genTunnelGroups(r *RNG, k int) *Case {
	ips := map[string]bool{}
	for len(ips) < k {
		ips[fmt.Sprintf("%d.%d.%d.%d", 1+r.Intn(220), r.Intn(250), r.Intn(250), 1+r.Intn(250))] = true
	}
	var names []string
	for ip := range ips {
		names = append(names, ip)
	}
	sort.Strings(names)
	Shuffle(r, names)
	g := newGen(r)
	isPad := map[string]bool{}
	mkPad := func() string { // a tunnel-group whose name is not an IP address is no anchor: unchanged, no output
		n := g.name("tg")
		isPad[n] = true
		return n
	}
	names = arrange(r, names, nil, mkPad)
	var dev, spoc strings.Builder
	dev.WriteString("interface Ethernet0/1\n nameif outside\n")
	spoc.WriteString("interface Ethernet0/1\n nameif outside\n")
	var entries []string
	for _, ip := range names {
		fmt.Fprintf(&dev, "tunnel-group %s type ipsec-l2l\ntunnel-group %s ipsec-attributes\n peer-id-validate nocheck\n", ip, ip)
		if !isPad[ip] {
			entries = append(entries, fmt.Sprintf("%s;tunnel-group %s ipsec-attributes", ip, ip))
		}
	}
	spocNames := append([]string(nil), names...)
	if len(isPad) == 0 {
		Shuffle(r, spocNames)
	}
	for _, ip := range spocNames {
		val := "req"
		if isPad[ip] {
			val = "nocheck"
		}
		fmt.Fprintf(&spoc, "tunnel-group %s type ipsec-l2l\ntunnel-group %s ipsec-attributes\n peer-id-validate %s\n", ip, ip, val)
	}
	return &Case{
		Family: "asa_tunnel_groups", Pred: "several_changed_anchors_of_one_prefix",
		Files: map[string]string{"dev": dev.String(), "spoc": spoc.String(), "spoc.info": asaInfo},
		Args:  []string{"dev", "spoc"}, Ties: k, Check: "lines", Aux: map[string]string{"stream": "stdout", "prefix": "tunnel-group "},
		Model: []string{"log\t" + strings.Join(entries, "|")},
	}
}

// ASA raw file with k unreferenced object-groups: sorted warnings.
func genRawUnused(r *RNG, k int) *Case {
	g := newGen(r)
	if k <= 4 && r.Chance(75) {
		// spaced (see arrange): the map isReferenced is filled in ascending (prefix, name) order of the raw
		// commands; k unused group-policies at slots 0, 8/k, … among 8 group-policies, the others are
		// referenced by a username (anchor, visited later) and get no warning
		var raw strings.Builder
		var entries []string
		step := 8 / k
		for slot := 0; slot < 8; slot++ {
			n := fmt.Sprintf("gp%d%s", slot, g.name("x"))
			fmt.Fprintf(&raw, "group-policy %s internal\n", n)
			if slot%step == 0 && slot/step < k {
				msg := fmt.Sprintf("WARNING>>> Ignoring unused 'group-policy %s' in raw", n)
				entries = append(entries, msg+";"+msg)
			} else {
				u := g.name("u")
				fmt.Fprintf(&raw, "username %s nopassword\nusername %s attributes\n vpn-group-policy %s\n", u, u, n)
			}
		}
		base := "interface Ethernet0/1\n nameif outside\n"
		return &Case{
			Family: "asa_raw_unused", Pred: "several_unused_objects_in_raw",
			Files: map[string]string{"dev": base, "dev.raw": raw.String(), "spoc": base, "spoc.info": asaInfo},
			Args:  []string{"dev", "spoc"}, Ties: k, Check: "lines", Aux: map[string]string{"stream": "stderr", "prefix": "WARNING>>> Ignoring unused"},
			Model: []string{"log\t" + strings.Join(entries, "|")},
		}
	}
	var raw strings.Builder
	var entries []string
	for i := 0; i < k; i++ {
		n := g.name("g")
		fmt.Fprintf(&raw, "object-group network %s\n network-object host 1.1.1.%d\n", n, i+1)
		msg := fmt.Sprintf("WARNING>>> Ignoring unused 'object-group %s' in raw", n)
		entries = append(entries, msg+";"+msg)
	}
	base := "interface Ethernet0/1\n nameif outside\n"
	return &Case{
		Family: "asa_raw_unused", Pred: "several_unused_objects_in_raw",
		Files: map[string]string{"dev": base, "dev.raw": raw.String(), "spoc": base, "spoc.info": asaInfo},
		Args:  []string{"dev", "spoc"}, Ties: k, Check: "lines", Aux: map[string]string{"stream": "stderr", "prefix": "WARNING>>> Ignoring unused"},
		Model: []string{"log\t" + strings.Join(entries, "|")},
	}
}

// PAN-OS: k identical address groups on the device, Netspoc uses a group of another name
// (no `range` over a map in panos: oracle only).
func genPanos(r *RNG, k int) *Case {
	g := newGen(r)
	const pre = `<config><devices><entry name="localhost.localdomain"><vsys><entry name="vsys1">` + "\n"
	const post = `</entry></vsys></entry></devices></config>` + "\n"
	addrs := pickIDs(r, 2+r.Intn(3))
	addrXML := "<address>\n"
	for _, a := range addrs {
		addrXML += fmt.Sprintf(`<entry name="IP_%s"><ip-netmask>%s/32</ip-netmask></entry>`+"\n", hostOf(a), hostOf(a))
	}
	addrXML += `<entry name="NET_10.1.2.0_24"><ip-netmask>10.1.2.0/24</ip-netmask></entry>` + "\n</address>\n"
	group := func(name string) string {
		s := fmt.Sprintf(`<entry name="%s"><static>`, name)
		for _, a := range shuffled(r, addrs) {
			s += fmt.Sprintf("<member>IP_%s</member>", hostOf(a))
		}
		return s + "</static></entry>\n"
	}
	rule := func(name, src string) string {
		return fmt.Sprintf(`<entry name="%s"><action>allow</action><from><member>z1</member></from><to><member>z2</member></to>`+
			`<source><member>%s</member></source><destination><member>NET_10.1.2.0_24</member></destination>`+
			`<service><member>tcp 80</member></service><application><member>any</member></application>`+
			`<rule-type>interzone</rule-type><log-start>yes</log-start><log-end>yes</log-end></entry>`+"\n", name, src)
	}
	svc := `<service><entry name="tcp 80"><protocol><tcp><port>80</port></tcp></protocol></entry></service>` + "\n"
	var names []string
	for i := 0; i < k; i++ {
		names = append(names, g.name("g"))
	}
	dev := pre + "<rulebase><security><rules>\n"
	for i, n := range names {
		if i < 1+r.Intn(k) {
			dev += rule(fmt.Sprintf("r%d", i+1), n)
		}
	}
	dev += "</rules></security></rulebase>\n<address-group>\n"
	for _, n := range names {
		dev += group(n)
	}
	dev += "</address-group>\n" + addrXML + svc + post
	spoc := pre + "<rulebase><security><rules>\n" + rule("r1", "gx") + rule("r9", "gy") +
		"</rules></security></rulebase>\n<address-group>\n" + group("gx") + group("gy") + "</address-group>\n" + addrXML + svc + post
	return &Case{
		Family: "panos_groups", Pred: "panos_identical_address_groups_on_device",
		Files: map[string]string{"dev": dev, "spoc": spoc, "spoc.info": `{"model":"PAN-OS"}`},
		Args:  []string{"dev", "spoc"}, Ties: k, Check: "",
	}
}

// Random ASA / IOS configurations with many equal parts (oracle only).
func genRandomCisco(r *RNG) *Case {
	g := newGen(r)
	ios := r.Chance(35)
	side := func(seed *RNG, names []string, pool [][]int) string {
		var b strings.Builder
		if ios {
			b.WriteString("ip access-list extended test\n")
			n := 2 + seed.Intn(6)
			for i := 0; i < n; i++ {
				act := "permit"
				if seed.Chance(25) {
					act = "deny"
				}
				fmt.Fprintf(&b, " %s tcp host %s host %s eq %d\n", act, hostOf(1+seed.Intn(6)), hostOf(10+seed.Intn(6)), 20+seed.Intn(4))
			}
			b.WriteString(" deny ip any any\ninterface Ethernet1\n ip access-group test in\n")
			for i := seed.Intn(3); i > 0; i-- {
				fmt.Fprintf(&b, "ip route 10.%d.0.0 255.255.0.0 10.1.2.%d\n", 20+seed.Intn(4), 1+seed.Intn(3))
			}
			return b.String()
		}
		b.WriteString("interface Ethernet0/0\n nameif inside\ninterface Ethernet0/1\n nameif outside\n")
		for i, n := range names {
			fmt.Fprintf(&b, "object-group network %s\n", n)
			for _, e := range shuffled(seed, pool[i%len(pool)]) {
				fmt.Fprintf(&b, " network-object host %s\n", hostOf(e))
			}
		}
		for _, acl := range []string{"inside", "outside"} {
			n := 1 + seed.Intn(5)
			for i := 0; i < n; i++ {
				if len(names) > 0 && seed.Chance(60) {
					fmt.Fprintf(&b, "access-list %s_in extended permit ip object-group %s any4\n", acl, names[seed.Intn(len(names))])
				} else {
					fmt.Fprintf(&b, "access-list %s_in extended permit tcp host %s any4 eq %d\n", acl, hostOf(1+seed.Intn(5)), 80+seed.Intn(3))
				}
			}
			fmt.Fprintf(&b, "access-list %s_in extended deny ip any4 any4\naccess-group %s_in in interface %s\n", acl, acl, acl)
		}
		for i := seed.Intn(3); i > 0; i-- {
			fmt.Fprintf(&b, "route inside 10.%d.0.0 255.255.0.0 10.1.2.%d\n", 20+seed.Intn(4), 1+seed.Intn(3))
		}
		return b.String()
	}
	pool := [][]int{pickIDs(r, 2), pickIDs(r, 2), pickIDs(r, 3)}
	var dn, sn []string
	for i := 2 + r.Intn(6); i > 0; i-- {
		dn = append(dn, g.name("g"))
	}
	for i := 1 + r.Intn(4); i > 0; i-- {
		sn = append(sn, g.name("n"))
	}
	model := "ASA"
	if ios {
		model = "IOS"
	}
	return &Case{
		Family: "random_cisco", Pred: "random_cisco_configuration",
		Files: map[string]string{"dev": side(r.Fork(), dn, pool), "spoc": side(r.Fork(), sn, pool), "spoc.info": `{"model":"` + model + `"}`},
		Args:  []string{"dev", "spoc"}, Ties: len(dn), Check: "",
	}
}

// ---------------------------------------------------------------- corpus (the inputs of the findings)

func corpus() []*Case {
	asaBase := "interface Ethernet0/1\n nameif outside\n"
	var l []*Case
	// F-C16a
	{
		dev := "interface Ethernet0/0\n nameif inside\n"
		var entries []string
		for _, n := range []string{"g6", "g2", "g5", "g1", "g4", "g3"} {
			dev += "object-group network " + n + "\n network-object host 1.1.1.1\n network-object host 2.2.2.2\n"
			entries = append(entries, n+";0;0;1,2")
		}
		dev += "access-list inside extended permit ip host 9.9.9.9 any4\naccess-group inside in interface inside\n"
		spoc := "object-group network gx0\n network-object host 1.1.1.1\n network-object host 2.2.2.2\n" +
			"access-list inside extended permit ip host 9.9.9.9 any4\naccess-list inside extended permit ip object-group gx0 any4\naccess-group inside in interface inside\n"
		l = append(l, &Case{Family: "asa_groups", Pred: "asa_identical_unused_object_groups_on_device", Note: "F-C16a",
			Files: map[string]string{"dev": dev, "spoc": spoc, "spoc.info": asaInfo}, Args: []string{"dev", "spoc"}, Ties: 6,
			Check: "fg", Aux: map[string]string{"entries": strings.Join(entries, "|"), "target": "1,2", "n": "1"}})
	}
	// F-C16b
	{
		dev := asaBase + "crypto ipsec ikev1 transform-set Trans1 esp-3des esp-md5-hmac\ncrypto map cm 1 set peer 10.0.0.1\ncrypto map cm 1 set ikev1 transform-set Trans1\ncrypto map cm 1 set pfs group5\ncrypto map cm interface outside\n"
		spoc := "crypto ipsec ikev1 transform-set Trans1 esp-3des esp-md5-hmac\n"
		aux := map[string]string{"devseq": "1", "peer": "peer 10.0.0.1"}
		var entries []string
		for i, s := range []int{7, 3, 9, 5, 4, 8} {
			spoc += fmt.Sprintf("crypto map cm %d set peer 10.0.0.1\ncrypto map cm %d set ikev1 transform-set Trans1\ncrypto map cm %d set pfs %s\n", s, s, s, pfsGroups[i])
			aux["pfs:"+pfsGroups[i]] = strconv.Itoa(s)
			entries = append(entries, fmt.Sprintf("%d;peer 10.0.0.1", s))
		}
		spoc += "crypto map cm interface outside\n"
		l = append(l, &Case{Family: "crypto_peers", Pred: "crypto_map_entries_with_equal_peer_in_target", Note: "F-C16b",
			Files: map[string]string{"dev": dev, "spoc": spoc, "spoc.info": asaInfo}, Args: []string{"dev", "spoc"}, Ties: 6,
			Check: "peer", Aux: aux, Model: []string{"peer\t" + strings.Join(entries, "|")}})
	}
	// F-C16c
	{
		dev := asaBase
		var entries []string
		for _, n := range []string{"a4", "a2", "a6", "a1", "a5", "a3"} {
			line := fmt.Sprintf("access-list %s extended permit ip object-group g%s any4", n, n)
			dev += line + "\n"
			entries = append(entries, fmt.Sprintf("access-list;%s;'%s' references unknown 'object-group g%s'", n, line, n))
		}
		l = append(l, &Case{Family: "dangling_refs", Pred: "several_dangling_references_in_one_config", Note: "F-C16c",
			Files: map[string]string{"dev": dev, "spoc": asaBase, "spoc.info": asaInfo}, Args: []string{"dev", "spoc"}, Ties: 6,
			Check: "stderr-prefix", Aux: map[string]string{"prefix": "ERROR>>> While reading file dev: "},
			Model: []string{"first2\t" + strings.Join(entries, "|")}})
	}
	// F-C16d
	{
		dev := "*filter\n:INPUT DROP\n-A INPUT -s 10.1.1.1 -d 10.2.2.2 -p tcp --dport 80 -i eth0 -j ACCEPT\nCOMMIT\n"
		spoc := "*filter\n:INPUT DROP\n-A INPUT -s 10.1.1.9 -d 10.2.2.9 -p udp --dport 81 -i eth1 -j DROP\nCOMMIT\n"
		l = append(l, &Case{Family: "iptables_options", Pred: "iptables_rule_differs_in_several_options", Note: "F-C16d",
			Files: map[string]string{"dev": dev, "spoc": spoc, "spoc.info": `{"model":"Linux"}`}, Args: []string{"dev", "spoc"}, Ties: 6,
			Check: "opt", Aux: map[string]string{"rule": "0"},
			Model: []string{"opt\t-s;10.1.1.1|-d;10.2.2.2|-p;tcp|--dport;80|-i;eth0|-j;ACCEPT\t-s;10.1.1.9|-d;10.2.2.9|-p;udp|--dport;81|-i;eth1|-j;DROP"}})
	}
	// F-C16f
	{
		raw := "crypto ca certificate map cm 10\n subject-name attr ea eq x\ntunnel-group-map default-group DefaultL2LGroup\nwebvpn\n certificate-group-map cm 10 DefaultWEBVPNGroup\n"
		l = append(l, &Case{Family: "asa_raw_abort", Pred: "raw_file_with_several_unsupported_commands", Note: "F-C16f",
			Files: map[string]string{"dev": asaBase, "dev.raw": raw, "spoc": asaBase, "spoc.info": asaInfo}, Args: []string{"dev", "spoc"}, Ties: 2,
			Check: "stderr-prefix", Aux: map[string]string{"prefix": "ERROR>>> "},
			Model: []string{"first\ttunnel-group-map;Command 'tunnel-group-map' not supported in raw file|webvpn;Command 'webvpn' not supported in raw file"}})
	}
	// F-C16g
	{
		dev := "*filter\n:INPUT DROP\n-A INPUT -s 10.1.1.1 -j ACCEPT\nCOMMIT\n"
		raw := "*nat\n:PREROUTING ACCEPT\nCOMMIT\n*mangle\n:PREROUTING ACCEPT\nCOMMIT\n*raw\n:PREROUTING ACCEPT\nCOMMIT\n*security\n:INPUT ACCEPT\nCOMMIT\n"
		var entries []string
		for _, t := range []string{"nat", "mangle", "raw", "security"} {
			entries = append(entries, fmt.Sprintf("%s ;Adding all chains of table \"%s\"", t, t))
		}
		l = append(l, &Case{Family: "linux_raw_new", Pred: "linux_raw_adds_several_tables_or_chains", Note: "F-C16g",
			Files: map[string]string{"dev": dev, "dev.raw": raw, "spoc": dev, "spoc.info": `{"model":"Linux"}`}, Args: []string{"dev", "spoc"}, Ties: 4,
			Check: "log", Model: []string{"log\t" + strings.Join(entries, "|")}})
	}
	return l
}

// ---------------------------------------------------------------- reading the choice off the output

var (
	reASAGroupLine = regexp.MustCompile(`(?m)^access-list inside line \d+ extended permit ip object-group (\S+) any4$`)
	rePfs          = regexp.MustCompile(`(?m)^crypto map cm (\d+) set pfs (group\d+)$`)
	reMissingPeer  = regexp.MustCompile(`Missing peer or dynamic in crypto map \S+ (\d+)`)
	reIPT          = regexp.MustCompile(`^iptables differs at filter:INPUT:RULES:(\d+):(\S+):\[(.*)<->(.*)\]$`)
)

// observe returns (what the implementation chose, what the model predicts) in one vocabulary.
func observe(c *Case, t triple, ask func(string) string) (impl, model string) {
	switch c.Check {
	case "fg":
		// n inserted lines, each takes the least unused identical group; the model is asked n times,
		// the group taken is `needed` afterwards
		n, _ := strconv.Atoi(c.Aux["n"])
		entries := strings.Split(c.Aux["entries"], "|")
		var want []string
		for i := 0; i < n; i++ {
			ans := ask(fmt.Sprintf("fg\t0\t%s\t%s", c.Aux["target"], strings.Join(entries, "|")))
			want = append(want, ans)
			for j, e := range entries {
				p := strings.Split(e, ";")
				if p[0] == ans {
					p[1] = "1"
					entries[j] = strings.Join(p, ";")
				}
			}
		}
		var got []string
		for _, m := range reASAGroupLine.FindAllStringSubmatch(t.Stdout, -1) {
			name := m[1]
			if strings.HasPrefix(name, "gx") && strings.Contains(name, "-DRC-") {
				name = "none"
			}
			got = append(got, name)
		}
		return strings.Join(got, ","), strings.Join(want, ",")
	case "nsx":
		model = ask(c.Model[0])
		lines := strings.Split(t.Stdout, "\n")
		for i, l := range lines {
			if strings.HasPrefix(l, "PUT ") && strings.HasSuffix(l, "/rules/r2") && i+1 < len(lines) {
				var ru struct {
					Src []string `json:"source_groups"`
				}
				if json.Unmarshal([]byte(lines[i+1]), &ru) == nil && len(ru.Src) == 1 {
					impl = strings.TrimPrefix(ru.Src[0], nsxGroupPath)
					if impl == "Netspoc-g0" {
						impl = "none"
					}
				}
			}
		}
		return
	case "peer":
		ans := ask(c.Model[0])
		for _, kv := range strings.Split(ans, ",") {
			if k, v, ok := strings.Cut(kv, "="); ok && k == c.Aux["peer"] {
				model = v
			}
		}
		for _, m := range rePfs.FindAllStringSubmatch(t.Stdout, -1) {
			if m[1] == c.Aux["devseq"] {
				impl = c.Aux["pfs:"+m[2]]
			}
		}
		return
	case "peerabort":
		model = ask(c.Model[0])
		if m := reMissingPeer.FindStringSubmatch(t.Stderr); m != nil {
			impl = "abort " + m[1]
		}
		return
	case "stderr-prefix":
		model = ask(c.Model[0])
		impl = "none"
		for _, l := range strings.Split(t.Stderr, "\n") {
			if rest, ok := strings.CutPrefix(l, c.Aux["prefix"]); ok {
				impl = rest
				break
			}
		}
		return
	case "opt":
		model = ask(c.Model[0])
		impl = "none"
		first, _, _ := strings.Cut(t.Stdout, "\n")
		if m := reIPT.FindStringSubmatch(first); m != nil {
			impl = m[2] + ";" + m[3] + ";" + m[4]
			if m[1] != c.Aux["rule"] {
				impl += " (rule " + m[1] + ")"
			}
		}
		return
	case "xkind":
		// every object of the Netspoc side gets NAME-DRC-<first free index of its own kind>
		var want, got []string
		for _, a := range strings.Split(c.Aux["asks"], "|") {
			p := strings.Split(a, ";")
			idx := ask("free\t" + p[2])
			want = append(want, p[0]+" "+p[1]+"-DRC-"+idx)
			re := regexp.MustCompile(`(?m)^` + regexp.QuoteMeta(p[0]) + `(?: network)? (` + regexp.QuoteMeta(p[1]) + `-DRC-\d+)(?: |$)`)
			seen := map[string]bool{}
			for _, m := range re.FindAllStringSubmatch(t.Stdout, -1) {
				if !seen[m[1]] {
					seen[m[1]] = true
					got = append(got, p[0]+" "+m[1])
				}
			}
		}
		sort.Strings(want)
		sort.Strings(got)
		return strings.Join(got, ","), strings.Join(want, ",")
	case "lines":
		model = ask(c.Model[0])
		text := t.Stdout
		if c.Aux["stream"] == "stderr" {
			text = t.Stderr
		}
		var got []string
		for _, l := range strings.Split(text, "\n") {
			if strings.HasPrefix(l, c.Aux["prefix"]) {
				got = append(got, l)
			}
		}
		return strings.Join(got, "|"), model
	case "log":
		model = ask(c.Model[0])
		var got []string
		for _, l := range strings.Split(t.Stderr, "\n") {
			if strings.HasPrefix(l, "Adding ") {
				got = append(got, l)
			}
		}
		return strings.Join(got, "|"), model
	}
	return "", ""
}

// ---------------------------------------------------------------- main

func buildDrc(ctx *Ctx, base string) (string, error) {
	out := filepath.Join(base, "drc")
	cmd := exec.Command("go", "build", "-o", out, "./cmd/drc")
	cmd.Dir = filepath.Join(ctx.Repo, "go")
	cmd.Env = append(os.Environ(), "GOFLAGS=-mod=mod", "GOPROXY=off", "GOSUMDB=off", "GOTOOLCHAIN=local", "CGO_ENABLED=0")
	if b, err := cmd.CombinedOutput(); err != nil {
		return "", fmt.Errorf("go build ./cmd/drc: %v\n%s", err, b)
	}
	return out, nil
}

func run(ctx *Ctx) *Result {
	res := NewResult()
	res.Rule = "non-trivial = the input contains at least two candidates tied for an order dependent choice " +
		"(identical device groups, crypto entries with equal peer, several dangling references, several differing options, " +
		"several new tables/chains, several offending commands, more than 12 elements with tied sort keys, several objects per part of a raw/IPv6 merge), " +
		"or it is an input of the repository's own test data that yields a change script or a diagnostic; " +
		"one evaluation = N runs of the real drc in fresh processes on that input"
	base, err := os.MkdirTemp("", "c16-")
	if err != nil {
		panic(err)
	}
	defer os.RemoveAll(base)
	drc, err := buildDrc(ctx, base)
	if err != nil {
		res.Disagree("build-drc", nil, err.Error(), "the real drc binary builds")
		return res
	}

	var cases []*Case
	if ctx.Replay != "" {
		var c Case
		if err := ReadReplay(ctx.Replay, &c); err != nil {
			panic(err)
		}
		if c.Runs < 60 {
			c.Runs = 60
		}
		cases = []*Case{&c}
	} else {
		cases = corpus()
		per := ctx.N(30, 160)
		r := ctx.Rng
		for i := 0; i < per; i++ {
			k := 2 + r.Intn(7)
			cases = append(cases,
				genASAGroups(r.Fork(), k, pick(r, 0, 0, 1, 2)),
				genNSXGroups(r.Fork(), k),
				genCryptoPeers(r.Fork(), 2+r.Intn(5), false),
				genDangling(r.Fork(), k),
				genIPTOptions(r.Fork(), 2+r.Intn(5)),
				genLinuxRaw(r.Fork(), k),
				genAAA(r.Fork(), k),
				genRandomCisco(r.Fork()),
				genTunnelGroups(r.Fork(), k),
				genRawUnused(r.Fork(), k),
			)
			if i%2 == 0 {
				cases = append(cases, genCryptoPeers(r.Fork(), 2+r.Intn(4), true), genLinuxRedefine(r.Fork(), k), genPanos(r.Fork(), k))
			}
			if i < 12 {
				cases = append(cases, genRawAbort(r.Fork(), 1+i%3))
			}
		}
		if ctx.Thorough() {
			// bounded-exhaustive: every number of tied candidates 2..8 for the two group searches,
			// every subset size of differing options
			for k := 2; k <= 8; k++ {
				for rep := 0; rep < 3; rep++ {
					cases = append(cases, genASAGroups(r.Fork(), k, rep), genNSXGroups(r.Fork(), k))
				}
			}
			for k := 2; k <= 8; k++ {
				cases = append(cases, genIPTOptions(r.Fork(), k))
			}
		}
		cases = append(cases, wideCases(ctx, r)...)
		cases = append(cases, sessionCases(ctx, r)...)
		for _, c := range cases {
			c.Runs = runsFor(ctx, c)
		}
	}

	// run the real binary (parallel), then judge in generation order
	type outcome struct {
		distinct []triple
		counts   []int
		runs     int
	}
	outs := make([]outcome, len(cases))
	var outMu sync.Mutex
	merge := func(i int, d []triple, c []int, n int) {
		outMu.Lock()
		defer outMu.Unlock()
		o := &outs[i]
		o.runs += n
		for j, t := range d {
			found := false
			for k := range o.distinct {
				if o.distinct[k] == t {
					o.counts[k] += c[j]
					found = true
					break
				}
			}
			if !found {
				o.distinct = append(o.distinct, t)
				o.counts = append(o.counts, c[j])
			}
		}
	}
	// Time-boxed passes: pass 0 gives every case its base number of runs (at most 12) and always
	// completes; passes 1.. add runs to the cases that want more (small inputs: up to 40 in quick)
	// and are started only while the time box is open, so that quick stays within its budget on a
	// loaded machine. The number of runs actually made is reported.
	type job struct{ idx, pass, runs int }
	var jobList []job
	chunk := ctx.N(8, 12)
	for i, c := range cases {
		jobList = append(jobList, job{i, 0, min(c.Runs, chunk)})
	}
	for pass := 1; pass*chunk < 100; pass++ {
		for i, c := range cases {
			if rest := c.Runs - pass*chunk; rest > 0 {
				jobList = append(jobList, job{i, pass, min(rest, chunk)})
			}
		}
	}
	deadline := time.Now().Add(time.Duration(ctx.N(22, 420)) * time.Second)
	var skipped atomic.Int64
	var wg sync.WaitGroup
	jobs := make(chan job)
	workers := runtime.NumCPU()
	if workers > 16 {
		workers = 16
	}
	for w := 0; w < workers; w++ {
		wg.Add(1)
		go func() {
			defer wg.Done()
			for j := range jobs {
				if j.pass > 0 && ctx.Replay == "" && time.Now().After(deadline) {
					skipped.Add(int64(j.runs))
					continue
				}
				d, c := runCaseN(drc, base, j.idx, j.pass, j.runs, cases[j.idx])
				merge(j.idx, d, c, j.runs)
			}
		}()
	}
	for _, j := range jobList {
		jobs <- j
	}
	close(jobs)
	wg.Wait()
	for i, c := range cases {
		c.Runs = outs[i].runs
	}
	if n := skipped.Load(); n > 0 {
		res.CountN("runs-skipped-time-box", int(n))
		res.Notes = append(res.Notes, fmt.Sprintf("time box closed: %d of the extra runs on small inputs were not made (every input got its first %d runs, session inputs 6)", n, chunk))
	}

	drv := ctx.StartNadrv("c16")
	defer drv.Close()
	for i, c := range cases {
		o := outs[i]
		if len(o.distinct) == 0 {
			res.Count("inconclusive:no-run-could-be-started")
			continue
		}
		canonIn := JSONStr(c.Files) + strings.Join(c.Args, " ") + c.Session + fmt.Sprint(c.Approve)
		seedInput := strings.HasPrefix(c.Family, "seed_")
		res.Eval(canonIn, c.Ties >= 2 || seedInput && (o.distinct[0].Stdout != "" || o.distinct[0].Exit != 0))
		res.Count("family:" + c.Family)
		res.Count(fmt.Sprintf("ties:%d", min(c.Ties, 9)))
		res.CountN("process_runs", c.Runs)
		res.Count(fmt.Sprintf("exit:%d", o.distinct[0].Exit))
		if strings.HasPrefix(o.distinct[0].Stderr, "panic:") {
			res.Count("crash")
			if res.Distribution["crash"] <= 5 {
				first, _, _ := strings.Cut(o.distinct[0].Stderr, "\n")
				res.Notes = append(res.Notes, fmt.Sprintf("crash (C20 matter, compared by panic line only) in family %s: %s; files: %s", c.Family, first, clip(JSONStr(c.Files))))
			}
		}
		if i < 3 {
			res.Sample(map[string]any{"family": c.Family, "ties": c.Ties, "files": c.Files, "stdout": o.distinct[0].Stdout, "stderr": o.distinct[0].Stderr})
		}
		// oracle
		if c.Ties >= 2 && c.Ties <= 3 {
			res.Count(fmt.Sprintf("tie%d-inputs:%s", c.Ties, c.Family))
			if len(o.distinct) > 1 {
				res.Count(fmt.Sprintf("tie%d-differing:%s", c.Ties, c.Family))
			}
		}
		if len(o.distinct) > 1 {
			var variants []string
			for j, t := range o.distinct {
				if j < 4 {
					variants = append(variants, fmt.Sprintf("%dx exit=%d stdout=%q stderr=%q", o.counts[j], t.Exit, clip(t.Stdout), clip(t.Stderr)))
				}
			}
			res.Fail(map[string]any{"pred": c.Pred, "family": c.Family},
				fmt.Sprintf("%d runs of drc on byte-identical input gave %d different (stdout, stderr, exit) triples: %s",
					c.Runs, len(o.distinct), strings.Join(variants, " || ")), c)
		}
		// correspondence
		if c.Check != "" {
			impl, model := observe(c, o.distinct[0], drv.Ask)
			res.TracesVsImpl++
			res.Count("choice-compared:" + c.Family)
			if impl != model {
				res.Disagree("choice:"+c.Family, c, impl, model)
			}
		}
	}
	if n := envFailures.Load(); n > 0 {
		res.CountN("inconclusive:runs-dropped-environment", int(n))
		res.Notes = append(res.Notes, fmt.Sprintf("%d process runs could not be started or were killed (environment); retried 3 times, dropped, not compared", n))
	}
	if n := sessionNoise.Load(); n > 0 {
		res.CountN("session-noise:time-stamped-log-lines-dropped", int(n))
		res.Notes = append(res.Notes, fmt.Sprintf("%d time-stamped lines of Go's log package (goexpect: 'send failed' at tear-down of the dialogue) dropped from the stderr of session runs before comparing", n))
	}
	separationPass(res, cases)
	if ctx.Replay == "" {
		res.Notes = append(res.Notes, fmt.Sprintf("%d inputs, %d runs of the real drc in fresh processes (6 to 40 per input in quick, by size; see runsFor)", len(cases), res.Distribution["process_runs"]))
	}
	res.Assumptions = append(res.Assumptions,
		"drc FILE1 FILE2 (compare of two files) exercises parser, merge of raw/IPv6 parts and the diff engines; the session layer (approve on a device) adds no map iteration (translator: every range over a map in go/pkg is listed)")
	return res
}

// runsFor: many processes on the cheap small inputs, few on the large ones. A two-way tie in a map
// of at most 8 entries shows the minority order in 1 of 8 processes if the tied entries are adjacent
// (escape probability (7/8)^N: 20 % for N = 12, 0.5 % for N = 40) and in 1 of 2 if they are spaced
// (arrange): the small generated inputs get 40 runs, session runs (a dialogue with a simulator) 6.
func runsFor(ctx *Ctx, c *Case) int {
	size := 0
	for _, f := range c.Files {
		size += len(f)
	}
	size += len(c.Scenario)
	var q, t int
	switch {
	case c.Session != "":
		q, t = 6, 16
	case size < 1500:
		q, t = 40, 100
	case size < 4000:
		q, t = 24, 60
	case size < 12000:
		q, t = 12, 30
	default:
		q, t = 6, 12
	}
	return ctx.N(q, t)
}

func pick(r *RNG, l ...int) int { return l[r.Intn(len(l))] }

func clip(s string) string {
	if len(s) > 300 {
		return s[:300] + "…"
	}
	return s
}
