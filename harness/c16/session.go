// Approve-planning path of the C16 oracle: the device side does not come from a file but from a
// simulated device, so that LoadDevice, the real compare (drc -C) and the real approve (drc) of the
// session layer run, N times in fresh processes on the same input.
//
//   - ASA / IOS: the repository's own go/testdata/simulate-cisco.pl with a scenario file whose
//     `write term` / `sh run` section is the tie-rich device configuration of a generated case;
//   - NSX: an HTTPS server of the harness that serves the generated device configuration on the three
//     GET paths LoadDevice reads and records every other request (the request list of an approve);
//   - PAN-OS: the same server with the keygen / HA / config-get answers (compare only).
//
// Compared per run: stdout, stderr (info lines included: no -q), exit status, the change script
// written to the log directory (router.cmp / router.change) and, for NSX, the recorded request list.
package main

import (
	"crypto/tls"
	"encoding/json"
	"fmt"
	"io"
	"net/http"
	"net/http/httptest"
	"os"
	"os/exec"
	"path/filepath"
	"regexp"
	"strings"
	"sync"
	"sync/atomic"
	"time"

	. "verifharness/vhlib"
)

const asaLogin = `Are you sure you want to continue connecting (yes/no)?<!>
***********************************************************
**                 managed by NetSPoC                    **
***********************************************************
netspoc@10.1.2.3's password: <!>
Type help or '?' for a list of available commands.
router>
# enable
Password: <!>
# sh pager
pager lines 24

# sh term

Width = 80, no monitor
terminal interactive
# show hostname
router
# sh ver
Cisco Adaptive Security Appliance Software Version 9.4(4)5
Hardware:   ASA5550, 4096 MB RAM, CPU Pentium 4 3000 MHz
Configuration last modified by netspoc at 10:40:44.291 CEDT Thu Oct 19 2017
`

const asaTail = `# write memory
Building configuration...
Cryptochecksum: abcdef01 44444444 12345678 98765432

123456 bytes copied in 0.330 secs
[OK]
`

const iosLogin = `Enter Password:<!>
banner motd  managed by NetSPoC
router>
# sh ver
Cisco IOS Software, C2900 Software (C2900-UNIVERSALK9-M), Version 15.1(4)M4,
# configure terminal
Enter configuration commands, one per line.  End with CNTL/Z.
# reload in 2

System configuration has been modified. Save? [yes/no]: <!>
Reload reason: Reload Command
Proceed with reload? [confirm]<!>
# reload cancel


***
*** --- SHUTDOWN ABORTED ---
***
# write memory
Building configuration...
  Compressed configuration from 106098 bytes to 30504 bytes[OK]
`

// asSession turns a file-compare case into a session case of the same input.
func asSession(c *Case, approve bool) *Case {
	model := ""
	switch {
	case strings.Contains(c.Files["spoc.info"], `"ASA"`):
		model = "ASA"
	case strings.Contains(c.Files["spoc.info"], `"IOS"`):
		model = "IOS"
	case strings.Contains(c.Files["spoc.info"], `"NSX"`):
		model = "NSX"
	case strings.Contains(c.Files["spoc.info"], `"PAN-OS"`):
		model = "PAN-OS"
	default:
		return nil
	}
	n := *c
	n.Approve = approve
	n.Check, n.Model = "", nil // the choice is read off the file-compare twin; here only the oracle
	n.Family = "session_" + strings.ToLower(strings.ReplaceAll(model, "-", "")) + "_" + c.Family
	n.Pred = "approve_planning_" + c.Pred
	switch model {
	case "ASA":
		n.Session = "cisco"
		n.Scenario = asaLogin + "# write term\n" + c.Files["dev"] + asaTail
	case "IOS":
		n.Session = "cisco"
		n.Scenario = iosLogin + "# sh run\n" + c.Files["dev"]
	case "NSX":
		n.Session = "nsx"
	case "PAN-OS":
		n.Session = "panos"
		n.Approve = false
	}
	return &n
}

// ---------------------------------------------------------------- HTTPS simulator

type simServer struct {
	srv  *httptest.Server
	mu   sync.Mutex
	reqs map[string][]string // run id → requests that are not part of LoadDevice
	dev  map[string]nsxDev   // case id → device
	pan  map[string]string   // case id → PAN-OS devices XML
}

type nsxDev struct {
	Groups   []json.RawMessage `json:"groups"`
	Policies []json.RawMessage `json:"policies"`
	Services []json.RawMessage `json:"services"`
}

var sim *simServer
var simOnce sync.Once

func getSim() *simServer {
	simOnce.Do(func() {
		s := &simServer{reqs: map[string][]string{}, dev: map[string]nsxDev{}, pan: map[string]string{}}
		s.srv = httptest.NewUnstartedServer(http.HandlerFunc(s.handle))
		s.srv.TLS = &tls.Config{}
		s.srv.StartTLS()
		sim = s
	})
	return sim
}

func idOf(raw json.RawMessage) string {
	var v struct{ Id string }
	json.Unmarshal(raw, &v)
	return v.Id
}

// URL layout: /<case>/<run>/<real path>
func (s *simServer) handle(w http.ResponseWriter, r *http.Request) {
	parts := strings.SplitN(strings.TrimPrefix(r.URL.Path, "/"), "/", 3)
	if len(parts) == 2 && strings.HasSuffix(parts[1], "api") {
		// PAN-OS builds the keygen URL as addr + "api" (no slash)
		parts = []string{parts[0], strings.TrimSuffix(parts[1], "api"), "api"}
	}
	if len(parts) < 3 {
		http.NotFound(w, r)
		return
	}
	caseID, runID, path := parts[0], parts[0]+"/"+parts[1], "/"+parts[2]
	body, _ := io.ReadAll(r.Body)
	s.mu.Lock()
	dev, isNSX := s.dev[caseID]
	pan, isPan := s.pan[caseID]
	s.mu.Unlock()
	results := func(l []json.RawMessage) {
		if l == nil {
			l = []json.RawMessage{}
		}
		b, _ := json.Marshal(map[string]any{"results": l})
		w.Write(b)
	}
	const pol = "/policy/api/v1/infra/domains/default/gateway-policies"
	switch {
	case isNSX && r.Method == "POST" && path == "/api/session/create":
		w.Header().Set("x-xsrf-token", "secret")
		return
	case isNSX && r.Method == "GET" && path == pol:
		var ids []json.RawMessage
		for _, p := range dev.Policies {
			b, _ := json.Marshal(map[string]string{"id": idOf(p)})
			ids = append(ids, b)
		}
		results(ids)
		return
	case isNSX && r.Method == "GET" && strings.HasPrefix(path, pol+"/") && !strings.Contains(path[len(pol)+1:], "/"):
		for _, p := range dev.Policies {
			if idOf(p) == path[len(pol)+1:] {
				w.Write(p)
				return
			}
		}
		http.NotFound(w, r)
		return
	case isNSX && r.Method == "GET" && path == "/policy/api/v1/infra/services":
		results(dev.Services)
		return
	case isNSX && r.Method == "GET" && path == "/policy/api/v1/infra/domains/default/groups":
		results(dev.Groups)
		return
	case isPan && r.Method == "GET" && r.URL.Query().Get("type") == "keygen":
		io.WriteString(w, "<response status = 'success'><result><key>LUFRPT=</key></result></response>")
		return
	case isPan && r.Method == "GET" && r.URL.Query().Get("type") == "op":
		io.WriteString(w, "<response status = 'success'><result><enabled>yes</enabled><group><mode>Active-Passive</mode><local-info><state>active</state></local-info></group></result></response>")
		return
	case isPan && r.Method == "GET" && r.URL.Query().Get("type") == "config" && r.URL.Query().Get("action") == "get":
		io.WriteString(w, "<response status = 'success'><result>"+pan+"</result></response>")
		return
	}
	// a request of the change script: record it
	s.mu.Lock()
	s.reqs[runID] = append(s.reqs[runID], r.Method+" "+path+"?"+r.URL.RawQuery+"\n"+string(body))
	s.mu.Unlock()
	if isPan {
		io.WriteString(w, "<response status = 'success'></response>")
		return
	}
	io.WriteString(w, "{}")
}

// ---------------------------------------------------------------- running a session case

func runSessionCase(drc, base string, idx int, c *Case) (distinct []triple, counts []int) {
	caseID := fmt.Sprintf("c%05d", idx)
	model := map[string]string{"cisco": "", "nsx": "NSX", "panos": "PAN-OS"}[c.Session]
	if c.Session == "cisco" {
		model = "ASA"
		if strings.Contains(c.Files["spoc.info"], `"IOS"`) {
			model = "IOS"
		}
	}
	var s *simServer
	if c.Session != "cisco" {
		s = getSim()
		s.mu.Lock()
		if c.Session == "nsx" {
			var d nsxDev
			json.Unmarshal([]byte(c.Files["dev"]), &d)
			s.dev[caseID] = d
		} else {
			x := c.Files["dev"]
			x = strings.TrimSpace(strings.TrimSuffix(strings.TrimPrefix(strings.TrimSpace(x), "<config>"), "</config>"))
			x = strings.Replace(x, `<entry name="localhost.localdomain">`, `<entry name="localhost.localdomain"><deviceconfig><system><hostname>router</hostname></system></deviceconfig>`, 1)
			s.pan[caseID] = x
		}
		s.mu.Unlock()
	}
	for i := 0; i < c.Runs; i++ {
		dir := filepath.Join(base, fmt.Sprintf("sess%05d-%03d", idx, i))
		files := map[string]string{
			"code/router":      c.Files["spoc"],
			"code/router.info": fmt.Sprintf("{\"model\":\"%s\",\"name_list\":[\"router\"],\"ip_list\":[\"10.1.13.33\"]}\n", model),
			".netspoc-approve": "basedir = " + dir + "\ncheckbanner = NetSPoC\nsystemuser = admin\ntimeout = 20\nlogin_timeout = 20\n",
			"credentials":      "* admin secret\n",
			"scenario":         c.Scenario,
		}
		if t, ok := c.Files["spoc.raw"]; ok {
			files["code/router.raw"] = t
		}
		if t, ok := c.Files["ipv6/spoc"]; ok {
			files["code/ipv6/router"] = t
		}
		WriteFiles(dir, files)
		for _, d := range []string{"lock", "status", "history", "log"} {
			os.MkdirAll(filepath.Join(dir, d), 0755)
		}
		args := []string{"-L", filepath.Join(dir, "log")}
		if !c.Approve {
			args = append(args, "-C")
		}
		args = append(args, "code/router")
		simul := ""
		runID := fmt.Sprintf("%s/r%d", caseID, i)
		if c.Session == "cisco" {
			simul = filepath.Join(repoRoot, "go", "testdata", "simulate-cisco.pl") + " router " + filepath.Join(dir, "scenario")
		} else {
			simul = s.srv.URL + "/" + runID
		}
		cmd := exec.Command(drc, args...)
		cmd.Dir = dir
		cmd.Env = []string{"HOME=" + dir, "PATH=/usr/local/bin:/usr/bin:/bin", "LANG=C", "SIMULATE_ROUTER=" + simul, "TEST_TIME=2024-Sep-29 16:19:50"}
		var so, se strings.Builder
		cmd.Stdout, cmd.Stderr = &so, &se
		done := make(chan error, 1)
		cmd.Start()
		go func() { done <- cmd.Wait() }()
		code := 0
		select {
		case err := <-done:
			if err != nil {
				if ee, ok := err.(*exec.ExitError); ok {
					code = ee.ExitCode()
				} else {
					code = -1
				}
			}
		case <-time.After(90 * time.Second):
			cmd.Process.Kill()
			<-done
			code = -1
		}
		out := so.String()
		for _, f := range []string{"router.cmp", "router.change"} {
			if b, err := os.ReadFile(filepath.Join(dir, "log", f)); err == nil {
				out += "--" + f + "\n" + string(b)
			}
		}
		if s != nil {
			s.mu.Lock()
			if l := s.reqs[runID]; len(l) > 0 {
				out += "--requests\n" + strings.Join(l, "\n") + "\n"
			}
			delete(s.reqs, runID)
			s.mu.Unlock()
		}
		norm := func(x string) string {
			x = strings.ReplaceAll(x, dir, "DIR")
			if s != nil {
				x = strings.ReplaceAll(x, s.srv.URL+"/"+runID, "SIM")
			}
			return x
		}
		// goexpect (third party, session layer) logs `send failed: <nil>` with a time stamp through the
		// log package when the dialogue is torn down while a send is in flight: timing of the session
		// layer, outside the planning path — dropped from the compared stderr and counted.
		var kept []string
		for _, l := range strings.Split(se.String(), "\n") {
			if logLineRe.MatchString(l) {
				sessionNoise.Add(1)
				continue
			}
			kept = append(kept, l)
		}
		t := canon(triple{norm(out), norm(strings.Join(kept, "\n")), code})
		os.RemoveAll(dir)
		// time-outs of the dialogue and signals are environment trouble: inconclusive, not compared
		if code == -1 || strings.Contains(t.Stderr, "timeout") && strings.Contains(t.Stderr, "ERROR>>>") && sessionTimeouts(t.Stderr) {
			envFailures.Add(1)
			continue
		}
		found := false
		for j := range distinct {
			if distinct[j] == t {
				counts[j]++
				found = true
				break
			}
		}
		if !found {
			distinct = append(distinct, t)
			counts = append(counts, 1)
		}
	}
	if s != nil {
		s.mu.Lock()
		delete(s.dev, caseID)
		delete(s.pan, caseID)
		s.mu.Unlock()
	}
	return
}

// sessionTimeouts: the error is a time-out of the expect dialogue / HTTP client, not a verdict of drc.
func sessionTimeouts(stderr string) bool {
	for _, m := range []string{"while waiting for", "Client.Timeout", "i/o timeout", "no space left on device"} {
		if strings.Contains(stderr, m) {
			return true
		}
	}
	return false
}

var repoRoot = "/repo"

// a line written by Go's log package (date, time, message)
var logLineRe = regexp.MustCompile(`^\d{4}/\d\d/\d\d \d\d:\d\d:\d\d `)
var sessionNoise atomic.Int64

// sessionCases: session twins of tie-rich generated inputs.
func sessionCases(ctx *Ctx, r *RNG) []*Case {
	repoRoot = ctx.Repo
	var out []*Case
	add := func(c *Case, approve bool) {
		if n := asSession(c, approve); n != nil {
			out = append(out, n)
		}
	}
	per := ctx.N(4, 14)
	for i := 0; i < per; i++ {
		k := 2 + r.Intn(4)
		add(genASAGroups(r.Fork(), k, pick(r, 0, 1)), i%2 == 0)
		add(genCryptoPeers(r.Fork(), 2+r.Intn(3), false), i%2 == 1)
		add(genRandomCisco(r.Fork()), i%2 == 0)
		add(genCrossKindNames(r.Fork(), k), i%2 == 1)
		add(genNSXGroups(r.Fork(), k), i%2 == 0)
		add(genNSXRuleTies(r.Fork(), 13+r.Intn(10)), i%2 == 1)
		add(genPanos(r.Fork(), k), false)
		if i%2 == 0 {
			add(genASAMerge(r.Fork(), k), false)
			add(genTunnelGroups(r.Fork(), k), false) // approve would need `exit`, which ends simulate-cisco.pl
			add(genCiscoRouteTies(r.Fork(), 13+r.Intn(10)), true)
		}
	}
	return out
}
