// Round 3: wider oracle for C16.
//
//   - seeds.json.gz: device / Netspoc / raw / ipv6 files of every file-compare test of the
//     repository's own test data (ASA, IOS, Linux, NSX, PAN-OS; produced by
//     translate/mapranges/seedgen), run N times as they are and with device and Netspoc swapped;
//   - tie-rich inputs for the comparator sorts (many routes with the same prefix length, duplicate
//     routes that differ in the stripped metric, NSX rules equal in all sort keys, object-groups with
//     duplicate members), each with more than 12 elements so that pdqsort leaves insertion sort;
//   - merges of raw and IPv6 parts for ASA, Linux, NSX and PAN-OS with several objects of every kind;
//   - the inputs of F-C16i (too many transform-sets) and F-C16j (incomplete ACL lines) with the
//     model's prediction of the message.
package main

import (
	"bytes"
	"compress/gzip"
	_ "embed"
	"encoding/json"
	"fmt"
	"io"
	"strings"

	. "verifharness/vhlib"
)

//go:embed seeds.json.gz
var seedsGz []byte

type seed struct {
	Src   string            `json:"src"`
	Model string            `json:"model"`
	Files map[string]string `json:"files"`
	Opts  []string          `json:"opts"`
}

func loadSeeds() []seed {
	zr, err := gzip.NewReader(bytes.NewReader(seedsGz))
	if err != nil {
		panic(err)
	}
	data, err := io.ReadAll(zr)
	if err != nil {
		panic(err)
	}
	var l []seed
	if err := json.Unmarshal(data, &l); err != nil {
		panic(err)
	}
	return l
}

func seedCases(swapToo bool) []*Case {
	var out []*Case
	for _, s := range loadSeeds() {
		args := append([]string(nil), s.Opts...)
		args = append(args, "device", "code/router")
		fam := "seed_" + strings.ToLower(strings.ReplaceAll(s.Model, "-", ""))
		extra := 0
		for n := range s.Files {
			if strings.HasSuffix(n, ".raw") || strings.Contains(n, "ipv6/") {
				extra++
			}
		}
		if extra > 0 {
			fam += "_merge"
		}
		out = append(out, &Case{Family: fam, Pred: "repository_test_input", Files: s.Files, Args: args, Note: s.Src})
		if swapToo && extra == 0 && s.Files["device"] != "" && s.Files["code/router"] != "" {
			f := map[string]string{}
			for k, v := range s.Files {
				f[k] = v
			}
			f["device"], f["code/router"] = s.Files["code/router"], s.Files["device"]
			out = append(out, &Case{Family: fam + "_swapped", Pred: "repository_test_input_swapped", Files: f, Args: args, Note: s.Src})
		}
	}
	return out
}

// ---------------------------------------------------------------- comparator sorts with ties

// Linux: n routes, few different prefix lengths (slices.SortFunc by prefix length only), some
// destinations twice with different gateways.
func genLinuxRouteTies(r *RNG, n int) *Case {
	mk := func(rr *RNG, n int) string {
		var b strings.Builder
		seen := map[string]bool{}
		for i := 0; i < n; i++ {
			bits := []int{16, 24, 24, 24, 32}[rr.Intn(5)]
			var dst string
			switch bits {
			case 16:
				dst = fmt.Sprintf("10.%d.0.0/16", 1+rr.Intn(12))
			case 24:
				dst = fmt.Sprintf("10.%d.%d.0/24", 1+rr.Intn(4), rr.Intn(12))
			default:
				dst = fmt.Sprintf("10.%d.%d.%d", 1+rr.Intn(3), rr.Intn(4), 1+rr.Intn(12))
			}
			gw := fmt.Sprintf("10.9.1.%d", 1+rr.Intn(4))
			line := "ip route add " + dst + " via " + gw
			if seen[line] {
				continue
			}
			seen[line] = true
			b.WriteString(line + "\n")
		}
		if rr.Chance(50) {
			fmt.Fprintf(&b, "ip route add default via 10.9.9.%d\n", 1+rr.Intn(3))
		}
		return b.String()
	}
	return &Case{Family: "linux_route_ties", Pred: "unstable_sort_with_tied_keys_linux_routes",
		Files: map[string]string{"dev": mk(r.Fork(), n), "spoc": mk(r.Fork(), n), "spoc.info": `{"model":"Linux"}`},
		Args:  []string{"dev", "spoc"}, Ties: n}
}

// ASA / IOS: many routes with the same mask; the same route twice with different metric (the metric
// is stripped from the sort key but not from the text that is printed).
func genCiscoRouteTies(r *RNG, n int) *Case {
	ios := r.Chance(40)
	mk := func(rr *RNG) string {
		var b strings.Builder
		if !ios {
			b.WriteString("interface Ethernet0/0\n nameif inside\n")
		}
		for i := 0; i < n; i++ {
			mask := []string{"255.255.255.0", "255.255.255.0", "255.255.0.0", "255.255.255.255"}[rr.Intn(4)]
			net := fmt.Sprintf("10.%d.%d.0", 20+rr.Intn(3), rr.Intn(10))
			if mask == "255.255.0.0" {
				net = fmt.Sprintf("10.%d.0.0", 20+rr.Intn(8))
			} else if mask == "255.255.255.255" {
				net = fmt.Sprintf("10.%d.%d.%d", 20+rr.Intn(3), rr.Intn(4), 1+rr.Intn(9))
			}
			gw := fmt.Sprintf("10.1.2.%d", 1+rr.Intn(3))
			if ios {
				fmt.Fprintf(&b, "ip route %s %s %s\n", net, mask, gw)
			} else if rr.Chance(30) {
				fmt.Fprintf(&b, "route inside %s %s %s %d\n", net, mask, gw, 1+rr.Intn(3))
			} else {
				fmt.Fprintf(&b, "route inside %s %s %s\n", net, mask, gw)
			}
		}
		return b.String()
	}
	model := "ASA"
	if ios {
		model = "IOS"
	}
	return &Case{Family: "cisco_route_ties", Pred: "unstable_sort_with_tied_keys_cisco_routes",
		Files: map[string]string{"dev": mk(r.Fork()), "spoc": mk(r.Fork()), "spoc.info": `{"model":"` + model + `"}`},
		Args:  []string{"dev", "spoc"}, Ties: n}
}

// NSX: n rules that agree in every sort key but their groups; many identical groups.
func genNSXRuleTies(r *RNG, n int) *Case {
	g := newGen(r)
	mkSide := func(rr *RNG, ids []string, rules int) nsxCfg {
		var groups []nsxGrp
		pool := [][]string{{"10.1.1.10", "10.1.1.20"}, {"10.1.2.30"}, {"10.1.1.10", "10.1.1.20"}, {"10.1.3.0/24", "10.1.4.0/24"}}
		for i, id := range ids {
			ips := append([]string(nil), pool[i%len(pool)]...)
			Shuffle(rr, ips)
			groups = append(groups, nsxGrp{id, []nsxExpr{{"id", "IPAddressExpression", ips}}})
		}
		Shuffle(rr, groups)
		var rl []nsxRule
		for i := 0; i < rules; i++ {
			src := nsxGroupPath + ids[rr.Intn(len(ids))]
			dst := []string{"10.8.8.8", "10.8.8.9", nsxGroupPath + ids[rr.Intn(len(ids))]}[rr.Intn(3)]
			rl = append(rl, nsxRule{"Rule", fmt.Sprintf("r%d", i+1), []string{"/infra/tier-0s/v1"}, "OUT", "IPV4", 20, "ALLOW", []string{src}, []string{dst}, []string{"ANY"}})
		}
		Shuffle(rr, rl)
		return nsxCfg{groups, []nsxPol{{"Netspoc-v1", "GatewayPolicy", rl}}, []any{}}
	}
	var dIDs, sIDs []string
	for i := 0; i < 4+r.Intn(5); i++ {
		dIDs = append(dIDs, "Netspoc-"+g.name("g"))
	}
	for i := 0; i < 3+r.Intn(4); i++ {
		sIDs = append(sIDs, "Netspoc-"+g.name("g"))
	}
	d, _ := json.MarshalIndent(mkSide(r.Fork(), dIDs, n), "", " ")
	s, _ := json.MarshalIndent(mkSide(r.Fork(), sIDs, n), "", " ")
	return &Case{Family: "nsx_rule_ties", Pred: "unstable_sort_with_tied_keys_nsx_rules",
		Files: map[string]string{"dev": string(d), "spoc": string(s), "spoc.info": `{"model":"NSX"}`},
		Args:  []string{"dev", "spoc"}, Ties: n}
}

// ASA: object-groups with more than 12 members, some of them twice (sort.Slice by parsed in sortGroups).
func genGroupDupMembers(r *RNG, n int) *Case {
	g := newGen(r)
	members := func(rr *RNG) string {
		var b strings.Builder
		for i := 0; i < n; i++ {
			fmt.Fprintf(&b, " network-object host 10.1.%d.%d\n", rr.Intn(2), 1+rr.Intn(n/2+1))
		}
		return b.String()
	}
	var dev, spoc strings.Builder
	dev.WriteString("interface Ethernet0/0\n nameif inside\n")
	k := 2 + r.Intn(3)
	var dn []string
	for i := 0; i < k; i++ {
		n := g.name("g")
		dn = append(dn, n)
		fmt.Fprintf(&dev, "object-group network %s\n%s", n, members(r.Fork()))
	}
	for _, n := range dn {
		fmt.Fprintf(&dev, "access-list inside extended permit ip object-group %s any4\n", n)
	}
	dev.WriteString("access-group inside in interface inside\n")
	for i := 0; i < k; i++ {
		fmt.Fprintf(&spoc, "object-group network n%d\n%s", i, members(r.Fork()))
	}
	for i := 0; i < k; i++ {
		fmt.Fprintf(&spoc, "access-list inside extended permit ip object-group n%d any4\n", i)
	}
	spoc.WriteString("access-group inside in interface inside\n")
	return &Case{Family: "asa_group_dup_members", Pred: "unstable_sort_with_tied_keys_group_members",
		Files: map[string]string{"dev": dev.String(), "spoc": spoc.String(), "spoc.info": asaInfo},
		Args:  []string{"dev", "spoc"}, Ties: n}
}

// ---------------------------------------------------------------- merges of raw and IPv6 parts

// ASA: IPv4 file, ipv6/ file and raw file, each with ACLs, object-groups and routes under several names;
// raw prepends/appends to ACLs of both and brings unreferenced objects.
func genASAMerge(r *RNG, k int) *Case {
	g := newGen(r)
	var v4, v6, raw, dev strings.Builder
	dev.WriteString("interface Ethernet0/0\n nameif inside\ninterface Ethernet0/1\n nameif outside\n")
	intfs := []string{"inside", "outside"}
	for i, in := range intfs {
		acl := in + "_in"
		gn := g.name("g")
		fmt.Fprintf(&v4, "object-group network %s\n network-object host 10.1.%d.1\n network-object host 10.1.%d.2\n", gn, i, i)
		fmt.Fprintf(&v4, "access-list %s extended permit ip object-group %s any4\naccess-list %s extended deny ip any4 any4\naccess-group %s in interface %s\n", acl, gn, acl, acl, in)
		g6 := g.name("h")
		fmt.Fprintf(&v6, "object-group network %s\n network-object host 1000::abcd:%d:1\n network-object host 1000::abcd:%d:2\n", g6, i, i)
		fmt.Fprintf(&v6, "access-list %s extended permit ip object-group %s any6\naccess-list %s extended deny ip any6 any6\naccess-group %s in interface %s\n", acl, g6, acl, acl, in)
		fmt.Fprintf(&raw, "access-list %s extended permit tcp host 10.9.%d.9 any4 eq 22\n", acl, i)
		fmt.Fprintf(&raw, "access-group %s in interface %s\n", acl, in)
		// device: something different, with a few identical groups
		for j := 0; j < 1+r.Intn(3); j++ {
			fmt.Fprintf(&dev, "object-group network %s\n network-object host 10.1.%d.1\n network-object host 10.1.%d.2\n", g.name("d"), i, i)
		}
		fmt.Fprintf(&dev, "access-list %s extended deny ip any4 any4\naccess-group %s in interface %s\n", acl, acl, in)
	}
	for i := 0; i < k; i++ {
		fmt.Fprintf(&v4, "route inside 10.%d.0.0 255.255.0.0 10.1.2.%d\n", 20+i, 1+r.Intn(3))
		fmt.Fprintf(&v6, "ipv6 route inside 10::%d:0/112 10::2:%d\n", 3+i, 1+r.Intn(3))
		// unreferenced objects in raw: sorted warnings
		fmt.Fprintf(&raw, "object-group network %s\n network-object host 10.7.7.%d\n", g.name("u"), 1+i)
	}
	if r.Chance(50) {
		raw.WriteString("[APPEND]\naccess-list inside_in extended deny ip host 10.6.6.6 any4\n")
	}
	return &Case{Family: "asa_merge", Pred: "merge_of_raw_and_ipv6_parts_asa",
		Files: map[string]string{"dev": dev.String(), "spoc": v4.String(), "ipv6/spoc": v6.String(), "spoc.raw": raw.String(), "spoc.info": asaInfo},
		Args:  []string{"dev", "spoc"}, Ties: k}
}

// Linux: iptables in IPv4 file, raw file with further tables, new chains and prepended / appended rules.
func genLinuxMerge(r *RNG, k int) *Case {
	g := newGen(r)
	v4 := "*filter\n:INPUT DROP\n:FORWARD DROP\n:c1 -\n-A INPUT -s 10.1.1.1 -j ACCEPT\n-A FORWARD -j c1\n-A c1 -d 10.2.2.2 -p tcp --dport 80 -j ACCEPT\n-A c1 -j DROP\nCOMMIT\n"
	var raw strings.Builder
	tables := []string{"nat", "mangle", "raw"}
	Shuffle(r, tables)
	for _, t := range tables[:1+r.Intn(3)] {
		fmt.Fprintf(&raw, "*%s\n:PREROUTING ACCEPT\n", t)
		for i := 0; i < k; i++ {
			fmt.Fprintf(&raw, ":%s -\n", g.name("x"))
		}
		raw.WriteString("-A PREROUTING -s 10.3.3.3 -j ACCEPT\nCOMMIT\n")
	}
	raw.WriteString("*filter\n")
	var chains []string
	for i := 0; i < k; i++ {
		c := g.name("n")
		chains = append(chains, c)
		fmt.Fprintf(&raw, ":%s -\n", c)
	}
	for _, c := range chains {
		fmt.Fprintf(&raw, "-A %s -s 10.4.4.%d -j ACCEPT\n", c, 1+r.Intn(9))
	}
	raw.WriteString("-A INPUT -s 10.5.5.5 -j ACCEPT\n[APPEND]\n-A INPUT -s 10.6.6.6 -j DROP\nCOMMIT\n")
	dev := "*filter\n:INPUT DROP\n:FORWARD DROP\n:c1 -\n-A INPUT -s 10.1.1.1 -j ACCEPT\n-A FORWARD -j c1\n-A c1 -j DROP\nCOMMIT\n"
	return &Case{Family: "linux_merge", Pred: "merge_of_raw_parts_linux",
		Files: map[string]string{"dev": dev, "spoc": v4, "spoc.raw": raw.String(), "spoc.info": `{"model":"Linux"}`},
		Args:  []string{"dev", "spoc"}, Ties: k}
}

// NSX: IPv4 and IPv6 file with the same policy id and rules, raw file with further rules and groups.
func genNSXMerge(r *RNG, k int) *Case {
	g := newGen(r)
	rule := func(id, src, dst, proto string, seq int) nsxRule {
		return nsxRule{"Rule", id, []string{"/infra/tier-0s/v1"}, "OUT", proto, seq, "ALLOW", []string{src}, []string{dst}, []string{"ANY"}}
	}
	grp := func(id string, ips ...string) nsxGrp {
		return nsxGrp{id, []nsxExpr{{"id", "IPAddressExpression", ips}}}
	}
	var g4, g6, gd []nsxGrp
	var r4, r6, rd []nsxRule
	for i := 0; i < k; i++ {
		a, b := g.name("g"), g.name("g")
		g4 = append(g4, grp("Netspoc-"+a, "10.1.1.10", "10.1.1.20"))
		g6 = append(g6, grp("Netspoc-"+b, "1000::abcd:1:10", "1000::abcd:1:20"))
		r4 = append(r4, rule(fmt.Sprintf("r%d", i+1), nsxGroupPath+"Netspoc-"+a, "10.8.8.8", "IPV4", 20))
		r6 = append(r6, rule(fmt.Sprintf("v6r%d", i+1), nsxGroupPath+"Netspoc-"+b, "1000::8", "IPV6", 20))
		gd = append(gd, grp("Netspoc-"+g.name("g"), "10.1.1.10", "10.1.1.20"))
	}
	rd = append(rd, rule("r1", "10.9.9.9", "10.8.8.8", "IPV4", 20))
	cfg := func(gs []nsxGrp, rs []nsxRule) string {
		b, _ := json.MarshalIndent(nsxCfg{gs, []nsxPol{{"Netspoc-v1", "GatewayPolicy", rs}}, []any{}}, "", " ")
		return string(b)
	}
	raw := cfg([]nsxGrp{grp("Netspoc-raw"+g.name("g"), "10.7.7.7")}, []nsxRule{rule("raw1", "10.7.7.1", "10.7.7.2", "IPV4", 10)})
	return &Case{Family: "nsx_merge", Pred: "merge_of_raw_and_ipv6_parts_nsx",
		Files: map[string]string{"dev": cfg(gd, rd), "spoc": cfg(g4, r4), "ipv6/spoc": cfg(g6, r6), "spoc.raw": raw, "spoc.info": `{"model":"NSX"}`},
		Args:  []string{"dev", "spoc"}, Ties: k}
}

// PAN-OS: IPv4 and IPv6 file (same vsys) and a raw file with further rules.
func genPanosMerge(r *RNG, k int) *Case {
	g := newGen(r)
	const pre = `<config><devices><entry name="localhost.localdomain"><vsys><entry name="vsys1">` + "\n"
	const post = `</entry></vsys></entry></devices></config>` + "\n"
	rule := func(name, src, dst string) string {
		return fmt.Sprintf(`<entry name="%s"><action>allow</action><from><member>z1</member></from><to><member>z2</member></to>`+
			`<source><member>%s</member></source><destination><member>%s</member></destination>`+
			`<service><member>tcp 80</member></service><application><member>any</member></application>`+
			`<rule-type>interzone</rule-type><log-start>yes</log-start><log-end>yes</log-end></entry>`+"\n", name, src, dst)
	}
	svc := `<service><entry name="tcp 80"><protocol><tcp><port>80</port></tcp></protocol></entry></service>` + "\n"
	side := func(rules, groups, addrs string) string {
		return pre + "<rulebase><security><rules>\n" + rules + "</rules></security></rulebase>\n<address-group>\n" + groups +
			"</address-group>\n<address>\n" + addrs + "</address>\n" + svc + post
	}
	addr4 := `<entry name="IP_10.1.1.10"><ip-netmask>10.1.1.10/32</ip-netmask></entry>` + "\n" +
		`<entry name="IP_10.1.1.20"><ip-netmask>10.1.1.20/32</ip-netmask></entry>` + "\n" +
		`<entry name="NET_10.1.2.0_24"><ip-netmask>10.1.2.0/24</ip-netmask></entry>` + "\n"
	addr6 := `<entry name="IP_1000::10"><ip-netmask>1000::10/128</ip-netmask></entry>` + "\n" +
		`<entry name="NET_1000::2:0_112"><ip-netmask>1000::2:0/112</ip-netmask></entry>` + "\n"
	var r4, r6, g4, g6, rd, gd string
	for i := 0; i < k; i++ {
		a, b, d := g.name("g"), g.name("g"), g.name("g")
		g4 += fmt.Sprintf(`<entry name="%s"><static><member>IP_10.1.1.10</member><member>IP_10.1.1.20</member></static></entry>`+"\n", a)
		g6 += fmt.Sprintf(`<entry name="%s"><static><member>IP_1000::10</member></static></entry>`+"\n", b)
		gd += fmt.Sprintf(`<entry name="%s"><static><member>IP_10.1.1.20</member><member>IP_10.1.1.10</member></static></entry>`+"\n", d)
		r4 += rule(fmt.Sprintf("r%d", i+1), a, "NET_10.1.2.0_24")
		r6 += rule(fmt.Sprintf("v6r%d", i+1), b, "NET_1000::2:0_112")
		if i%2 == 0 {
			rd += rule(fmt.Sprintf("r%d", i+1), d, "NET_10.1.2.0_24")
		}
	}
	raw := side(rule("raw1", "IP_10.1.1.10", "NET_10.1.2.0_24"), "", addr4)
	return &Case{Family: "panos_merge", Pred: "merge_of_raw_and_ipv6_parts_panos",
		Files: map[string]string{"dev": side(rd, gd, addr4), "spoc": side(r4, g4, addr4), "ipv6/spoc": side(r6, g6, addr6), "spoc.raw": raw, "spoc.info": `{"model":"PAN-OS"}`},
		Args:  []string{"dev", "spoc"}, Ties: k}
}

// ---------------------------------------------------------------- F-C16i, F-C16j

// ASA: k crypto maps each with more than 11 transform-sets: 'Too many names' names the least map.
func genTooManyTransforms(r *RNG, k int) *Case {
	g := newGen(r)
	var dev strings.Builder
	dev.WriteString("interface Ethernet0/1\n nameif outside\n")
	var names []string
	for i := 0; i < k; i++ {
		names = append(names, g.name("m"))
	}
	var entries []string
	for _, m := range names {
		seq := 1 + r.Intn(9)
		line := fmt.Sprintf("crypto map %s %d set ikev1 transform-set t1 t2 t3 t4 t5 t6 t7 t8 t9 t10 t11 t12", m, seq)
		fmt.Fprintf(&dev, "crypto map %s %d set peer 10.0.0.%d\n%s\n", m, seq, 1+r.Intn(9), line)
		entries = append(entries, m+";Too many names (max. 11) in: "+line)
	}
	for i := r.Intn(3); i > 0; i-- {
		m := g.name("ok")
		fmt.Fprintf(&dev, "crypto map %s 1 set peer 10.0.0.1\ncrypto map %s 1 set ikev1 transform-set t1 t2\n", m, m)
		entries = append(entries, m+";")
	}
	return &Case{Family: "too_many_transforms", Pred: "several_crypto_maps_with_too_many_transform_sets",
		Files: map[string]string{"dev": dev.String(), "spoc": "interface Ethernet0/1\n nameif outside\n", "spoc.info": asaInfo},
		Args:  []string{"dev", "spoc"}, Ties: k, Check: "stderr-prefix", Aux: map[string]string{"prefix": "ERROR>>> "},
		Model: []string{"first\t" + strings.Join(entries, "|")}}
}

// ASA: k ACLs each with an incomplete line: 'Incomplete command' names the line of the least ACL.
func genIncompleteACL(r *RNG, k int) *Case {
	g := newGen(r)
	var dev strings.Builder
	dev.WriteString("interface Ethernet0/1\n nameif outside\n")
	var entries []string
	for i := 0; i < k; i++ {
		a := g.name("a")
		bad := []string{"permit ip host", "permit tcp object-group", "deny udp host"}[r.Intn(3)]
		line := fmt.Sprintf("access-list %s extended %s", a, bad)
		if r.Chance(50) {
			fmt.Fprintf(&dev, "access-list %s extended permit ip any4 any4\n", a)
		}
		dev.WriteString(line + "\n")
		entries = append(entries, a+";Incomplete command: "+line)
	}
	for i := r.Intn(3); i > 0; i-- {
		a := g.name("ok")
		fmt.Fprintf(&dev, "access-list %s extended permit ip any4 any4\n", a)
		entries = append(entries, a+";")
	}
	return &Case{Family: "incomplete_acl", Pred: "several_acls_with_incomplete_line",
		Files: map[string]string{"dev": dev.String(), "spoc": "interface Ethernet0/1\n nameif outside\n", "spoc.info": asaInfo},
		Args:  []string{"dev", "spoc"}, Ties: k, Check: "stderr-prefix", Aux: map[string]string{"prefix": "ERROR>>> "},
		Model: []string{"first\t" + strings.Join(entries, "|")}}
}

// ASA: the same Netspoc name for objects of different command kinds (object-group, access-list,
// crypto map), and on the device stale NAME-DRC-<i> names in some kinds only, so that the first free
// index differs between the kinds. Every object must get the first free index OF ITS OWN KIND
// (model: firstFree), in every run.
func genCrossKindNames(r *RNG, k int) *Case {
	g := newGen(r)
	var dev, spoc strings.Builder
	dev.WriteString("interface Ethernet0/0\n nameif inside\ninterface Ethernet0/1\n nameif outside\n")
	intfs := []string{"inside", "outside"}
	var asks []string // kind;name;used
	occupied := func() []int {
		n := r.Intn(4)
		var l []int
		for i := 0; i < n; i++ {
			l = append(l, i)
		}
		if n > 0 && r.Chance(25) { // a gap
			l = append(l[:len(l)-1], n)
		}
		return l
	}
	ints := func(l []int) string {
		s := make([]string, len(l))
		for i, v := range l {
			s[i] = fmt.Sprint(v)
		}
		return strings.Join(s, ",")
	}
	crypto := false
	for i := 0; i < k && i < 2; i++ {
		name := g.name("n")
		in := intfs[i]
		// device: stale names per kind, different sets
		ua, ug := occupied(), occupied()
		for len(ua) == len(ug) {
			ug = occupied()
		}
		for j, idx := range ua {
			fmt.Fprintf(&dev, "access-list %s-DRC-%d extended permit ip host 10.3.%d.%d any4\n", name, idx, i, j+1)
		}
		if len(ua) > 0 {
			fmt.Fprintf(&dev, "access-group %s-DRC-%d in interface %s\n", name, ua[0], in)
		}
		for j, idx := range ug {
			fmt.Fprintf(&dev, "object-group network %s-DRC-%d\n network-object host 10.4.%d.%d\n", name, idx, i, j+1)
		}
		fmt.Fprintf(&spoc, "object-group network %s\n network-object 10.0.%d.0 255.255.255.0\n network-object 10.0.%d.0 255.255.255.0\n", name, 2*i+1, 2*i+2)
		fmt.Fprintf(&spoc, "access-list %s extended permit ip object-group %s any4\naccess-list %s extended deny ip any4 any4\naccess-group %s in interface %s\n", name, name, name, name, in)
		asks = append(asks, "access-list;"+name+";"+ints(ua), "object-group;"+name+";"+ints(ug))
		if i == 1 && r.Chance(60) {
			// third kind with the same name: crypto ipsec transform-set is a simple object (not renamed);
			// a crypto map ACL of the same name as the interface ACL is not possible. Use a second ACL+group pair instead.
			crypto = true
		}
	}
	_ = crypto
	return &Case{Family: "cross_kind_names", Pred: "same_name_in_several_command_kinds_with_different_free_drc_index",
		Files: map[string]string{"dev": dev.String(), "spoc": spoc.String(), "spoc.info": asaInfo},
		Args:  []string{"dev", "spoc"}, Ties: 2 * min(k, 2), Check: "xkind", Aux: map[string]string{"asks": strings.Join(asks, "|")}}
}

// ASA / IOS raw file with several UNUSED commands, among them pairs (and triples) of DIFFERENT kinds
// with the SAME name: the warnings `Ignoring unused '<kind> <name>' in raw` must come in one order
// (ascending by the whole message) in every run — a sort by the name alone would tie (seeded C16-Z1).
func genRawUnusedSameName(r *RNG, k int, ios bool) *Case {
	g := newGen(r)
	var raw strings.Builder
	var msgs []string
	warn := func(kind, name string) {
		msgs = append(msgs, fmt.Sprintf("WARNING>>> Ignoring unused '%s %s' in raw", kind, name))
	}
	type mk func(name string, i int)
	var kinds []mk
	if ios {
		kinds = []mk{
			func(n string, i int) {
				fmt.Fprintf(&raw, "ip access-list extended %s\n permit ip host 10.7.%d.1 any\n", n, i)
				warn("ip access-list extended", n)
			},
			func(n string, i int) {
				fmt.Fprintf(&raw, "crypto map %s %d ipsec-isakmp\n set peer 10.8.%d.1\n", n, 10+i, i)
				warn("crypto map", n)
			},
		}
	} else {
		kinds = []mk{
			func(n string, i int) {
				fmt.Fprintf(&raw, "access-list %s extended permit ip host 10.7.%d.1 any4\n", n, i)
				warn("access-list", n)
			},
			func(n string, i int) {
				fmt.Fprintf(&raw, "object-group network %s\n network-object host 10.8.%d.1\n", n, i)
				warn("object-group", n)
			},
			func(n string, i int) {
				fmt.Fprintf(&raw, "group-policy %s internal\n", n)
				warn("group-policy", n)
			},
		}
	}
	// k shared names, each used by 2..len(kinds) kinds; plus a few names used once
	type item struct {
		kind int
		name string
		i    int
	}
	var items []item
	for i := 0; i < k; i++ {
		n := g.name("x")
		ks := r.Fork()
		order := make([]int, len(kinds))
		for j := range order {
			order[j] = j
		}
		Shuffle(ks, order)
		cnt := 2
		if len(kinds) > 2 && r.Chance(40) {
			cnt = 3
		}
		for _, kd := range order[:cnt] {
			items = append(items, item{kd, n, i})
		}
	}
	if k == 1 && r.Chance(60) {
		// spaced (see arrange in main.go): isReferenced is filled in ascending (prefix, name) order; three
		// more unused commands of the first kind with larger names put the two X entries at slots 0 and 4
		// of the 8-slot map, three of the second kind fill it up
		first, second := items[0].kind, items[1].kind
		if first > second {
			first, second = second, first
		}
		items = items[:0]
		x := g.name("a")
		items = append(items, item{first, x, 0}, item{second, x, 0})
		for i := 1; i <= 3; i++ {
			items = append(items, item{first, g.name("y"), i}, item{second, g.name("z"), 10 + i})
		}
	} else {
		for i := r.Intn(3); i > 0; i-- {
			items = append(items, item{r.Intn(len(kinds)), g.name("y"), 20 + i})
		}
	}
	Shuffle(r, items)
	for _, it := range items {
		kinds[it.kind](it.name, it.i)
	}
	sortStrings(msgs)
	var entries []string
	for _, m := range msgs {
		entries = append(entries, m+";"+m)
	}
	base, model := "interface Ethernet0/1\n nameif outside\n", "ASA"
	if ios {
		base, model = "interface Ethernet1\n ip address 10.1.1.1 255.255.255.0\n", "IOS"
	}
	return &Case{
		Family: "raw_unused_same_name_" + strings.ToLower(model), Pred: "unused_raw_commands_of_different_kinds_with_the_same_name",
		Files: map[string]string{"dev": base, "dev.raw": raw.String(), "spoc": base, "spoc.info": `{"model":"` + model + `"}`},
		Args:  []string{"dev", "spoc"}, Ties: 2 * k, Check: "lines", Aux: map[string]string{"stream": "stderr", "prefix": "WARNING>>> Ignoring unused"},
		Model: []string{"log\t" + strings.Join(entries, "|")},
	}
}

func sortStrings(l []string) {
	for i := 1; i < len(l); i++ {
		for j := i; j > 0 && l[j] < l[j-1]; j-- {
			l[j], l[j-1] = l[j-1], l[j]
		}
	}
}

func wideCorpus() []*Case {
	base := "interface Ethernet0/1\n nameif outside\n"
	var l []*Case
	{ // F-C16i
		dev := base
		var entries []string
		for _, m := range []string{"mz", "ma", "mk", "mq", "mc"} {
			line := "crypto map " + m + " 1 set ikev1 transform-set t1 t2 t3 t4 t5 t6 t7 t8 t9 t10 t11 t12"
			dev += "crypto map " + m + " 1 set peer 10.0.0.1\n" + line + "\n"
			entries = append(entries, m+";Too many names (max. 11) in: "+line)
		}
		l = append(l, &Case{Family: "too_many_transforms", Pred: "several_crypto_maps_with_too_many_transform_sets", Note: "F-C16i",
			Files: map[string]string{"dev": dev, "spoc": base, "spoc.info": asaInfo}, Args: []string{"dev", "spoc"}, Ties: 5,
			Check: "stderr-prefix", Aux: map[string]string{"prefix": "ERROR>>> "}, Model: []string{"first\t" + strings.Join(entries, "|")}})
	}
	{ // F-C16j
		dev := base
		var entries []string
		for _, a := range []string{"az", "aa", "ak", "aq", "ac"} {
			line := "access-list " + a + " extended permit ip host"
			dev += line + "\n"
			entries = append(entries, a+";Incomplete command: "+line)
		}
		l = append(l, &Case{Family: "incomplete_acl", Pred: "several_acls_with_incomplete_line", Note: "F-C16j",
			Files: map[string]string{"dev": dev, "spoc": base, "spoc.info": asaInfo}, Args: []string{"dev", "spoc"}, Ties: 5,
			Check: "stderr-prefix", Aux: map[string]string{"prefix": "ERROR>>> "}, Model: []string{"first\t" + strings.Join(entries, "|")}})
	}
	{ // input of the seeded change C16-R3M2
		l = append(l, &Case{Family: "cross_kind_names", Pred: "same_name_in_several_command_kinds_with_different_free_drc_index", Note: "C16-R3M2",
			Files: map[string]string{
				"dev":       "access-list g1-DRC-0 extended permit ip any4 any4\naccess-group g1-DRC-0 in interface inside\n",
				"spoc":      "object-group network g1\n network-object 10.0.1.0 255.255.255.0\n network-object 10.0.2.0 255.255.255.0\naccess-list g1 extended permit ip object-group g1 any4\naccess-group g1 in interface inside\n",
				"spoc.info": asaInfo},
			Args: []string{"dev", "spoc"}, Ties: 2, Check: "xkind", Aux: map[string]string{"asks": "access-list;g1;0|object-group;g1;"}})
	}
	{ // inputs of the seeded change C16-Z1
		asaRaw := "access-list extra extended permit ip host 10.7.7.7 any4\nobject-group network extra\n network-object host 10.8.8.8\n"
		m1, m2 := "WARNING>>> Ignoring unused 'access-list extra' in raw", "WARNING>>> Ignoring unused 'object-group extra' in raw"
		l = append(l, &Case{Family: "raw_unused_same_name_asa", Pred: "unused_raw_commands_of_different_kinds_with_the_same_name", Note: "C16-Z1",
			Files: map[string]string{"dev": base, "dev.raw": asaRaw, "spoc": base, "spoc.info": asaInfo}, Args: []string{"dev", "spoc"}, Ties: 2,
			Check: "lines", Aux: map[string]string{"stream": "stderr", "prefix": "WARNING>>> Ignoring unused"},
			Model: []string{"log\t" + m1 + ";" + m1 + "|" + m2 + ";" + m2}})
		iosBase := "interface Ethernet1\n ip address 10.1.1.1 255.255.255.0\n"
		iosRaw := "ip access-list extended X\n permit ip any any\ncrypto map X 10 ipsec-isakmp\n set peer 10.8.8.8\n"
		i1, i2 := "WARNING>>> Ignoring unused 'crypto map X' in raw", "WARNING>>> Ignoring unused 'ip access-list extended X' in raw"
		l = append(l, &Case{Family: "raw_unused_same_name_ios", Pred: "unused_raw_commands_of_different_kinds_with_the_same_name", Note: "C16-Z1",
			Files: map[string]string{"dev": iosBase, "dev.raw": iosRaw, "spoc": iosBase, "spoc.info": `{"model":"IOS"}`}, Args: []string{"dev", "spoc"}, Ties: 2,
			Check: "lines", Aux: map[string]string{"stream": "stderr", "prefix": "WARNING>>> Ignoring unused"},
			Model: []string{"log\t" + i1 + ";" + i1 + "|" + i2 + ";" + i2}})
	}
	return l
}

// wideCases: the round-3 inputs.
func wideCases(ctx *Ctx, r *RNG) []*Case {
	cases := wideCorpus()
	per := ctx.N(10, 60)
	for i := 0; i < per; i++ {
		k := 2 + r.Intn(6)
		n := 13 + r.Intn(28)
		cases = append(cases,
			genLinuxRouteTies(r.Fork(), n), genCiscoRouteTies(r.Fork(), n), genNSXRuleTies(r.Fork(), n), genGroupDupMembers(r.Fork(), n),
			genASAMerge(r.Fork(), k), genLinuxMerge(r.Fork(), k), genNSXMerge(r.Fork(), k), genPanosMerge(r.Fork(), k),
			genTooManyTransforms(r.Fork(), k), genIncompleteACL(r.Fork(), k),
			genCrossKindNames(r.Fork(), k), genCrossKindNames(r.Fork(), k),
			genRawUnusedSameName(r.Fork(), 1+r.Intn(3), false), genRawUnusedSameName(r.Fork(), 1+r.Intn(3), true))
	}
	// all seeds in both tiers (both parities), without -q: info lines are compared too
	seeds := seedCases(ctx.Thorough())
	return append(cases, seeds...)
}
